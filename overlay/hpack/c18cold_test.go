package hpack

// C18, first use: the decoder's Huffman tree is built lazily, once per process.  Decoders belong to connections, and connections start
// together after a deploy: many Decoders meet that first use at the same instant.  Each of them must decode a well-formed block the way
// RFC 7541 says, whether or not another goroutine is still inside the one-time construction.  One process = one first use, so the check
// runs this test in several fresh processes.

import (
	"encoding/hex"
	"encoding/json"
	"fmt"
	"os"
	"sync"
	"testing"
)

func TestVFC18Cold(t *testing.T) {
	// RFC 7541 C.4.1 (request with Huffman-coded literal) and C.6.1 (response, several Huffman literals)
	blocks := []struct {
		hex  string
		want []HeaderField
	}{
		{"828684418cf1e3c2e5f23a6ba0ab90f4ff", []HeaderField{{Name: ":method", Value: "GET"}, {Name: ":scheme", Value: "http"}, {Name: ":path", Value: "/"}, {Name: ":authority", Value: "www.example.com"}}},
		{"488264025885aec3771a4b6196d07abe941054d444a8200595040b8166e082a62d1bff6e919d29ad171863c78f0b97c8e9ae82ae43d3",
			[]HeaderField{{Name: ":status", Value: "302"}, {Name: "cache-control", Value: "private"}, {Name: "date", Value: "Mon, 21 Oct 2013 20:13:21 GMT"}, {Name: "location", Value: "https://www.example.com"}}},
	}
	n := 96
	var wg sync.WaitGroup
	start := make(chan struct{})
	var mu sync.Mutex
	var bad []string
	for g := 0; g < n; g++ {
		wg.Add(1)
		go func(g int) {
			defer wg.Done()
			b := blocks[g%len(blocks)]
			raw, _ := hex.DecodeString(b.hex)
			<-start
			d := NewDecoder(4096, nil)
			got, err := d.DecodeFull(raw)
			ok := err == nil && len(got) == len(b.want)
			for i := 0; ok && i < len(got); i++ {
				ok = got[i].Name == b.want[i].Name && got[i].Value == b.want[i].Value
			}
			if !ok {
				mu.Lock()
				bad = append(bad, fmt.Sprintf("decoder %d, block %s: err=%v fields=%v", g, b.hex[:16], err, got))
				mu.Unlock()
			}
		}(g)
	}
	close(start)
	wg.Wait()
	out := map[string]any{"decoders": n, "failures": bad}
	if p := os.Getenv("VF_COLD_OUT"); p != "" {
		b, _ := json.Marshal(out)
		os.WriteFile(p, b, 0o644)
	}
}
