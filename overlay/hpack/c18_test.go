package hpack

// C18 drivers (compiled into pkg/http2/hpack via -overlay):
//  A. round-trip trace recorder: seeded random histories of SetMaxDynamicTableSize / WriteField / Close on the real
//     Encoder and Decoder; the bytes are parsed into representations by the harness's own parser; TLC validates
//     the histories against Hpack.tla (Trace_Hpack.tla).
//  B. decoder replay: every path of the TLC graph of the decoder-only model, serialized by the harness's own
//     serializer (raw and Huffman strings), fed whole / cut at every offset / byte at a time.
//  C. byte level: Huffman tables equal the independent RFC 7541 transcription; prefix-integer boundaries; Huffman
//     padding / EOS rules against the harness's bit-level decoder.

import (
	"math/big"
	"bytes"
	"encoding/json"
	"errors"
	"fmt"
	"math/rand"
	"os"
	"strings"
	"testing"
)

// ---------------------------------------------------------------- independent byte-level codec (harness)

type vfHuff struct {
	Codes   []uint32 `json:"codes"`
	Lengths []uint8  `json:"lengths"`
}

var vfH vfHuff

func vfLoadHuff(t *testing.T) {
	b, err := os.ReadFile(os.Getenv("VF_HUFFMAN"))
	if err != nil {
		t.Fatal(err)
	}
	if err := json.Unmarshal(b, &vfH); err != nil || len(vfH.Codes) != 257 {
		t.Fatalf("bad huffman table: %v", err)
	}
}

func vfHuffEncode(s string) []byte {
	var out []byte
	var acc uint64
	var n uint
	for i := 0; i < len(s); i++ {
		c := vfH.Codes[s[i]]
		l := uint(vfH.Lengths[s[i]])
		acc = acc<<l | uint64(c)
		n += l
		for n >= 8 {
			out = append(out, byte(acc>>(n-8)))
			n -= 8
		}
	}
	if n > 0 {
		out = append(out, byte(acc<<(8-n))|byte(0xff>>n))
	}
	return out
}

var errVFHuff = errors.New("huffman: invalid")

// bit-by-bit decoder with the RFC 7541 5.2 rules: padding < 8 bits, all ones; EOS is an error
func vfHuffDecode(b []byte) (string, error) {
	var out []byte
	var cur uint32
	var l uint8
	for _, by := range b {
		for bit := 7; bit >= 0; bit-- {
			cur = cur<<1 | uint32(by>>uint(bit)&1)
			l++
			for sym := 0; sym < 257; sym++ {
				if vfH.Lengths[sym] == l && vfH.Codes[sym] == cur {
					if sym == 256 {
						return "", errVFHuff
					}
					out = append(out, byte(sym))
					cur, l = 0, 0
					break
				}
			}
			if l > 30 {
				return "", errVFHuff
			}
		}
	}
	if l > 7 || cur != (1<<l)-1 {
		return "", errVFHuff
	}
	return string(out), nil
}

func vfPInt(prefix uint, first byte, n uint64) []byte {
	max := uint64(1)<<prefix - 1
	if n < max {
		return []byte{first | byte(n)}
	}
	b := []byte{first | byte(max)}
	n -= max
	for n >= 128 {
		b = append(b, byte(n%128+128))
		n /= 128
	}
	return append(b, byte(n))
}

func vfPStr(s string, huff bool) []byte {
	if huff {
		e := vfHuffEncode(s)
		return append(vfPInt(7, 0x80, uint64(len(e))), e...)
	}
	return append(vfPInt(7, 0, uint64(len(s))), s...)
}

type vfRep struct {
	K   string `json:"k"`
	Max int    `json:"max"`
	I   int    `json:"i"`
	N   string `json:"n"`
	V   string `json:"v"`
	Sz  int    `json:"sz"`
}

func (r vfRep) event() map[string]any {
	switch r.K {
	case "size":
		return map[string]any{"k": "size", "max": r.Max}
	case "indexed":
		return map[string]any{"k": "indexed", "i": r.I}
	}
	return map[string]any{"k": r.K, "i": r.I, "n": r.N, "v": r.V, "sz": r.Sz}
}

// vfIdx: the model's "astronomic index" 2000000000 stands for 2^63 on the wire (the largest class a 10-octet integer reaches:
// it does not fit a signed 64-bit int)
func vfIdx(i int) uint64 {
	if i == 2000000000 {
		return 1 << 63
	}
	return uint64(i)
}

func (r vfRep) bytes(huff bool) []byte {
	switch r.K {
	case "size":
		return vfPInt(5, 0x20, uint64(r.Max))
	case "indexed":
		return vfPInt(7, 0x80, vfIdx(r.I))
	}
	var b []byte
	switch r.K {
	case "incr":
		b = vfPInt(6, 0x40, vfIdx(r.I))
	case "noidx":
		b = vfPInt(4, 0x00, vfIdx(r.I))
	case "never":
		b = vfPInt(4, 0x10, vfIdx(r.I))
	}
	if r.I == 0 {
		b = append(b, vfPStr(r.N, huff)...)
	}
	return append(b, vfPStr(r.V, huff)...)
}

// parser for what the real encoder wrote
func vfReadInt(prefix uint, p []byte) (uint64, []byte, error) {
	if len(p) == 0 {
		return 0, nil, errors.New("short")
	}
	max := uint64(1)<<prefix - 1
	v := uint64(p[0]) & max
	p = p[1:]
	if v < max {
		return v, p, nil
	}
	var m uint
	for len(p) > 0 {
		b := p[0]
		p = p[1:]
		v += uint64(b&127) << m
		if b&128 == 0 {
			return v, p, nil
		}
		m += 7
	}
	return 0, nil, errors.New("short")
}

func vfReadStr(p []byte) (string, []byte, error) {
	if len(p) == 0 {
		return "", nil, errors.New("short")
	}
	huff := p[0]&0x80 != 0
	l, p, err := vfReadInt(7, p)
	if err != nil || uint64(len(p)) < l {
		return "", nil, errors.New("short")
	}
	raw := p[:l]
	p = p[l:]
	if huff {
		s, err := vfHuffDecode(raw)
		return s, p, err
	}
	return string(raw), p, nil
}

func vfParseReps(p []byte) ([]vfRep, error) {
	var out []vfRep
	for len(p) > 0 {
		b := p[0]
		var r vfRep
		var err error
		var v uint64
		switch {
		case b&0x80 != 0:
			v, p, err = vfReadInt(7, p)
			r = vfRep{K: "indexed", I: int(v)}
		case b&0xe0 == 0x20:
			v, p, err = vfReadInt(5, p)
			r = vfRep{K: "size", Max: int(v)}
		default:
			prefix := uint(4)
			r.K = "noidx"
			if b&0xc0 == 0x40 {
				prefix, r.K = 6, "incr"
			} else if b&0xf0 == 0x10 {
				r.K = "never"
			}
			v, p, err = vfReadInt(prefix, p)
			if err != nil {
				return nil, err
			}
			r.I = int(v)
			if r.I == 0 {
				r.N, p, err = vfReadStr(p)
				if err != nil {
					return nil, err
				}
			}
			r.V, p, err = vfReadStr(p)
		}
		if err != nil {
			return nil, err
		}
		out = append(out, r)
	}
	return out, nil
}

// ---------------------------------------------------------------- projections of the real objects

func vfTable(dt *dynamicTable) []map[string]any {
	out := []map[string]any{}
	for i := len(dt.table.ents) - 1; i >= 0; i-- { // newest first
		e := dt.table.ents[i]
		out = append(out, map[string]any{"n": e.Name, "v": e.Value, "sz": int(e.Size())})
	}
	return out
}

func vfErrClass(err error) string {
	if err == nil {
		return "none"
	}
	s := err.Error()
	switch {
	case strings.Contains(s, "invalid indexed representation index"):
		return "invalid_index"
	case strings.Contains(s, "MUST occur at the beginning"):
		return "size_update_not_at_start"
	case strings.Contains(s, "size update too large"):
		return "size_update_too_large"
	}
	return "other: " + s
}

func vfFields(fs []HeaderField) []map[string]any {
	out := []map[string]any{}
	for _, f := range fs {
		out = append(out, map[string]any{"n": f.Name, "v": f.Value, "s": f.Sensitive})
	}
	return out
}

// feed p to d in pieces chosen by cut (nil = whole); returns emitted fields and the error
func vfFeed(d *Decoder, p []byte, cuts []int) (got []HeaderField, err error) {
	defer func() { // a panic inside the decoder is an outcome to report, not the end of the driver
		if pv := recover(); pv != nil {
			err = fmt.Errorf("PANIC in Decoder.Write: %v", pv)
		}
	}()
	d.SetEmitFunc(func(f HeaderField) { got = append(got, f) })
	prev := 0
	for _, c := range append(cuts, len(p)) {
		if c <= prev {
			continue
		}
		if _, err := d.Write(p[prev:c]); err != nil {
			return got, err
		}
		prev = c
	}
	return got, nil
}

// ---------------------------------------------------------------- A. round-trip trace recorder

var vfUniverse = []HeaderField{
	{Name: ":method", Value: "GET"}, {Name: "accept-charset", Value: "x"}, {Name: "vf-a", Value: "1"}, {Name: "vf-a", Value: "2"},
	{Name: "vf-b", Value: "0123456789012345678901234567890123456789012345678901234567890123"}, {Name: "vf-s", Value: "k", Sensitive: true},
	{Name: ":path", Value: "/index.html"}, {Name: "cookie", Value: "a=b; c=d"}, {Name: "vf-c", Value: ""}, {Name: "accept-encoding", Value: "gzip, deflate"},
	{Name: "vf-a", Value: "1", Sensitive: true},
}

func TestVFC18Trace(t *testing.T) {
	vfLoadHuff(t)
	res := &vfResult{Driver: "c18trace", Actions: map[string]int{}, Extra: map[string]any{}}
	defer res.write()
	rng := rand.New(rand.NewSource(int64(vfEnvInt("VERIF_SEED", 1))))
	f, err := os.Create(os.Getenv("VF_TRACE"))
	if err != nil {
		t.Fatal(err)
	}
	defer f.Close()
	enc := json.NewEncoder(f)
	histories := vfEnvInt("VF_HISTORIES", 100)
	steps := vfEnvInt("VF_STEPS", 40)
	limits := []uint32{0, 37, 70, 100, 150, 4096, 5000}
	twoUpdates := 0
	for h := 0; h < histories; h++ {
		var buf bytes.Buffer
		e := NewEncoder(&buf)
		d := NewDecoder(4096, nil)
		enc.Encode(map[string]any{"op": "reset"})
		res.Steps++
		inBlock := false
		dead := false
		for s := 0; s < steps && !dead; s++ {
			c := rng.Intn(100)
			switch {
			case c < 18 && !inBlock:
				v := limits[rng.Intn(len(limits))]
				e.SetMaxDynamicTableSize(v)
				enc.Encode(map[string]any{"op": "setmax", "v": v, "etab": vfTable(&e.dynTab), "emax": e.dynTab.maxSize})
				res.Actions["setmax"]++
			case c < 30 && inBlock:
				err := d.Close()
				inBlock = false
				enc.Encode(map[string]any{"op": "endblock", "err": vfErrClass(err)})
				res.Actions["endblock"]++
			default:
				hf := vfUniverse[rng.Intn(len(vfUniverse))]
				buf.Reset()
				if err := e.WriteField(hf); err != nil {
					t.Fatal(err)
				}
				wire := append([]byte{}, buf.Bytes()...)
				reps, perr := vfParseReps(wire)
				var cuts []int
				for i := 1; i < len(wire); i++ {
					if rng.Intn(4) == 0 {
						cuts = append(cuts, i)
					}
				}
				got, derr := vfFeed(d, wire, cuts)
				inBlock = true
				var wev []map[string]any
				nsize := 0
				for _, r := range reps {
					if r.K != "size" && r.K != "indexed" {
						r.Sz = int(hf.Size())
					}
					if r.K == "size" {
						nsize++
					}
					wev = append(wev, r.event())
				}
				if nsize == 2 {
					twoUpdates++
				}
				ev := map[string]any{"op": "write", "f": map[string]any{"n": hf.Name, "v": hf.Value, "s": hf.Sensitive, "sz": int(hf.Size())},
					"wire": wev, "emitted": vfFields(got), "derr": vfErrClass(derr),
					"etab": vfTable(&e.dynTab), "emax": e.dynTab.maxSize, "dtab": vfTable(&d.dynTab), "dmax": d.dynTab.maxSize,
					"bytes": fmt.Sprintf("%x", wire)}
				if perr != nil {
					ev["derr"] = "harness could not parse encoder output: " + perr.Error()
				}
				if wev == nil {
					ev["wire"] = []any{}
				}
				enc.Encode(ev)
				res.Actions["write"]++
				if derr != nil {
					dead = true
				}
				if d.dynTab.size > d.dynTab.maxSize || d.dynTab.maxSize > d.dynTab.allowedMaxSize || e.dynTab.size > e.dynTab.maxSize {
					res.violate(map[string]any{"check": "C18", "kind": "table_exceeds_limit"}, "dynamic table larger than permitted", ev)
				}
			}
			res.Steps++
		}
		res.Paths++
	}
	res.Extra["writes_with_two_size_updates"] = twoUpdates
}

// ---------------------------------------------------------------- B. decoder replay over the TLC graph

func TestVFC18Decoder(t *testing.T) {
	vfLoadHuff(t)
	res := &vfResult{Driver: "c18dec", Actions: map[string]int{}, Extra: map[string]any{}}
	defer res.write()
	g, err := vfLoadGraph(os.Getenv("VF_GRAPH"))
	if err != nil {
		t.Fatal(err)
	}
	seen := map[int]bool{}
	var walk func(node int, path []vfEdge)
	cutCases := 0
	check := func(path []vfEdge) {
		// replay the whole path on fresh decoders under three segmentations x two string encodings
		for mode := 0; mode < 6; mode++ {
			huff := mode%2 == 1
			d := NewDecoder(4096, nil)
			for si, e := range path {
				if e.Action == "EndBlock" {
					if err := d.Close(); err != nil {
						res.violate(map[string]any{"check": "C18", "kind": "close_error"}, "Close() failed at a representation boundary: "+err.Error(), nil)
						return
					}
					continue
				}
				var r vfRep
				json.Unmarshal(e.Args[0], &r)
				b := r.bytes(huff)
				var cuts []int
				switch mode / 2 {
				case 1: // byte at a time
					for i := 1; i < len(b); i++ {
						cuts = append(cuts, i)
					}
				case 2: // one cut, position depends on the step so that all offsets occur across the corpus
					if len(b) > 1 {
						cuts = []int{1 + (si*7+len(path)*3+mode)%(len(b)-1)}
					}
				}
				cutCases++
				got, derr := vfFeed(d, b, cuts)
				n := g.Nodes[e.To]
				var wantOut []map[string]any
				json.Unmarshal(n["emitted"], &wantOut)
				wantErr := vfStr2(n["derr"])
				gotJ, _ := json.Marshal(vfFields(got))
				wantJ, _ := json.Marshal(wantOut)
				if wantOut == nil {
					wantJ = []byte("[]")
				}
				if vfErrClass(derr) != wantErr || (wantErr == "none" && !vfSameFields(gotJ, wantJ)) {
					var names []string
					for _, pe := range path[:si+1] {
						names = append(names, pe.Action+string(vfJoinRaw(pe.Args)))
					}
					res.violate(map[string]any{"check": "C18", "kind": "decoder_result", "segmentation": mode / 2, "huffman": huff},
						fmt.Sprintf("decoder on %v: emitted %s err %q, specification says %s err %q", names, gotJ, vfErrClass(derr), wantJ, wantErr),
						map[string]any{"reps": names, "bytes": fmt.Sprintf("%x", b), "cuts": cuts})
					return
				}
				if d.dynTab.size > d.dynTab.maxSize || d.dynTab.maxSize > d.dynTab.allowedMaxSize {
					res.violate(map[string]any{"check": "C18", "kind": "table_exceeds_limit"}, "decoder table larger than permitted", nil)
					return
				}
				// the decoder's dynamic table after the step, newest first (RFC 7541 2.3.2, 4.4: an entry larger than the table empties it)
				if derr == nil {
					var wantTab []map[string]any
					json.Unmarshal(n["dtab"], &wantTab)
					gotTab := vfTable(&d.dynTab)
					same := len(wantTab) == len(gotTab)
					for i := 0; same && i < len(gotTab); i++ {
						same = fmt.Sprint(wantTab[i]["n"]) == fmt.Sprint(gotTab[i]["n"]) && fmt.Sprint(wantTab[i]["v"]) == fmt.Sprint(gotTab[i]["v"])
					}
					if !same {
						var names []string
						for _, pe := range path[:si+1] {
							names = append(names, pe.Action+string(vfJoinRaw(pe.Args)))
						}
						res.violate(map[string]any{"check": "C18", "kind": "decoder_table", "segmentation": mode / 2, "huffman": huff},
							fmt.Sprintf("decoder on %v: dynamic table is %v, specification says %v", names, gotTab, wantTab), map[string]any{"reps": names})
						return
					}
				}
				if derr != nil {
					break
				}
			}
		}
		// fragments that straddle representation boundaries: every header block of the path is one byte string, cut one octet before
		// and one octet after every boundary between representations, so that a Write completes one representation and ends inside the next
		for _, huff := range []bool{false, true} {
			d := NewDecoder(4096, nil)
			var all []byte
			var bounds []int
			var wantFields []map[string]any
			wantErr := "none"
			var names []string
			flush := func() bool { // feed the block collected so far; false = stop (error expected or violation reported)
				if len(all) == 0 {
					return true
				}
				var cuts []int
				for _, bd := range bounds[:len(bounds)-1] {
					for _, c := range []int{bd - 1, bd + 1} {
						if c > 0 && c < len(all) && (len(cuts) == 0 || c > cuts[len(cuts)-1]) {
							cuts = append(cuts, c)
						}
					}
				}
				cutCases++
				got, derr := vfFeed(d, all, cuts)
				gotJ, _ := json.Marshal(vfFields(got))
				wantJ, _ := json.Marshal(wantFields)
				if wantFields == nil {
					wantJ = []byte("[]")
				}
				if vfErrClass(derr) != wantErr || !vfSameFields(gotJ, wantJ) {
					res.violate(map[string]any{"check": "C18", "kind": "decoder_result", "segmentation": "straddle", "huffman": huff},
						fmt.Sprintf("decoder on %v, last block fed in fragments straddling the representation boundaries (cuts %v): emitted %s err %q, specification says %s err %q", names, cuts, gotJ, vfErrClass(derr), wantJ, wantErr),
						map[string]any{"reps": names, "bytes": fmt.Sprintf("%x", all), "cuts": cuts})
					return false
				}
				all, bounds, wantFields = nil, nil, nil
				return derr == nil
			}
			ok := true
			for _, e := range path {
				names = append(names, e.Action+string(vfJoinRaw(e.Args)))
				if e.Action == "EndBlock" {
					if ok = flush(); !ok {
						break
					}
					d.Close()
					continue
				}
				var r vfRep
				json.Unmarshal(e.Args[0], &r)
				all = append(all, r.bytes(huff)...)
				bounds = append(bounds, len(all))
				n := g.Nodes[e.To]
				var out []map[string]any
				json.Unmarshal(n["emitted"], &out)
				wantErr = vfStr2(n["derr"])
				if wantErr == "none" {
					wantFields = append(wantFields, out...)
				} else {
					break // the block ends in an error: feed it and stop
				}
			}
			if ok {
				flush()
			}
			if len(res.Violations) > 0 {
				return
			}
		}
		res.Paths++
		if len(res.Samples) < 4 && len(path) >= 3 && res.Paths%101 == 0 {
			var names []string
			for _, pe := range path {
				names = append(names, pe.Action+string(vfJoinRaw(pe.Args)))
			}
			res.Samples = append(res.Samples, map[string]any{"representations": names, "final_spec_state": g.Nodes[path[len(path)-1].To]})
		}
	}
	walk = func(node int, path []vfEdge) {
		if len(g.out[node]) == 0 {
			if len(path) > 0 {
				check(path)
			}
			return
		}
		for _, e := range g.out[node] {
			if len(res.Violations) > 10 {
				return
			}
			seen[e.ID] = true
			res.Steps++
			walk(e.To, append(append([]vfEdge{}, path...), e))
		}
	}
	for _, i := range g.Init {
		walk(i, nil)
	}
	res.EdgesSeen, res.EdgesTotal = len(seen), len(g.Edges)
	res.Extra["segmentation_cases"] = cutCases
}

func vfStr2(m json.RawMessage) string {
	var s string
	json.Unmarshal(m, &s)
	return s
}

func vfSameFields(a, b []byte) bool {
	var x, y []map[string]any
	json.Unmarshal(a, &x)
	json.Unmarshal(b, &y)
	if len(x) != len(y) {
		return false
	}
	for i := range x {
		if x[i]["n"] != y[i]["n"] || x[i]["v"] != y[i]["v"] || x[i]["s"] != y[i]["s"] {
			return false
		}
	}
	return true
}

// ---------------------------------------------------------------- C. byte level

func TestVFC18Bytes(t *testing.T) {
	vfLoadHuff(t)
	res := &vfResult{Driver: "c18bytes", Actions: map[string]int{}, Extra: map[string]any{}}
	defer res.write()
	// the package's code table equals the independent transcription of RFC 7541 Appendix B
	for i := 0; i < 256; i++ {
		if huffmanCodes[i] != vfH.Codes[i] || huffmanCodeLen[i] != vfH.Lengths[i] {
			res.violate(map[string]any{"check": "C18", "kind": "huffman_table"}, fmt.Sprintf("huffman table entry %d differs from RFC 7541", i), nil)
		}
	}
	res.Actions["huffman_table_entries"] = 256
	// static table
	// prefix integers at the boundaries, every prefix size, whole and split
	rng := rand.New(rand.NewSource(int64(vfEnvInt("VERIF_SEED", 1))))
	vals := []uint64{0, 1, 30, 31, 32, 126, 127, 128, 254, 255, 256, 1337, 16383, 16384, 1 << 20, 1<<32 - 1, 1 << 40}
	for n := uint(1); n <= 8; n++ {
		for _, v := range vals {
			want := vfPInt(n, 0, v)
			got := appendVarInt(nil, byte(n), v)
			if !bytes.Equal(want, got) {
				res.violate(map[string]any{"check": "C18", "kind": "varint_encode"}, fmt.Sprintf("appendVarInt(%d,%d) = %x, RFC 7541 5.1 gives %x", n, v, got, want), nil)
			}
			dv, rest, err := readVarInt(byte(n), append(append([]byte{}, want...), 0x55))
			if err != nil || dv != v || len(rest) != 1 {
				res.violate(map[string]any{"check": "C18", "kind": "varint_decode"}, fmt.Sprintf("readVarInt(%d,%x) = %d,%v", n, want, dv, err), nil)
			}
			for cut := 0; cut < len(want); cut++ {
				if _, _, err := readVarInt(byte(n), want[:cut]); err != errNeedMore {
					res.violate(map[string]any{"check": "C18", "kind": "varint_decode"}, fmt.Sprintf("readVarInt(%d,%x) on a truncated integer: %v", n, want[:cut], err), nil)
				}
			}
			res.Actions["varint_cases"]++
		}
	}
	// long integers: k continuation octets (k = 7..11) with seeded payloads.  A decoder may refuse an integer it cannot hold, but it must never
	// hand out a value other than the one RFC 7541 5.1 defines (arbitrary precision reference), whole or in two pieces
	for n := uint(1); n <= 8; n++ {
		for k := 7; k <= 11; k++ {
			for _, last := range []byte{0x00, 0x01, 0x02, 0x06, 0x40, 0x7f} {
				for variant := 0; variant < 3; variant++ {
					enc := []byte{byte(1<<n - 1)}
					for j := 0; j < k-1; j++ {
						pay := byte(0)
						switch variant {
						case 1:
							pay = byte(rng.Intn(128))
						case 2:
							pay = 0x7f
						}
						enc = append(enc, 0x80|pay)
					}
					enc = append(enc, last)
					ref := new(big.Int).SetUint64(uint64(1<<n - 1))
					for j, b := range enc[1:] {
						ref.Add(ref, new(big.Int).Lsh(big.NewInt(int64(b&127)), uint(7*j)))
					}
					dv, rest, err := readVarInt(byte(n), append(append([]byte{}, enc...), 0x55))
					if err == nil && (!ref.IsUint64() || ref.Uint64() != dv || len(rest) != 1) {
						res.violate(map[string]any{"check": "C18", "kind": "varint_decode", "class": "long"},
							fmt.Sprintf("readVarInt(%d, %x) = %d (rest %d octets), RFC 7541 5.1 gives %s", n, enc, dv, len(rest), ref.String()), nil)
					}
					// as the index of an indexed field / the name index of a literal / a table size update, through a Decoder: no table is that
					// large and no size update that high is admissible - the block must be refused, whole or cut anywhere
					if n == 7 || n == 4 || n == 5 {
						first := map[uint]byte{7: 0x80, 4: 0x00, 5: 0x20}[n]
						blk := append([]byte{first | enc[0]}, enc[1:]...)
						if n == 4 {
							blk = append(blk, 0x01, 'a')
						}
						if ref.Cmp(big.NewInt(4096)) > 0 {
							for cut := 0; cut <= len(blk); cut += 1 + len(blk)/3 {
								d := NewDecoder(4096, nil)
								var derr error
								if cut > 0 && cut < len(blk) {
									if _, derr = d.Write(blk[:cut]); derr == nil {
										_, derr = d.Write(blk[cut:])
									}
								} else {
									_, derr = d.Write(blk)
								}
								if derr == nil {
									derr = d.Close()
								}
								if derr == nil {
									res.violate(map[string]any{"check": "C18", "kind": "decoder_accepts_impossible_integer", "class": "long"},
										fmt.Sprintf("Decoder accepted block %x (cut at %d) whose integer is %s", blk, cut, ref.String()), nil)
								}
							}
						}
					}
					res.Actions["long_varint_cases"]++
				}
			}
		}
	}
	// Huffman: encode/decode agreement with the bit-level reference on random strings over all byte values
	for i := 0; i < vfEnvInt("VF_HUFF_STRINGS", 3000); i++ {
		l := rng.Intn(40)
		b := make([]byte, l)
		for j := range b {
			if rng.Intn(3) == 0 {
				b[j] = byte(rng.Intn(256))
			} else {
				b[j] = "abcdefghijklmnopqrstuvwxyz0123456789-/:.= "[rng.Intn(42)]
			}
		}
		s := string(b)
		want := vfHuffEncode(s)
		got := AppendHuffmanString(nil, s)
		if !bytes.Equal(want, got) || HuffmanEncodeLength(s) != uint64(len(want)) {
			res.violate(map[string]any{"check": "C18", "kind": "huffman_encode"}, fmt.Sprintf("AppendHuffmanString(%q) = %x, reference %x", s, got, want), nil)
		}
		dec, err := HuffmanDecodeToString(want)
		if err != nil || dec != s {
			res.violate(map[string]any{"check": "C18", "kind": "huffman_decode"}, fmt.Sprintf("HuffmanDecodeToString(%x) = %q,%v want %q", want, dec, err, s), nil)
		}
		// mutate the tail: wrong padding bits, an extra all-ones byte (padding > 7 bits), truncation
		for _, mut := range [][]byte{append(append([]byte{}, want...), 0xff), vfFlipLast(want), vfDropLast(want), append(append([]byte{}, want...), 0x00)} {
			ref, rerr := vfHuffDecode(mut)
			dec, err := HuffmanDecodeToString(mut)
			if (rerr == nil) != (err == nil) || (rerr == nil && ref != dec) {
				res.violate(map[string]any{"check": "C18", "kind": "huffman_decode_rules"},
					fmt.Sprintf("HuffmanDecodeToString(%x) = %q,%v; RFC 7541 5.2 reference decoder: %q,%v", mut, dec, err, ref, rerr), nil)
			}
			res.Actions["huffman_mutations"]++
			// the same octets as the value of a literal field through a Decoder (shares scratch buffers with the helpers above and with
			// every other Decoder of the process), then the well-formed string again: whatever the rejected one left behind must not show
			lit := func(h []byte) []byte {
				return append(append([]byte{0x00, 0x01, 'k'}, vfPInt(7, 0x80, uint64(len(h)))...), h...)
			}
			d := NewDecoder(4096, nil)
			fs, derr := d.DecodeFull(lit(mut))
			if (rerr == nil) != (derr == nil) || (rerr == nil && (len(fs) != 1 || fs[0].Value != ref)) {
				res.violate(map[string]any{"check": "C18", "kind": "huffman_decode_rules", "via": "decoder"},
					fmt.Sprintf("Decoder on a literal with Huffman value %x: %v,%v; RFC 7541 5.2 reference decoder: %q,%v", mut, fs, derr, ref, rerr), nil)
			}
			d2 := NewDecoder(4096, nil)
			fs, derr = d2.DecodeFull(lit(want))
			if derr != nil || len(fs) != 1 || fs[0].Name != "k" || fs[0].Value != s {
				res.violate(map[string]any{"check": "C18", "kind": "huffman_decode", "via": "decoder_after_other_strings"},
					fmt.Sprintf("Decoder on a literal with Huffman value %x (%q), decoded right after %x on another Decoder: %v,%v", want, s, mut, fs, derr), nil)
			}
			res.Actions["huffman_decoder_after_mutation"]++
		}
		res.Actions["huffman_strings"]++
	}
	// EOS inside a string is an error
	eos := []byte{0xff, 0xff, 0xff, 0xff}
	if _, err := HuffmanDecodeToString(eos); err == nil {
		res.violate(map[string]any{"check": "C18", "kind": "huffman_decode_rules"}, "EOS symbol accepted", nil)
	}
	res.Paths = res.Actions["huffman_strings"] + res.Actions["varint_cases"]
}

func vfFlipLast(b []byte) []byte {
	if len(b) == 0 {
		return b
	}
	c := append([]byte{}, b...)
	c[len(c)-1] ^= 1
	return c
}
func vfDropLast(b []byte) []byte {
	if len(b) == 0 {
		return b
	}
	return append([]byte{}, b[:len(b)-1]...)
}
