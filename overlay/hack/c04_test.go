package hack

// C04 replay driver: every path of the TLC state graph of ClientHelloCapture.tla (all streams,
// truncations and read segmentations in the bound) and of ClientHelloCaptureLen.tla (landmark
// schedules at real record sizes) is stepped through the real HijackClientHelloConn over a scripted
// net.Conn that returns exactly the scheduled segment.  After every Read the bytes handed upward,
// the projected state (buf, expectedLen) and GetClientHello (on a clone, so the observation does
// not disturb the object) are compared with the specification state.

import (
	"bytes"
	"encoding/json"
	"errors"
	"fmt"
	"io"
	"net"
	"os"
	"testing"
	"time"
)

type vfScriptConn struct {
	next []byte // what the next Read returns (exactly); nil => error
	err  error
}

func (c *vfScriptConn) Read(b []byte) (int, error) {
	if c.next == nil {
		if c.err != nil {
			return 0, c.err
		}
		return 0, io.EOF
	}
	n := copy(b, c.next)
	if n != len(c.next) {
		panic("scripted segment larger than read buffer")
	}
	c.next = nil
	return n, nil
}
func (c *vfScriptConn) Write(b []byte) (int, error)        { return len(b), nil }
func (c *vfScriptConn) Close() error                       { return nil }
func (c *vfScriptConn) LocalAddr() net.Addr                { return &net.TCPAddr{} }
func (c *vfScriptConn) RemoteAddr() net.Addr               { return &net.TCPAddr{} }
func (c *vfScriptConn) SetDeadline(t time.Time) error      { return nil }
func (c *vfScriptConn) SetReadDeadline(t time.Time) error  { return nil }
func (c *vfScriptConn) SetWriteDeadline(t time.Time) error { return nil }

func vfCloneHijack(c *HijackClientHelloConn) *HijackClientHelloConn {
	n := NewHijackClientHelloConn(&vfScriptConn{})
	n.buf.Write(c.buf.Bytes())
	n.expectedLen = c.expectedLen
	return n
}

// observation: the record GetClientHello would return now, or nil
func vfGet(c *HijackClientHelloConn) []byte {
	b, err := vfCloneHijack(c).GetClientHello()
	if err != nil {
		if b != nil {
			return append([]byte("ERR+BYTES:"), b...)
		}
		return nil
	}
	return append([]byte{}, b...)
}

type vfC04Walker struct {
	g        *vfGraph
	res      *vfResult
	seenEdge map[int]bool
	seenNode map[int]bool
	maxPaths int
	// byte model: stream taken from node; len model: synthesized
	streamOf func(node map[string]json.RawMessage) []byte
	expGet   func(node map[string]json.RawMessage, stream []byte) []byte
	expBuf   func(node map[string]json.RawMessage, stream []byte) (int, int) // bufLen, expectedLen
	readLen  func(e vfEdge, pos int) int
	model    string
	divergences int
	readbuf  []byte
}

func (w *vfC04Walker) check(node int, c *HijackClientHelloConn, stream []byte, trail []int) bool {
	n := w.g.Nodes[node]
	pos := vfInt(n["pos"])
	ok := true
	wantLen, wantExp := w.expBuf(n, stream)
	if c.buf.Len() != wantLen || int(c.expectedLen) != wantExp || !bytes.Equal(c.buf.Bytes(), stream[:c.buf.Len()]) {
		// Internal representation differs from the implementation-shaped layer of the spec.  Not a
		// verdict by itself (a refactoring may legitimately keep other internals): counted and
		// reported in the evidence; only observable behaviour below decides.
		w.divergences++
	}
	got := vfGet(c)
	want := w.expGet(n, stream)
	if !bytes.Equal(got, want) {
		kind := "get_mismatch"
		switch {
		case want == nil && got != nil:
			kind = "reported_when_none_expected"
		case want != nil && got == nil:
			kind = "not_reported"
		case len(got) > len(want):
			kind = "overlong"
		case len(got) < len(want):
			kind = "partial"
		}
		w.res.violate(map[string]any{"check": "C04", "kind": kind, "model": w.model},
			fmt.Sprintf("GetClientHello after reads %v (pos %d): got %d bytes %x.., spec says %d bytes", trail, pos, len(got), vfTrunc(got), len(want)),
			map[string]any{"stream_prefix": vfTrunc(stream), "stream_len": len(stream), "reads": trail, "got_len": len(got), "want_len": len(want)})
		ok = false
	}
	return ok
}

func vfTrunc(b []byte) []byte {
	if len(b) > 48 {
		return b[:48]
	}
	return b
}

// vfSafeRead: a panic inside Read is an observation, not a crash of the driver
func vfSafeRead(c *HijackClientHelloConn, b []byte) (n int, err error, pan any) {
	defer func() {
		if p := recover(); p != nil {
			pan = p
		}
	}()
	n, err = c.Read(b)
	return
}

// what was handed out stays what it was: the record returned by GetClientHello at the end of a path is kept (the slice itself and a
// copy), the connection is closed, and after the paths that follow - each of which creates, feeds and closes further connections - the
// slice must still hold the same bytes ("no stale one": proxyserver stores the returned slice in the connection's metadata and handlers
// read it for as long as they run, which may be after the connection is gone)
type vfHeld struct {
	got, want []byte
	trail     []int
}

var vfHeldRing []vfHeld

func (w *vfC04Walker) leaf(c *HijackClientHelloConn, trail []int) {
	for _, h := range vfHeldRing {
		if !bytes.Equal(h.got, h.want) {
			w.res.violate(map[string]any{"check": "C04", "kind": "record_changed_after_handout", "model": w.model},
				fmt.Sprintf("the record returned by GetClientHello after reads %v (%d bytes %x..) changed to %x.. once the connection was closed and later connections were fed", h.trail, len(h.want), vfTrunc(h.want), vfTrunc(h.got)),
				map[string]any{"reads": h.trail})
			vfHeldRing = nil
			break
		}
	}
	b, err := c.GetClientHello()
	c.Close()
	if err == nil && len(b) > 0 {
		// two later connections of another client (a longer record of other octets), served and closed
		want := append([]byte{}, b...)
		for k := 0; k < 2; k++ {
			other := append([]byte{0x16, 0x03, 0x03, 0x00, 0x30}, bytes.Repeat([]byte{0xe0 + byte(k)}, 0x30)...)
			oc := NewHijackClientHelloConn(&vfScriptConn{next: other})
			vfSafeRead(oc, make([]byte, len(other)+8))
			oc.GetClientHello()
			oc.Close()
		}
		if !bytes.Equal(b, want) {
			w.res.violate(map[string]any{"check": "C04", "kind": "record_changed_after_handout", "model": w.model},
				fmt.Sprintf("the record returned by GetClientHello after reads %v (%d bytes %x..) reads %x.. after the connection was closed and two other connections were served", trail, len(want), vfTrunc(want), vfTrunc(b)),
				map[string]any{"reads": trail})
			return
		}
		vfHeldRing = append(vfHeldRing, vfHeld{got: b, want: append([]byte{}, b...), trail: append([]int{}, trail...)})
		if len(vfHeldRing) > 16 {
			vfHeldRing = vfHeldRing[1:]
		}
		w.res.Actions["handout_held_across_close"]++
	}
}

func (w *vfC04Walker) dfs(node int, c *HijackClientHelloConn, stream []byte, pos int, trail []int) {
	w.seenNode[node] = true
	if len(w.g.out[node]) == 0 {
		w.res.Paths++
		w.leaf(c, trail)
		if len(w.res.Samples) < 6 && len(trail) >= 3 {
			w.res.Samples = append(w.res.Samples, map[string]any{"model": w.model, "stream_prefix": fmt.Sprintf("%x", vfTrunc(stream)),
				"stream_len": len(stream), "reads": append([]int{}, trail...), "get_len_at_end": len(vfGet(c))})
		}
		return
	}
	for _, e := range w.g.out[node] {
		if w.maxPaths > 0 && w.res.Paths >= w.maxPaths {
			return
		}
		if len(w.res.Violations) >= 20 {
			return
		}
		w.seenEdge[e.ID] = true
		w.res.Actions[e.Action]++
		w.res.Steps++
		nc := vfCloneHijack(c)
		sc := nc.tlsConn.(*vfScriptConn)
		switch e.Action {
		case "Read", "ReadAt":
			n := w.readLen(e, pos)
			sc.next = stream[pos : pos+n]
			if cap(w.readbuf) < n+16 {
				w.readbuf = make([]byte, n+16)
			}
			rb := w.readbuf[:n+16]
			got, err, pan := vfSafeRead(nc, rb)
			if pan != nil {
				w.res.violate(map[string]any{"check": "C04", "kind": "panic_in_read", "model": w.model},
					fmt.Sprintf("Read of a %d-byte segment at offset %d panicked: %v", n, pos, pan),
					map[string]any{"stream_prefix": vfTrunc(stream), "reads": append(trail, n)})
				continue
			}
			if err != nil || got != n || !bytes.Equal(rb[:got], stream[pos:pos+n]) {
				w.res.violate(map[string]any{"check": "C04", "kind": "not_transparent", "model": w.model},
					fmt.Sprintf("Read returned (%d,%v) / different bytes for a %d-byte segment at %d", got, err, n, pos),
					map[string]any{"stream_prefix": vfTrunc(stream), "reads": append(trail, n)})
				continue
			}
			t2 := append(append([]int{}, trail...), n)
			if w.check(e.To, nc, stream, t2) {
				w.dfs(e.To, nc, stream, pos+n, t2)
			}
		case "ReadEOF":
			sc.next = nil
			sc.err = errors.New("connection reset by peer")
			rb := make([]byte, 16)
			got, err, pan := vfSafeRead(nc, rb)
			if pan != nil {
				w.res.violate(map[string]any{"check": "C04", "kind": "panic_in_read", "model": w.model}, fmt.Sprintf("Read panicked when the underlying conn failed: %v", pan), map[string]any{"reads": trail})
				continue
			}
			if err == nil || got != 0 {
				w.res.violate(map[string]any{"check": "C04", "kind": "error_swallowed", "model": w.model},
					fmt.Sprintf("Read returned (%d,%v) when the underlying conn failed", got, err), map[string]any{"reads": trail})
				continue
			}
			t2 := append(append([]int{}, trail...), -1)
			if w.check(e.To, nc, stream, t2) {
				w.dfs(e.To, nc, stream, pos, t2)
			}
		default:
			panic("unknown action " + e.Action)
		}
	}
}

func vfLenStream(kind string, L, T int) []byte {
	s := make([]byte, 0, 5+L+T)
	switch kind {
	case "ok":
		s = append(s, 22, 3, 1)
	case "badtype":
		s = append(s, 23, 3, 3)
	case "badver":
		s = append(s, 22, 3, 5)
	}
	s = append(s, byte(L>>8), byte(L))
	x := uint32(L*7919 + T + 17)
	for i := 0; i < L; i++ {
		x = x*1664525 + 1013904223
		s = append(s, byte(x>>24))
	}
	// what follows: further records (handshake continuation), so that bytes look like a real flight
	for i := 0; i < T; i++ {
		// a complete, valid-looking handshake record when there is room for one (a capture that wrongly restarts here would succeed)
		tl := T - 5
		if tl < 0 {
			tl = T
		}
		hdr := []byte{22, 3, 3, byte(tl >> 8), byte(tl)}
		if i < 5 {
			s = append(s, hdr[i])
		} else {
			x = x*1664525 + 1013904223
			s = append(s, byte(x>>24))
		}
	}
	return s
}

func TestVFC04(t *testing.T) {
	res := &vfResult{Driver: "c04", Actions: map[string]int{}, Extra: map[string]any{}}
	defer res.write()
	maxPaths := vfEnvInt("VF_MAXPATHS", 0)

	// byte-granular model
	g, err := vfLoadGraph(os.Getenv("VF_GRAPH"))
	if err != nil {
		t.Fatal(err)
	}
	w := &vfC04Walker{g: g, res: res, seenEdge: map[int]bool{}, seenNode: map[int]bool{}, maxPaths: maxPaths, model: "bytes"}
	w.streamOf = func(n map[string]json.RawMessage) []byte { return vfBytes(n["stream"]) }
	w.expBuf = func(n map[string]json.RawMessage, s []byte) (int, int) {
		return len(vfInts(n["buf"])), vfInt(n["expectedLen"])
	}
	w.expGet = func(n map[string]json.RawMessage, s []byte) []byte {
		v := vfInts(n["get"])
		if len(v) == 1 && v[0] == 999 {
			return nil
		}
		return vfBytes(n["get"])
	}
	w.readLen = func(e vfEdge, pos int) int { return vfInt(e.Args[0]) }
	for _, i := range g.Init {
		s := w.streamOf(g.Nodes[i])
		c := NewHijackClientHelloConn(&vfScriptConn{})
		if !w.check(i, c, s, nil) {
			continue
		}
		w.dfs(i, c, s, 0, nil)
	}
	res.EdgesSeen = len(w.seenEdge)
	res.EdgesTotal = len(g.Edges)
	res.NodesSeen = len(w.seenNode)
	res.Extra["bytes_paths"] = res.Paths
	res.Extra["internal_divergences_bytes"] = w.divergences

	// landmark model at real sizes
	if p := os.Getenv("VF_GRAPH2"); p != "" {
		g2, err := vfLoadGraph(p)
		if err != nil {
			t.Fatal(err)
		}
		before := res.Paths
		w2 := &vfC04Walker{g: g2, res: res, seenEdge: map[int]bool{}, seenNode: map[int]bool{}, maxPaths: 0, model: "landmarks"}
		w2.expBuf = func(n map[string]json.RawMessage, s []byte) (int, int) {
			return vfInt(n["bufLen"]), vfInt(n["expectedLen"])
		}
		w2.expGet = func(n map[string]json.RawMessage, s []byte) []byte {
			l := vfInt(n["get"])
			if l == 0 {
				return nil
			}
			return s[:l]
		}
		w2.readLen = func(e vfEdge, pos int) int { return vfInt(g2.Nodes[e.To]["pos"]) - pos }
		for _, i := range g2.Init {
			n := g2.Nodes[i]
			s := vfLenStream(vfStr(n["kind"]), vfInt(n["L"]), vfInt(n["T"]))
			c := NewHijackClientHelloConn(&vfScriptConn{})
			if !w2.check(i, c, s, nil) {
				continue
			}
			w2.dfs(i, c, s, 0, nil)
		}
		res.EdgesSeen += len(w2.seenEdge)
		res.EdgesTotal += len(g2.Edges)
		res.NodesSeen += len(w2.seenNode)
		res.Extra["landmark_paths"] = res.Paths - before
		res.Extra["internal_divergences_landmarks"] = w2.divergences
	}
	if len(res.Violations) > 0 {
		t.Logf("%d violations", len(res.Violations))
	}
}
