package fingerproxy

// Wiring driver (compiled into the root package via -overlay): the same scenarios that the harness replays against a stack
// it wires itself are replayed here against the *real* wiring of fingerproxy.go / flags.go - flags parsed from a command
// line, defaultReverseProxyHTTPHandler, defaultProxyServer, defaultTLSConfig, certwatcher, DefaultHeaderInjectors - so that a
// slip in the flag -> behaviour path (probe support, host preservation, priority-frame limit, timeouts) is seen.

import (
	"bufio"
	"context"
	"crypto/ecdsa"
	"crypto/elliptic"
	"crypto/rand"
	"crypto/tls"
	"crypto/x509"
	"crypto/x509/pkix"
	"encoding/json"
	"encoding/pem"
	"flag"
	"fmt"
	"io"
	"math/big"
	"net"
	"net/http"
	"net/http/httptest"
	"os"
	"path/filepath"
	"strings"
	"sync"
	"testing"
	"time"

	"github.com/prometheus/client_golang/prometheus"
	fphttp2 "github.com/wi1dcard/fingerproxy/pkg/http2"
	"github.com/wi1dcard/fingerproxy/pkg/metadata"
)

type vfWLine struct {
	K  string `json:"k"`
	V  string `json:"v"`
	Sp string `json:"sp"`
}
type vfWReq struct {
	Proto  string     `json:"proto"` // h1 (raw) | h2 (the fork's Transport)
	ID     int        `json:"id"`
	Method string     `json:"method"`
	Path   string     `json:"path"`
	Host   string     `json:"host"`
	UA     []string   `json:"ua"`
	Note   bool       `json:"probeText"`
	Lines  []vfWLine  `json:"lines"`
}
type vfWConfig struct {
	Args     []string  `json:"args"`
	FwdPath  string    `json:"forward_path"`
	Requests []vfWReq  `json:"requests"`
	Prio     []struct {
		N      int `json:"n"`      // captured priorities
	} `json:"prio"`
	Timeouts bool `json:"timeouts"` // observe handshake / idle cuts
	CertSpelling string `json:"cert_spelling"` // how the operator wrote the two paths: "" canonical | "dot" (dir/./tls.crt) | "dslash" (dir//tls.crt) | "rel" (relative, ./ in front)
	Aged     bool `json:"aged"`     // requests on connections that are older than the handshake timeout (C15 C08)
	Certs    bool `json:"certs"`    // rotate the key pair on disk and look at what handshakes of several kinds are shown (C14)
	ViaEnv   bool `json:"via_env"`  // every setting through its environment variable ($FORWARD_URL, $ENABLE_KUBERNETES_PROBE, ...) instead of the command line
}
type vfWObs struct {
	ID        int                 `json:"id"`
	Err       string              `json:"err,omitempty"`
	Status    int                 `json:"status"`
	Body      string              `json:"body"`
	Forwarded int                 `json:"forwarded"`
	Host      string              `json:"host"`
	Method    string              `json:"method"`
	URI       string              `json:"uri"`
	Headers   map[string][]string `json:"headers"`
	Baseline  map[string][]string `json:"baseline"`
	Backend   string              `json:"backend_host"`
}
type vfWOut struct {
	Args     []string          `json:"args"`
	Wiring   map[string]string `json:"wiring"`
	Obs      []vfWObs          `json:"obs"`
	PrioFP   []string          `json:"prio_fp"`
	Cuts     map[string]int64  `json:"cuts_ms"`
	Aged     map[string]string `json:"aged,omitempty"` // request -> "status/forwarded"
	Certs    []map[string]int64 `json:"certs,omitempty"` // per phase: serial number shown to each kind of client (-1: handshake failed)
	Err      string            `json:"err,omitempty"`
}

var vfWUniverse = []string{"X-Forwarded-For", "X-Forwarded-Host", "X-Forwarded-Proto", "Forwarded", "X-Keep", "X-Multi", "X-Empty", "Connection", "X-Hop",
	"Te", "Keep-Alive", "Upgrade", "User-Agent", "X-Note", "Accept-Encoding", "X-Ja3-Fingerprint", "X-Ja4-Fingerprint", "X-Http2-Fingerprint", "X-Custom-Fingerprint"}
var vfWWire = map[string]string{"X-Ja3-Fingerprint": "X-JA3-Fingerprint", "X-Ja4-Fingerprint": "X-JA4-Fingerprint", "X-Http2-Fingerprint": "X-HTTP2-Fingerprint"}

func vfWSpell(l vfWLine) string {
	n := l.K
	if w, ok := vfWWire[n]; ok {
		n = w
	}
	switch l.Sp {
	case "lower":
		return strings.ToLower(n)
	case "upper":
		return strings.ToUpper(n)
	}
	return n
}

func vfWCert(dir string) (string, string) { return vfWCertSerial(dir, 7, "") }

func vfWCertSerial(dir string, serial int64, suffix string) (string, string) {
	return vfWCertNames(dir, serial, suffix, "vf.test")
}

func vfWCertNames(dir string, serial int64, suffix string, names ...string) (string, string) {
	k, _ := ecdsa.GenerateKey(elliptic.P256(), rand.Reader)
	tmpl := &x509.Certificate{SerialNumber: big.NewInt(serial), Subject: pkix.Name{CommonName: names[0]}, NotBefore: time.Now().Add(-time.Hour),
		NotAfter: time.Now().Add(24 * time.Hour), DNSNames: names}
	der, _ := x509.CreateCertificate(rand.Reader, tmpl, tmpl, &k.PublicKey, k)
	kb, _ := x509.MarshalECPrivateKey(k)
	crt, key := filepath.Join(dir, "tls.crt"+suffix), filepath.Join(dir, "tls.key"+suffix)
	os.WriteFile(crt, pem.EncodeToMemory(&pem.Block{Type: "CERTIFICATE", Bytes: der}), 0o644)
	os.WriteFile(key, pem.EncodeToMemory(&pem.Block{Type: "EC PRIVATE KEY", Bytes: kb}), 0o600)
	return crt, key
}

type vfWBackend struct {
	mu   sync.Mutex
	reqs map[string][]*http.Request
}

func (b *vfWBackend) ServeHTTP(w http.ResponseWriter, r *http.Request) {
	io.Copy(io.Discard, r.Body)
	b.mu.Lock()
	b.reqs[r.Header.Get("X-Vf-Tag")] = append(b.reqs[r.Header.Get("X-Vf-Tag")], r.Clone(context.Background()))
	b.mu.Unlock()
	w.Header().Set("X-Vf-Backend", "1")
	io.WriteString(w, "backend-ok")
}

func vfWRun(t *testing.T, c vfWConfig) vfWOut {
	out := vfWOut{Args: c.Args, Wiring: map[string]string{}, Cuts: map[string]int64{}}
	dir := t.TempDir()
	crt, key := vfWCert(dir)
	be := &vfWBackend{reqs: map[string][]*http.Request{}}
	bs := httptest.NewServer(be)
	defer bs.Close()
	// exactly what Run() does, with a fresh flag set / registry per configuration and an ephemeral port
	flag.CommandLine = flag.NewFlagSet("fingerproxy", flag.ContinueOnError)
	PrometheusRegistry = prometheus.NewRegistry()
	crtArg, keyArg := crt, key
	switch c.CertSpelling {
	case "dot":
		crtArg, keyArg = dir+"/./tls.crt", dir+"/./tls.key"
	case "dslash":
		crtArg, keyArg = dir+"//tls.crt", filepath.Dir(dir)+"/"+filepath.Base(dir)+"//tls.key"
	case "rel":
		if wd, err := os.Getwd(); err == nil {
			if rel, err := filepath.Rel(wd, dir); err == nil {
				crtArg, keyArg = "./"+rel+"/tls.crt", "./"+rel+"/../"+filepath.Base(dir)+"/tls.key"
			}
		}
	}
	args := append([]string{"-cert-filename=" + crtArg, "-certkey-filename=" + keyArg, "-forward-url=" + bs.URL + c.FwdPath}, c.Args...)
	if c.ViaEnv {
		// the defaults of the flags are read from the environment when the flags are declared
		for _, a := range args {
			kv := strings.SplitN(strings.TrimPrefix(a, "-"), "=", 2)
			name := strings.ToUpper(strings.ReplaceAll(kv[0], "-", "_"))
			os.Setenv(name, kv[1])
			defer os.Unsetenv(name)
		}
		args = nil
	}
	initFlags()
	if err := flag.CommandLine.Parse(args); err != nil {
		out.Err = err.Error()
		return out
	}
	initFingerprint()
	cw := initCertWatcher()
	ctx, cancel := context.WithCancel(context.Background())
	defer cancel()
	server := defaultProxyServer(ctx, defaultReverseProxyHTTPHandler(parseForwardURL(), GetHeaderInjectors()), defaultTLSConfig(cw))
	go cw.Start(ctx)
	ln, err := net.Listen("tcp", "127.0.0.1:0")
	if err != nil {
		out.Err = err.Error()
		return out
	}
	done := make(chan error, 1)
	go func() { done <- server.Serve(ln) }()
	addr := ln.Addr().String()
	out.Wiring["idle"] = server.HTTPServer.IdleTimeout.String()
	out.Wiring["read"] = server.HTTPServer.ReadTimeout.String()
	out.Wiring["write"] = server.HTTPServer.WriteTimeout.String()
	out.Wiring["handshake"] = server.TLSHandshakeTimeout.String()
	backendHost := strings.TrimPrefix(bs.URL, "http://")

	dial := func(alpn string) (*tls.Conn, error) {
		d := net.Dialer{Timeout: 3 * time.Second}
		raw, err := d.Dial("tcp", addr)
		if err != nil {
			return nil, err
		}
		tc := tls.Client(raw, &tls.Config{InsecureSkipVerify: true, ServerName: "vf.test", NextProtos: []string{alpn}})
		raw.SetDeadline(time.Now().Add(10 * time.Second))
		if err := tc.Handshake(); err != nil {
			raw.Close()
			return nil, err
		}
		raw.SetDeadline(time.Time{})
		return tc, nil
	}
	view := func(tag string, o *vfWObs) {
		be.mu.Lock()
		defer be.mu.Unlock()
		for _, r := range be.reqs[tag] {
			o.Forwarded++
			o.Host, o.Method, o.URI = r.Host, r.Method, r.RequestURI
			for _, k := range vfWUniverse {
				if v := r.Header.Values(k); len(v) > 0 {
					o.Headers[k] = append(o.Headers[k], v...)
				}
			}
		}
	}
	var h1reqs, h2reqs []vfWReq
	for _, r := range c.Requests {
		if r.Proto == "h2" {
			h2reqs = append(h2reqs, r)
		} else {
			h1reqs = append(h1reqs, r)
		}
	}
	if len(h2reqs) > 0 {
		tr := &fphttp2.Transport{TLSClientConfig: &tls.Config{InsecureSkipVerify: true, ServerName: "vf.test"}}
		do := func(r vfWReq, tag string) (int, string, error) {
			req, err := http.NewRequest(r.Method, "https://"+addr+r.Path, nil)
			if err != nil {
				return 0, "", err
			}
			req.Host = r.Host
			req.Header.Set("X-Vf-Tag", tag)
			if len(r.UA) == 0 {
				req.Header["User-Agent"] = []string{""} // suppresses the transport's default User-Agent
			} else {
				req.Header["User-Agent"] = r.UA
			}
			if r.Note {
				req.Header.Set("X-Note", "kube-probe/1.26")
			}
			for _, l := range r.Lines {
				req.Header.Add(vfWSpell(l), l.V)
			}
			resp, err := tr.RoundTrip(req)
			if err != nil {
				return 0, "", err
			}
			b, _ := io.ReadAll(resp.Body)
			resp.Body.Close()
			return resp.StatusCode, string(b), nil
		}
		base := vfWObs{Headers: map[string][]string{}}
		if _, _, err := do(vfWReq{Method: "GET", Path: "/baseline", Host: "vf.test", UA: []string{"curl/8"}}, "base2"); err != nil {
			out.Err = "h2 baseline: " + err.Error()
			return out
		}
		view("base2", &base)
		for _, r := range h2reqs {
			o := vfWObs{ID: r.ID, Headers: map[string][]string{}, Baseline: base.Headers, Backend: backendHost}
			tag := fmt.Sprintf("v%d", r.ID)
			st, body, err := do(r, tag)
			if err != nil && strings.Contains(err.Error(), "stream error") {
				o.Err = "h2: stream reset: " + err.Error() // the server reset this request's stream, the connection lives on
			} else if err != nil {
				o.Err = err.Error()
			} else {
				o.Status, o.Body = st, body
				view(tag, &o)
			}
			out.Obs = append(out.Obs, o)
		}
		tr.CloseIdleConnections()
	}
	if len(h1reqs) > 0 {
		tc, err := dial("http/1.1")
		if err != nil {
			out.Err = "dial: " + err.Error()
			return out
		}
		br := bufio.NewReader(tc)
		send := func(raw, method string) (int, string, error) {
			tc.SetDeadline(time.Now().Add(10 * time.Second))
			if _, err := io.WriteString(tc, raw); err != nil {
				return 0, "", err
			}
			resp, err := http.ReadResponse(br, &http.Request{Method: method})
			if err != nil {
				return 0, "", err
			}
			b, _ := io.ReadAll(resp.Body)
			resp.Body.Close()
			return resp.StatusCode, string(b), nil
		}
		base := vfWObs{Headers: map[string][]string{}}
		if _, _, err := send("GET /baseline HTTP/1.1\r\nHost: vf.test\r\nX-Vf-Tag: base\r\n\r\n", "GET"); err != nil {
			out.Err = "baseline: " + err.Error()
			return out
		}
		view("base", &base)
		for _, r := range h1reqs {
			o := vfWObs{ID: r.ID, Headers: map[string][]string{}, Baseline: base.Headers, Backend: backendHost}
			var b strings.Builder
			tag := fmt.Sprintf("w%d", r.ID)
			fmt.Fprintf(&b, "%s %s HTTP/1.1\r\nHost: %s\r\nX-Vf-Tag: %s\r\n", r.Method, r.Path, r.Host, tag)
			for _, u := range r.UA {
				fmt.Fprintf(&b, "User-Agent: %s\r\n", u)
			}
			if r.Note {
				b.WriteString("X-Note: kube-probe/1.26\r\n")
			}
			for _, l := range r.Lines {
				fmt.Fprintf(&b, "%s: %s\r\n", vfWSpell(l), l.V)
			}
			if r.Method == "POST" || r.Method == "PATCH" || r.Method == "PUT" {
				b.WriteString("Content-Length: 0\r\n")
			}
			b.WriteString("\r\n")
			st, body, err := send(b.String(), r.Method)
			if err != nil {
				o.Err = "h1: " + err.Error() // on a connection whose baseline request was served a moment ago
				out.Obs = append(out.Obs, o)
				tc.Close()
				if tc, err = dial("http/1.1"); err != nil {
					out.Err = "redial: " + err.Error()
					return out
				}
				br = bufio.NewReader(tc)
				continue
			}
			o.Status, o.Body = st, body
			view(tag, &o)
			out.Obs = append(out.Obs, o)
		}
		tc.Close()
	}
	// the priority-frame limit as wired from the flag: the third default injector on a connection that captured n priorities
	for _, p := range c.Prio {
		ctx2, md := metadata.NewContext(context.Background())
		md.ConnectionState.NegotiatedProtocol = "h2"
		md.HTTP2Frames.Settings = []metadata.Setting{{Id: 3, Val: 100}}
		md.HTTP2Frames.WindowUpdateIncrement = 12
		for i := 0; i < p.N; i++ {
			md.HTTP2Frames.Priorities = append(md.HTTP2Frames.Priorities, metadata.Priority{StreamId: uint32(3 + 2*i), StreamDep: 0, Weight: uint8(200 + i)})
		}
		md.HTTP2Frames.Headers = []metadata.HeaderField{{Name: ":method"}, {Name: ":path"}, {Name: "x"}}
		req, _ := http.NewRequestWithContext(ctx2, "GET", "/", nil)
		v, err := GetHeaderInjectors()[2].GetHeaderValue(req)
		if err != nil {
			v = "ERR:" + err.Error()
		}
		out.PrioFP = append(out.PrioFP, v)
	}
	if c.Aged {
		// a connection lives much longer than its handshake: requests sent when it is older than the handshake timeout are served like the first one
		out.Aged = map[string]string{}
		note := func(name string, status int, tag string) {
			o := vfWObs{Headers: map[string][]string{}}
			view(tag, &o)
			out.Aged[name] = fmt.Sprintf("%d/%d", status, o.Forwarded)
		}
		tr := &fphttp2.Transport{TLSClientConfig: &tls.Config{InsecureSkipVerify: true, ServerName: "vf.test"}}
		h2get := func(tag string) int {
			req, _ := http.NewRequest("GET", "https://"+addr+"/aged", nil)
			req.Host = "vf.test"
			req.Header.Set("X-Vf-Tag", tag)
			resp, err := tr.RoundTrip(req)
			if err != nil {
				return -1
			}
			io.Copy(io.Discard, resp.Body)
			resp.Body.Close()
			return resp.StatusCode
		}
		note("h2_first", h2get("aged-h2-1"), "aged-h2-1")
		if tc, err := dial("http/1.1"); err == nil {
			br := bufio.NewReader(tc)
			h1get := func(tag string) int {
				tc.SetDeadline(time.Now().Add(5 * time.Second))
				io.WriteString(tc, "GET /aged HTTP/1.1\r\nHost: vf.test\r\nX-Vf-Tag: "+tag+"\r\n\r\n")
				resp, err := http.ReadResponse(br, nil)
				if err != nil {
					return -1
				}
				io.Copy(io.Discard, resp.Body)
				resp.Body.Close()
				return resp.StatusCode
			}
			note("h1_first", h1get("aged-h1-1"), "aged-h1-1")
			time.Sleep(700 * time.Millisecond)
			note("h1_later", h1get("aged-h1-2"), "aged-h1-2")
			tc.Close()
		} else {
			time.Sleep(700 * time.Millisecond)
		}
		note("h2_later", h2get("aged-h2-2"), "aged-h2-2")
		note("h2_later_again", h2get("aged-h2-3"), "aged-h2-3")
		tr.CloseIdleConnections()
	}
	if c.Certs {
		// what a handshake is shown: a client that names the host, one that sends no server name at all (an IP literal, a health checker),
		// one that names a host the certificate does not cover, one limited to TLS 1.2 - before and after rotations of the files on disk
		shown := func(cfg *tls.Config) int64 {
			d := net.Dialer{Timeout: 3 * time.Second}
			raw, err := d.Dial("tcp", addr)
			if err != nil {
				return -1
			}
			defer raw.Close()
			raw.SetDeadline(time.Now().Add(5 * time.Second))
			cfg.InsecureSkipVerify = true
			tc := tls.Client(raw, cfg)
			if err := tc.Handshake(); err != nil {
				return -1
			}
			pc := tc.ConnectionState().PeerCertificates
			if len(pc) == 0 {
				return -1
			}
			return pc[0].SerialNumber.Int64()
		}
		kinds := func() map[string]int64 {
			return map[string]int64{
				"sni":       shown(&tls.Config{ServerName: "vf.test"}),
				"no_sni":    shown(&tls.Config{}),
				"other_sni": shown(&tls.Config{ServerName: "elsewhere.example"}),
				"tls12":     shown(&tls.Config{ServerName: "vf.test", MaxVersion: tls.VersionTLS12}),
				"tls12_no_sni": shown(&tls.Config{MaxVersion: tls.VersionTLS12}),
				"h2_no_sni": shown(&tls.Config{NextProtos: []string{"h2"}}),
			}
		}
		ph := kinds()
		ph["want"] = 7
		out.Certs = append(out.Certs, ph)
		for step, serial := range []int64{8, 9} {
			if step == 0 { // rename both files over the old ones
				nc, nk := vfWCertSerial(dir, serial, ".new")
				os.Rename(nk, key)
				os.Rename(nc, crt)
			} else { // write in place
				vfWCertSerial(dir, serial, "")
			}
			for i := 0; i < 100 && shown(&tls.Config{ServerName: "vf.test"}) != serial; i++ {
				time.Sleep(50 * time.Millisecond)
			}
			ph := kinds()
			ph["want"] = serial
			out.Certs = append(out.Certs, ph)
		}
	}
	if c.Certs {
		// a rotation that changes what the certificate covers (the operator renamed the service): the pair on disk is the only pair there
		// is, also for clients that still ask for the old name - what they make of it is their business
		probe := func() *tls.Config { return &tls.Config{} }
		kinds2 := func() map[string]int64 {
			d := func(cfg *tls.Config) int64 {
				raw, err := (&net.Dialer{Timeout: 3 * time.Second}).Dial("tcp", addr)
				if err != nil {
					return -1
				}
				defer raw.Close()
				raw.SetDeadline(time.Now().Add(5 * time.Second))
				cfg.InsecureSkipVerify = true
				tc := tls.Client(raw, cfg)
				if err := tc.Handshake(); err != nil {
					return -1
				}
				if pc := tc.ConnectionState().PeerCertificates; len(pc) > 0 {
					return pc[0].SerialNumber.Int64()
				}
				return -1
			}
			return map[string]int64{"old_name": d(&tls.Config{ServerName: "vf.test"}), "new_name": d(&tls.Config{ServerName: "renamed.test"}), "no_sni": d(probe()),
				"old_name_tls12": d(&tls.Config{ServerName: "vf.test", MaxVersion: tls.VersionTLS12}), "old_name_h2": d(&tls.Config{ServerName: "vf.test", NextProtos: []string{"h2"}})}
		}
		vfWCertNames(dir, 10, "", "renamed.test")
		for i := 0; i < 100 && kinds2()["no_sni"] != 10; i++ {
			time.Sleep(50 * time.Millisecond)
		}
		ph := kinds2()
		ph["want"] = 10
		out.Certs = append(out.Certs, ph)
	}
	if c.Timeouts {
		// a client that never starts the handshake, and idle connections after one request, must be cut by the proxy
		cut := func(conn net.Conn) int64 {
			t0 := time.Now()
			conn.SetReadDeadline(time.Now().Add(4 * time.Second))
			buf := make([]byte, 4096)
			for {
				_, err := conn.Read(buf)
				if err != nil {
					if ne, ok := err.(net.Error); ok && ne.Timeout() {
						return -1
					}
					return time.Since(t0).Milliseconds()
				}
			}
		}
		var wg sync.WaitGroup
		var mu sync.Mutex
		put := func(k string, v int64) { mu.Lock(); out.Cuts[k] = v; mu.Unlock() }
		wg.Add(3)
		go func() {
			defer wg.Done()
			raw, err := net.Dial("tcp", addr)
			if err != nil {
				put("stall", -2)
				return
			}
			defer raw.Close()
			put("stall", cut(raw))
		}()
		go func() {
			defer wg.Done()
			tc, err := dial("http/1.1")
			if err != nil {
				put("h1_idle", -2)
				return
			}
			defer tc.Close()
			io.WriteString(tc, "GET /i HTTP/1.1\r\nHost: vf.test\r\n\r\n")
			resp, err := http.ReadResponse(bufio.NewReader(tc), nil)
			if err == nil {
				io.Copy(io.Discard, resp.Body)
			}
			put("h1_idle", cut(tc))
		}()
		go func() {
			defer wg.Done()
			tc, err := dial("h2")
			if err != nil {
				put("h2_idle", -2)
				return
			}
			defer tc.Close()
			// preface + empty SETTINGS + one GET on stream 1 (static-table indexed fields: :method GET, :scheme https, :path /, :authority literal)
			io.WriteString(tc, "PRI * HTTP/2.0\r\n\r\nSM\r\n\r\n")
			tc.Write([]byte{0, 0, 0, 4, 0, 0, 0, 0, 0})
			blk := []byte{0x82, 0x87, 0x84, 0x41, 7, 'v', 'f', '.', 't', 'e', 's', 't'}
			hdr := []byte{0, 0, byte(len(blk)), 1, 5, 0, 0, 0, 1}
			tc.Write(append(hdr, blk...))
			put("h2_idle", cut(tc)) // reads frames until the server closes the idle connection
		}()
		wg.Wait()
	}
	cancel()
	select {
	case <-done:
	case <-time.After(8 * time.Second):
		out.Err = "Serve did not return after cancel"
	}
	return out
}

func TestVFWiring(t *testing.T) {
	b, err := os.ReadFile(os.Getenv("VF_WIRING_IN"))
	if err != nil {
		t.Fatal(err)
	}
	var cfgs []vfWConfig
	if err := json.Unmarshal(b, &cfgs); err != nil {
		t.Fatal(err)
	}
	var outs []vfWOut
	for _, c := range cfgs {
		outs = append(outs, vfWRun(t, c))
	}
	ob, _ := json.Marshal(outs)
	os.WriteFile(os.Getenv("VF_WIRING_OUT"), ob, 0o644)
}
