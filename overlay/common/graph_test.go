package @PKG@

// Shared by all in-package replay drivers (compiled into the package under test through
// `go test -overlay`; the file lives in /verif).  Loads a TLC state graph that ./check converted
// from `-dump dot,actionlabels` into JSON, and the result/evidence plumbing.

import (
	"encoding/json"
	"fmt"
	"os"
	"sort"
	"strconv"
)

type vfEdge struct {
	ID       int
	From, To int
	Action   string
	Args     []json.RawMessage
}

type vfGraph struct {
	Nodes []map[string]json.RawMessage `json:"nodes"`
	Init  []int                        `json:"init"`
	Edges [][]json.RawMessage          `json:"edges"`
	out   [][]vfEdge
}

func vfLoadGraph(path string) (*vfGraph, error) {
	b, err := os.ReadFile(path)
	if err != nil {
		return nil, err
	}
	g := &vfGraph{}
	if err := json.Unmarshal(b, g); err != nil {
		return nil, err
	}
	g.out = make([][]vfEdge, len(g.Nodes))
	for i, e := range g.Edges {
		var ed vfEdge
		ed.ID = i
		json.Unmarshal(e[0], &ed.From)
		json.Unmarshal(e[1], &ed.To)
		json.Unmarshal(e[2], &ed.Action)
		json.Unmarshal(e[3], &ed.Args)
		g.out[ed.From] = append(g.out[ed.From], ed)
	}
	for i := range g.out {
		es := g.out[i]
		sort.SliceStable(es, func(a, b int) bool {
			if es[a].Action != es[b].Action {
				return es[a].Action < es[b].Action
			}
			return string(vfJoinRaw(es[a].Args)) < string(vfJoinRaw(es[b].Args))
		})
	}
	return g, nil
}

func vfJoinRaw(a []json.RawMessage) []byte {
	var out []byte
	for _, x := range a {
		out = append(out, x...)
		out = append(out, ',')
	}
	return out
}

func vfInt(m json.RawMessage) int {
	var v int
	if err := json.Unmarshal(m, &v); err != nil {
		panic(fmt.Sprintf("vfInt(%s): %v", m, err))
	}
	return v
}
func vfBool(m json.RawMessage) bool {
	var v bool
	if err := json.Unmarshal(m, &v); err != nil {
		panic(fmt.Sprintf("vfBool(%s): %v", m, err))
	}
	return v
}
func vfStr(m json.RawMessage) string {
	var v string
	if err := json.Unmarshal(m, &v); err != nil {
		panic(fmt.Sprintf("vfStr(%s): %v", m, err))
	}
	return v
}
func vfInts(m json.RawMessage) []int {
	var v []int
	if err := json.Unmarshal(m, &v); err != nil {
		panic(fmt.Sprintf("vfInts(%s): %v", m, err))
	}
	return v
}
func vfBytes(m json.RawMessage) []byte {
	v := vfInts(m)
	out := make([]byte, len(v))
	for i, x := range v {
		out[i] = byte(x)
	}
	return out
}

// vfResult is what every driver writes to $VF_OUT; ./check turns it into evidence and verdicts.
type vfResult struct {
	Driver     string           `json:"driver"`
	Paths      int              `json:"paths"`       // behaviours replayed on the real code
	Steps      int              `json:"steps"`       // actions applied to the real code
	EdgesSeen  int              `json:"edges_seen"`  // distinct graph edges exercised
	EdgesTotal int              `json:"edges_total"` // edges in the TLC graph
	NodesSeen  int              `json:"nodes_seen"`
	Actions    map[string]int   `json:"actions"`
	Samples    []any            `json:"samples"`
	Violations []vfViolation    `json:"violations"`
	Extra      map[string]any   `json:"extra,omitempty"`
}

type vfViolation struct {
	Signature map[string]any `json:"signature"`
	What      string         `json:"what"`
	Replay    any            `json:"replay"`
}

func (r *vfResult) violate(sig map[string]any, what string, replay any) {
	if len(r.Violations) < 50 {
		r.Violations = append(r.Violations, vfViolation{sig, what, replay})
	}
}

func (r *vfResult) write() {
	p := os.Getenv("VF_OUT")
	if p == "" {
		return
	}
	b, _ := json.MarshalIndent(r, "", " ")
	os.WriteFile(p, b, 0o644)
}

func vfEnvInt(name string, def int) int {
	if s := os.Getenv(name); s != "" {
		if v, err := strconv.Atoi(s); err == nil {
			return v
		}
	}
	return def
}
