package http2

// C13, serve-loop event order (ServeLoop.tla): the state "both pending at the select" - the result of the asynchronous write that
// ends a stream is waiting on wroteFrameCh AND the client's next HEADERS frame is waiting on readFrameCh - is constructed on the real
// serverConn with the package's own test doubles (fake network, serve loop held through serveMsgCh), then the loop is let go.  Which of
// the two the select statement takes is a coin flip per connection, so the construction is repeated on fresh connections; a legal
// request must be served every time.

import (
	"encoding/json"
	"fmt"
	"math"
	"net/http"
	"os"
	"sync"
	"sync/atomic"
	"testing"
)

type vfLoopOut struct {
	Connections int      `json:"connections"`
	Served      int      `json:"served"`
	Failures    []string `json:"failures"`
	Skipped     []string `json:"skipped"`
}

// one connection with MAX_CONCURRENT_STREAMS = limit: `limit` requests are open (response headers flushed, handlers waiting), the
// first one finishes with a body that needs the asynchronous writer, the client sees END_STREAM and opens one more stream
func vfLoopOnce(t *testing.T, limit int, iter int) (served bool, fail string) {
	var calls atomic.Int32
	var mu sync.Mutex
	gates := map[string]chan struct{}{}
	gate := func(p string) chan struct{} {
		mu.Lock()
		defer mu.Unlock()
		if gates[p] == nil {
			gates[p] = make(chan struct{})
		}
		return gates[p]
	}
	st := newServerTester(t, func(w http.ResponseWriter, r *http.Request) {
		n := calls.Add(1)
		if int(n) > limit {
			return // the request that follows the finished one: empty 200
		}
		w.(http.Flusher).Flush()
		<-gate(r.Header.Get("x-vf-k"))
		if r.Header.Get("x-vf-k") == "1" {
			w.Write(make([]byte, handlerChunkWriteSize)) // final DATA frame with END_STREAM, too large for the connection's write buffer
		}
	}, func(s *Server) {
		s.MaxConcurrentStreams = uint32(limit)
	})
	defer st.Close()
	defer func() {
		mu.Lock()
		for _, c := range gates {
			select {
			case <-c:
			default:
				close(c)
			}
		}
		mu.Unlock()
	}()
	cc := st.cc.(*synctestNetConn)
	st.greet()
	for k := 1; k <= limit; k++ {
		sid := uint32(2*k - 1)
		st.writeHeaders(HeadersFrameParam{StreamID: sid, BlockFragment: st.encodeHeader("x-vf-k", fmt.Sprint(k)), EndStream: true, EndHeaders: true})
		hf := readFrame[*HeadersFrame](t, st)
		if hf.StreamID != sid || hf.StreamEnded() {
			return false, fmt.Sprintf("setup: unexpected response HEADERS %v", hf)
		}
	}
	// the next write of the server blocks; the first handler finishes: its last frame is now in flight on the writer goroutine
	cc.SetReadBufferSize(0)
	close(gate("1"))
	st.sync()
	// hold the serve loop while that write completes
	release := make(chan struct{})
	st.sc.serveMsgCh <- func(int) { <-release }
	st.sync()
	cc.SetReadBufferSize(math.MaxInt)
	st.sync()
	// the client sees the end of stream 1 and is entitled to one more stream
	st.wantData(wantData{streamID: 1, endStream: true, size: handlerChunkWriteSize})
	next := uint32(2*limit + 1)
	st.writeHeaders(HeadersFrameParam{StreamID: next, BlockFragment: st.encodeHeader("x-vf-k", "next"), EndStream: true, EndHeaders: true})
	close(release)
	st.sync()
	for {
		f := st.readFrame()
		if f == nil {
			return false, fmt.Sprintf("no answer on stream %d", next)
		}
		switch f := f.(type) {
		case *RSTStreamFrame:
			return false, fmt.Sprintf("limit %d, connection %d: streams 1..%d open, stream 1 ended (client saw END_STREAM), HEADERS on stream %d answered with RST_STREAM(stream %d, %v); handler calls %d",
				limit, iter, 2*limit-1, next, f.StreamID, f.ErrCode, calls.Load())
		case *GoAwayFrame:
			return false, fmt.Sprintf("limit %d, connection %d: legal sequence drew GOAWAY %v", limit, iter, f.ErrCode)
		case *HeadersFrame:
			if f.StreamID == next {
				if int(calls.Load()) != limit+1 {
					return false, fmt.Sprintf("limit %d: response on stream %d but %d handler calls", limit, next, calls.Load())
				}
				return true, ""
			}
		}
	}
}

func TestVFC13Loop(t *testing.T) {
	out := vfLoopOut{}
	n := vfEnvInt("VF_LOOP_CONNS", 40)
	for _, limit := range []int{1, 2, 3} {
		for i := 0; i < n; i++ {
			var served bool
			var fail string
			func() {
				defer func() {
					if p := recover(); p != nil {
						fail = fmt.Sprintf("limit %d, connection %d: panic %v", limit, i, p)
					}
				}()
				served, fail = vfLoopOnce(t, limit, i)
			}()
			out.Connections++
			if served {
				out.Served++
			}
			if fail != "" {
				if len(out.Failures) < 10 {
					out.Failures = append(out.Failures, fail)
				}
				break
			}
		}
	}
	b, _ := json.Marshal(out)
	os.WriteFile(os.Getenv("VF_LOOP_OUT"), b, 0o644)
}
