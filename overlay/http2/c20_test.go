package http2

// C20 trace recorder: seeded random operation histories on the real write schedulers (round-robin, random,
// priority with several configurations).  Every interface call and every Pop result is written as one NDJSON
// event; TLC validates the histories against WriteSched.tla (Trace_WriteSched.tla).  The legality conditions of
// the WriteScheduler interface are respected by the generator (streams opened once, closed only when open, frames
// naming a stream pushed only while it is open).

import (
	"time"
	"sync/atomic"
	"strings"
	"runtime"
	"encoding/json"
	"fmt"
	"math/rand"
	"os"
	"testing"
)

type vfCtlFrame struct{ id int }

func (vfCtlFrame) writeFrame(ctx writeContext) error { return nil }
func (vfCtlFrame) staysWithinBuffer(int) bool        { return true }

type vfHdrFrame struct{ id int }

func (vfHdrFrame) writeFrame(ctx writeContext) error { return nil }
func (vfHdrFrame) staysWithinBuffer(int) bool        { return true }

type vfC20Ev map[string]any

type vfC20Run struct {
	kind      string
	maxClosed int
	maxIdle   int
	big       bool // large windows and payloads (only with ThrottleOutOfOrderWrites: the throttle's own budget, 1024 bytes and up, must be able to bind)
	throttle  bool
	ws        WriteScheduler
	sc        *serverConn
	streams   map[uint32]*stream
	closed    map[uint32]bool
	dataID    map[*writeData]int
	origLen   map[int]int
	sent      map[int]int
	nframes   int
	enc       *json.Encoder
	events    int
	pops      int
	popsOK    int
	splits    int
	panics    int
}

func (r *vfC20Run) emit(ev vfC20Ev) {
	r.enc.Encode(ev)
	r.events++
}

func (r *vfC20Run) reset() {
	switch r.kind {
	case "rr":
		r.ws = newRoundRobinWriteScheduler()
	case "random":
		r.ws = NewRandomWriteScheduler()
	case "prio":
		r.ws = NewPriorityWriteScheduler(&PriorityWriteSchedulerConfig{MaxClosedNodesInTree: r.maxClosed, MaxIdleNodesInTree: r.maxIdle, ThrottleOutOfOrderWrites: r.throttle})
	}
	r.sc = &serverConn{maxFrameSize: 2}
	r.sc.flow.n = 10
	r.streams = map[uint32]*stream{}
	r.closed = map[uint32]bool{}
	r.dataID = map[*writeData]int{}
	r.origLen = map[int]int{}
	r.sent = map[int]int{}
	r.nframes = 0
	r.emit(vfC20Ev{"op": "reset"})
}

// the call in progress (for the watchdog of TestVFC20): a scheduler call that never returns loses every frame behind it
var vfC20Cur atomic.Pointer[vfC20Call]

type vfC20Call struct {
	op, kind string
	since    time.Time
}

func (r *vfC20Run) guard(op string, f func()) (ok bool) {
	vfC20Cur.Store(&vfC20Call{op, r.kind, time.Now()})
	defer vfC20Cur.Store(nil)
	defer func() {
		if p := recover(); p != nil {
			r.panics++
			r.emit(vfC20Ev{"op": "panic", "during": op, "msg": fmt.Sprint(p)})
			ok = false
		}
	}()
	f()
	return true
}

// prelude builds a dependency tree of all streams with differing weights on every level (the sort path of
// walkReadyInOrder, nested), queues frames on one or two streams only and pops until the scheduler says there is nothing.
func (r *vfC20Run) prelude(rng *rand.Rand, ids []uint32) bool {
	for _, id := range ids {
		id := id
		st := &stream{id: id, sc: r.sc}
		st.flow.conn = &r.sc.flow
		st.flow.n = 3
		if !r.guard("open", func() { r.ws.OpenStream(id, OpenStreamOptions{}) }) {
			return false
		}
		r.streams[id] = st
		r.emit(vfC20Ev{"op": "open", "s": id})
	}
	ws := []uint8{15, 200, 0, 77, 9}
	rng.Shuffle(len(ws), func(i, j int) { ws[i], ws[j] = ws[j], ws[i] })
	for i, id := range ids {
		id := id
		dep := uint32(0)
		if i > 0 && rng.Intn(3) != 0 {
			dep = ids[rng.Intn(i)]
		}
		w := ws[i%len(ws)]
		if !r.guard("adjust", func() { r.ws.AdjustStream(id, PriorityParam{StreamDep: dep, Weight: w}) }) {
			return false
		}
		r.emit(vfC20Ev{"op": "adjust", "s": id, "dep": dep, "excl": false, "w": w})
	}
	for k := 1 + rng.Intn(2); k > 0; k-- {
		s := ids[rng.Intn(len(ids))]
		r.nframes++
		id := r.nframes
		if !r.guard("push", func() { r.ws.Push(FrameWriteRequest{write: vfHdrFrame{id}, stream: r.streams[s]}) }) {
			return false
		}
		r.origLen[id] = 0
		r.emit(vfC20Ev{"op": "push", "k": "H", "s": s, "len": 0})
	}
	for k := 0; k < 4; k++ {
		var wr FrameWriteRequest
		var ok bool
		if !r.guard("pop", func() { wr, ok = r.ws.Pop() }) {
			return false
		}
		r.pops++
		ev := vfC20Ev{"op": "pop", "ok": ok, "id": 0, "s": 0, "k": "-", "len": 0, "whole": false}
		if ok {
			r.popsOK++
			if w, isH := wr.write.(vfHdrFrame); isH {
				ev["id"], ev["k"], ev["s"], ev["whole"] = w.id, "H", wr.StreamID(), true
			}
		}
		r.emit(ev)
		if !ok {
			break
		}
	}
	return true
}

// idlePrelude fills the list of retained idle nodes exactly, then declares a new stream that depends on the oldest of them (creating
// its node evicts that very parent), opens it and queues a frame there.
func (r *vfC20Run) idlePrelude(rng *rand.Rand, ids []uint32) bool {
	fill := r.maxIdle
	if fill > len(ids)-1 {
		return true
	}
	adj := func(id, dep uint32, w uint8) bool {
		if !r.guard("adjust", func() { r.ws.AdjustStream(id, PriorityParam{StreamDep: dep, Weight: w}) }) {
			return false
		}
		r.emit(vfC20Ev{"op": "adjust", "s": id, "dep": dep, "excl": false, "w": w})
		return true
	}
	for i := 0; i < fill; i++ {
		dep := uint32(0)
		if i > 0 && rng.Intn(2) == 0 {
			dep = ids[i-1]
		}
		if !adj(ids[i], dep, uint8(10+i)) {
			return false
		}
	}
	id := ids[fill]
	if !adj(id, ids[0], 77) {
		return false
	}
	st := &stream{id: id, sc: r.sc}
	st.flow.conn = &r.sc.flow
	st.flow.n = 3
	if !r.guard("open", func() { r.ws.OpenStream(id, OpenStreamOptions{}) }) {
		return false
	}
	r.streams[id] = st
	r.emit(vfC20Ev{"op": "open", "s": id})
	r.nframes++
	fid := r.nframes
	if !r.guard("push", func() { r.ws.Push(FrameWriteRequest{write: vfHdrFrame{fid}, stream: st}) }) {
		return false
	}
	r.origLen[fid] = 0
	r.emit(vfC20Ev{"op": "push", "k": "H", "s": id, "len": 0})
	for k := 0; k < 2; k++ {
		var wr FrameWriteRequest
		var ok bool
		if !r.guard("pop", func() { wr, ok = r.ws.Pop() }) {
			return false
		}
		r.pops++
		ev := vfC20Ev{"op": "pop", "ok": ok, "id": 0, "s": 0, "k": "-", "len": 0, "whole": false}
		if ok {
			r.popsOK++
			if w, isH := wr.write.(vfHdrFrame); isH {
				ev["id"], ev["k"], ev["s"], ev["whole"] = w.id, "H", wr.StreamID(), true
			}
		}
		r.emit(ev)
		if !ok {
			break
		}
	}
	return true
}

// popOnce pops one frame and logs what came out (false: the scheduler panicked)
func (r *vfC20Run) popOnce() bool {
	var wr FrameWriteRequest
	var ok bool
	if !r.guard("pop", func() { wr, ok = r.ws.Pop() }) {
		return false
	}
	r.pops++
	ev := vfC20Ev{"op": "pop", "ok": ok, "id": 0, "s": 0, "k": "-", "len": 0, "whole": false}
	if ok {
		r.popsOK++
		switch w := wr.write.(type) {
		case vfCtlFrame:
			ev["id"], ev["k"], ev["whole"] = w.id, "C", true
		case StreamError:
			ev["id"], ev["k"], ev["whole"] = int(w.Code)-1000, "C", true
		case vfHdrFrame:
			ev["id"], ev["k"], ev["s"], ev["whole"] = w.id, "H", wr.StreamID(), true
		case *writeData:
			id, known := r.dataID[w]
			if !known && len(w.p) > 0 {
				id = int(w.p[0])
			}
			r.sent[id] += len(w.p)
			whole := r.sent[id] >= r.origLen[id]
			if !whole {
				r.splits++
			}
			ev["id"], ev["k"], ev["s"], ev["len"], ev["whole"] = id, "D", wr.StreamID(), len(w.p), whole
		default:
			ev["k"] = fmt.Sprintf("%T", wr.write)
		}
	}
	r.emit(ev)
	return true
}

// throttlePrelude (ThrottleOutOfOrderWrites only): a child of an open parent holds more DATA than the throttle's budget and more than
// one frame may carry, with ample windows - what is popped for it is cut by the budget and by the frame size, whichever is smaller.
func (r *vfC20Run) throttlePrelude(rng *rand.Rand, ids []uint32) bool {
	if len(ids) < 2 {
		return true
	}
	par, ch := ids[0], ids[1]
	for _, id := range []uint32{par, ch} {
		id := id
		st := &stream{id: id, sc: r.sc}
		st.flow.conn = &r.sc.flow
		st.flow.n = 5000
		if !r.guard("open", func() { r.ws.OpenStream(id, OpenStreamOptions{}) }) {
			return false
		}
		r.streams[id] = st
		r.emit(vfC20Ev{"op": "open", "s": id})
		r.emit(vfC20Ev{"op": "setwin", "s": id, "v": 5000})
	}
	w := []uint8{15, 200}[rng.Intn(2)]
	if !r.guard("adjust", func() { r.ws.AdjustStream(ch, PriorityParam{StreamDep: par, Weight: w}) }) {
		return false
	}
	r.emit(vfC20Ev{"op": "adjust", "s": ch, "dep": par, "excl": false, "w": w})
	mf := int32([]int{16, 700, 1200, 16384}[rng.Intn(4)])
	if r.sc.maxFrameSize != mf {
		r.sc.maxFrameSize = mf
		r.emit(vfC20Ev{"op": "setmf", "v": mf})
	}
	targets := []uint32{ch}
	if rng.Intn(3) == 0 {
		targets = append(targets, par)
	}
	for _, s := range targets {
		s := s
		r.nframes++
		id := r.nframes
		n := []int{1500, 3000}[rng.Intn(2)]
		pl := make([]byte, n)
		for j := range pl {
			pl[j] = byte(id)
		}
		wd := &writeData{streamID: s, p: pl, endStream: rng.Intn(2) == 0}
		r.dataID[wd] = id
		if !r.guard("push", func() { r.ws.Push(FrameWriteRequest{write: wd, stream: r.streams[s]}) }) {
			return false
		}
		r.origLen[id] = n
		r.emit(vfC20Ev{"op": "push", "k": "D", "s": s, "len": n})
	}
	for k := 1 + rng.Intn(3); k > 0; k-- {
		if !r.popOnce() {
			return false
		}
	}
	return true
}

func (r *vfC20Run) history(rng *rand.Rand, ids []uint32, steps int) {
	r.reset()
	r.big = r.throttle && rng.Intn(2) == 0
	if r.big {
		r.sc.flow.n = 20000
		r.emit(vfC20Ev{"op": "setcwin", "v": 20000})
		r.sc.maxFrameSize = 16
		r.emit(vfC20Ev{"op": "setmf", "v": 16})
	}
	if r.big && r.kind == "prio" && rng.Intn(2) == 0 {
		if !r.throttlePrelude(rng, ids) {
			return
		}
	} else if r.kind == "prio" {
		switch rng.Intn(4) {
		case 0, 1:
			if !r.prelude(rng, ids) {
				return
			}
		case 2:
			if r.maxIdle > 0 && !r.idlePrelude(rng, ids) {
				return
			}
		}
	}
	for i := 0; i < steps; i++ {
		var open, unopened []uint32
		for _, id := range ids {
			if r.streams[id] != nil {
				open = append(open, id)
			} else if !r.closed[id] {
				unopened = append(unopened, id)
			}
		}
		c := rng.Intn(100)
		switch {
		case c < 12 && len(unopened) > 0:
			id := unopened[rng.Intn(len(unopened))]
			st := &stream{id: id, sc: r.sc}
			st.flow.conn = &r.sc.flow
			st.flow.n = 3
			if !r.guard("open", func() { r.ws.OpenStream(id, OpenStreamOptions{}) }) {
				return
			}
			r.streams[id] = st
			r.emit(vfC20Ev{"op": "open", "s": id})
			if r.big {
				st.flow.n = 5000
				r.emit(vfC20Ev{"op": "setwin", "s": id, "v": 5000})
			}
		case c < 20 && len(open) > 0:
			id := open[rng.Intn(len(open))]
			if !r.guard("close", func() { r.ws.CloseStream(id) }) {
				return
			}
			delete(r.streams, id)
			r.closed[id] = true
			r.emit(vfC20Ev{"op": "close", "s": id})
		case c < 40 && r.kind == "prio":
			id := ids[rng.Intn(len(ids))]
			dep := uint32(0)
			if rng.Intn(4) != 0 {
				dep = ids[rng.Intn(len(ids))]
			}
			excl := rng.Intn(2) == 0
			w := []uint8{15, 200, 0}[rng.Intn(3)]
			if !r.guard("adjust", func() { r.ws.AdjustStream(id, PriorityParam{StreamDep: dep, Exclusive: excl, Weight: w}) }) {
				return
			}
			r.emit(vfC20Ev{"op": "adjust", "s": id, "dep": dep, "excl": excl, "w": w})
		case c < 62:
			// push
			kind := rng.Intn(10)
			r.nframes++
			id := r.nframes
			switch {
			case kind < 2 || len(open) == 0:
				if len(open) > 0 && rng.Intn(2) == 0 {
					// a control frame that names a stream without belonging to it: RST_STREAM as serverConn.resetStream queues it
					// (stream == nil, StreamID() != 0) - control all the same
					s := open[rng.Intn(len(open))]
					if !r.guard("push", func() { r.ws.Push(FrameWriteRequest{write: StreamError{StreamID: s, Code: ErrCode(1000 + id)}}) }) {
						return
					}
					r.origLen[id] = 0
					r.emit(vfC20Ev{"op": "push", "k": "C", "s": 0, "len": 0, "names_stream": s})
					break
				}
				if !r.guard("push", func() { r.ws.Push(FrameWriteRequest{write: vfCtlFrame{id}}) }) {
					return
				}
				r.origLen[id] = 0
				r.emit(vfC20Ev{"op": "push", "k": "C", "s": 0, "len": 0})
			case kind < 4:
				s := open[rng.Intn(len(open))]
				if !r.guard("push", func() { r.ws.Push(FrameWriteRequest{write: vfHdrFrame{id}, stream: r.streams[s]}) }) {
					return
				}
				r.origLen[id] = 0
				r.emit(vfC20Ev{"op": "push", "k": "H", "s": s, "len": 0})
			default:
				s := open[rng.Intn(len(open))]
				n := []int{0, 1, 2, 5, 7}[rng.Intn(5)]
				if r.big {
					n = []int{7, 1500, 3000}[rng.Intn(3)]
				}
				p := make([]byte, n)
				for j := range p {
					p[j] = byte(id)
				}
				wd := &writeData{streamID: s, p: p, endStream: rng.Intn(2) == 0}
				r.dataID[wd] = id
				if !r.guard("push", func() { r.ws.Push(FrameWriteRequest{write: wd, stream: r.streams[s]}) }) {
					return
				}
				r.origLen[id] = n
				r.emit(vfC20Ev{"op": "push", "k": "D", "s": s, "len": n})
			}
		case c < 70 && len(open) > 0:
			s := open[rng.Intn(len(open))]
			v := int32([]int{0, 1, 3, 6}[rng.Intn(4)])
			if r.big {
				v = int32([]int{0, 2000, 5000}[rng.Intn(3)])
			}
			if r.streams[s].flow.n != v {
				r.streams[s].flow.n = v
				r.emit(vfC20Ev{"op": "setwin", "s": s, "v": v})
			}
		case c < 74:
			v := int32([]int{0, 1, 4, 10}[rng.Intn(4)])
			if r.big {
				v = int32([]int{0, 3000, 20000}[rng.Intn(3)])
			}
			if r.sc.flow.n != v {
				r.sc.flow.n = v
				r.emit(vfC20Ev{"op": "setcwin", "v": v})
			}
		case c < 77:
			v := int32([]int{1, 2, 3, 16}[rng.Intn(4)])
			if r.big {
				v = int32([]int{16, 1200, 16384}[rng.Intn(3)])
			}
			if r.sc.maxFrameSize != v {
				r.sc.maxFrameSize = v
				r.emit(vfC20Ev{"op": "setmf", "v": v})
			}
		default:
			if !r.popOnce() {
				return
			}
		}
	}
}

func TestVFC20(t *testing.T) {
	res := &vfResult{Driver: "c20", Actions: map[string]int{}, Extra: map[string]any{}}
	defer res.write()
	go func() { // watchdog: every call of the interface is a handful of pointer operations
		for {
			time.Sleep(time.Second)
			if c := vfC20Cur.Load(); c != nil && time.Since(c.since) > 20*time.Second {
				buf := make([]byte, 1<<16)
				buf = buf[:runtime.Stack(buf, true)]
				if strings.Contains(string(buf), "pkg/http2/writesched") {
					res.violate(map[string]any{"check": "C20", "kind": "hang", "during": c.op, "scheduler": c.kind},
						fmt.Sprintf("%s scheduler: the call %s has not returned after 20 s (every frame queued behind it is lost)", c.kind, c.op), map[string]any{"stacks": string(buf[:min(len(buf), 6000)])})
					res.Extra["runs"] = []map[string]any{}
					res.write()
					os.Exit(0)
				}
			}
		}
	}()
	seed := int64(vfEnvInt("VERIF_SEED", 1))
	histories := vfEnvInt("VF_HISTORIES", 60)
	steps := vfEnvInt("VF_STEPS", 45)
	dir := os.Getenv("VF_TRACEDIR")
	type cfg struct {
		kind               string
		maxClosed, maxIdle int
		throttle           bool
	}
	cfgs := []cfg{{"rr", 0, 0, false}, {"random", 0, 0, false}, {"prio", 10, 10, false}, {"prio", 1, 1, false}, {"prio", 0, 2, false}, {"prio", 2, 0, true}}
	ids := []uint32{1, 3, 5, 7, 9}
	var runs []map[string]any
	for ci, c := range cfgs {
		name := fmt.Sprintf("%s/trace_%d_%s_%d_%d.ndjson", dir, ci, c.kind, c.maxClosed, c.maxIdle)
		f, err := os.Create(name)
		if err != nil {
			t.Fatal(err)
		}
		r := &vfC20Run{kind: c.kind, maxClosed: c.maxClosed, maxIdle: c.maxIdle, throttle: c.throttle, enc: json.NewEncoder(f)}
		rng := rand.New(rand.NewSource(seed*1000 + int64(ci)))
		for h := 0; h < histories; h++ {
			r.history(rng, ids, steps)
		}
		f.Close()
		res.Paths += histories
		res.Steps += r.events
		runs = append(runs, map[string]any{"file": name, "kind": c.kind, "maxClosed": c.maxClosed, "maxIdle": c.maxIdle, "throttle": c.throttle,
			"events": r.events, "pops": r.pops, "pops_with_frame": r.popsOK, "split_pieces": r.splits, "panics": r.panics})
	}
	res.Extra["runs"] = runs
}
