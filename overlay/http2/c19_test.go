package http2

// C19 drivers.  Read side: every edge of the TLC graph of H2Frame.tla (every abstract frame in every
// HEADERS/CONTINUATION state) is serialized by the harness's own serializer and read by the real Framer; the
// outcome must be one RFC 7540 permits (lastAllowed), plus truncation of every frame at every offset.
// Write side: every state of H2FrameWrite.tla is one Write* call, byte-compared with the harness serialization
// and read back field by field.

import (
	"bufio"
	"bytes"
	"encoding/binary"
	"encoding/json"
	"fmt"
	"io"
	"math/rand"
	"os"
	"strings"
	"testing"

	"golang.org/x/net/http2/hpack"
)

func vfFrameBytes(typ, flags byte, sid uint32, rbit bool, payload []byte) []byte {
	n := len(payload)
	b := []byte{byte(n >> 16), byte(n >> 8), byte(n), typ, flags, 0, 0, 0, 0}
	if rbit {
		sid |= 1 << 31
	}
	binary.BigEndian.PutUint32(b[5:], sid)
	return append(b, payload...)
}

type vfAFrame struct {
	T      string `json:"t"`
	Sid    uint32 `json:"sid"`
	Rbit   bool   `json:"rbit"`
	Pad    string `json:"pad"`
	Body   int    `json:"body"`
	ES     bool   `json:"es"`
	EH     bool   `json:"eh"`
	Prio   string `json:"prio"`
	Len    int    `json:"len"`
	Ack    bool   `json:"ack"`
	Bigwin bool   `json:"bigwin"`
	Short  bool   `json:"short"`
	Incr   uint32 `json:"incr"`
	Rinc   bool   `json:"rinc"`
}

func vfPadWrap(pad string, body []byte) ([]byte, byte) {
	switch pad {
	case "pad0":
		return append([]byte{0}, body...), 0x8
	case "pad3":
		return append(append([]byte{3}, body...), 0, 0, 0), 0x8
	case "toobig":
		return []byte{200, 1, 2}, 0x8
	case "edge":
		return append([]byte{byte(len(body) + 1)}, body...), 0x8
	case "full":
		return append([]byte{byte(len(body))}, body...), 0x8
	case "nopayload":
		return nil, 0x8
	}
	return body, 0
}

func vfFill(n int) []byte {
	b := make([]byte, n)
	for i := range b {
		b[i] = byte(i*31 + 7)
	}
	return b
}

func (f vfAFrame) bytes() []byte {
	var flags byte
	switch f.T {
	case "DATA":
		p, fl := vfPadWrap(f.Pad, vfFill(f.Body))
		flags = fl
		if f.ES {
			flags |= 1
		}
		return vfFrameBytes(0, flags, f.Sid, f.Rbit, p)
	case "HEADERS":
		frag := []byte{0x82, 0x86, 0x84, 0x41} // arbitrary fragment bytes (not decoded without ReadMetaHeaders)
		var p []byte
		switch {
		case f.Pad == "nopayload":
			p, flags = nil, 0x8
		case f.Prio == "short":
			// PRIORITY flag, but fewer than 5 octets follow (and nothing else): the fixed-size prefix is cut short
			flags |= 0x20
			p = []byte{0, 0}
			if f.Pad != "none" {
				flags |= 0x8
				p = []byte{0, 0, 0}
			}
		default:
			inner := frag
			if f.Pad == "toobig" {
				inner = []byte{1, 2}
			}
			if f.Prio == "ok" {
				inner = append([]byte{0x80, 0, 0, 3, 200}, inner...)
				flags |= 0x20
			}
			switch f.Pad {
			case "pad0":
				p = append([]byte{0}, inner...)
				flags |= 0x8
			case "pad3":
				p = append(append([]byte{3}, inner...), 0, 0, 0)
				flags |= 0x8
			case "toobig":
				p = append([]byte{200}, inner...)
				flags |= 0x8
			case "edge": // one more than the fragment that is left once the priority fields are taken
				p = append([]byte{byte(len(frag) + 1)}, inner...)
				flags |= 0x8
			case "full":
				p = append([]byte{byte(len(frag))}, inner...)
				flags |= 0x8
			default:
				p = inner
			}
		}
		if f.EH {
			flags |= 4
		}
		return vfFrameBytes(1, flags, f.Sid, f.Rbit, p)
	case "PRIORITY":
		return vfFrameBytes(2, 0, f.Sid, f.Rbit, vfFill(f.Len))
	case "RST_STREAM":
		return vfFrameBytes(3, 0, f.Sid, f.Rbit, vfFill(f.Len))
	case "SETTINGS":
		var p []byte
		if f.Len >= 6 {
			if f.Bigwin {
				p = []byte{0, 4, 0x80, 0, 0, 0}
			} else {
				p = []byte{0, 3, 0, 0, 0, 100}
			}
			if f.Len >= 12 {
				p = append(p, 0, 5, 0, 0, 0x40, 0)
			}
			for len(p) < f.Len {
				p = append(p, 9)
			}
		}
		if f.Ack {
			flags = 1
		}
		return vfFrameBytes(4, flags, f.Sid, f.Rbit, p)
	case "PUSH_PROMISE":
		var p []byte
		switch {
		case f.Pad == "nopayload":
			p, flags = nil, 0x8
		case f.Short:
			// the 4-octet promised stream id is cut short
			p = []byte{0, 0}
			if f.Pad != "none" {
				flags |= 0x8
				p = []byte{0, 0, 0}
			}
		default:
			inner := []byte{0, 0, 0, 2, 0x82, 0x86, 0x84, 0x41}
			if f.Pad == "toobig" {
				inner = []byte{0, 0, 0, 2, 1, 2}
			}
			switch f.Pad {
			case "pad0":
				p = append([]byte{0}, inner...)
				flags |= 0x8
			case "pad3":
				p = append(append([]byte{3}, inner...), 0, 0, 0)
				flags |= 0x8
			case "toobig":
				p = append([]byte{200}, inner...)
				flags |= 0x8
			case "edge": // one more than the fragment that is left once the promised stream id is taken
				p = append([]byte{5}, inner...)
				flags |= 0x8
			case "full":
				p = append([]byte{4}, inner...)
				flags |= 0x8
			default:
				p = inner
			}
		}
		flags |= 4
		return vfFrameBytes(5, flags, f.Sid, f.Rbit, p)
	case "PING":
		if f.Ack {
			flags = 1
		}
		return vfFrameBytes(6, flags, f.Sid, f.Rbit, vfFill(f.Len))
	case "GOAWAY":
		return vfFrameBytes(7, 0, f.Sid, f.Rbit, vfFill(f.Len))
	case "WINDOW_UPDATE":
		p := make([]byte, f.Len)
		if f.Len >= 4 {
			binary.BigEndian.PutUint32(p, f.Incr)
		}
		if f.Rinc && f.Len >= 1 {
			p[0] |= 0x80 // reserved bit
		}
		return vfFrameBytes(8, 0, f.Sid, f.Rbit, p)
	case "CONTINUATION":
		if f.EH {
			flags = 4
		}
		return vfFrameBytes(9, flags, f.Sid, f.Rbit, []byte{0x82, 0x86, 0x84, 0x41})
	case "UNKNOWN":
		return vfFrameBytes(0x42, 0xff, f.Sid, f.Rbit, vfFill(f.Len))
	}
	panic("unknown abstract frame " + f.T)
}

type vfOutcome struct {
	R    string `json:"r"`
	T    string `json:"t"`
	Sid  uint32 `json:"sid"`
	Code string `json:"code"`
}

func vfClassify(fr Frame, err error) vfOutcome {
	if err == nil {
		t := fr.Header().Type.String()
		if len(t) > 7 && t[:7] == "UNKNOWN" {
			t = "UNKNOWN"
		}
		return vfOutcome{"ok", t, fr.Header().StreamID, "-"}
	}
	switch e := err.(type) {
	case ConnectionError:
		return vfOutcome{"conn", "-", 0, ErrCode(e).String()}
	case StreamError:
		return vfOutcome{"stream", "-", e.StreamID, e.Code.String()}
	}
	if err == ErrFrameTooLarge {
		return vfOutcome{"toolarge", "-", 0, "-"}
	}
	if err == io.ErrUnexpectedEOF {
		return vfOutcome{"eof", "-", 0, "-"}
	}
	return vfOutcome{"other:" + err.Error(), "-", 0, "-"}
}

// vfFieldMismatch: for a frame the reader accepted, do the parsed fields say what the harness put on the wire?
// (padding and the fixed prefixes stripped, reserved bits masked, flags as set)
func vfFieldMismatch(f vfAFrame, fr Frame) string {
	frag := []byte{0x82, 0x86, 0x84, 0x41}
	be := func(b []byte) uint32 { return binary.BigEndian.Uint32(b) }
	switch x := fr.(type) {
	case *DataFrame:
		want := vfFill(f.Body)
		if f.Pad == "full" {
			want = nil
		}
		if !bytes.Equal(x.Data(), want) {
			return fmt.Sprintf("Data() = %x, sent %x", vfTruncB(x.Data(), 16), vfTruncB(want, 16))
		}
		if x.StreamEnded() != f.ES {
			return "END_STREAM flag lost"
		}
	case *HeadersFrame:
		want := frag
		if f.Pad == "full" {
			want = nil
		}
		if !bytes.Equal(x.HeaderBlockFragment(), want) {
			return fmt.Sprintf("HeaderBlockFragment() = %x, sent %x", x.HeaderBlockFragment(), want)
		}
		if x.HeadersEnded() != f.EH || x.StreamEnded() != f.ES {
			return "END_HEADERS / END_STREAM flags differ"
		}
		if x.HasPriority() != (f.Prio == "ok") {
			return "PRIORITY flag differs"
		}
		if f.Prio == "ok" && (x.Priority.StreamDep != 3 || !x.Priority.Exclusive || x.Priority.Weight != 200) {
			return fmt.Sprintf("priority fields %+v, sent exclusive dep 3 weight byte 200", x.Priority)
		}
		if f.Prio != "ok" && !x.HasPriority() && x.Priority != (PriorityParam{}) {
			return fmt.Sprintf("priority fields %+v on a frame sent without any", x.Priority)
		}
	case *PriorityFrame:
		p := vfFill(5)
		if x.StreamDep != be(p)&0x7fffffff || x.Exclusive != (p[0]&0x80 != 0) || x.Weight != p[4] {
			return fmt.Sprintf("priority fields %+v, sent %x", x.PriorityParam, p)
		}
	case *RSTStreamFrame:
		if uint32(x.ErrCode) != be(vfFill(4)) {
			return fmt.Sprintf("error code %x, sent %x", uint32(x.ErrCode), vfFill(4))
		}
	case *SettingsFrame:
		if x.IsAck() != f.Ack {
			return "ACK flag differs"
		}
		b := f.bytes()[9:]
		n := 0
		bad := ""
		x.ForeachSetting(func(st Setting) error {
			if 6*n+6 > len(b) || uint16(st.ID) != binary.BigEndian.Uint16(b[6*n:]) || st.Val != be(b[6*n+2:]) {
				bad = fmt.Sprintf("setting #%d is %v, sent %x", n, st, b)
			}
			n++
			return nil
		})
		if bad == "" && n != len(b)/6 {
			bad = fmt.Sprintf("%d settings delivered, %d sent", n, len(b)/6)
		}
		return bad
	case *PushPromiseFrame:
		want := frag
		if f.Pad == "full" {
			want = nil
		}
		if x.PromiseID != 2 || !bytes.Equal(x.HeaderBlockFragment(), want) {
			return fmt.Sprintf("promised id %d fragment %x, sent 2 / %x", x.PromiseID, x.HeaderBlockFragment(), want)
		}
	case *PingFrame:
		if !bytes.Equal(x.Data[:], vfFill(8)) || x.IsAck() != f.Ack {
			return fmt.Sprintf("ping data %x ack %v, sent %x ack %v", x.Data, x.IsAck(), vfFill(8), f.Ack)
		}
	case *GoAwayFrame:
		p := vfFill(f.Len)
		if x.LastStreamID != be(p)&0x7fffffff || uint32(x.ErrCode) != be(p[4:]) || !bytes.Equal(x.DebugData(), p[8:]) {
			return fmt.Sprintf("GOAWAY last %x code %x debug %x, sent %x", x.LastStreamID, uint32(x.ErrCode), x.DebugData(), p)
		}
	case *WindowUpdateFrame:
		if x.Increment != f.Incr&0x7fffffff {
			return fmt.Sprintf("increment %d, sent %d", x.Increment, f.Incr)
		}
	case *ContinuationFrame:
		if !bytes.Equal(x.HeaderBlockFragment(), frag) || x.HeadersEnded() != f.EH {
			return "CONTINUATION fragment / END_HEADERS differ"
		}
	case *UnknownFrame:
		if !bytes.Equal(x.Payload(), vfFill(f.Len)) {
			return "unknown frame payload differs"
		}
	}
	return ""
}

func TestVFC19Read(t *testing.T) {
	res := &vfResult{Driver: "c19read", Actions: map[string]int{}, Extra: map[string]any{}}
	defer res.write()
	g, err := vfLoadGraph(os.Getenv("VF_GRAPH"))
	if err != nil {
		t.Fatal(err)
	}
	maxRead := uint32(vfEnvInt("VF_MAXREAD", 16384))
	rng := rand.New(rand.NewSource(int64(vfEnvInt("VERIF_SEED", 1))))
	divergent, truncs, mutated := 0, 0, 0
	var dumpW *bufio.Writer
	if path := os.Getenv("VF_DUMPBYTES"); path != "" { // the serialized cases, for the live-server abuse driver of C10
		df, err := os.Create(path)
		if err != nil {
			t.Fatal(err)
		}
		defer df.Close()
		dumpW = bufio.NewWriter(df)
		defer dumpW.Flush()
	}
	for _, e := range g.Edges {
		var from, to int
		json.Unmarshal(e[0], &from)
		json.Unmarshal(e[1], &to)
		var args []vfAFrame
		json.Unmarshal(e[3], &args)
		f := args[0]
		cont := uint32(vfInt(g.Nodes[from]["cont"]))
		var want vfOutcome
		json.Unmarshal(g.Nodes[to]["last"], &want)
		var allowed []vfOutcome
		json.Unmarshal(g.Nodes[to]["lastAllowed"], &allowed)
		var stream []byte
		if cont != 0 {
			stream = append(stream, vfFrameBytes(1, 0, cont, false, []byte{0x82, 0x86, 0x84, 0x41})...)
		}
		fb := f.bytes()
		stream = append(stream, fb...)
		read := func(data []byte) (out vfOutcome, fr Frame, panicked any) {
			defer func() {
				if p := recover(); p != nil {
					panicked = p
				}
			}()
			framer := NewFramer(io.Discard, bytes.NewReader(data))
			framer.SetMaxReadFrameSize(maxRead)
			if cont != 0 {
				if _, err := framer.ReadFrame(); err != nil {
					return vfOutcome{R: "prefix failed: " + err.Error()}, nil, nil
				}
			}
			fr, err := framer.ReadFrame()
			return vfClassify(fr, err), fr, nil
		}
		if dumpW != nil && len(stream) <= 20000 {
			fmt.Fprintf(dumpW, "{\"t\":%q,\"k\":%q,\"cont\":%d,\"hex\":\"%x\"}\n", f.T, f.T+"/"+f.Pad+"/"+f.Prio+"/"+fmt.Sprint(f.Short), cont, stream)
		}
		got, fr, pan := read(stream)
		res.Steps++
		res.Actions[f.T]++
		ok := false
		for _, a := range allowed {
			if a == got {
				ok = true
			}
		}
		if pan != nil || !ok {
			res.violate(map[string]any{"check": "C19", "kind": "read_outcome", "frame_type": f.T},
				fmt.Sprintf("ReadFrame(%+v) with open header block on stream %d: got %+v panic=%v; RFC 7540 permits %+v", f, cont, got, pan, allowed),
				map[string]any{"frame": f, "bytes": fmt.Sprintf("%x", vfTruncB(fb, 64)), "cont": cont})
		} else if got != want {
			divergent++
		}
		if pan == nil && got.R == "ok" && fr != nil {
			if m := vfFieldMismatch(f, fr); m != "" {
				res.violate(map[string]any{"check": "C19", "kind": "read_fields", "frame_type": f.T},
					fmt.Sprintf("ReadFrame(%+v) delivered a frame that differs from what was sent: %s", f, m), map[string]any{"frame": f, "bytes": fmt.Sprintf("%x", vfTruncB(fb, 64))})
			}
		}
		if fr != nil && fr.Header().Length > maxRead {
			res.violate(map[string]any{"check": "C19", "kind": "oversize_frame_delivered"}, fmt.Sprintf("frame of %d bytes delivered with limit %d", fr.Header().Length, maxRead), nil)
		}
		// survives truncation at every offset (small frames) / sampled offsets (large ones)
		offs := len(fb)
		stepo := 1
		if offs > 64 {
			stepo = offs / 16
		}
		for cut := 0; cut < len(fb); cut += stepo {
			o, _, pan := read(stream[:len(stream)-len(fb)+cut])
			truncs++
			if pan != nil || o.R == "ok" {
				res.violate(map[string]any{"check": "C19", "kind": "truncated_frame"},
					fmt.Sprintf("frame %+v cut after %d of %d bytes: outcome %+v panic=%v", f, cut, len(fb), o, pan), nil)
				break
			}
		}
		// exploration beyond the model: random single-byte corruption must not panic nor exceed the limit
		for k := 0; k < vfEnvInt("VF_MUTATIONS", 2); k++ {
			m := append([]byte{}, stream...)
			m[rng.Intn(len(m))] ^= byte(1 << uint(rng.Intn(8)))
			_, fr, pan := read(m)
			mutated++
			if pan != nil || (fr != nil && fr.Header().Length > maxRead) {
				res.violate(map[string]any{"check": "C19", "kind": "mutated_bytes"}, fmt.Sprintf("mutated frame bytes %x: panic=%v", vfTruncB(m, 64), pan), nil)
			}
		}
		if len(res.Samples) < 5 && res.Steps%977 == 0 {
			res.Samples = append(res.Samples, map[string]any{"open_header_block_on": cont, "frame": f, "bytes": fmt.Sprintf("%x", vfTruncB(fb, 40)), "real": got, "rfc_allows": allowed})
		}
	}
	// one long-lived reader: every self-contained accepted frame of the graph, in a seeded order, through ONE Framer - as a connection
	// reads them - once as configured by default and once with SetReuseFrames (frame objects recycled between reads): each frame must
	// come out with the fields it was sent with, whatever was read before it
	type vfSeqItem struct {
		f  vfAFrame
		fb []byte
	}
	var seq []vfSeqItem
	pingB := vfFrameBytes(6, 0, 0, false, []byte{1, 2, 3, 4, 5, 6, 7, 8})
	for _, e := range g.Edges {
		var from int
		json.Unmarshal(e[0], &from)
		if vfInt(g.Nodes[from]["cont"]) != 0 {
			continue
		}
		var args []vfAFrame
		json.Unmarshal(e[3], &args)
		fb := args[0].bytes()
		if len(fb) > 20000 {
			continue
		}
		self := func() (ok bool) {
			defer func() {
				if recover() != nil {
					ok = false
				}
			}()
			fr0 := NewFramer(io.Discard, bytes.NewReader(append(append([]byte{}, fb...), pingB...)))
			fr0.SetMaxReadFrameSize(maxRead)
			if _, err := fr0.ReadFrame(); err != nil {
				return false
			}
			nf, err := fr0.ReadFrame()
			return err == nil && nf.Header().Type == FramePing // otherwise it leaves a header block open (or is not accepted): not self-contained
		}()
		if !self {
			continue
		}
		seq = append(seq, vfSeqItem{args[0], fb})
	}
	for round := 0; round < vfEnvInt("VF_SEQ_ROUNDS", 3); round++ {
		rng.Shuffle(len(seq), func(i, j int) { seq[i], seq[j] = seq[j], seq[i] })
		var all []byte
		for _, it := range seq {
			all = append(all, it.fb...)
		}
		for _, reuse := range []bool{false, true} {
			fr := NewFramer(io.Discard, bytes.NewReader(all))
			fr.SetMaxReadFrameSize(maxRead)
			if reuse {
				fr.SetReuseFrames()
			}
			for i, it := range seq {
				var got Frame
				var err error
				if pan := func() (p any) {
					defer func() { p = recover() }()
					got, err = fr.ReadFrame()
					return nil
				}(); pan != nil {
					res.violate(map[string]any{"check": "C19", "kind": "read_outcome", "frame_type": it.f.T, "reader": "long_lived"},
						fmt.Sprintf("long-lived Framer (reuse=%v): ReadFrame panicked on frame %d of the sequence, %+v: %v", reuse, i, it.f, pan), nil)
					break
				}
				if err != nil {
					res.violate(map[string]any{"check": "C19", "kind": "read_outcome", "frame_type": it.f.T, "reader": "long_lived"},
						fmt.Sprintf("long-lived Framer (reuse=%v): frame %d of the sequence, %+v, accepted by a fresh Framer, fails with %v", reuse, i, it.f, err), nil)
					break
				}
				if m := vfFieldMismatch(it.f, got); m != "" {
					prev := "-"
					if i > 0 {
						prev = fmt.Sprintf("%+v", seq[i-1].f)
					}
					res.violate(map[string]any{"check": "C19", "kind": "read_fields", "frame_type": it.f.T, "reader": "long_lived"},
						fmt.Sprintf("long-lived Framer (reuse=%v): frame %+v came out different from what was sent: %s (frame read before it: %s)", reuse, it.f, m, prev), nil)
					break
				}
				res.Actions["long_lived_reader_frames"]++
			}
		}
	}
	// frames above the default size (legal once SETTINGS_MAX_FRAME_SIZE was raised, which this server does): read whole, and cut short by a
	// clean end of input at offsets around every internal boundary - never delivered as a frame, always an error
	large := 0
	for _, n := range []int{16385, 20000, 65536, 70001} {
		payload := make([]byte, n)
		for i := range payload {
			payload[i] = byte(i * 7)
		}
		for _, typ := range []byte{0 /* DATA */, 0xb /* unknown */} {
			fb := vfFrameBytes(typ, 1, 1, false, payload)
			readL := func(data []byte) (fr Frame, err error, pan any) {
				defer func() {
					if p := recover(); p != nil {
						pan = p
					}
				}()
				framer := NewFramer(io.Discard, bytes.NewReader(data))
				framer.SetMaxReadFrameSize(1 << 20)
				fr, err = framer.ReadFrame()
				return
			}
			fr, err, pan := readL(fb)
			large++
			if pan != nil || err != nil || fr == nil || int(fr.Header().Length) != n {
				res.violate(map[string]any{"check": "C19", "kind": "read_fields", "frame_type": fmt.Sprint(typ)}, fmt.Sprintf("frame of type %d with %d octets, limit 1 MiB: err=%v panic=%v", typ, n, err, pan), nil)
			} else if df, ok := fr.(*DataFrame); ok && !bytes.Equal(df.Data(), payload) {
				res.violate(map[string]any{"check": "C19", "kind": "read_fields", "frame_type": "DATA"}, fmt.Sprintf("DATA frame of %d octets came out with other octets", n), nil)
			}
			for _, cut := range []int{9, 10, 9 + 512, 9 + 4096, 9 + 16383, 9 + 16384, 9 + 16385, 9 + n/2, 9 + n - 1} {
				if cut >= len(fb) {
					continue
				}
				fr, err, pan := readL(fb[:cut])
				truncs++
				if pan != nil || err == nil || fr != nil {
					res.violate(map[string]any{"check": "C19", "kind": "truncated_frame"},
						fmt.Sprintf("frame of type %d with %d octets cut after %d octets of the frame: delivered=%v err=%v panic=%v", typ, n, cut, fr != nil, err, pan), nil)
					break
				}
			}
		}
	}
	res.Actions["large_frames"] = large
	res.Paths = res.Steps
	res.EdgesSeen, res.EdgesTotal = len(g.Edges), len(g.Edges)
	res.Extra["outcomes_differing_from_implementation_shaped_layer"] = divergent
	res.Extra["truncation_cases"] = truncs
	res.Extra["random_mutations"] = mutated
}

func vfTruncB(b []byte, n int) []byte {
	if len(b) > n {
		return b[:n]
	}
	return b
}

type vfWOp struct {
	M    string `json:"m"`
	Sid  uint32 `json:"sid"`
	ES   bool   `json:"es"`
	EH   bool   `json:"eh"`
	N    int    `json:"n"`
	Pad  int    `json:"pad"`
	Prio *struct {
		Dep  uint32 `json:"dep"`
		Excl bool   `json:"excl"`
		W    uint8  `json:"w"`
	} `json:"prio"`
	Code    uint32   `json:"code"`
	IDs     []uint16 `json:"ids"`
	Ack     bool     `json:"ack"`
	Last    uint32   `json:"last"`
	Incr    uint32   `json:"incr"`
	Promise uint32   `json:"promise"`
}

type vfWVec struct {
	Op    vfWOp `json:"op"`
	Frame []int `json:"frame"` // type, flags, sid, payload length
}

func vfPrioBytes(dep uint32, excl bool, w uint8) []byte {
	if excl {
		dep |= 1 << 31
	}
	return []byte{byte(dep >> 24), byte(dep >> 16), byte(dep >> 8), byte(dep), w}
}

func TestVFC19Write(t *testing.T) {
	res := &vfResult{Driver: "c19write", Actions: map[string]int{}, Extra: map[string]any{}}
	defer res.write()
	b, err := os.ReadFile(os.Getenv("VF_VECTORS"))
	if err != nil {
		t.Fatal(err)
	}
	var vecs []vfWVec
	if err := json.Unmarshal(b, &vecs); err != nil {
		t.Fatal(err)
	}
	for _, v := range vecs {
		o := v.Op
		var buf bytes.Buffer
		fr := NewFramer(&buf, &buf)
		fr.SetMaxReadFrameSize(1 << 20)
		fr.AllowIllegalReads = true // single frames are read back out of context (CONTINUATION, PUSH_PROMISE)
		var werr error
		var payload []byte // the harness's own serialization of the payload
		data := vfFill(o.N)
		var pad []byte
		if o.Pad >= 0 {
			pad = make([]byte, o.Pad)
		}
		padWrap := func(inner []byte) []byte {
			if o.Pad < 0 {
				return inner
			}
			return append(append([]byte{byte(o.Pad)}, inner...), pad...)
		}
		switch o.M {
		case "WriteData":
			if o.Pad >= 0 {
				werr = fr.WriteDataPadded(o.Sid, o.ES, data, pad)
			} else {
				werr = fr.WriteData(o.Sid, o.ES, data)
			}
			payload = padWrap(data)
		case "WriteHeaders":
			p := HeadersFrameParam{StreamID: o.Sid, BlockFragment: data, EndStream: o.ES, EndHeaders: o.EH,
				Priority: PriorityParam{StreamDep: o.Prio.Dep, Exclusive: o.Prio.Excl, Weight: o.Prio.W}}
			if o.Pad >= 0 {
				p.PadLength = uint8(o.Pad)
			}
			// PadLength 0 cannot be told from "not padded" through this API: the model's pad=0 is written as PADDED only via WriteData
			werr = fr.WriteHeaders(p)
			inner := data
			if !(o.Prio.Dep == 0 && !o.Prio.Excl && o.Prio.W == 0) {
				inner = append(vfPrioBytes(o.Prio.Dep, o.Prio.Excl, o.Prio.W), data...)
			}
			if o.Pad > 0 {
				payload = append(append([]byte{byte(o.Pad)}, inner...), pad...)
			} else {
				payload = inner
			}
		case "WritePriority":
			werr = fr.WritePriority(o.Sid, PriorityParam{StreamDep: o.Prio.Dep, Exclusive: o.Prio.Excl, Weight: o.Prio.W})
			payload = vfPrioBytes(o.Prio.Dep, o.Prio.Excl, o.Prio.W)
		case "WriteRSTStream":
			werr = fr.WriteRSTStream(o.Sid, ErrCode(o.Code))
			payload = []byte{byte(o.Code >> 24), byte(o.Code >> 16), byte(o.Code >> 8), byte(o.Code)}
		case "WriteSettings":
			var ss []Setting
			for i, id := range o.IDs {
				val := uint32(1000*i + 16384)
				ss = append(ss, Setting{ID: SettingID(id), Val: val})
				payload = append(payload, byte(id>>8), byte(id), byte(val>>24), byte(val>>16), byte(val>>8), byte(val))
			}
			werr = fr.WriteSettings(ss...)
		case "WriteSettingsAck":
			werr = fr.WriteSettingsAck()
		case "WritePing":
			d := [8]byte{1, 2, 3, 4, 5, 6, 7, 8}
			werr = fr.WritePing(o.Ack, d)
			payload = d[:]
		case "WriteGoAway":
			werr = fr.WriteGoAway(o.Last, ErrCode(o.Code), data)
			payload = append([]byte{byte(o.Last >> 24), byte(o.Last >> 16), byte(o.Last >> 8), byte(o.Last), byte(o.Code >> 24), byte(o.Code >> 16), byte(o.Code >> 8), byte(o.Code)}, data...)
		case "WriteWindowUpdate":
			werr = fr.WriteWindowUpdate(o.Sid, o.Incr)
			payload = []byte{byte(o.Incr >> 24), byte(o.Incr >> 16), byte(o.Incr >> 8), byte(o.Incr)}
		case "WriteContinuation":
			werr = fr.WriteContinuation(o.Sid, o.EH, data)
			payload = data
		case "WritePushPromise":
			p := PushPromiseParam{StreamID: o.Sid, PromiseID: o.Promise, BlockFragment: data, EndHeaders: o.EH}
			if o.Pad >= 0 {
				p.PadLength = uint8(o.Pad)
			}
			werr = fr.WritePushPromise(p)
			inner := append([]byte{byte(o.Promise >> 24), byte(o.Promise >> 16), byte(o.Promise >> 8), byte(o.Promise)}, data...)
			if o.Pad > 0 {
				payload = append(append([]byte{byte(o.Pad)}, inner...), pad...)
			} else {
				payload = inner
			}
		}
		res.Steps++
		res.Actions[o.M]++
		typ, flags, sid, plen := byte(v.Frame[0]), byte(v.Frame[1]), uint32(v.Frame[2]), v.Frame[3]
		// HeadersFrameParam / PushPromiseParam cannot express "PADDED with pad length 0": the API omits the flag
		if (o.M == "WriteHeaders" || o.M == "WritePushPromise") && o.Pad == 0 {
			flags &^= 0x8
			plen--
		}
		if werr != nil {
			res.violate(map[string]any{"check": "C19", "kind": "write_error", "method": o.M}, fmt.Sprintf("%s(%+v) failed: %v", o.M, o, werr), nil)
			continue
		}
		want := vfFrameBytes(typ, flags, sid, false, payload)
		got := append([]byte{}, buf.Bytes()...)
		if len(payload) != plen || !bytes.Equal(got, want) {
			res.violate(map[string]any{"check": "C19", "kind": "write_bytes", "method": o.M},
				fmt.Sprintf("%s(%+v) wrote %x.., specification frame <<%d,%d,%d,%d>> serializes to %x..", o.M, o, vfTruncB(got, 40), typ, flags, sid, plen, vfTruncB(want, 40)), nil)
			continue
		}
		rf, rerr := fr.ReadFrame()
		if rerr != nil {
			res.violate(map[string]any{"check": "C19", "kind": "read_back_error", "method": o.M}, fmt.Sprintf("%s(%+v): reading the frame back failed: %v", o.M, o, rerr), nil)
			continue
		}
		h := rf.Header()
		bad := ""
		if byte(h.Type) != typ || byte(h.Flags) != flags || h.StreamID != sid || int(h.Length) != plen {
			bad = fmt.Sprintf("header %+v", h)
		}
		switch x := rf.(type) {
		case *DataFrame:
			if !bytes.Equal(x.Data(), data) {
				bad = "data"
			}
		case *HeadersFrame:
			if !bytes.Equal(x.HeaderBlockFragment(), data) || x.StreamEnded() != o.ES || x.HeadersEnded() != o.EH ||
				x.Priority.StreamDep != o.Prio.Dep || x.Priority.Exclusive != o.Prio.Excl || x.Priority.Weight != o.Prio.W {
				bad = "headers fields"
			}
		case *PriorityFrame:
			if x.StreamDep != o.Prio.Dep || x.Exclusive != o.Prio.Excl || x.Weight != o.Prio.W {
				bad = "priority fields"
			}
		case *RSTStreamFrame:
			if uint32(x.ErrCode) != o.Code {
				bad = "rst code"
			}
		case *SettingsFrame:
			if x.IsAck() != (o.M == "WriteSettingsAck") || x.NumSettings() != len(o.IDs) {
				bad = "settings"
			} else {
				for i, id := range o.IDs {
					if s := x.Setting(i); uint16(s.ID) != id || s.Val != uint32(1000*i+16384) {
						bad = "setting value"
					}
				}
			}
		case *PingFrame:
			if x.IsAck() != o.Ack || x.Data != [8]byte{1, 2, 3, 4, 5, 6, 7, 8} {
				bad = "ping"
			}
		case *GoAwayFrame:
			if x.LastStreamID != o.Last || uint32(x.ErrCode) != o.Code || !bytes.Equal(x.DebugData(), data) {
				bad = "goaway"
			}
		case *WindowUpdateFrame:
			if x.Increment != o.Incr {
				bad = "increment"
			}
		case *ContinuationFrame:
			if !bytes.Equal(x.HeaderBlockFragment(), data) || x.HeadersEnded() != o.EH {
				bad = "continuation"
			}
		case *PushPromiseFrame:
			if x.PromiseID != o.Promise || !bytes.Equal(x.HeaderBlockFragment(), data) || x.HeadersEnded() != o.EH {
				bad = "push promise"
			}
		}
		if bad != "" {
			res.violate(map[string]any{"check": "C19", "kind": "round_trip", "method": o.M}, fmt.Sprintf("%s(%+v) read back differently: %s", o.M, o, bad), nil)
		}
		if len(res.Samples) < 4 && res.Steps%83 == 0 {
			res.Samples = append(res.Samples, map[string]any{"call": o, "spec_frame": v.Frame, "bytes": fmt.Sprintf("%x", vfTruncB(got, 32))})
		}
	}
	res.Paths = res.Steps
}

// ---------------------------------------------------------------- C. header blocks through ReadMetaHeaders (H2Meta.tla)

type vfMetaState struct {
	Hist  []string `json:"hist"`
	Table []int    `json:"table"`
	Out   struct {
		R   string `json:"r"`
		Dyn []int  `json:"dyn"`
	} `json:"out"`
}

func vfHInt(prefix uint, first byte, n int) []byte {
	max := (1 << prefix) - 1
	if n < max {
		return []byte{first | byte(n)}
	}
	b := []byte{first | byte(max)}
	n -= max
	for n >= 128 {
		b = append(b, byte(n%128+128))
		n /= 128
	}
	return append(b, byte(n))
}
func vfHStr(s string) []byte { return append(vfHInt(7, 0, len(s)), s...) }

// literal with incremental indexing, new name
func vfHIncr(name, value string) []byte {
	return append(append([]byte{0x40}, vfHStr(name)...), vfHStr(value)...)
}

// literal without indexing, new name
func vfHLit(name, value string) []byte {
	return append(append([]byte{0x00}, vfHStr(name)...), vfHStr(value)...)
}

var vfMetaPseudo = []byte{0x82, 0x87, 0x84, 0x01, 1, 'a'} // :method GET, :scheme https, :path /, :authority a

func vfMetaEntry(n int) (string, string) { return fmt.Sprintf("x-entry-%d", n), fmt.Sprintf("v%d", n) }

// vfMetaBlock: the frames of block number n (1-based) of the given kind on stream sid; tableLen = entries already in the table
func vfMetaBlock(kind string, n int, sid uint32, table []int) []byte {
	en, ev := vfMetaEntry(n)
	var blk []byte
	switch kind {
	case "ok", "okcont":
		blk = append(append([]byte{}, vfMetaPseudo...), vfHIncr(en, ev)...)
	case "sizeupd":
		blk = append(append([]byte{0x3f, 0xe1, 0x1f}, vfMetaPseudo...), vfHIncr(en, ev)...) // dynamic table size update to 4096 (the size in force), then as ok
	case "upper":
		blk = append(append(append([]byte{}, vfMetaPseudo...), vfHLit("X-Upper", "1")...), vfHIncr(en, ev)...)
	case "badvalue":
		blk = append(append(append([]byte{}, vfMetaPseudo...), vfHLit("x-bad", "a\nb")...), vfHIncr(en, ev)...)
	case "latepseudo":
		blk = append(append(vfHLit("x-first", "1"), vfMetaPseudo...), vfHIncr(en, ev)...)
	case "toolarge":
		blk = append([]byte{}, vfMetaPseudo...)
		for i := 0; i < 8; i++ {
			blk = append(blk, vfHLit(fmt.Sprintf("x-pad-%d", i), strings.Repeat("p", 60))...)
		}
		blk = append(blk, vfHIncr(en, ev)...) // still has to reach the table although nothing is emitted any more
	case "ref":
		blk = append([]byte{}, vfMetaPseudo...)
		for i := range table { // oldest first; the newest entry has index 62
			blk = append(blk, vfHInt(7, 0x80, 62+len(table)-1-i)...)
		}
	}
	if kind == "okcont" {
		k := len(blk) / 2
		return append(vfFrameBytes(1, 0x1, sid, false, blk[:k]), vfFrameBytes(9, 0x4, sid, false, blk[k:])...)
	}
	return vfFrameBytes(1, 0x5, sid, false, blk)
}

func TestVFC19Meta(t *testing.T) {
	res := &vfResult{Driver: "c19meta", Actions: map[string]int{}, Extra: map[string]any{}}
	defer res.write()
	b, err := os.ReadFile(os.Getenv("VF_VECTORS"))
	if err != nil {
		t.Fatal(err)
	}
	var states []vfMetaState
	if err := json.Unmarshal(b, &states); err != nil {
		t.Fatal(err)
	}
	byHist := map[string]vfMetaState{}
	maxLen := 0
	for _, s := range states {
		byHist[strings.Join(s.Hist, ",")] = s
		if len(s.Hist) > maxLen {
			maxLen = len(s.Hist)
		}
	}
	for _, full := range states {
		if len(full.Hist) != maxLen {
			continue
		}
		// the whole history as one byte stream through one Framer
		var stream []byte
		for i, k := range full.Hist {
			prefix := byHist[strings.Join(full.Hist[:i], ",")]
			stream = append(stream, vfMetaBlock(k, i+1, uint32(1+2*i), prefix.Table)...)
		}
		fr := NewFramer(io.Discard, bytes.NewReader(stream))
		fr.ReadMetaHeaders = hpack.NewDecoder(4096, nil)
		fr.MaxHeaderListSize = 400
		for i, k := range full.Hist {
			want := byHist[strings.Join(full.Hist[:i+1], ",")]
			res.Steps++
			res.Actions[k]++
			var f Frame
			var rerr error
			pan := func() (p any) {
				defer func() { p = recover() }()
				f, rerr = fr.ReadFrame()
				return nil
			}()
			got := "?"
			var fields []hpack.HeaderField
			switch {
			case pan != nil:
				got = fmt.Sprintf("panic: %v", pan)
			case rerr != nil:
				if se, ok := rerr.(StreamError); ok && se.Code == ErrCodeProtocol {
					got = "stream_error"
					res.Extra["last_stream_error"] = fmt.Sprintf("%v cause=%v", se, se.Cause)
				} else {
					got = "error: " + rerr.Error()
				}
			default:
				mh, ok := f.(*MetaHeadersFrame)
				if !ok {
					got = fmt.Sprintf("frame %T", f)
				} else if mh.Truncated {
					got = "truncated"
				} else {
					got = "fields"
					fields = mh.Fields
				}
			}
			bad := got != want.Out.R
			if !bad && got == "fields" {
				// pseudo-headers first, then exactly the entries the specification lists, oldest first
				var names []string
				for _, hf := range fields {
					if !strings.HasPrefix(hf.Name, ":") {
						names = append(names, hf.Name+"="+hf.Value)
					}
				}
				var wantNames []string
				for _, n := range want.Out.Dyn {
					en, ev := vfMetaEntry(n)
					wantNames = append(wantNames, en+"="+ev)
				}
				if strings.Join(names, ";") != strings.Join(wantNames, ";") || len(fields) != 4+len(wantNames) {
					bad = true
					got = fmt.Sprintf("fields %v", fields)
				}
			}
			if bad {
				res.violate(map[string]any{"check": "C19", "kind": "meta_headers", "block": k},
					fmt.Sprintf("header blocks %v: block %d (%s) came back as %s, specification says %s with entries %v", full.Hist, i+1, k, got, want.Out.R, want.Out.Dyn),
					map[string]any{"history": full.Hist, "block": i + 1})
				break
			}
			if rerr != nil {
				if _, ok := rerr.(StreamError); !ok {
					break
				}
			}
		}
		res.Paths++
	}
}
