//go:build verif

package http2

// Recorder for H2Stream.tla (C13): every frame the serve loop takes from the reader (or the reader's error), every frame it starts to
// write, every handler it starts and every handler that returns - one NDJSON line each, grouped by connection, in the order of the
// serve goroutine (all hook points are on it, so the order per connection is total and needs no clock).  The file is compiled into
// pkg/http2 together with the package's OWN tests: with VF_H2REC set, `go test -tags verif ./pkg/http2` replays the repository's
// functional tests with recording on, and each connection they create becomes a history that Trace_H2Stream.tla must accept.
//
// No lock is shared between connections (the package's fake-clock test group decides idleness from goroutine states; a goroutine
// parked on a recorder mutex would look idle to it): one record per connection, found through a sync.Map, appended to by that
// connection's serve goroutine only.

import (
	"bufio"
	"encoding/json"
	"fmt"
	"os"
	"sort"
	"sync"
	"sync/atomic"
	"testing"

	"github.com/wi1dcard/fingerproxy/pkg/verifhook"
)

type vfRecEv struct {
	E    string `json:"e"`    // read write start push done reset
	T    string `json:"t"`    // frame type (or ERR_STREAM / ERR_CONN / ERR_IO for a reader error)
	Sid  int64  `json:"sid"`  // stream
	Es   int    `json:"es"`   // END_STREAM
	Code int64  `json:"code"` // error code (RST_STREAM, GOAWAY, reader errors), -1 otherwise
	Last int64  `json:"last"` // GOAWAY last stream id, -1 otherwise
	Cur  int64  `json:"cur"`  // curHandlers after the step (start / push / done), -1 otherwise
	Adv  int64  `json:"adv"`  // advertised MAX_CONCURRENT_STREAMS (start), -1 otherwise
	C    int64  `json:"c"`    // connection number
}

type vfConnRec struct {
	mu   sync.Mutex // uncontended: the serve goroutine, and the dump after the tests
	n    int64
	evs  []vfRecEv
	more int // events beyond the cap, not kept
	keep any // the *serverConn, so that its address is never reused for another connection
}

var (
	vfRecConns sync.Map // *serverConn -> *vfConnRec
	vfRecSeq   atomic.Int64
	vfRecCap   = 4000
)

func vfRecFor(sc any) *vfConnRec {
	if v, ok := vfRecConns.Load(sc); ok {
		return v.(*vfConnRec)
	}
	r := &vfConnRec{n: vfRecSeq.Add(1), keep: sc}
	v, _ := vfRecConns.LoadOrStore(sc, r)
	return v.(*vfConnRec)
}

func vfB(b bool) int {
	if b {
		return 1
	}
	return 0
}

func vfRecSink(point string, args ...any) {
	var ev vfRecEv
	ev.Code, ev.Last, ev.Cur, ev.Adv = -1, -1, -1, -1
	switch point {
	case "http2.frame.read":
		ev.E = "read"
		f, _ := args[1].(Frame)
		err, _ := args[2].(error)
		switch {
		case err != nil:
			switch e := err.(type) {
			case StreamError:
				ev.T, ev.Sid, ev.Code = "ERR_STREAM", int64(e.StreamID), int64(e.Code)
			case ConnectionError:
				ev.T, ev.Code = "ERR_CONN", int64(e)
				if f != nil { // the frame that carried the error: the serve loop counts its stream as seen
					ev.Sid = int64(f.Header().StreamID)
				}
			default:
				if err == ErrFrameTooLarge {
					ev.T, ev.Code = "ERR_CONN", int64(ErrCodeFrameSize)
				} else {
					ev.T = "ERR_IO"
				}
			}
		case f == nil:
			ev.T = "NONE"
		default:
			h := f.Header()
			ev.Sid = int64(h.StreamID)
			switch f := f.(type) {
			case *MetaHeadersFrame:
				ev.T, ev.Es = "HEADERS", vfB(f.StreamEnded())
			case *HeadersFrame:
				ev.T, ev.Es = "HEADERS", vfB(f.StreamEnded())
			case *DataFrame:
				ev.T, ev.Es = "DATA", vfB(f.StreamEnded())
			case *RSTStreamFrame:
				ev.T, ev.Code = "RST_STREAM", int64(f.ErrCode)
			case *GoAwayFrame:
				ev.T, ev.Code, ev.Last = "GOAWAY", int64(f.ErrCode), int64(f.LastStreamID)
			case *SettingsFrame:
				ev.T = "SETTINGS"
				if f.IsAck() {
					ev.T = "SETTINGS_ACK"
				}
			case *PingFrame:
				ev.T = "PING"
				if f.IsAck() {
					ev.T = "PING_ACK"
				}
			case *WindowUpdateFrame:
				ev.T = "WINDOW_UPDATE"
			case *PriorityFrame:
				ev.T = "PRIORITY"
			case *PushPromiseFrame:
				ev.T = "PUSH_PROMISE"
			default:
				ev.T = "OTHER"
			}
		}
	case "http2.frame.write":
		ev.E = "write"
		wr := args[1].(FrameWriteRequest)
		switch w := wr.write.(type) {
		case *writeData:
			ev.T, ev.Sid, ev.Es = "DATA", int64(w.streamID), vfB(w.endStream)
		case *writeResHeaders:
			ev.T, ev.Sid, ev.Es = "HEADERS", int64(w.streamID), vfB(w.endStream)
		case StreamError:
			ev.T, ev.Sid, ev.Code = "RST_STREAM", int64(w.StreamID), int64(w.Code)
		case handlerPanicRST:
			ev.T, ev.Sid, ev.Code = "RST_STREAM", int64(w.StreamID), int64(ErrCodeInternal)
		case *writeGoAway:
			ev.T, ev.Code, ev.Last = "GOAWAY", int64(w.code), int64(w.maxStreamID)
		case writeSettings:
			ev.T = "SETTINGS"
		case writeSettingsAck:
			ev.T = "SETTINGS_ACK"
		case writePingAck:
			ev.T = "PING_ACK"
		case writePing:
			ev.T = "PING"
		case writeWindowUpdate:
			ev.T, ev.Sid = "WINDOW_UPDATE", int64(w.streamID)
		case write100ContinueHeadersFrame:
			ev.T, ev.Sid = "CONTINUE100", int64(w.streamID)
		case *writePushPromise:
			ev.T, ev.Sid = "PUSH_PROMISE", int64(w.streamID)
		case flushFrameWriter:
			ev.T = "FLUSH"
		default:
			ev.T = fmt.Sprintf("OTHER:%T", wr.write)
		}
	case "http2.handler.start":
		ev.E, ev.T = "start", "-"
		ev.Sid, ev.Cur, ev.Adv = int64(args[1].(uint32)), int64(args[2].(uint32)), int64(args[3].(uint32))
	case "http2.handler.push":
		ev.E, ev.T = "push", "-"
		ev.Sid, ev.Cur = int64(args[1].(uint32)), int64(args[2].(uint32))
	case "http2.handler.done":
		ev.E, ev.T = "done", "-"
		ev.Cur = int64(args[1].(uint32))
	default:
		return
	}
	r := vfRecFor(args[0])
	r.mu.Lock()
	if len(r.evs) < vfRecCap {
		ev.C = r.n
		r.evs = append(r.evs, ev)
	} else {
		r.more++
	}
	r.mu.Unlock()
}

func vfRecDump(path string) error {
	var recs []*vfConnRec
	vfRecConns.Range(func(_, v any) bool { recs = append(recs, v.(*vfConnRec)); return true })
	sort.Slice(recs, func(i, j int) bool { return recs[i].n < recs[j].n })
	f, err := os.Create(path)
	if err != nil {
		return err
	}
	w := bufio.NewWriter(f)
	enc := json.NewEncoder(w)
	for _, r := range recs {
		r.mu.Lock()
		enc.Encode(vfRecEv{E: "reset", T: "-", C: r.n, Code: -1, Last: -1, Cur: int64(r.more), Adv: -1})
		for _, e := range r.evs {
			enc.Encode(e)
		}
		r.mu.Unlock()
	}
	if err := w.Flush(); err != nil {
		return err
	}
	return f.Close()
}

func TestMain(m *testing.M) {
	out := os.Getenv("VF_H2REC")
	if out != "" {
		verifhook.Sink = vfRecSink
	}
	rc := m.Run()
	if out != "" {
		if err := vfRecDump(out); err != nil {
			fmt.Fprintln(os.Stderr, "h2rec:", err)
			os.Exit(3)
		}
		// the verdict of the repository's tests is not this recorder's business: a recording exists, say so
		os.WriteFile(out+".rc", []byte(fmt.Sprint(rc)), 0o644)
	}
	os.Exit(rc)
}
