// abusedriver: byte sequences a client can send on an HTTP/2 connection, taken from the TLC graph of H2Frame.tla (every abstract
// frame x open-header-block state, as serialized by the C19 driver), thrown at the real proxy stack running in a child process.
// C10 asks one thing of them: the process survives and keeps serving other connections.
//
//	abusedriver child                         run the stack, print its address, serve until stdin closes
//	abusedriver run <vectors.ndjson> <report> drive a child
package main

import (
	"bufio"
	"crypto/tls"
	"encoding/hex"
	"encoding/json"
	"fmt"
	"io"
	"math/rand"
	"net"
	"net/http"
	"os"
	"os/exec"
	"strconv"
	"strings"
	"sync"
	"sync/atomic"
	"time"

	"verifharness/h2raw"
	"verifharness/stack"
)

type Vector struct {
	T    string `json:"t"`
	K    string `json:"k"` // stratum: type / padding class / priority class / short prefix
	Cont int    `json:"cont"`
	Hex  string `json:"hex"`
	Mode string `json:"mode"` // fresh | open1 | cut<n>
	b    []byte
}

func child() {
	st, err := stack.Start(stack.Options{HandshakeTimeout: 2 * time.Second, IdleTimeout: 5 * time.Second, ReadTimeout: readTimeout,
		Respond: func(w http.ResponseWriter, r *http.Request, _ *stack.BackendReq) {
			// /big/<n>: n octets, each a function of its offset, written in pieces larger than the HTTP/2 server's write buffer
			var n int
			if _, err := fmt.Sscanf(r.URL.Path, "/big/%d", &n); err != nil {
				w.Header().Set("X-Vf-Backend", "1") // everything else: the recording backend's ordinary answer (a small body)
				w.WriteHeader(200)
				io.WriteString(w, "backend-ok")
				return
			}
			buf := make([]byte, 8192)
			for off := 0; off < n; {
				k := len(buf)
				if k > n-off {
					k = n - off
				}
				for i := 0; i < k; i++ {
					buf[i] = patternAt(off + i)
				}
				if _, err := w.Write(buf[:k]); err != nil {
					return
				}
				off += k
			}
		}})
	if err != nil {
		fmt.Println("CHILD-ERROR", err)
		os.Exit(3)
	}
	fmt.Println("CHILD-ADDR", st.Addr)
	io.Copy(io.Discard, os.Stdin)
	os.Exit(0)
}

const readTimeout = 400 * time.Millisecond

func envInt(k string, d int) int {
	if v, err := strconv.Atoi(os.Getenv(k)); err == nil {
		return v
	}
	return d
}

var (
	resetInstances = envInt("VF_RESET_INST", 16)    // connections running the blocked-write reset script
	resetReadOnMs  = envInt("VF_RESET_READON", 100) // ms between the reset and the client reading on
	smallWin       = envInt("VF_SMALLWIN", 0) == 1
	bystanders     = envInt("VF_BYSTANDERS", 32)
)

func patternAt(i int) byte { return byte(i ^ i>>8 ^ i>>16 ^ 0x5a) }

// stall scripts: a client that stops at a particular point and stays; the server's timers (handshake, read, idle) fire on
// their own goroutines, where no per-connection recover reaches
var stallScripts = []string{"h2-reset-blocked-write", "h2-window0-get", "h2-half-post", "h2-preface-only", "h2-settings-only", "h1-partial-line", "h1-partial-body", "h1-unread-response", "tls-partial-hello", "h2-rst-then-idle"}

func stall(addr, script string) (net.Conn, error) {
	if script == "tls-partial-hello" {
		raw, err := net.DialTimeout("tcp", addr, 2*time.Second)
		if err != nil {
			return nil, err
		}
		raw.Write([]byte{0x16, 0x03, 0x01, 0x02, 0x00, 0x01, 0x00, 0x01, 0xfc, 0x03, 0x03})
		return raw, nil
	}
	if script == "h2-reset-blocked-write" {
		// a large response to a client that grants all the window there is but does not read: the server ends up blocked in the middle
		// of writing a DATA frame; the client resets the stream while that write is stuck, then reads on as if nothing had happened
		raw, err := net.DialTimeout("tcp", addr, 2*time.Second)
		if err != nil {
			return nil, err
		}
		raw.(*net.TCPConn).SetReadBuffer(4096)
		tc := tls.Client(raw, &tls.Config{InsecureSkipVerify: true, ServerName: "vf.test", NextProtos: []string{"h2"}})
		raw.SetDeadline(time.Now().Add(30 * time.Second))
		if err := tc.Handshake(); err != nil {
			raw.Close()
			return nil, err
		}
		tc.Write([]byte(h2raw.Preface))
		tc.Write(h2raw.Settings(h2raw.Setting{ID: 4, Val: 1 << 30}))
		tc.Write(h2raw.WindowUpdate(0, 1<<30))
		tc.Write(h2raw.Headers(1, true, h2raw.Block([]h2raw.HF{{":method", "GET"}, {":scheme", "https"}, {":authority", "vf.test"}, {":path", "/big/50331648"}}), nil, 0))
		time.Sleep(300 * time.Millisecond)
		tc.Write(h2raw.RST(1, 8))
		time.Sleep(time.Duration(resetReadOnMs) * time.Millisecond)
		go io.Copy(io.Discard, tc) // ... and reads on
		return tc, nil
	}
	alpn := "h2"
	if strings.HasPrefix(script, "h1") {
		alpn = "http/1.1"
	}
	tc, err := dial(addr, alpn)
	if err != nil {
		return nil, err
	}
	tc.SetDeadline(time.Now().Add(30 * time.Second))
	get := func(sid uint32, end bool, method string) []byte {
		return h2raw.Headers(sid, end, h2raw.Block([]h2raw.HF{{":method", method}, {":scheme", "https"}, {":authority", "vf.test"}, {":path", "/stall"}}), nil, 0)
	}
	switch script {
	case "h2-window0-get": // the response cannot be sent: the stream outlives every timeout, with no request body
		tc.Write([]byte(h2raw.Preface))
		tc.Write(h2raw.Settings(h2raw.Setting{ID: 4, Val: 0}))
		tc.Write(get(1, true, "GET"))
	case "h2-half-post":
		tc.Write([]byte(h2raw.Preface))
		tc.Write(h2raw.Settings())
		tc.Write(get(1, false, "POST"))
	case "h2-preface-only":
		tc.Write([]byte(h2raw.Preface))
	case "h2-settings-only":
		tc.Write([]byte(h2raw.Preface))
		tc.Write(h2raw.Settings())
	case "h2-rst-then-idle":
		tc.Write([]byte(h2raw.Preface))
		tc.Write(h2raw.Settings())
		tc.Write(get(1, false, "POST"))
		tc.Write(h2raw.RST(1, 8))
	case "h1-partial-line":
		io.WriteString(tc, "GET /stall HT")
	case "h1-partial-body":
		io.WriteString(tc, "POST /stall HTTP/1.1\r\nHost: vf.test\r\nContent-Length: 100\r\n\r\n0123456789")
	case "h1-unread-response":
		io.WriteString(tc, "GET /stall HTTP/1.1\r\nHost: vf.test\r\n\r\n")
	}
	return tc, nil
}

// one-shot abuse at the HTTP/1.1 and TLS-record level: sent, answer (if any) discarded, connection closed by whoever closes first
var shots = []string{"h1-huge-header", "h1-many-headers", "h1-bad-chunk", "h1-negative-length", "h1-two-lengths", "h1-http09", "h1-connect", "h1-pipeline-200",
	"h1-nul-in-header", "h1-smuggle-te-cl", "h1-upgrade-h2c", "h1-expect-then-nothing", "tls-garbage-after-handshake", "tls-oversized-record", "h2-preface-on-h1", "h1-request-on-h2"}

func shot(addr, script string) error {
	alpn := "http/1.1"
	if script == "h1-request-on-h2" {
		alpn = "h2"
	}
	raw, err := net.DialTimeout("tcp", addr, 2*time.Second)
	if err != nil {
		return err
	}
	defer raw.Close()
	raw.SetDeadline(time.Now().Add(4 * time.Second))
	tc := tls.Client(raw, &tls.Config{InsecureSkipVerify: true, ServerName: "vf.test", NextProtos: []string{alpn}})
	if err := tc.Handshake(); err != nil {
		return err
	}
	w := func(s string) { io.WriteString(tc, s) }
	switch script {
	case "h1-huge-header":
		w("GET /a HTTP/1.1\r\nHost: vf.test\r\nX-Big: " + strings.Repeat("a", 2<<20) + "\r\n\r\n")
	case "h1-many-headers":
		w("GET /a HTTP/1.1\r\nHost: vf.test\r\n" + strings.Repeat("X-H: 1\r\n", 20000) + "\r\n")
	case "h1-bad-chunk":
		w("POST /a HTTP/1.1\r\nHost: vf.test\r\nTransfer-Encoding: chunked\r\n\r\nzz\r\nabc\r\n0\r\n\r\n")
	case "h1-negative-length":
		w("POST /a HTTP/1.1\r\nHost: vf.test\r\nContent-Length: -5\r\n\r\nabc")
	case "h1-two-lengths":
		w("POST /a HTTP/1.1\r\nHost: vf.test\r\nContent-Length: 3\r\nContent-Length: 5\r\n\r\nabcde")
	case "h1-http09":
		w("GET /a\r\n\r\n")
	case "h1-connect":
		w("CONNECT other.example:443 HTTP/1.1\r\nHost: other.example:443\r\n\r\n")
	case "h1-pipeline-200":
		w(strings.Repeat("GET /p HTTP/1.1\r\nHost: vf.test\r\n\r\n", 200))
	case "h1-nul-in-header":
		w("GET /a HTTP/1.1\r\nHost: vf.test\r\nX-N: a\x00b\r\n\r\n")
	case "h1-smuggle-te-cl":
		w("POST /a HTTP/1.1\r\nHost: vf.test\r\nContent-Length: 4\r\nTransfer-Encoding: chunked\r\n\r\n0\r\n\r\nGET /smuggled HTTP/1.1\r\nHost: vf.test\r\n\r\n")
	case "h1-upgrade-h2c":
		w("GET /a HTTP/1.1\r\nHost: vf.test\r\nConnection: Upgrade, HTTP2-Settings\r\nUpgrade: h2c\r\nHTTP2-Settings: AAMAAABkAAQAAP__\r\n\r\n")
	case "h1-expect-then-nothing":
		w("POST /a HTTP/1.1\r\nHost: vf.test\r\nContent-Length: 10\r\nExpect: 100-continue\r\n\r\n")
	case "tls-garbage-after-handshake":
		raw.Write([]byte{0x17, 0x03, 0x03, 0x00, 0x20})
		raw.Write(make([]byte, 0x20))
	case "tls-oversized-record":
		raw.Write([]byte{0x17, 0x03, 0x03, 0xff, 0xff})
		raw.Write(make([]byte, 70000))
	case "h2-preface-on-h1":
		w(h2raw.Preface)
		tc.Write(h2raw.Settings())
	case "h1-request-on-h2":
		w("GET /a HTTP/1.1\r\nHost: vf.test\r\n\r\n")
	}
	tc.SetReadDeadline(time.Now().Add(600 * time.Millisecond))
	io.Copy(io.Discard, tc)
	return nil
}

// floods: one legal-looking frame repeated until per-connection state has accumulated past every natural boundary (the 10000 of the
// priority-frame limit and of the control-frame queue, 2^16); the answers are read and thrown away all the while
var floods = []string{"priority-70000", "headers-priority-rst-10500", "settings-12000", "ping-12000", "window-update-70000", "unknown-70000",
	"data-empty-20000", "continuation-4000", "priority-then-request"}

func flood(addr, script string) error {
	raw, err := net.DialTimeout("tcp", addr, 2*time.Second)
	if err != nil {
		return err
	}
	defer raw.Close()
	raw.SetDeadline(time.Now().Add(40 * time.Second))
	tc := tls.Client(raw, &tls.Config{InsecureSkipVerify: true, ServerName: "vf.test", NextProtos: []string{"h2"}})
	if err := tc.Handshake(); err != nil {
		return err
	}
	go io.Copy(io.Discard, tc)
	tc.Write([]byte(h2raw.Preface))
	tc.Write(h2raw.Settings())
	tc.Write(h2raw.SettingsAck())
	req := func(sid uint32, end bool, prio *h2raw.Prio) []byte {
		return h2raw.Headers(sid, end, h2raw.Block([]h2raw.HF{{":method", "POST"}, {":scheme", "https"}, {":authority", "vf.test"}, {":path", "/flood"}}), prio, 0)
	}
	var buf []byte
	flush := func(force bool) error {
		if len(buf) > 32<<10 || force {
			_, err := tc.Write(buf)
			buf = buf[:0]
			return err
		}
		return nil
	}
	n := 0
	switch script {
	case "priority-70000", "priority-then-request":
		n = 70000
		if script == "priority-then-request" {
			n = 10001
		}
		for i := 0; i < n; i++ {
			buf = append(buf, h2raw.Priority(uint32(1+2*(i%5000)), h2raw.Prio{Dep: 0, Weight: uint8(i)})...)
			if flush(false) != nil {
				return nil
			}
		}
		if script == "priority-then-request" {
			// at the boundary: a request, one more PRIORITY frame, another request with a priority of its own
			buf = append(buf, req(1, true, nil)...)
			buf = append(buf, h2raw.Priority(3, h2raw.Prio{Dep: 0, Weight: 7})...)
			buf = append(buf, req(3, true, &h2raw.Prio{Dep: 0, Weight: 9})...)
		}
	case "headers-priority-rst-10500":
		for i := 0; i < 10500; i++ {
			sid := uint32(1 + 2*i)
			buf = append(buf, req(sid, false, &h2raw.Prio{Dep: 0, Weight: uint8(i)})...)
			buf = append(buf, h2raw.RST(sid, 8)...)
			if flush(false) != nil {
				return nil
			}
		}
	case "settings-12000":
		for i := 0; i < 12000; i++ {
			buf = append(buf, h2raw.Settings(h2raw.Setting{ID: 4, Val: uint32(65535 + i)})...)
			if flush(false) != nil {
				return nil
			}
		}
	case "ping-12000":
		for i := 0; i < 12000; i++ {
			buf = append(buf, h2raw.Ping(false, [8]byte{byte(i), byte(i >> 8)})...)
			if flush(false) != nil {
				return nil
			}
		}
	case "window-update-70000":
		for i := 0; i < 70000; i++ {
			buf = append(buf, h2raw.WindowUpdate(0, 1)...)
			if flush(false) != nil {
				return nil
			}
		}
	case "unknown-70000":
		for i := 0; i < 70000; i++ {
			buf = append(buf, h2raw.Frame(0x42, 0, uint32(i%7), []byte{1})...)
			if flush(false) != nil {
				return nil
			}
		}
	case "data-empty-20000":
		buf = append(buf, req(1, false, nil)...)
		for i := 0; i < 20000; i++ {
			buf = append(buf, h2raw.Data(1, false, nil, -1)...)
			if flush(false) != nil {
				return nil
			}
		}
		buf = append(buf, h2raw.Data(1, true, []byte("x"), -1)...)
	case "continuation-4000":
		blk := h2raw.Block([]h2raw.HF{{":method", "GET"}, {":scheme", "https"}, {":authority", "vf.test"}, {":path", "/flood"}})
		buf = append(buf, h2raw.Frame(h2raw.THeaders, h2raw.FEndStream, 1, blk)...)
		for i := 0; i < 4000; i++ {
			buf = append(buf, h2raw.Frame(h2raw.TContinuation, 0, 1, nil)...)
			if flush(false) != nil {
				return nil
			}
		}
		buf = append(buf, h2raw.Frame(h2raw.TContinuation, h2raw.FEndHeaders, 1, nil)...)
	}
	flush(true)
	time.Sleep(300 * time.Millisecond)
	return nil
}

// runStalls starts every script (or just one), waits several read timeouts, then asks whether the process still serves
func runStalls(ch *Child, only string) error {
	var held []net.Conn
	defer func() {
		for _, c := range held {
			c.Close()
		}
	}()
	// bystanders: ordinary clients downloading all the while (what one client does must not show in what the others receive - and some
	// damage is only visible to those who are served at that very moment)
	stop := make(chan struct{})
	byErr := make(chan error, 1)
	go func() {
		var first error
		for {
			select {
			case <-stop:
				byErr <- first
				return
			default:
			}
			if err := integrity(ch.addr); err != nil && first == nil {
				first = fmt.Errorf("bystander during the stall scripts: %v", err)
			}
		}
	}()
	for _, sc := range stallScripts {
		if only != "" && sc != only {
			continue
		}
		times := 1
		if sc == "h2-reset-blocked-write" {
			times = resetInstances
		}
		for k := 0; k < times; k++ {
			c, err := stall(ch.addr, sc)
			if err != nil {
				close(stop)
				<-byErr
				return fmt.Errorf("stall script %s could not start: %v", sc, err)
			}
			held = append(held, c)
		}
	}
	time.Sleep(5 * readTimeout)
	close(stop)
	berr := <-byErr
	if !ch.alive() {
		return fmt.Errorf("process exited: %s", ch.exit)
	}
	if berr != nil {
		return berr
	}
	return control(ch.addr)
}

type Child struct {
	cmd    *exec.Cmd
	stdin  io.WriteCloser
	addr   string
	stderr *strings.Builder
	dead   chan struct{}
	exit   string
}

func startChild() (*Child, error) {
	c := &Child{stderr: &strings.Builder{}, dead: make(chan struct{})}
	c.cmd = exec.Command(os.Args[0], "child")
	c.stdin, _ = c.cmd.StdinPipe()
	out, _ := c.cmd.StdoutPipe()
	c.cmd.Stderr = c.stderr
	if err := c.cmd.Start(); err != nil {
		return nil, err
	}
	line, _ := bufio.NewReader(out).ReadString('\n')
	if !strings.HasPrefix(line, "CHILD-ADDR ") {
		c.cmd.Process.Kill()
		return nil, fmt.Errorf("child did not start: %q %s", line, c.stderr.String())
	}
	c.addr = strings.TrimSpace(strings.TrimPrefix(line, "CHILD-ADDR "))
	go func() {
		err := c.cmd.Wait()
		c.exit = fmt.Sprint(err)
		close(c.dead)
	}()
	return c, nil
}

func (c *Child) alive() bool {
	select {
	case <-c.dead:
		return false
	default:
		return true
	}
}

func (c *Child) stop() {
	c.stdin.Close()
	select {
	case <-c.dead:
	case <-time.After(3 * time.Second):
		c.cmd.Process.Kill()
	}
}

func dial(addr string, alpn string) (*tls.Conn, error) {
	raw, err := net.DialTimeout("tcp", addr, 2*time.Second)
	if err != nil {
		return nil, err
	}
	raw.SetDeadline(time.Now().Add(5 * time.Second))
	tc := tls.Client(raw, &tls.Config{InsecureSkipVerify: true, ServerName: "vf.test", NextProtos: []string{alpn}})
	if err := tc.Handshake(); err != nil {
		raw.Close()
		return nil, err
	}
	return tc, nil
}

// control: one ordinary request on each protocol must be served
func control(addr string) error {
	tc, err := dial(addr, "http/1.1")
	if err != nil {
		return fmt.Errorf("h1 control: %v", err)
	}
	io.WriteString(tc, "GET /control HTTP/1.1\r\nHost: vf.test\r\n\r\n")
	resp, err := http.ReadResponse(bufio.NewReader(tc), nil)
	tc.Close()
	if err != nil {
		return fmt.Errorf("h1 control: %v", err)
	}
	resp.Body.Close()
	if resp.StatusCode != 200 {
		return fmt.Errorf("h1 control: status %d", resp.StatusCode)
	}
	t2, err := dial(addr, "h2")
	if err != nil {
		return fmt.Errorf("h2 control: %v", err)
	}
	defer t2.Close()
	t2.Write([]byte(h2raw.Preface))
	t2.Write(h2raw.Settings())
	hc := h2raw.NewConn(t2)
	t2.Write(h2raw.Headers(1, true, h2raw.Block([]h2raw.HF{{":method", "GET"}, {":scheme", "https"}, {":authority", "vf.test"}, {":path", "/control"}}), nil, 0))
	if err := hc.WaitStreams(1); err != nil {
		return fmt.Errorf("h2 control: %v", err)
	}
	if hc.Resp[1] == nil || hc.Resp[1].Status != "200" {
		return fmt.Errorf("h2 control: no 200")
	}
	return integrity(addr)
}

// integrity: ordinary clients download a body whose every octet is a function of its offset, several at a time on both protocols;
// what another client did before must not show in what they receive
func integrity(addr string) error {
	const n = 300000
	errs := make(chan error, bystanders)
	for i := 0; i < bystanders; i++ {
		go func(i int) {
			var body []byte
			if i%3 == 0 {
				tc, err := dial(addr, "http/1.1")
				if err != nil {
					errs <- fmt.Errorf("h1 download: %v", err)
					return
				}
				defer tc.Close()
				tc.SetDeadline(time.Now().Add(20 * time.Second))
				fmt.Fprintf(tc, "GET /big/%d HTTP/1.1\r\nHost: vf.test\r\n\r\n", n)
				resp, err := http.ReadResponse(bufio.NewReader(tc), nil)
				if err != nil {
					errs <- fmt.Errorf("h1 download: %v", err)
					return
				}
				body, err = io.ReadAll(resp.Body)
				if err != nil {
					errs <- fmt.Errorf("h1 download: %v after %d octets", err, len(body))
					return
				}
			} else {
				tc, err := dial(addr, "h2")
				if err != nil {
					errs <- fmt.Errorf("h2 download: %v", err)
					return
				}
				defer tc.Close()
				tc.SetDeadline(time.Now().Add(20 * time.Second))
				tc.Write([]byte(h2raw.Preface))
				if i%3 == 1 && smallWin {
					// a client with a small window: its DATA waits in the server's queue most of the time (whatever the server still refers to
					// while it waits must stay as the handler wrote it)
					tc.Write(h2raw.Settings(h2raw.Setting{ID: 4, Val: 3000}))
				} else {
					tc.Write(h2raw.Settings())
				}
				hc := h2raw.NewConn(tc)
				tc.Write(h2raw.Headers(1, true, h2raw.Block([]h2raw.HF{{":method", "GET"}, {":scheme", "https"}, {":authority", "vf.test"}, {":path", fmt.Sprintf("/big/%d", n)}}), nil, 0))
				if err := hc.WaitStreams(1); err != nil {
					errs <- fmt.Errorf("h2 download: %v", err)
					return
				}
				if hc.Resp[1] == nil || hc.Resp[1].Reset {
					errs <- fmt.Errorf("h2 download: stream reset")
					return
				}
				body = hc.Resp[1].Body
			}
			if len(body) != n {
				errs <- fmt.Errorf("download %d: %d octets instead of %d", i, len(body), n)
				return
			}
			for k, b := range body {
				if b != patternAt(k) {
					errs <- fmt.Errorf("download %d: octet %d of the body is %#x, the backend sent %#x (the body an ordinary client receives is corrupted)", i, k, b, patternAt(k))
					return
				}
			}
			errs <- nil
		}(i)
	}
	var first error
	for i := 0; i < bystanders; i++ {
		if err := <-errs; err != nil && first == nil {
			first = err
		}
	}
	return first
}

// throw sends one vector on its own connection and waits until the server has digested it (PING answered, connection closed, or 400ms)
func throw(addr string, v *Vector) string {
	tc, err := dial(addr, "h2")
	if err != nil {
		return "dial: " + err.Error()
	}
	defer tc.Close()
	tc.SetDeadline(time.Now().Add(3 * time.Second))
	tc.Write([]byte(h2raw.Preface))
	tc.Write(h2raw.Settings())
	if v.Mode == "open1" { // stream 1 open (request body pending), so that frames addressing it meet a live stream
		tc.Write(h2raw.Headers(1, false, h2raw.Block([]h2raw.HF{{":method", "POST"}, {":scheme", "https"}, {":authority", "vf.test"}, {":path", "/abuse"}}), nil, 0))
	}
	tc.Write(v.b)
	tc.Write(h2raw.Ping(false, [8]byte{0xab, 0xcd}))
	tc.SetReadDeadline(time.Now().Add(400 * time.Millisecond))
	for {
		f, err := h2raw.ReadFrame(tc)
		if err != nil {
			return "closed"
		}
		if f.Type == h2raw.TPing && f.Flags&h2raw.FAck != 0 && len(f.Payload) == 8 && f.Payload[0] == 0xab {
			return "alive"
		}
		if f.Type == h2raw.TGoAway {
			return "goaway"
		}
	}
}

func main() {
	if len(os.Args) > 1 && os.Args[1] == "child" {
		child()
		return
	}
	if len(os.Args) > 1 && os.Args[1] == "probe" { // by hand: the blocked-write reset a few times, then the integrity downloads
		ch, err := startChild()
		if err != nil {
			panic(err)
		}
		defer ch.stop()
		fmt.Println("runStalls:", runStalls(ch, "h2-reset-blocked-write"))
		return
	}
	vecPath, reportPath := os.Args[2], os.Args[3]
	seed, _ := strconv.ParseInt(os.Getenv("VERIF_SEED"), 10, 64)
	limit, _ := strconv.Atoi(os.Getenv("VF_ABUSE_LIMIT"))
	rng := rand.New(rand.NewSource(seed))
	var vecs []*Vector
	f, err := os.Open(vecPath)
	if err != nil {
		panic(err)
	}
	sc := bufio.NewScanner(f)
	sc.Buffer(make([]byte, 1<<20), 1<<26)
	for sc.Scan() {
		v := &Vector{}
		if json.Unmarshal(sc.Bytes(), v) != nil {
			continue
		}
		v.b, _ = hex.DecodeString(v.Hex)
		v.Hex = ""
		vecs = append(vecs, v)
	}
	f.Close()
	rng.Shuffle(len(vecs), func(i, j int) { vecs[i], vecs[j] = vecs[j], vecs[i] })
	// a few of every stratum (frame type x padding class x priority class) first, then the rest up to the limit
	seen := map[string]int{}
	strata := map[string]int{}
	var chosen []*Vector
	for _, v := range vecs {
		if limit > 0 && strata[v.K] >= 4 {
			continue
		}
		strata[v.K]++
		seen[v.T]++
		chosen = append(chosen, v)
	}
	for _, v := range vecs {
		if limit > 0 && len(chosen) >= limit {
			break
		}
		if limit > 0 && strata[v.K] <= 4 { // already taken above (approximately: strata with more than 4 members contribute more)
			strata[v.K]++
			continue
		}
		seen[v.T]++
		chosen = append(chosen, v)
	}
	// each vector twice: on a fresh connection and with stream 1 open; every fifth one also cut short
	var work []*Vector
	for i, v := range chosen {
		a, b := *v, *v
		a.Mode, b.Mode = "fresh", "open1"
		work = append(work, &a, &b)
		if i%5 == 0 && len(v.b) > 10 {
			c := *v
			cut := 9 + rng.Intn(len(v.b)-9)
			c.b, c.Mode = v.b[:cut], "open1"
			work = append(work, &c)
		}
	}
	report := map[string]any{"vectors_in_graph": len(vecs), "connections": len(work), "by_type": seen, "strata": len(strata)}
	outcomes := map[string]int{}
	var omu sync.Mutex
	ch, err := startChild()
	if err != nil {
		report["error"] = err.Error()
		b, _ := json.Marshal(report)
		os.WriteFile(reportPath, b, 0o644)
		return
	}
	if err := control(ch.addr); err != nil {
		// before any abuse: ordinary clients alone.  A body that arrives altered or short is a finding in itself (one ordinary connection
		// disturbing another); anything else (dial errors, ...) is the harness's problem
		content := func(e error) bool { return e != nil && (strings.Contains(e.Error(), "octet")) }
		e2 := err
		for try := 0; try < 3 && !content(e2); try++ {
			e2 = control(ch.addr)
		}
		if content(e2) {
			s2 := ch.stderr.String()
			if len(s2) > 1500 {
				s2 = s2[:1500]
			}
			report["killers"] = []map[string]any{{"frame_type": "ORDINARY", "mode": "concurrent ordinary downloads, no abuse at all", "open_header_block_on": 0, "bytes": "", "len": 0,
				"effect": e2.Error(), "child_stderr_head": s2}}
			report["outcomes"] = map[string]int{}
			report["control_rounds"] = 0
			report["connections"] = 0
			b, _ := json.Marshal(report)
			os.WriteFile(reportPath, b, 0o644)
			ch.stop()
			return
		}
		report["error"] = "control before: " + err.Error()
	}
	const P = 8
	var next int64 = -1
	var killers []map[string]any
	if report["error"] == nil {
		if err := runStalls(ch, ""); err != nil {
			why := err.Error()
			ch.stop()
			found := false
			tried := map[string]bool{}
			for _, sc := range stallScripts {
				if tried[sc] {
					continue
				}
				tried[sc] = true
				c2, e2 := startChild()
				if e2 != nil {
					break
				}
				if err := runStalls(c2, sc); err != nil {
					s2 := c2.stderr.String()
					if len(s2) > 1500 {
						s2 = s2[:1500]
					}
					killers = append(killers, map[string]any{"frame_type": "STALL", "mode": sc, "open_header_block_on": 0, "bytes": "", "len": 0, "effect": err.Error(), "child_stderr_head": s2})
					found = true
				}
				c2.stop()
			}
			if !found {
				report["error"] = "child failed during the stall scripts (" + why + ") but no single script reproduces it"
			}
			report["killers"] = killers
			report["outcomes"] = map[string]int{}
			report["control_rounds"] = 0
			b, _ := json.Marshal(report)
			os.WriteFile(reportPath, b, 0o644)
			return
		}
		report["stall_scripts"] = stallScripts
		// one-shot HTTP/1.1 / TLS-record abuse, all at once, then each alone if the child suffers
		var swg sync.WaitGroup
		for _, sc := range shots {
			swg.Add(1)
			go func(sc string) { defer swg.Done(); shot(ch.addr, sc) }(sc)
		}
		swg.Wait()
		if !ch.alive() || control(ch.addr) != nil {
			why := "control requests fail after the one-shot scripts"
			if !ch.alive() {
				why = "process exited: " + ch.exit
			}
			ch.stop()
			found := false
			for _, sc := range shots {
				c2, e2 := startChild()
				if e2 != nil {
					break
				}
				shot(c2.addr, sc)
				time.Sleep(50 * time.Millisecond)
				if !c2.alive() || control(c2.addr) != nil {
					s2 := c2.stderr.String()
					if len(s2) > 1500 {
						s2 = s2[:1500]
					}
					killers = append(killers, map[string]any{"frame_type": "SHOT", "mode": sc, "open_header_block_on": 0, "bytes": "", "len": 0, "effect": why, "child_stderr_head": s2})
					found = true
				}
				c2.stop()
			}
			if !found {
				report["error"] = "child failed during the one-shot scripts (" + why + ") but no single script reproduces it"
			}
			report["killers"] = killers
			report["outcomes"] = map[string]int{}
			report["control_rounds"] = 0
			b, _ := json.Marshal(report)
			os.WriteFile(reportPath, b, 0o644)
			return
		}
		report["one_shot_scripts"] = shots
		// floods, all at once, then each alone if the child suffers
		var fwg sync.WaitGroup
		for _, sc := range floods {
			fwg.Add(1)
			go func(sc string) { defer fwg.Done(); flood(ch.addr, sc) }(sc)
		}
		fwg.Wait()
		if !ch.alive() || control(ch.addr) != nil {
			why := "control requests fail after the floods"
			if !ch.alive() {
				why = "process exited: " + ch.exit
			}
			ch.stop()
			found := false
			for _, sc := range floods {
				c2, e2 := startChild()
				if e2 != nil {
					break
				}
				flood(c2.addr, sc)
				time.Sleep(50 * time.Millisecond)
				if !c2.alive() || control(c2.addr) != nil {
					s2 := c2.stderr.String()
					if len(s2) > 1500 {
						s2 = s2[:1500]
					}
					killers = append(killers, map[string]any{"frame_type": "FLOOD", "mode": sc, "open_header_block_on": 0, "bytes": "", "len": 0, "effect": why, "child_stderr_head": s2})
					found = true
				}
				c2.stop()
			}
			if !found {
				report["error"] = "child failed during the floods (" + why + ") but no single flood reproduces it"
			}
			report["killers"] = killers
			report["outcomes"] = map[string]int{}
			report["control_rounds"] = 0
			b, _ := json.Marshal(report)
			os.WriteFile(reportPath, b, 0o644)
			return
		}
		report["floods"] = floods
	}
	window := func(hi int) []*Vector { // what may have been in flight when trouble was noticed
		lo := hi - 4*P
		if lo < 0 {
			lo = 0
		}
		if hi > len(work) {
			hi = len(work)
		}
		return work[lo:hi]
	}
	var controls int
	for base := 0; base < len(work) && report["error"] == nil; base += 400 {
		end := base + 400
		if end > len(work) {
			end = len(work)
		}
		atomic.StoreInt64(&next, int64(base)-1)
		var wg sync.WaitGroup
		for w := 0; w < P; w++ {
			wg.Add(1)
			go func() {
				defer wg.Done()
				for {
					i := int(atomic.AddInt64(&next, 1))
					if i >= end || !ch.alive() {
						return
					}
					o := throw(ch.addr, work[i])
					omu.Lock()
					outcomes[o]++
					omu.Unlock()
					if strings.HasPrefix(o, "dial: ") {
						// nobody listens any more: the process is going down (its exit may not have been reaped yet); racing on through the
						// work list would move the window of suspects past the connection that did it
						atomic.AddInt64(&next, -1)
						for k := 0; k < 100 && ch.alive(); k++ {
							time.Sleep(10 * time.Millisecond)
						}
						if !ch.alive() {
							return
						}
					}
				}
			}()
		}
		wg.Wait()
		controls++
		cerr := control(ch.addr)
		if ch.alive() && cerr == nil {
			continue
		}
		// the child died or stopped serving: find the connection that did it, one at a time against a fresh child
		why := fmt.Sprint(cerr)
		if !ch.alive() {
			why = "process exited: " + ch.exit
		}
		stderr := ch.stderr.String()
		if len(stderr) > 1500 {
			stderr = stderr[:1500]
		}
		ch.stop()
		suspects := window(int(atomic.LoadInt64(&next)) + 1)
		if cerr != nil && ch.alive() {
			suspects = work[base:end]
		}
		found := false
		ch2, err := startChild()
		if err != nil {
			report["error"] = err.Error()
			break
		}
		for _, v := range suspects {
			throw(ch2.addr, v)
			time.Sleep(20 * time.Millisecond)
			if !ch2.alive() || control(ch2.addr) != nil {
				s2 := ch2.stderr.String()
				if len(s2) > 1500 {
					s2 = s2[:1500]
				}
				killers = append(killers, map[string]any{"frame_type": v.T, "mode": v.Mode, "open_header_block_on": v.Cont, "bytes": hex.EncodeToString(v.b[:min(len(v.b), 64)]),
					"len": len(v.b), "effect": why, "child_stderr_head": s2})
				found = true
				break
			}
		}
		ch2.stop()
		if !found {
			report["error"] = "child failed (" + why + ") but no single connection reproduces it; stderr: " + stderr
		}
		break
	}
	if ch.alive() {
		ch.stop()
	}
	report["outcomes"] = outcomes
	report["control_rounds"] = controls
	report["killers"] = killers
	b, _ := json.Marshal(report)
	os.WriteFile(reportPath, b, 0o644)
}
