// c08driver records end-to-end relay traces for Relay.tla (C08): scripted HTTP/1.1 and HTTP/2 clients send requests whose
// bodies are a function of (request id, offset), in scheduled pieces; the recording backend answers with scheduled status,
// headers, streamed body and trailers.  Both ends log every piece they receive (one mutex-ordered sequence, same process).
package main

import (
	"bufio"
	"encoding/json"
	"fmt"
	"io"
	"math/rand"
	"net"
	"net/http"
	"os"
	"strconv"
	"strings"
	"sync"
	"time"

	"verifharness/h2raw"
	"verifharness/hellospec"
	"verifharness/stack"
)

type Plan struct {
	ID       int    `json:"id"`
	Proto    string `json:"proto"`
	Method   string `json:"method"`
	Target   string `json:"target"`
	UpLen    int    `json:"up"`
	UpMode   string `json:"up_mode"` // cl | chunked (h1) ; data (h2)
	UpTrail  bool   `json:"up_trailers"`
	TrailMs  int    `json:"trailer_delay_ms,omitempty"` // HTTP/2: wait this long before the trailers (they cross the proxy's early response)
	Whole    bool   `json:"whole,omitempty"`            // HTTP/2: the body travels in one unpadded DATA frame that also ends the stream
	PauseMs  int    `json:"frame_pause_ms,omitempty"`   // HTTP/2: pause between DATA frames (a slow upload)
	DownLen  int    `json:"down"`
	DownPc   int    `json:"down_piece"`
	Status   int    `json:"status"`
	DownLate bool   `json:"down_unannounced_trailer,omitempty"`
	DownTr   bool   `json:"down_trailers"`
	Class    string `json:"class"` // normal | alpn_control_bytes | hello_fragment_in_cipher_list
	Preserve bool   `json:"preserve_host"`
}

var (
	mu  sync.Mutex
	enc *json.Encoder
	nev int
)

func ev(m map[string]any) {
	mu.Lock()
	enc.Encode(m)
	nev++
	mu.Unlock()
}

func pat(r int, dir byte, i int) byte {
	x := uint64(r)*0x9E3779B97F4A7C15 ^ uint64(i>>3)*0xC2B2AE3D27D4EB4F ^ uint64(dir)<<56
	x ^= x >> 29
	x *= 0xBF58476D1CE4E5B9
	x ^= x >> 32
	return byte(x >> (8 * uint(i&7)))
}
func fill(r int, dir byte, off, n int) []byte {
	b := make([]byte, n)
	for i := range b {
		b[i] = pat(r, dir, off+i)
	}
	return b
}
func check(r int, dir byte, off int, b []byte) bool {
	for i := range b {
		if b[i] != pat(r, dir, off+i) {
			return false
		}
	}
	return true
}

var plans sync.Map // id -> *Plan
var bigHeader = strings.Repeat("h", 3000)

func backend(w http.ResponseWriter, r *http.Request) {
	id, _ := strconv.Atoi(r.Header.Get("X-Vf-Id"))
	v, ok := plans.Load(id)
	if !ok {
		w.WriteHeader(599)
		return
	}
	p := v.(*Plan)
	off := 0
	buf := make([]byte, 32*1024)
	for {
		n, err := r.Body.Read(buf)
		if n > 0 {
			ev(map[string]any{"op": "up", "r": id, "off": off, "n": n, "ok": check(id, 'u', off, buf[:n])})
			off += n
		}
		if err != nil {
			break
		}
	}
	hdrOK := len(r.Header.Values("X-Multi")) == 2 && r.Header.Values("X-Multi")[0] == "a" && r.Header.Values("X-Multi")[1] == "b" &&
		r.Header.Get("X-Big") == bigHeader && r.Header.Get("Content-Type") == "application/x-vf"
	if vals, ok := r.Header["X-Empty"]; !ok || len(vals) != 1 || vals[0] != "" {
		hdrOK = false
	}
	hostOK := true
	if p.Preserve {
		hostOK = r.Host == "client.example"
	}
	trOK := true
	if p.UpTrail {
		trOK = r.Trailer.Get("X-Up-Trailer") == "t"+strconv.Itoa(id)
	}
	ev(map[string]any{"op": "up_end", "r": id, "total": off, "method_ok": r.Method == p.Method, "target_ok": r.RequestURI == p.Target,
		"headers_ok": hdrOK && hostOK, "trailers_ok": true, "request_trailers_seen": trOK, "seen": fmt.Sprintf("%s %s host=%s", r.Method, r.RequestURI, r.Host)})
	w.Header()["X-Down-Multi"] = []string{"1", "2"}
	w.Header().Set("X-Down-Empty", "")
	w.Header().Set("Content-Type", "application/x-vf-down")
	if p.DownTr {
		w.Header().Set("Trailer", "X-Down-Trailer")
	}
	w.WriteHeader(p.Status)
	if p.DownLate {
		// without an announced trailer net/http would give a short response a Content-Length and could not send trailers at all
		if f, ok := w.(http.Flusher); ok {
			f.Flush()
		}
	}
	sent := 0
	for sent < p.DownLen {
		k := p.DownPc
		if k > p.DownLen-sent {
			k = p.DownLen - sent
		}
		w.Write(fill(id, 'd', sent, k))
		sent += k
		if f, ok := w.(http.Flusher); ok && sent%3 == 0 {
			f.Flush()
		}
	}
	if p.DownTr {
		w.Header().Set("X-Down-Trailer", "d"+strconv.Itoa(id))
	}
	if p.DownLate { // a trailer the response did not announce
		w.Header().Set(http.TrailerPrefix+"X-Down-Late", "l"+strconv.Itoa(id))
	}
}

func pieces(rng *rand.Rand, total int) []int {
	var out []int
	for total > 0 {
		k := []int{1, 7, 100, 1000, 16384, 70000}[rng.Intn(6)]
		if k > total {
			k = total
		}
		out = append(out, k)
		total -= k
	}
	return out
}

func downOK(p *Plan, h http.Header, trailer http.Header) (bool, bool) {
	hok := len(h.Values("X-Down-Multi")) == 2 && h.Values("X-Down-Multi")[0] == "1" && h.Values("X-Down-Multi")[1] == "2" &&
		(h.Get("Content-Type") == "application/x-vf-down" || p.Status == 304) // the recording backend (net/http) itself drops Content-Type from a 304
	if v, ok := h["X-Down-Empty"]; !ok || len(v) != 1 || v[0] != "" {
		hok = false
	}
	tok := true
	if p.DownTr {
		tok = trailer.Get("X-Down-Trailer") == "d"+strconv.Itoa(p.ID)
	}
	if p.DownLate && trailer.Get("X-Down-Late") != "l"+strconv.Itoa(p.ID) {
		tok = false
	}
	return hok, tok
}

// ---------------------------------------------------------------- HTTP/1.1 client (raw writer, exact chunking)
func h1Request(cl *stack.Client, p *Plan, rng *rand.Rand) error {
	var b strings.Builder
	host := "vf.test"
	if p.Preserve {
		host = "client.example"
	}
	fmt.Fprintf(&b, "%s %s HTTP/1.1\r\nHost: %s\r\nX-Vf-Id: %d\r\nX-Multi: a\r\nx-multi: b\r\nX-Empty:\r\nX-Big: %s\r\nContent-Type: application/x-vf\r\n", p.Method, p.Target, host, p.ID, bigHeader)
	if p.UpMode == "chunked" {
		b.WriteString("Transfer-Encoding: chunked\r\n")
		if p.UpTrail {
			b.WriteString("Trailer: X-Up-Trailer\r\n")
		}
	} else {
		fmt.Fprintf(&b, "Content-Length: %d\r\n", p.UpLen)
	}
	b.WriteString("\r\n")
	cl.Conn.SetDeadline(time.Now().Add(60 * time.Second))
	errc := make(chan error, 1)
	go func() {
		if _, err := io.WriteString(cl.Conn, b.String()); err != nil {
			errc <- err
			return
		}
		off := 0
		for _, k := range pieces(rng, p.UpLen) {
			d := fill(p.ID, 'u', off, k)
			if p.UpMode == "chunked" {
				fmt.Fprintf(cl.Conn, "%x\r\n", k)
				cl.Conn.Write(d)
				io.WriteString(cl.Conn, "\r\n")
			} else {
				cl.Conn.Write(d)
			}
			off += k
		}
		if p.UpMode == "chunked" {
			io.WriteString(cl.Conn, "0\r\n")
			if p.UpTrail {
				fmt.Fprintf(cl.Conn, "X-Up-Trailer: t%d\r\n", p.ID)
			}
			io.WriteString(cl.Conn, "\r\n")
		}
		errc <- nil
	}()
	resp, err := http.ReadResponse(cl.BR, &http.Request{Method: p.Method})
	if err != nil {
		return err
	}
	off := 0
	readErr := ""
	buf := make([]byte, 1+rng.Intn(50000))
	for {
		n, err := resp.Body.Read(buf)
		if n > 0 {
			ev(map[string]any{"op": "down", "r": p.ID, "off": off, "n": n, "ok": check(p.ID, 'd', off, buf[:n])})
			off += n
		}
		if err != nil {
			if ne, ok := err.(net.Error); ok && ne.Timeout() {
				return fmt.Errorf("request %d: the client's own 60 s deadline expired after %d of %d octets of the response (no verdict)", p.ID, off, p.DownLen)
			}
			if err != io.EOF {
				readErr = err.Error()
			}
			break
		}
	}
	hok, tok := downOK(p, resp.Header, resp.Trailer)
	ev(map[string]any{"op": "down_end", "r": p.ID, "total": off, "status_ok": resp.StatusCode == p.Status, "headers_ok": hok, "trailers_ok": tok, "status": resp.StatusCode, "read_err": readErr})
	return <-errc
}

// ---------------------------------------------------------------- HTTP/2 client (raw frames, own send windows)
type h2conn struct {
	cl    *stack.Client
	hc    *h2raw.Conn
	wmu   sync.Mutex
	fmu   sync.Mutex
	cond  *sync.Cond
	cwin  int
	swin  map[uint32]int
	initw int
	down  map[uint32]*struct{ off int }
	plan  map[uint32]*Plan
	done  map[uint32]chan struct{}
}

var h2Deadline = 120 * time.Second

func newH2(cl *stack.Client) *h2conn {
	c := &h2conn{cl: cl, cwin: 65535, swin: map[uint32]int{}, initw: 65535, down: map[uint32]*struct{ off int }{}, plan: map[uint32]*Plan{}, done: map[uint32]chan struct{}{}}
	c.cond = sync.NewCond(&c.fmu)
	cl.Conn.SetDeadline(time.Now().Add(h2Deadline))
	cl.Conn.Write([]byte(h2raw.Preface))
	cl.Conn.Write(h2raw.Settings(h2raw.Setting{ID: 4, Val: 1 << 20}))
	cl.Conn.Write(h2raw.WindowUpdate(0, 1<<24))
	c.hc = h2raw.NewConn(cl.Conn)
	c.hc.WMu = &c.wmu
	c.hc.OnWU = func(s uint32, n uint32) {
		c.fmu.Lock()
		if s == 0 {
			c.cwin += int(n)
		} else {
			c.swin[s] += int(n)
		}
		c.cond.Broadcast()
		c.fmu.Unlock()
	}
	c.hc.OnData = func(s uint32, d []byte, end bool) {
		c.fmu.Lock()
		st, p := c.down[s], c.plan[s]
		c.fmu.Unlock()
		if st == nil || p == nil {
			return
		}
		if len(d) > 0 {
			ev(map[string]any{"op": "down", "r": p.ID, "off": st.off, "n": len(d), "ok": check(p.ID, 'd', st.off, d)})
			st.off += len(d)
		}
	}
	return c
}

// readLoop processes frames until all registered streams are finished
func (c *h2conn) readLoop(ids []uint32) error {
	// learn the server's initial window from its SETTINGS
	for {
		allDone := true
		for _, id := range ids {
			r := c.hc.Resp[id]
			if r == nil || !(r.Ended || r.Reset) {
				allDone = false
			}
		}
		if allDone {
			return nil
		}
		f, err := c.hc.Step()
		if err != nil {
			if c.hc.GoAway != nil {
				err = fmt.Errorf("%v after GOAWAY code=%d debug=%q", err, c.hc.GoAway.U32(4), string(c.hc.GoAway.Payload[8:]))
			}
			c.fmu.Lock()
			c.cwin = 1 << 30 // unblock writers
			c.cond.Broadcast()
			c.fmu.Unlock()
			return err
		}
		if f.Type == h2raw.TSettings && f.Flags&h2raw.FAck == 0 {
			for i := 0; i+6 <= len(f.Payload); i += 6 {
				if int(f.Payload[i])<<8|int(f.Payload[i+1]) == 4 {
					v := int(f.Payload[i+2])<<24 | int(f.Payload[i+3])<<16 | int(f.Payload[i+4])<<8 | int(f.Payload[i+5])
					c.fmu.Lock()
					for s := range c.swin {
						c.swin[s] += v - c.initw
					}
					c.initw = v
					c.cond.Broadcast()
					c.fmu.Unlock()
				}
			}
		}
	}
}

func (c *h2conn) open(sid uint32, p *Plan) {
	host := "vf.test"
	if p.Preserve {
		host = "client.example"
	}
	fs := []h2raw.HF{{":method", p.Method}, {":scheme", "https"}, {":authority", host}, {":path", p.Target}, {"x-vf-id", strconv.Itoa(p.ID)},
		{"x-multi", "a"}, {"x-multi", "b"}, {"x-empty", ""}, {"x-big", bigHeader}, {"content-type", "application/x-vf"}}
	if p.UpTrail {
		fs = append(fs, h2raw.HF{"trailer", "X-Up-Trailer"})
	}
	if p.UpMode == "data_cl" {
		fs = append(fs, h2raw.HF{"content-length", strconv.Itoa(p.UpLen)})
	}
	noBody := p.UpLen == 0 && !p.UpTrail
	c.wmu.Lock()
	c.cl.Conn.Write(h2raw.Headers(sid, noBody, h2raw.Block(fs), nil, 1000)) // header block split over CONTINUATION frames
	c.wmu.Unlock()
}

func (c *h2conn) send(sid uint32, p *Plan, rng *rand.Rand) {
	if p.UpLen == 0 && !p.UpTrail {
		return
	}
	off := 0
	ps := pieces(rng, p.UpLen)
	if p.Whole {
		ps = []int{p.UpLen}
	}
	for i, k := range ps {
		for k > 0 {
			c.fmu.Lock()
			for c.cwin <= 0 || c.swin[sid] <= 0 {
				c.cond.Wait()
			}
			n := k
			if n > c.cwin {
				n = c.cwin
			}
			if n > c.swin[sid] {
				n = c.swin[sid]
			}
			if n > 16384 {
				n = 16384
			}
			pad := -1
			if !p.Whole && rng.Intn(8) == 0 && n+50 < c.cwin && n+50 < c.swin[sid] && n+50 <= 16384 {
				pad = rng.Intn(40)
			}
			cost := n
			if pad >= 0 {
				cost += pad + 1
			}
			c.cwin -= cost
			c.swin[sid] -= cost
			c.fmu.Unlock()
			last := i == len(ps)-1 && n == k && !p.UpTrail
			if p.PauseMs > 0 {
				time.Sleep(time.Duration(p.PauseMs) * time.Millisecond)
			}
			c.wmu.Lock()
			c.cl.Conn.Write(h2raw.Data(sid, last, fill(p.ID, 'u', off, n), pad))
			c.wmu.Unlock()
			off += n
			k -= n
		}
	}
	if p.UpTrail {
		if p.TrailMs > 0 {
			time.Sleep(time.Duration(p.TrailMs) * time.Millisecond)
		}
		c.wmu.Lock()
		c.cl.Conn.Write(h2raw.Headers(sid, true, h2raw.Block([]h2raw.HF{{"x-up-trailer", "t" + strconv.Itoa(p.ID)}}), nil, 0))
		c.wmu.Unlock()
	} else if p.UpLen == 0 {
		c.wmu.Lock()
		c.cl.Conn.Write(h2raw.Data(sid, true, nil, -1))
		c.wmu.Unlock()
	}
}

func toHeader(fs []h2raw.HF) http.Header {
	h := http.Header{}
	for _, f := range fs {
		h.Add(f.Name, f.Value)
	}
	return h
}

func h2Batch(cl *stack.Client, ps []*Plan, rng *rand.Rand) error {
	var c *h2conn
	return h2BatchOn(cl, ps, rng, &c, 1)
}

// h2BatchOn runs a batch on a fresh HTTP/2 session (*sess == nil) or continues the session of the previous call with the next stream ids
func h2BatchOn(cl *stack.Client, ps []*Plan, rng *rand.Rand, sess **h2conn, firstSid uint32) error {
	if *sess == nil {
		*sess = newH2(cl)
	}
	c := *sess
	var ids []uint32
	for i, p := range ps {
		sid := firstSid + uint32(2*i)
		ids = append(ids, sid)
		c.fmu.Lock()
		c.swin[sid] = c.initw
		c.down[sid] = &struct{ off int }{}
		c.plan[sid] = p
		c.fmu.Unlock()
	}
	for i, p := range ps { // stream ids must be opened in increasing order
		c.open(ids[i], p)
	}
	var wg sync.WaitGroup
	for i, p := range ps {
		wg.Add(1)
		go func(sid uint32, p *Plan, seed int64) {
			defer wg.Done()
			c.send(sid, p, rand.New(rand.NewSource(seed)))
		}(ids[i], p, rng.Int63())
	}
	err := c.readLoop(ids)
	wg.Wait()
	for i, p := range ps {
		r := c.hc.Resp[ids[i]]
		if r == nil || !r.Ended {
			continue
		}
		st, _ := strconv.Atoi(r.Status)
		hok, tok := downOK(p, toHeader(r.Header), toHeader(r.Trailer))
		ev(map[string]any{"op": "down_end", "r": p.ID, "total": c.down[ids[i]].off, "status_ok": st == p.Status, "headers_ok": hok, "trailers_ok": tok, "status": st})
	}
	return err
}

var statusSweep = []int{200, 201, 202, 203, 204, 205, 206, 207, 208, 226, 299, 300, 301, 302, 303, 304, 305, 307, 308, 400, 401, 402, 403, 404, 405, 406, 407, 408, 409, 410, 411, 412,
	413, 414, 415, 416, 417, 418, 421, 422, 423, 424, 425, 426, 428, 429, 431, 451, 499, 500, 501, 502, 503, 504, 505, 506, 507, 508, 510, 511, 599}

func main() {
	tracePath, reportPath := os.Args[1], os.Args[2]
	seed, _ := strconv.ParseInt(os.Getenv("VERIF_SEED"), 10, 64)
	thorough := os.Getenv("VERIF_TIER") == "thorough"
	rng := rand.New(rand.NewSource(seed))
	f, err := os.Create(tracePath)
	if err != nil {
		panic(err)
	}
	enc = json.NewEncoder(f)
	var notes []string
	var allPlans []*Plan
	nextID := 1
	targets := []string{"/a", "/a%2Fb?x=1&x=2", "/p?q=a+b%20c", "//d//s", "/caf%C3%A9?k=%E4%BD%A0"}
	sizes := []int{0, 1, 1000, 70000, 300000}
	if thorough {
		sizes = append(sizes, 2<<20, 5<<20)
	}
	mk := func(proto string, class string, preserve bool, fix ...func(*Plan)) *Plan {
		p := &Plan{ID: nextID, Proto: proto, Method: []string{"POST", "PUT", "PATCH", "GET", "DELETE", "OPTIONS"}[rng.Intn(6)], Target: targets[rng.Intn(len(targets))],
			UpLen: sizes[rng.Intn(len(sizes))], DownLen: sizes[rng.Intn(len(sizes))], DownPc: []int{1, 100, 4096, 70000}[rng.Intn(4)],
			Status: []int{200, 201, 404, 500}[rng.Intn(4)], DownTr: rng.Intn(3) == 0, DownLate: rng.Intn(3) == 0, Class: class, Preserve: preserve}
		if p.DownPc == 1 && p.DownLen > 5000 {
			p.DownPc = 333
		}
		if proto == "h1" {
			p.UpMode = []string{"cl", "chunked"}[rng.Intn(2)]
			p.UpTrail = p.UpMode == "chunked" && rng.Intn(2) == 0
		} else {
			p.UpMode = []string{"data", "data_cl"}[rng.Intn(2)] // DATA frames without / with a content-length field
			p.UpTrail = rng.Intn(3) == 0
			if p.UpMode == "data_cl" && p.UpLen == 0 {
				p.UpTrail = false // declared empty body + trailers: the proxy answers without waiting for them; kept apart (D17, class trailers_after_early_response)
			}
		}
		for _, f := range fix {
			f(p)
		}
		nextID++
		plans.Store(p.ID, p)
		allPlans = append(allPlans, p)
		ev(map[string]any{"op": "begin", "r": p.ID, "up": p.UpLen, "down": p.DownLen})
		return p
	}
	for _, preserve := range []bool{false, true} {
		st, err := stack.Start(stack.Options{PreserveHost: preserve, BackendHandler: http.HandlerFunc(backend)})
		if err != nil {
			panic(err)
		}
		ev(map[string]any{"op": "reset"})
		nconn := 4
		if thorough {
			nconn = 12
		}
		var wg sync.WaitGroup
		for c := 0; c < nconn; c++ {
			proto := []string{"h1", "h2"}[c%2]
			var ps []*Plan
			n := 3 + rng.Intn(3)
			for i := 0; i < n; i++ {
				ps = append(ps, mk(proto, "normal", preserve))
			}
			if c < 2 && !preserve {
				// every status code a backend may answer with (and three unassigned ones), once per protocol
				for _, code := range statusSweep {
					code := code
					ps = append(ps, mk(proto, "normal", preserve, func(p *Plan) {
						p.Status, p.UpLen, p.UpTrail, p.DownLen, p.DownPc, p.DownTr, p.DownLate = code, 0, false, 10, 10, false, false
						if p.UpMode == "chunked" {
							p.UpMode = "cl"
						}
						if code == 204 || code == 205 || code == 304 {
							p.DownLen = 0 // responses that carry no body by definition
						}
					}))
				}
			}
			if c < 2 {
				// fixed corner plans on the first connection of each protocol: bodies on methods that usually have none, with and without a declared length
				fixed := map[string][][3]any{
					"h1": {{"GET", "chunked", 1000}, {"DELETE", "cl", 1}, {"OPTIONS", "chunked", 70000}, {"GET", "cl", 1000}},
					"h2": {{"GET", "data", 1000}, {"GET", "data_cl", 1000}, {"DELETE", "data", 1}, {"OPTIONS", "data", 70000}},
				}[proto]
				for _, fx := range fixed {
					fx := fx
					ps = append(ps, mk(proto, "normal", preserve, func(p *Plan) {
						p.Method, p.UpMode, p.UpLen, p.UpTrail = fx[0].(string), fx[1].(string), fx[2].(int), false
						if fx[2].(int) == 1000 { // ... and the response carries an announced and an unannounced trailer together
							p.DownTr, p.DownLate = true, true
						}
					}))
				}
			}
			wg.Add(1)
			go func(proto string, ps []*Plan, seed int64) {
				defer wg.Done()
				r := rand.New(rand.NewSource(seed))
				alpn := []string{"http/1.1"}
				if proto == "h2" {
					alpn = []string{"h2"}
				}
				cl, err := stack.DialStd(st.Addr, stack.DialOpts{ALPN: alpn}, nil)
				if err != nil {
					mu.Lock()
					notes = append(notes, "dial: "+err.Error())
					mu.Unlock()
					return
				}
				defer cl.Close()
				if proto == "h2" {
					if err := h2Batch(cl, ps, r); err != nil {
						mu.Lock()
						notes = append(notes, fmt.Sprintf("h2: %v", err))
						mu.Unlock()
					}
				} else {
					cl.BR = bufio.NewReaderSize(cl.Conn, 64*1024)
					for _, p := range ps { // keep-alive reuse
						if err := h1Request(cl, p, r); err != nil {
							mu.Lock()
							notes = append(notes, fmt.Sprintf("h1 request %d: %v", p.ID, err))
							mu.Unlock()
							break
						}
					}
				}
			}(proto, ps, rng.Int63())
		}
		wg.Wait()
		ev(map[string]any{"op": "end"})
		// connections whose ClientHello is unusual: the request itself is an ordinary one and must pass through all the same
		if !preserve {
			for _, class := range []string{"alpn_control_bytes", "hello_fragment_in_cipher_list"} {
				ev(map[string]any{"op": "reset", "class": class})
				d := hellospec.Base13()
				o := stack.DialOpts{}
				if class == "alpn_control_bytes" {
					d.ALPN = []string{"\n\n", "http/1.1"}
				} else {
					d.ALPN = []string{"http/1.1"}
					o.Fragment = 90
				}
				o.ALPN = d.ALPN
				p := mk("h1", class, false)
				p.UpMode, p.UpTrail = "cl", false
				cl, err := stack.DialUTLS(st.Addr, d.Spec(), o)
				if err == nil {
					cl.BR = bufio.NewReaderSize(cl.Conn, 64*1024)
					if err := h1Request(cl, p, rng); err != nil {
						ev(map[string]any{"op": "client_error", "r": p.ID, "err": err.Error()})
					}
					cl.Close()
				} else {
					ev(map[string]any{"op": "client_error", "r": p.ID, "err": "handshake: " + err.Error()})
				}
				ev(map[string]any{"op": "end", "class": class})
			}
		}
		if !preserve {
			// a long-lived HTTP/2 connection: many small uploads, each body in a single DATA frame that also ends the stream, more octets in total than
			// any window of the connection - whatever credit the proxy owes for a body it must pay back whenever and wherever the handler reads it
			class := "many_small_uploads"
			ev(map[string]any{"op": "reset", "class": class})
			var ps []*Plan
			for i := 0; i < 180; i++ {
				ps = append(ps, mk("h2", class, false, func(p *Plan) {
					p.Method, p.UpMode, p.UpLen, p.UpTrail, p.Whole, p.DownLen, p.DownPc, p.DownTr, p.DownLate, p.Status = "POST", []string{"data", "data_cl"}[i%2], 8000, false, true, 10, 10, false, false, 200
				}))
			}
			h2Deadline = 20 * time.Second
			cl, err := stack.DialStd(st.Addr, stack.DialOpts{ALPN: []string{"h2"}}, nil)
			if err == nil {
				var sess *h2conn
				for at := 0; at < len(ps); at += 30 { // thirty at a time, one batch after the other on the same connection
					if err := h2BatchOn(cl, ps[at:at+30], rng, &sess, uint32(1+2*at)); err != nil {
						ev(map[string]any{"op": "client_error", "r": ps[at].ID, "err": err.Error()})
						break
					}
				}
				cl.Close()
			} else {
				notes = append(notes, "dial: "+err.Error())
			}
			h2Deadline = 120 * time.Second
			ev(map[string]any{"op": "end", "class": class})
		}
		if !preserve {
			// D17: request A declares content-length 0 and announces trailers; the proxy does not wait for them and answers; A's trailers, already on
			// their way, reach the server after it forgot the stream.  Request B, a slow upload on the same connection, must not suffer.
			class := "trailers_after_early_response"
			ev(map[string]any{"op": "reset", "class": class})
			pa := mk("h2", class, false, func(p *Plan) {
				p.Method, p.UpMode, p.UpLen, p.UpTrail, p.TrailMs, p.DownLen, p.DownTr = "POST", "data_cl", 0, true, 250, 0, false
			})
			pb := mk("h2", class, false, func(p *Plan) {
				p.Method, p.UpMode, p.UpLen, p.UpTrail, p.PauseMs, p.DownLen, p.DownTr = "POST", "data", 300000, false, 25, 1000, false
			})
			cl, err := stack.DialStd(st.Addr, stack.DialOpts{ALPN: []string{"h2"}}, nil)
			if err == nil {
				if err := h2Batch(cl, []*Plan{pa, pb}, rng); err != nil {
					ev(map[string]any{"op": "client_error", "r": pb.ID, "err": err.Error()})
				}
				cl.Close()
			} else {
				notes = append(notes, "dial: "+err.Error())
			}
			ev(map[string]any{"op": "end", "class": class})
		}
		st.Close()
	}
	f.Close()
	b, _ := json.Marshal(map[string]any{"events": nev, "requests": len(allPlans), "notes": notes, "plans": allPlans})
	os.WriteFile(reportPath, b, 0o644)
}
