// c14driver replays update histories of CertReload.tla / CertReloadK8s.tla on a real directory with the real
// certwatcher and real inotify.  After every writer step it waits for quiescence (certwatcher.event hooks received ==
// handled, stable for a while) and observes the pair GetCertificate would present; at the end of a history it also runs
// a real TLS handshake.  A final stress phase flips versions in all styles while clients keep handshaking.
package main

import (
	"context"
	"crypto/ecdsa"
	"crypto/elliptic"
	"crypto/rand"
	"crypto/tls"
	"crypto/x509"
	"crypto/x509/pkix"
	"encoding/json"
	"encoding/pem"
	"fmt"
	"math/big"
	"net"
	"os"
	"path/filepath"
	"strconv"
	"sync"
	"sync/atomic"
	"time"

	"github.com/wi1dcard/fingerproxy/pkg/certwatcher"
	"github.com/wi1dcard/fingerproxy/pkg/verifhook"
)

type Step struct {
	Op string `json:"op"` // inplace | rename | remove | create | mkdir | swap | rmdir
	F  string `json:"f,omitempty"`
	C  int    `json:"c"`
	D  int    `json:"d"`
	OK bool   `json:"ok"`
}
type History struct {
	ID     int    `json:"id"`
	Layout string `json:"layout"`
	Steps  []Step `json:"steps"`
}
type Obs struct {
	ID        int      `json:"id"`
	Err       string   `json:"err,omitempty"`
	Current   []int    `json:"current"`   // version served after each step (-1: no certificate, -2: key does not match)
	Slow      []bool   `json:"slow"`      // the value only settled after the long wait
	Handshake int      `json:"handshake"` // version seen by a real TLS client at the end
	Events    []string `json:"events"`
}

type pair struct{ cert, key []byte }

var pairs = map[int]pair{}
var pubOf = map[int]*ecdsa.PublicKey{}

func mkPairs() {
	for v := 0; v <= 4; v++ {
		k, _ := ecdsa.GenerateKey(elliptic.P256(), rand.Reader)
		tmpl := &x509.Certificate{SerialNumber: big.NewInt(int64(100 + v)), Subject: pkix.Name{CommonName: "v" + strconv.Itoa(v)},
			NotBefore: time.Now().Add(-time.Hour), NotAfter: time.Now().Add(24 * time.Hour), DNSNames: []string{"vf.test"},
			KeyUsage: x509.KeyUsageDigitalSignature, ExtKeyUsage: []x509.ExtKeyUsage{x509.ExtKeyUsageServerAuth}}
		der, _ := x509.CreateCertificate(rand.Reader, tmpl, tmpl, &k.PublicKey, k)
		kb, _ := x509.MarshalECPrivateKey(k)
		pairs[v] = pair{pem.EncodeToMemory(&pem.Block{Type: "CERTIFICATE", Bytes: der}), pem.EncodeToMemory(&pem.Block{Type: "EC PRIVATE KEY", Bytes: kb})}
		pubOf[v] = &k.PublicKey
	}
}

func content(f string, c int) []byte {
	switch c {
	case 98:
		return nil
	case 99:
		return []byte("-----BEGIN GARBAGE-----\nnot a pem block\n")
	}
	if f == "crt" {
		return pairs[c].cert
	}
	return pairs[c].key
}

type counters struct {
	recv, done int64
	mu         sync.Mutex
	events     []string
}

var ctrs sync.Map // *certwatcher.CertWatcher -> *counters

func sink(point string, args ...any) {
	if len(args) == 0 {
		return
	}
	v, ok := ctrs.Load(args[0])
	if !ok {
		return
	}
	c := v.(*counters)
	switch point {
	case "certwatcher.event":
		atomic.AddInt64(&c.recv, 1)
		c.mu.Lock()
		if len(c.events) < 60 {
			c.events = append(c.events, fmt.Sprintf("%v %s", args[1], filepath.Base(args[2].(string))))
		}
		c.mu.Unlock()
	case "certwatcher.event.done":
		atomic.AddInt64(&c.done, 1)
	}
}

func quiesce(c *counters, stable time.Duration, max time.Duration) {
	deadline := time.Now().Add(max)
	last := int64(-1)
	since := time.Now()
	for time.Now().Before(deadline) {
		r, d := atomic.LoadInt64(&c.recv), atomic.LoadInt64(&c.done)
		if r == d && r == last {
			if time.Since(since) >= stable {
				return
			}
		} else {
			last = r
			since = time.Now()
			if r != d {
				last = -1
			}
		}
		time.Sleep(2 * time.Millisecond)
	}
}

func served(cw *certwatcher.CertWatcher) int {
	cert, _ := cw.GetCertificate(nil)
	if cert == nil || len(cert.Certificate) == 0 {
		return -1
	}
	leaf, err := x509.ParseCertificate(cert.Certificate[0])
	if err != nil {
		return -1
	}
	v, _ := strconv.Atoi(leaf.Subject.CommonName[1:])
	k, ok := cert.PrivateKey.(*ecdsa.PrivateKey)
	if !ok || !k.PublicKey.Equal(leaf.PublicKey) {
		return -2
	}
	return v
}

func handshake(cw *certwatcher.CertWatcher) int {
	a, b := net.Pipe()
	defer a.Close()
	defer b.Close()
	srv := tls.Server(a, &tls.Config{GetCertificate: cw.GetCertificate})
	go srv.Handshake()
	seen := -1
	cl := tls.Client(b, &tls.Config{InsecureSkipVerify: true, VerifyPeerCertificate: func(raw [][]byte, _ [][]*x509.Certificate) error {
		leaf, err := x509.ParseCertificate(raw[0])
		if err == nil {
			seen, _ = strconv.Atoi(leaf.Subject.CommonName[1:])
		}
		return nil
	}})
	b.SetDeadline(time.Now().Add(3 * time.Second))
	a.SetDeadline(time.Now().Add(3 * time.Second))
	if err := cl.Handshake(); err != nil { // a key that does not match the certificate makes the handshake fail
		return -2
	}
	return seen
}

func setupPlain(dir string) (string, string) {
	crt, key := filepath.Join(dir, "tls.crt"), filepath.Join(dir, "tls.key")
	os.WriteFile(crt, pairs[0].cert, 0o644)
	os.WriteFile(key, pairs[0].key, 0o644)
	return crt, key
}

func vdir(dir string, d int) string { return filepath.Join(dir, "..v"+strconv.Itoa(d)) }

func setupK8s(dir string) (string, string) {
	os.Mkdir(vdir(dir, 0), 0o755)
	os.WriteFile(filepath.Join(vdir(dir, 0), "tls.crt"), pairs[0].cert, 0o644)
	os.WriteFile(filepath.Join(vdir(dir, 0), "tls.key"), pairs[0].key, 0o644)
	os.Symlink("..v0", filepath.Join(dir, "..data"))
	os.Symlink(filepath.Join("..data", "tls.crt"), filepath.Join(dir, "tls.crt"))
	os.Symlink(filepath.Join("..data", "tls.key"), filepath.Join(dir, "tls.key"))
	return filepath.Join(dir, "tls.crt"), filepath.Join(dir, "tls.key")
}

func apply(dir string, s Step, n int) error {
	path := func(f string) string {
		if f == "crt" {
			return filepath.Join(dir, "tls.crt")
		}
		return filepath.Join(dir, "tls.key")
	}
	switch s.Op {
	case "inplace":
		return os.WriteFile(path(s.F), content(s.F, s.C), 0o644)
	case "remove":
		return os.Remove(path(s.F))
	case "create":
		f, err := os.OpenFile(path(s.F), os.O_WRONLY|os.O_CREATE|os.O_EXCL, 0o644) // the path is vacant in the specification state
		if err != nil {
			return err
		}
		defer f.Close()
		_, err = f.Write(content(s.F, s.C))
		return err
	case "rename":
		tmp := filepath.Join(dir, fmt.Sprintf(".tmp-%d", n))
		if err := os.WriteFile(tmp, content(s.F, s.C), 0o644); err != nil {
			return err
		}
		return os.Rename(tmp, path(s.F))
	case "mkdir":
		os.Mkdir(vdir(dir, s.D), 0o755)
		c, k := pairs[s.D].cert, pairs[s.D].key
		if !s.OK {
			k = content("key", 99)
		}
		os.WriteFile(filepath.Join(vdir(dir, s.D), "tls.crt"), c, 0o644)
		return os.WriteFile(filepath.Join(vdir(dir, s.D), "tls.key"), k, 0o644)
	case "swap":
		tmp := filepath.Join(dir, "..data_tmp")
		os.Remove(tmp)
		if err := os.Symlink("..v"+strconv.Itoa(s.D), tmp); err != nil {
			return err
		}
		return os.Rename(tmp, filepath.Join(dir, "..data"))
	case "rmdir":
		return os.RemoveAll(vdir(dir, s.D))
	}
	return fmt.Errorf("unknown op %s", s.Op)
}

func runHistory(base string, h History) Obs {
	o := Obs{ID: h.ID}
	dir, err := os.MkdirTemp(base, "h")
	if err != nil {
		o.Err = err.Error()
		return o
	}
	defer os.RemoveAll(dir)
	var crt, key string
	if h.Layout == "k8s" {
		crt, key = setupK8s(dir)
	} else {
		crt, key = setupPlain(dir)
	}
	cw, err := certwatcher.New(crt, key)
	if err != nil {
		o.Err = "New: " + err.Error()
		return o
	}
	c := &counters{}
	ctrs.Store(cw, c)
	defer ctrs.Delete(cw)
	ctx, cancel := context.WithCancel(context.Background())
	defer cancel()
	started := make(chan error, 1)
	go func() { started <- cw.Start(ctx) }()
	time.Sleep(15 * time.Millisecond) // watches are added at the beginning of Start
	for i, s := range h.Steps {
		if err := apply(dir, s, i); err != nil {
			o.Err = fmt.Sprintf("step %d: %v", i, err)
			return o
		}
		quiesce(c, 40*time.Millisecond, 2*time.Second)
		o.Current = append(o.Current, served(cw))
		o.Slow = append(o.Slow, false)
	}
	o.Handshake = handshake(cw)
	c.mu.Lock()
	o.Events = append([]string{}, c.events...)
	c.mu.Unlock()
	return o
}

// recheck replays a history slowly (long settle times) - used by ./check before a mismatch becomes a verdict
func main() {
	verifhook.Sink = sink
	mkPairs()
	switch os.Args[1] {
	case "replay":
		in, out := os.Args[2], os.Args[3]
		b, err := os.ReadFile(in)
		if err != nil {
			panic(err)
		}
		var hs []History
		json.Unmarshal(b, &hs)
		base := os.Getenv("VERIF_SCRATCH_DIR")
		res := make([]Obs, len(hs))
		sem := make(chan struct{}, 16)
		var wg sync.WaitGroup
		for i := range hs {
			wg.Add(1)
			sem <- struct{}{}
			go func(i int) {
				defer wg.Done()
				defer func() { <-sem }()
				res[i] = runHistory(base, hs[i])
			}(i)
		}
		wg.Wait()
		ob, _ := json.Marshal(res)
		os.WriteFile(out, ob, 0o644)
	case "stress":
		stress(os.Args[2])
	}
}

// stress: a writer flips versions in both plain styles while clients keep handshaking; every successful handshake must
// present a matching pair whose version was on disk.
func stress(out string) {
	base := os.Getenv("VERIF_SCRATCH_DIR")
	dir, _ := os.MkdirTemp(base, "stress")
	defer os.RemoveAll(dir)
	crt, key := setupPlain(dir)
	cw, err := certwatcher.New(crt, key)
	if err != nil {
		panic(err)
	}
	ctx, cancel := context.WithCancel(context.Background())
	go cw.Start(ctx)
	time.Sleep(20 * time.Millisecond)
	var ok, mismatch, other int64
	stop := make(chan struct{})
	var wg sync.WaitGroup
	for i := 0; i < 8; i++ {
		wg.Add(1)
		go func() {
			defer wg.Done()
			for {
				select {
				case <-stop:
					return
				default:
				}
				switch v := handshake(cw); {
				case v >= 0 && v <= 4:
					atomic.AddInt64(&ok, 1)
				case v == -2:
					atomic.AddInt64(&mismatch, 1)
				default:
					atomic.AddInt64(&other, 1)
				}
			}
		}()
	}
	n := 0
	end := time.Now().Add(1500 * time.Millisecond)
	for time.Now().Before(end) {
		v := 1 + n%4
		for _, f := range []string{"crt", "key"} {
			op := "inplace"
			if n%2 == 1 {
				op = "rename"
			}
			apply(dir, Step{Op: op, F: f, C: v}, n)
			if n%5 == 0 {
				apply(dir, Step{Op: "inplace", F: f, C: 99}, n) // garbage in between
				apply(dir, Step{Op: op, F: f, C: v}, n)
			}
		}
		n++
		time.Sleep(3 * time.Millisecond)
	}
	close(stop)
	wg.Wait()
	cancel()
	sok1, sf1 := straddle(6, "inplace")
	sok2, sf2 := straddle(6, "rename")
	b, _ := json.Marshal(map[string]any{"handshakes_ok": ok, "handshakes_with_mismatching_key": mismatch, "handshakes_other": other, "updates": n,
		"straddling_handshakes_ok": sok1 + sok2, "straddling_failures": append(sf1, sf2...)})
	os.WriteFile(out, b, 0o644)
}
