package main

// straddle: a handshake that begins under pair A and is still in progress when the files are rotated to pair B and the watcher has
// reloaded.  With an RSA key exchange (TLS 1.2) the server uses the private key a full round trip after it sent the certificate, so
// the reload can be placed between the two from outside: the client rotates the files inside its certificate callback and goes on
// only once the watcher serves B.  What was handed to the handshake must stay a matching pair: the handshake completes, with A.

import (
	"context"
	"crypto/rand"
	"crypto/rsa"
	"crypto/tls"
	"crypto/x509"
	"crypto/x509/pkix"
	"encoding/pem"
	"fmt"
	"math/big"
	"net"
	"os"
	"path/filepath"
	"time"

	"github.com/wi1dcard/fingerproxy/pkg/certwatcher"
)

type rsaPair struct {
	cert, key []byte
	pub       *rsa.PublicKey
}

func mkRSA(name string) rsaPair {
	k, _ := rsa.GenerateKey(rand.Reader, 2048)
	tmpl := &x509.Certificate{SerialNumber: big.NewInt(7), Subject: pkix.Name{CommonName: name}, NotBefore: time.Now().Add(-time.Hour),
		NotAfter: time.Now().Add(24 * time.Hour), DNSNames: []string{"vf.test"}, KeyUsage: x509.KeyUsageKeyEncipherment | x509.KeyUsageDigitalSignature,
		ExtKeyUsage: []x509.ExtKeyUsage{x509.ExtKeyUsageServerAuth}}
	der, _ := x509.CreateCertificate(rand.Reader, tmpl, tmpl, &k.PublicKey, k)
	return rsaPair{pem.EncodeToMemory(&pem.Block{Type: "CERTIFICATE", Bytes: der}),
		pem.EncodeToMemory(&pem.Block{Type: "RSA PRIVATE KEY", Bytes: x509.MarshalPKCS1PrivateKey(k)}), &k.PublicKey}
}

func servedName(cw *certwatcher.CertWatcher) string {
	c, _ := cw.GetCertificate(nil)
	if c == nil || len(c.Certificate) == 0 {
		return ""
	}
	leaf, err := x509.ParseCertificate(c.Certificate[0])
	if err != nil {
		return ""
	}
	return leaf.Subject.CommonName
}

// straddle returns (handshakes that completed with the pair they began with, failures with their reason)
func straddle(rounds int, style string) (int, []string) {
	base := os.Getenv("VERIF_SCRATCH_DIR")
	dir, _ := os.MkdirTemp(base, "straddle")
	defer os.RemoveAll(dir)
	ps := []rsaPair{mkRSA("rsaA"), mkRSA("rsaB")}
	crt, key := filepath.Join(dir, "tls.crt"), filepath.Join(dir, "tls.key")
	os.WriteFile(crt, ps[0].cert, 0o644)
	os.WriteFile(key, ps[0].key, 0o644)
	cw, err := certwatcher.New(crt, key)
	if err != nil {
		return 0, []string{"New: " + err.Error()}
	}
	ctx, cancel := context.WithCancel(context.Background())
	defer cancel()
	go cw.Start(ctx)
	time.Sleep(20 * time.Millisecond)
	write := func(p rsaPair, n int) {
		if style == "rename" {
			for f, b := range map[string][]byte{crt: p.cert, key: p.key} {
				tmp := filepath.Join(dir, fmt.Sprintf(".tmp-%d-%s", n, filepath.Base(f)))
				os.WriteFile(tmp, b, 0o644)
				os.Rename(tmp, f)
			}
			return
		}
		os.WriteFile(crt, p.cert, 0o644)
		os.WriteFile(key, p.key, 0o644)
	}
	okN := 0
	var fails []string
	for r := 0; r < rounds; r++ {
		cur, nxt := ps[r%2], ps[(r+1)%2]
		curName, nxtName := []string{"rsaA", "rsaB"}[r%2], []string{"rsaA", "rsaB"}[(r+1)%2]
		if servedName(cw) != curName {
			fails = append(fails, fmt.Sprintf("round %d: watcher serves %q before the handshake, files hold %q (not a verdict of this scenario)", r, servedName(cw), curName))
			return okN, fails
		}
		_ = cur
		a, b := net.Pipe()
		srv := tls.Server(a, &tls.Config{GetCertificate: cw.GetCertificate, MaxVersion: tls.VersionTLS12, CipherSuites: []uint16{tls.TLS_RSA_WITH_AES_128_GCM_SHA256}})
		srvErr := make(chan error, 1)
		go func() { srvErr <- srv.Handshake() }()
		seen, reloaded := "", false
		cl := tls.Client(b, &tls.Config{InsecureSkipVerify: true, MaxVersion: tls.VersionTLS12, CipherSuites: []uint16{tls.TLS_RSA_WITH_AES_128_GCM_SHA256},
			VerifyPeerCertificate: func(raw [][]byte, _ [][]*x509.Certificate) error {
				if leaf, err := x509.ParseCertificate(raw[0]); err == nil {
					seen = leaf.Subject.CommonName
				}
				write(nxt, r)
				for i := 0; i < 400; i++ {
					if servedName(cw) == nxtName {
						reloaded = true
						break
					}
					time.Sleep(5 * time.Millisecond)
				}
				return nil
			}})
		a.SetDeadline(time.Now().Add(6 * time.Second))
		b.SetDeadline(time.Now().Add(6 * time.Second))
		cerr := cl.Handshake()
		serr := <-srvErr
		a.Close()
		b.Close()
		switch {
		case !reloaded:
			fails = append(fails, fmt.Sprintf("round %d: the watcher did not pick up the rotation within 2 s (not a verdict of this scenario)", r))
			return okN, fails
		case cerr != nil || serr != nil:
			fails = append(fails, fmt.Sprintf("round %d (%s): handshake begun under %s, files rotated to %s and reloaded before the key exchange: client error %v, server error %v", r, style, curName, nxtName, cerr, serr))
		case seen != curName:
			fails = append(fails, fmt.Sprintf("round %d: handshake presented %q, the watcher served %q when it began", r, seen, curName))
		default:
			okN++
		}
	}
	return okN, fails
}
