// lcdriver records lifecycle traces of the real proxyserver for ProxyServer.tla (C06 C10 C11 C16 C17).
//
// Events come from three sources that share one mutex-protected sequence: verifhook points inside the server,
// the harness-owned net.Listener (accept, first Close of the accepted conn, listener Close) and the scenario
// itself (cancel, Serve's return value).  Client scripts never log by time; what a client does is the scenario
// ("kinds" in the reset record), keyed by the TCP source port.
//
//	lcdriver run <out.ndjson> <report.json>      all scenario families in-process
//	lcdriver panicchild <point>                  (internal) server with a panicking user callback, in a child process
package main

import (
	"bytes"
	"context"
	"crypto/tls"
	"encoding/json"
	"errors"
	"fmt"
	"io"
	"math/rand"
	"net"
	"net/http"
	"os"
	"os/exec"
	"runtime"
	"strconv"
	"strings"
	"sync"
	"sync/atomic"
	"syscall"
	"time"

	"github.com/prometheus/client_golang/prometheus"
	dto "github.com/prometheus/client_model/go"
	"github.com/wi1dcard/fingerproxy/pkg/proxyserver"
	"github.com/wi1dcard/fingerproxy/pkg/verifhook"
	"verifharness/h2raw"
	"verifharness/stack"
)

// ---------------------------------------------------------------- recorder

type Recorder struct {
	mu      sync.Mutex
	events  []map[string]any
	byGo    map[uint64]string // goroutine -> conn id (set at conn.start)
	byPort  map[int]string    // remote port -> conn id
	gates   map[string]chan struct{}
	aborted map[string]bool
	hit     map[string]chan struct{}
	ctrl    *controller
}

func NewRecorder() *Recorder {
	return &Recorder{aborted: map[string]bool{}, byGo: map[uint64]string{}, byPort: map[int]string{}, gates: map[string]chan struct{}{}, hit: map[string]chan struct{}{}}
}

func (r *Recorder) emit(ev map[string]any) {
	r.mu.Lock()
	r.events = append(r.events, ev)
	r.mu.Unlock()
}

func goid() uint64 {
	var buf [64]byte
	n := runtime.Stack(buf[:], false)
	f := strings.Fields(string(buf[:n]))
	id, _ := strconv.ParseUint(f[1], 10, 64)
	return id
}

type trackedConn struct {
	net.Conn
	id     string
	rec    *Recorder
	once   sync.Once
	closed chan struct{}
	// fault injection (family iofault): the k-th Read or Write on the server side fails like a reset connection, and so does every later one
	failOp string
	failAt int32
	nRead  int32
	nWrite int32
	broken int32
}

func (c *trackedConn) Read(p []byte) (int, error) {
	if c.failOp != "" {
		if atomic.LoadInt32(&c.broken) != 0 || (c.failOp == "read" && atomic.AddInt32(&c.nRead, 1) == c.failAt) {
			atomic.StoreInt32(&c.broken, 1)
			return 0, &net.OpError{Op: "read", Net: "tcp", Err: syscall.ECONNRESET}
		}
	}
	return c.Conn.Read(p)
}

func (c *trackedConn) Write(p []byte) (int, error) {
	if c.failOp != "" {
		if atomic.LoadInt32(&c.broken) != 0 || (c.failOp == "write" && atomic.AddInt32(&c.nWrite, 1) == c.failAt) {
			atomic.StoreInt32(&c.broken, 1)
			return 0, &net.OpError{Op: "write", Net: "tcp", Err: syscall.ECONNRESET}
		}
	}
	return c.Conn.Write(p)
}

// the optional methods of a TCP connection stay reachable through the wrapper (code that half-closes must find what it finds in production)
func (c *trackedConn) CloseWrite() error {
	if cw, ok := c.Conn.(interface{ CloseWrite() error }); ok {
		return cw.CloseWrite()
	}
	return syscall.ENOTSUP
}

func (c *trackedConn) CloseRead() error {
	if cr, ok := c.Conn.(interface{ CloseRead() error }); ok {
		return cr.CloseRead()
	}
	return syscall.ENOTSUP
}

func (c *trackedConn) Close() error {
	c.once.Do(func() {
		c.rec.emit(map[string]any{"op": "raw_close", "c": c.id})
		close(c.closed)
	})
	return c.Conn.Close()
}

type trackedListener struct {
	net.Listener
	rec   *Recorder
	fault func(id string) (string, int) // optional
	idOf  func(port int) string
	mu    sync.Mutex
	conns []*trackedConn
}

func (l *trackedListener) Accept() (net.Conn, error) {
	c, err := l.Listener.Accept()
	if err != nil {
		return nil, err
	}
	port := c.RemoteAddr().(*net.TCPAddr).Port
	id := l.idOf(port)
	tc := &trackedConn{Conn: c, id: id, rec: l.rec, closed: make(chan struct{})}
	if l.fault != nil {
		op, at := l.fault(id)
		tc.failOp, tc.failAt = op, int32(at)
	}
	l.mu.Lock()
	l.conns = append(l.conns, tc)
	l.mu.Unlock()
	l.rec.emit(map[string]any{"op": "accept", "c": id})
	if ct := l.rec.ctrl; ct != nil {
		ct.park("accept:"+id, "accept") // Accept has returned; the accept loop goes on (and starts the connection goroutine) when the scenario says so
	}
	return tc, nil
}

func (l *trackedListener) Close() error {
	l.rec.emit(map[string]any{"op": "ln_close"})
	return l.Listener.Close()
}

// controller: a cooperative scheduler over the instrumentation points.  While it is on, every goroutine of the proxy that reaches a
// hook parks there until the scenario releases it, so that the order of the proxy's steps - across connection goroutines, the accept
// loop and the shutdown watcher - is chosen by the scenario (guided by a behaviour TLC generated from ProxyServer.tla).
type controller struct {
	mu       sync.Mutex
	parked   map[string]chan struct{}
	at       map[string]string
	arrivals chan string
	off      bool
}

func newController() *controller {
	return &controller{parked: map[string]chan struct{}{}, at: map[string]string{}, arrivals: make(chan string, 1024)}
}

func (c *controller) park(actor, point string) {
	c.mu.Lock()
	if c.off {
		c.mu.Unlock()
		return
	}
	ch := make(chan struct{})
	c.parked[actor], c.at[actor] = ch, point
	c.mu.Unlock()
	select {
	case c.arrivals <- actor:
	default:
	}
	select {
	case <-ch:
	case <-time.After(10 * time.Second): // never leave the proxy hanging on a harness mistake
	}
}

func (c *controller) where(actor string) (string, bool) {
	c.mu.Lock()
	defer c.mu.Unlock()
	p, ok := c.at[actor]
	return p, ok
}

func (c *controller) release(actor string) bool {
	c.mu.Lock()
	ch, ok := c.parked[actor]
	if ok {
		delete(c.parked, actor)
		delete(c.at, actor)
	}
	c.mu.Unlock()
	if ok {
		close(ch)
	}
	return ok
}

func (c *controller) releaseAll() {
	c.mu.Lock()
	c.off = true
	for a, ch := range c.parked {
		close(ch)
		delete(c.parked, a)
		delete(c.at, a)
	}
	c.mu.Unlock()
}

// settle waits until no goroutine has arrived at a hook for `quiet` (at most `max`)
func (c *controller) settle(quiet, max time.Duration) {
	deadline := time.After(max)
	for {
		select {
		case <-c.arrivals:
		case <-time.After(quiet):
			return
		case <-deadline:
			return
		}
	}
}

var rec *Recorder // current scenario's recorder (the hook sink is process-wide)
var recMu sync.RWMutex

func sink(point string, args ...any) {
	recMu.RLock()
	r := rec
	recMu.RUnlock()
	if r == nil {
		return
	}
	cid := ""
	if len(args) > 0 {
		if tc, ok := args[0].(*trackedConn); ok {
			cid = tc.id
		} else if _, isConn := args[0].(net.Conn); isConn {
			return // a connection of the untraced side stack (goroutine census)
		}
	}
	g := goid()
	switch point {
	case "proxyserver.conn.start":
		r.mu.Lock()
		r.byGo[g] = cid
		r.mu.Unlock()
		r.emit(map[string]any{"op": "start", "c": cid})
	case "proxyserver.handshake":
		if args[1] == nil {
			r.emit(map[string]any{"op": "hs_ok", "c": cid})
		} else {
			r.emit(map[string]any{"op": "hs_fail", "c": cid, "err": fmt.Sprint(args[1])})
		}
	case "proxyserver.hello":
		if args[1] == nil {
			r.emit(map[string]any{"op": "hello_ok", "c": cid})
		} else {
			r.emit(map[string]any{"op": "hello_fail", "c": cid, "err": fmt.Sprint(args[1])})
		}
	case "proxyserver.h2.begin":
		r.emit(map[string]any{"op": "h2_begin", "c": cid})
	case "proxyserver.h2.end":
		r.emit(map[string]any{"op": "h2_end", "c": cid})
	case "proxyserver.h1.send":
		r.emit(map[string]any{"op": "h1_send", "c": cid})
		r.gate("h1.send:" + cid)
		r.gate("h1.send:*")
	case "proxyserver.h1.sent":
		r.emit(map[string]any{"op": "h1_sent", "c": cid})
	case "proxyserver.h1.send_aborted":
		r.mu.Lock()
		r.aborted[cid] = true
		r.mu.Unlock()
		r.emit(map[string]any{"op": "h1_send_aborted", "c": cid})
	case "proxyserver.h1.done":
		r.mu.Lock()
		ab := r.aborted[cid]
		r.mu.Unlock()
		if !ab { // after an abandoned hand-off the wait returns at once: the same step of the specification
			r.emit(map[string]any{"op": "h1_done", "c": cid})
		}
	case "proxyserver.counted":
		r.mu.Lock()
		c, known := r.byGo[g]
		r.mu.Unlock()
		if !known {
			return // counted on a goroutine of the untraced side stack
		}
		r.emit(map[string]any{"op": "counted", "c": c, "ok": args[0], "proto": args[1]})
	case "proxyserver.conn.exit":
		r.emit(map[string]any{"op": "exit", "c": cid})
	case "proxyserver.shutdown.begin":
		r.emit(map[string]any{"op": "shutdown_begin"})
	case "proxyserver.shutdown.h1done":
		r.emit(map[string]any{"op": "h1_shutdown_done"})
	case "metadata.marshal.begin", "metadata.marshal.after_settings", "metadata.marshal.after_window_update", "metadata.marshal.after_priorities":
		r.gate(point) // no step of the lifecycle specification: only a place where a handler can be held (family capture-race)
		return
	default:
		return
	}
	if ct := r.ctrl; ct != nil {
		actor := cid
		switch point {
		case "proxyserver.shutdown.begin", "proxyserver.shutdown.h1done":
			actor = "watcher"
		case "proxyserver.counted":
			r.mu.Lock()
			actor = r.byGo[g]
			r.mu.Unlock()
		}
		if actor != "" {
			ct.park(actor, point)
		}
	}
}

// gate blocks the calling goroutine at a hook point until released (used to force an interleaving).
func (r *Recorder) gate(name string) {
	r.mu.Lock()
	g := r.gates[name]
	h := r.hit[name]
	r.mu.Unlock()
	if g == nil {
		return
	}
	select {
	case h <- struct{}{}:
	default:
	}
	<-g
}
func (r *Recorder) arm(name string) (hit chan struct{}, release func()) {
	g := make(chan struct{})
	h := make(chan struct{}, 16)
	r.mu.Lock()
	r.gates[name] = g
	r.hit[name] = h
	r.mu.Unlock()
	var once sync.Once
	return h, func() { once.Do(func() { close(g) }) }
}

// ---------------------------------------------------------------- scenario plumbing

type Scenario struct {
	Name    string
	Family  string
	r       *Recorder
	st      *stack.Stack
	ln      *trackedListener
	kinds   map[string]string
	mu      sync.Mutex
	dialMu  sync.Mutex
	nextID  int
	opts    stack.Options
	served  chan struct{}
	faults  map[string][2]any // conn id -> {op, k}
	Notes   []string
	Latency map[string]float64
}

func (s *Scenario) note(f string, a ...any) { s.Notes = append(s.Notes, fmt.Sprintf(f, a...)) }

func (s *Scenario) register(port int, kind string) string {
	s.mu.Lock()
	defer s.mu.Unlock()
	s.nextID++
	id := fmt.Sprintf("k%d", s.nextID)
	s.kinds[id] = kind
	s.r.mu.Lock()
	s.r.byPort[port] = id
	s.r.mu.Unlock()
	return id
}

func startScenarioCtrl(name, family string, o stack.Options) *Scenario {
	return startScenarioWith(name, family, o, newController())
}

func startScenario(name, family string, o stack.Options) *Scenario {
	return startScenarioWith(name, family, o, nil)
}

func startScenarioWith(name, family string, o stack.Options, ct *controller) *Scenario {
	s := &Scenario{Name: name, Family: family, r: NewRecorder(), kinds: map[string]string{}, opts: o, Latency: map[string]float64{}}
	s.r.ctrl = ct
	recMu.Lock()
	rec = s.r
	recMu.Unlock()
	o.WrapListener = func(l net.Listener) net.Listener {
		s.ln = &trackedListener{Listener: l, rec: s.r, fault: func(id string) (string, int) {
			s.mu.Lock()
			defer s.mu.Unlock()
			if f, ok := s.faults[id]; ok {
				return f[0].(string), f[1].(int)
			}
			return "", 0
		}, idOf: func(port int) string {
			// the client registered its source port before it was allowed to proceed; wait briefly for the registration
			for i := 0; i < 2000; i++ {
				s.r.mu.Lock()
				id := s.r.byPort[port]
				s.r.mu.Unlock()
				if id != "" {
					return id
				}
				time.Sleep(time.Millisecond)
			}
			return "unregistered-" + strconv.Itoa(port)
		}}
		return s.ln
	}
	st, err := stack.Start(o)
	if err != nil {
		panic(err)
	}
	s.st = st
	return s
}

// dial connects with a pre-bound source port so that the accept event can be attributed.
func (s *Scenario) dial(kind string) (net.Conn, string, error) {
	// one at a time: between closing the reservation and connecting from it the kernel may hand the same port to a second reservation
	// (two clients registered under one port: the accepted connection is then attributed to the wrong one)
	s.dialMu.Lock()
	defer s.dialMu.Unlock()
	la, _ := net.ResolveTCPAddr("tcp", "127.0.0.1:0")
	l, err := net.ListenTCP("tcp", la) // reserve a port
	if err != nil {
		return nil, "", err
	}
	port := l.Addr().(*net.TCPAddr).Port
	l.Close()
	id := s.register(port, kind)
	d := net.Dialer{LocalAddr: &net.TCPAddr{IP: net.IPv4(127, 0, 0, 1), Port: port}, Timeout: 3 * time.Second}
	c, err := d.Dial("tcp", s.st.Addr)
	if err != nil {
		s.mu.Lock()
		delete(s.kinds, id)
		s.mu.Unlock()
		return nil, id, err
	}
	return c, id, nil
}

func tlsClient(c net.Conn, alpn []string) (*tls.Conn, error) {
	tc := tls.Client(c, &tls.Config{InsecureSkipVerify: true, ServerName: "vf.test", NextProtos: alpn})
	c.SetDeadline(time.Now().Add(8 * time.Second))
	err := tc.Handshake()
	c.SetDeadline(time.Time{})
	return tc, err
}

// client scripts -------------------------------------------------------------------------------------------

type clientOpts struct {
	requests int
	halfPost bool          // HTTP/2: after the requests, begin an upload without content-length and fall silent
	hold     chan struct{} // if set: keep the connection open (idle) until closed
	abortAt  int           // >0: close the TCP connection after this many bytes of the session were written
	reset    bool          // leave with a TCP reset (SO_LINGER 0) and without close_notify instead of an orderly close
	partial  bool          // before leaving, send the first half of one more request (the server is mid-read when the client goes)
	unread   bool          // before leaving, send one more complete request and do not read its response
	deadline time.Duration // overall deadline of the session (default 15s)
	h2cancel bool          // HTTP/2: after the requests, open one more stream and cancel it with RST_STREAM
	pending  string        // method of one more complete request, sent to a backend that does not answer; the client leaves 150 ms later
	trickle  bool          // kind stall: half of a real ClientHello at once, then one octet every 70 ms - never silent, never complete
}

// realHello returns the first flight of a crypto/tls client (one ClientHello record)
func realHello() []byte {
	c1, c2 := net.Pipe()
	defer c1.Close()
	defer c2.Close()
	go tls.Client(c1, &tls.Config{InsecureSkipVerify: true, ServerName: "trickle.example"}).Handshake()
	buf := make([]byte, 8192)
	c2.SetReadDeadline(time.Now().Add(2 * time.Second))
	n, _ := c2.Read(buf)
	return buf[:n]
}

func rstClose(c net.Conn) {
	if t, ok := c.(*net.TCPConn); ok {
		t.SetLinger(0)
	}
	c.Close()
}

type cutConn struct {
	net.Conn
	left  int
	reset bool
}

func (c *cutConn) cut() {
	if c.reset {
		rstClose(c.Conn)
	} else {
		c.Conn.Close()
	}
}

func (c *cutConn) Write(p []byte) (int, error) {
	if c.left <= 0 {
		c.cut()
		return 0, io.ErrClosedPipe
	}
	if len(p) > c.left {
		n, _ := c.Conn.Write(p[:c.left])
		c.left = 0
		c.cut()
		return n, io.ErrClosedPipe
	}
	c.left -= len(p)
	return c.Conn.Write(p)
}

func (s *Scenario) client(kind string, o clientOpts) (id string, err error) {
	raw, id, err := s.dial(kind)
	if err != nil {
		return id, err
	}
	return s.run(kind, raw, id, o)
}

// session runs an ordinary n-request session on an already dialled connection and tolerates every failure
func (s *Scenario) session(kind string, raw net.Conn, n int) {
	s.run(kind, raw, "x", clientOpts{requests: n, deadline: 5 * time.Second})
}

func (s *Scenario) run(kind string, raw net.Conn, id string, o clientOpts) (string, error) {
	var err error
	if o.reset {
		defer rstClose(raw)
	} else {
		defer raw.Close()
	}
	var c net.Conn = raw
	if o.abortAt > 0 {
		c = &cutConn{Conn: raw, left: o.abortAt, reset: o.reset}
	}
	switch kind {
	case "stall":
		if o.trickle {
			// the handshake timeout bounds the whole handshake, not the gaps between the client's octets
			if h := realHello(); len(h) > 160 {
				c.Write(h[:len(h)/2])
			trickle:
				for i := 0; i < 70 && len(h)/2+i+1 < len(h)-1; i++ {
					if o.hold != nil {
						select {
						case <-o.hold:
							break trickle
						case <-time.After(70 * time.Millisecond):
						}
					} else {
						time.Sleep(70 * time.Millisecond)
					}
					if _, err := c.Write(h[len(h)/2+i : len(h)/2+i+1]); err != nil {
						break
					}
				}
			}
		}
		if o.hold != nil {
			<-o.hold
		} else {
			// wait until the server cuts us
			raw.SetReadDeadline(time.Now().Add(10 * time.Second))
			io.Copy(io.Discard, raw)
		}
		return id, nil
	case "garbage":
		b := make([]byte, 40)
		rand.Read(b)
		b[0] = 0x17
		c.Write(b)
		if o.hold != nil {
			<-o.hold // stays connected without reading or closing
			return id, nil
		}
		raw.SetReadDeadline(time.Now().Add(3 * time.Second))
		io.Copy(io.Discard, raw)
		return id, nil
	case "plainhttp":
		io.WriteString(c, "GET / HTTP/1.1\r\nHost: x\r\n\r\n")
		if o.hold != nil {
			<-o.hold
			return id, nil
		}
		raw.SetReadDeadline(time.Now().Add(3 * time.Second))
		io.Copy(io.Discard, raw)
		return id, nil
	}
	alpn := map[string][]string{"h2": {"h2"}, "h1": {"http/1.1"}, "noalpn": nil}[kind]
	tc, err := tlsClient(c, alpn)
	if err != nil {
		return id, err
	}
	if !o.reset {
		defer tc.Close()
	}
	if o.deadline == 0 {
		o.deadline = 15 * time.Second
	}
	tc.SetDeadline(time.Now().Add(o.deadline))
	if kind == "h2" {
		tc.Write([]byte(h2raw.Preface))
		tc.Write(h2raw.Settings())
		hc := h2raw.NewConn(tc)
		for i := 0; i < o.requests; i++ {
			sid := uint32(1 + 2*i)
			blk := h2raw.Block([]h2raw.HF{{":method", "GET"}, {":scheme", "https"}, {":authority", "vf.test"}, {":path", "/" + id}, {"x-vf-tag", id}})
			tc.Write(h2raw.Headers(sid, true, blk, nil, 0))
			if err := hc.WaitStreams(sid); err != nil {
				return id, err
			}
		}
		if o.halfPost {
			// an upload of undeclared length that stops after its first DATA frame: the handler is reading, nothing more comes
			sid := uint32(1 + 2*o.requests)
			blk := h2raw.Block([]h2raw.HF{{":method", "POST"}, {":scheme", "https"}, {":authority", "vf.test"}, {":path", "/" + id}, {"x-vf-tag", id}})
			tc.Write(h2raw.Headers(sid, false, blk, nil, 0))
			tc.Write(h2raw.Data(sid, false, []byte("abc"), -1))
		}
		if o.h2cancel {
			sid := uint32(1 + 2*o.requests)
			blk := h2raw.Block([]h2raw.HF{{":method", "POST"}, {":scheme", "https"}, {":authority", "vf.test"}, {":path", "/" + id}, {"x-vf-tag", id}})
			tc.Write(h2raw.Headers(sid, false, blk, nil, 0))
			time.Sleep(20 * time.Millisecond)
			tc.Write(h2raw.RST(sid, 8))
		}
	} else {
		br := newBR(tc)
		for i := 0; i < o.requests; i++ {
			if _, err := io.WriteString(tc, "GET /"+id+" HTTP/1.1\r\nHost: vf.test\r\nX-Vf-Tag: "+id+"\r\n\r\n"); err != nil {
				return id, err
			}
			resp, err := http.ReadResponse(br, nil)
			if err != nil {
				return id, err
			}
			io.Copy(io.Discard, resp.Body)
			resp.Body.Close()
		}
	}
	if o.hold != nil {
		tc.SetDeadline(time.Time{})
		<-o.hold
	}
	if o.pending != "" {
		if kind == "h2" {
			sid := uint32(1 + 2*o.requests)
			blk := h2raw.Block([]h2raw.HF{{":method", o.pending}, {":scheme", "https"}, {":authority", "vf.test"}, {":path", "/hang-" + id}, {"x-vf-tag", id}, {"x-vf-hang", "1"}})
			if o.pending == "GET" {
				tc.Write(h2raw.Headers(sid, true, blk, nil, 0))
			} else {
				tc.Write(h2raw.Headers(sid, false, blk, nil, 0))
				tc.Write(h2raw.Data(sid, true, []byte("abc"), -1))
			}
		} else if o.pending == "GET" {
			io.WriteString(tc, "GET /hang-"+id+" HTTP/1.1\r\nHost: vf.test\r\nX-Vf-Hang: 1\r\nX-Vf-Tag: "+id+"\r\n\r\n")
		} else {
			io.WriteString(tc, o.pending+" /hang-"+id+" HTTP/1.1\r\nHost: vf.test\r\nX-Vf-Hang: 1\r\nContent-Length: 3\r\nX-Vf-Tag: "+id+"\r\n\r\nabc")
		}
		time.Sleep(150 * time.Millisecond) // the request has been forwarded in full, the backend is thinking
	}
	if o.partial || o.unread {
		if kind == "h2" {
			sid := uint32(1 + 2*o.requests)
			blk := h2raw.Block([]h2raw.HF{{":method", "POST"}, {":scheme", "https"}, {":authority", "vf.test"}, {":path", "/" + id}, {"x-vf-tag", id}})
			tc.Write(h2raw.Headers(sid, o.unread, blk, nil, 0)) // partial: the request body never comes
		} else if o.partial {
			io.WriteString(tc, "POST /"+id+" HTTP/1.1\r\nHost: vf.test\r\nContent-Length: 100\r\nX-Vf-Tag: "+id+"\r\n\r\nhalf")
		} else {
			io.WriteString(tc, "GET /"+id+" HTTP/1.1\r\nHost: vf.test\r\nX-Vf-Tag: "+id+"\r\n\r\n")
		}
		time.Sleep(30 * time.Millisecond) // let the server get there
	}
	return id, nil
}

// waitExited waits until every accepted connection logged its exit (or the timeout passes).
func (s *Scenario) waitExited(timeout time.Duration) bool {
	deadline := time.Now().Add(timeout)
	for time.Now().Before(deadline) {
		s.r.mu.Lock()
		acc, ex := 0, 0
		for _, e := range s.r.events {
			switch e["op"] {
			case "accept":
				acc++
			case "exit":
				ex++
			}
		}
		s.r.mu.Unlock()
		if acc == ex {
			return true
		}
		time.Sleep(5 * time.Millisecond)
	}
	return false
}

// finish cancels the server (if not yet), waits for Serve to return and writes the scenario to the trace.
func (s *Scenario) finish(enc *json.Encoder, cancelled bool) map[string]any {
	if !cancelled {
		s.r.emit(map[string]any{"op": "cancel"})
		s.st.Cancel()
	}
	var serr error
	select {
	case serr = <-s.st.ServeErr:
		s.r.emit(map[string]any{"op": "serve_return", "err": errName(serr)})
	case <-time.After(12 * time.Second):
		s.note("Serve did not return within 12s after cancel")
	}
	r := s.finishCommon(enc)
	r["serve_err"] = errName(serr)
	return r
}

func labels(m *dto.Metric) string {
	ok, proto := "", ""
	for _, l := range m.Label {
		if l.GetName() == "ok" {
			ok = l.GetValue()
		}
		if l.GetName() == "negotiated_protocol" {
			proto = l.GetValue()
		}
	}
	return fmt.Sprintf("ok=%s,proto=%s", ok, proto)
}

func errName(err error) string {
	switch {
	case err == nil:
		return "nil"
	case errors.Is(err, http.ErrServerClosed):
		return "ErrServerClosed"
	}
	return "accept error"
}

var _ = prometheus.NewRegistry
var _ = proxyserver.NewServer
var _ = bytes.NewReader
var _ = context.Background
var _ = exec.Command

func main() {
	verifhook.Sink = sink
	switch os.Args[1] {
	case "run":
		runAll(os.Args[2], os.Args[3])
	case "panicchild":
		panicChild(os.Args[2])
	}
}

func h2get(cl *stack.Client) (int, error) {
	cl.Conn.Write([]byte(h2raw.Preface))
	cl.Conn.Write(h2raw.Settings())
	hc := h2raw.NewConn(cl.Conn)
	blk := h2raw.Block([]h2raw.HF{{":method", "GET"}, {":scheme", "https"}, {":authority", "vf.test"}, {":path", "/x"}})
	cl.Conn.Write(h2raw.Headers(1, true, blk, nil, 0))
	if err := hc.WaitStreams(1); err != nil {
		return 0, err
	}
	n, _ := strconv.Atoi(hc.Resp[1].Status)
	return n, nil
}
