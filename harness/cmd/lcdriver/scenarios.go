package main

import (
	"bufio"
	"crypto/tls"
	"encoding/json"
	"fmt"
	"io"
	"math/rand"
	"net"
	"net/http"
	"os"
	"os/exec"
	"runtime"
	"strconv"
	"strings"
	"sync"
	"sync/atomic"
	"time"

	"github.com/wi1dcard/fingerproxy/pkg/proxyserver"
	"verifharness/h2raw"
	"verifharness/stack"
)

func newBR(r io.Reader) *bufio.Reader { return bufio.NewReader(r) }

// ---------------------------------------------------------------- family L: mixed outcomes, all finishing in arbitrary order

func scenarioMix(enc *json.Encoder, idx int, rng *rand.Rand, n int) map[string]any {
	s := startScenario(fmt.Sprintf("mix-%d", idx), "mix", stack.Options{HandshakeTimeout: 300 * time.Millisecond, IdleTimeout: 400 * time.Millisecond})
	kinds := []string{"h2", "h1", "noalpn", "plainhttp", "garbage", "stall", "h2", "h1"}
	var wg sync.WaitGroup
	for i := 0; i < n; i++ {
		k := kinds[rng.Intn(len(kinds))]
		o := clientOpts{requests: 1 + rng.Intn(3)}
		if rng.Intn(4) == 0 && (k == "h2" || k == "h1" || k == "noalpn") {
			o.abortAt = 1 + rng.Intn(1200) // client disconnects somewhere inside the handshake or the HTTP traffic
		}
		if rng.Intn(5) == 0 {
			o.requests = 0 // handshake only, then close
		}
		o.reset = rng.Intn(3) == 0 // every third client leaves with a TCP reset instead of close_notify + FIN
		if o.abortAt == 0 && rng.Intn(4) == 0 {
			o.partial, o.unread = rng.Intn(2) == 0, rng.Intn(2) == 0
		}
		wg.Add(1)
		go func() {
			defer wg.Done()
			s.client(k, o)
		}()
		if rng.Intn(3) == 0 {
			time.Sleep(time.Duration(rng.Intn(5)) * time.Millisecond)
		}
	}
	wg.Wait()
	if !s.waitExited(6 * time.Second) {
		s.note("connections still open 6s after all clients left")
	}
	return s.finish(enc, false)
}

// ---------------------------------------------------------------- family B: a burst of failing handshakes (C16 C11)

// ninety clients within a few milliseconds whose first bytes are no TLS, next to a few ordinary ones: whatever the proxy does to protect
// its log from such a burst, every one of these connections was accepted, and is counted and released like any other
func scenarioBurst(enc *json.Encoder, idx int) map[string]any {
	s := startScenario(fmt.Sprintf("burst-%d", idx), "burst", stack.Options{HandshakeTimeout: 300 * time.Millisecond, IdleTimeout: 400 * time.Millisecond})
	var wg sync.WaitGroup
	for i := 0; i < 96; i++ {
		k := []string{"garbage", "plainhttp", "garbage", "garbage", "plainhttp", "garbage", "garbage", "h1"}[i%8]
		if i%32 == 31 {
			k = "h2"
		}
		wg.Add(1)
		go func() {
			defer wg.Done()
			s.client(k, clientOpts{requests: 1})
		}()
	}
	wg.Wait()
	if !s.waitExited(6 * time.Second) {
		s.note("connections still open 6s after all clients left")
	}
	return s.finish(enc, false)
}

// ---------------------------------------------------------------- family P: the client leaves while the backend has not answered (C11)

// a complete request - with and without a body, every kind of method - is with a backend that does not answer; the client goes away.
// Nothing of that connection may stay behind in the proxy: not the accepted connection, not the goroutines serving it.
func scenarioBackendPending(enc *json.Encoder, idx int) map[string]any {
	release := make(chan struct{})
	s := startScenario(fmt.Sprintf("pending-%d", idx), "pending", stack.Options{HandshakeTimeout: 300 * time.Millisecond, IdleTimeout: 400 * time.Millisecond,
		Respond: func(w http.ResponseWriter, r *http.Request, rec *stack.BackendReq) {
			if r.Header.Get("X-Vf-Hang") != "" {
				select {
				case <-release:
				case <-r.Context().Done(): // the proxy gave the outbound request up
				}
				return
			}
			w.WriteHeader(200)
			io.WriteString(w, "backend-ok")
		}})
	var wg sync.WaitGroup
	for _, k := range []string{"h1", "h2", "noalpn"} {
		for _, m := range []string{"GET", "POST", "DELETE", "PUT"} {
			for _, reset := range []bool{false, true} {
				k, m, reset := k, m, reset
				wg.Add(1)
				go func() {
					defer wg.Done()
					s.client(k, clientOpts{requests: 1, pending: m, reset: reset})
				}()
			}
		}
	}
	wg.Wait()
	var stuck []string
	if !s.waitExited(6 * time.Second) {
		s.note("connections still open 6s after all clients left")
		s.r.mu.Lock()
		exited := map[string]bool{}
		for _, e := range s.r.events {
			if e["op"] == "exit" {
				exited[e["c"].(string)] = true
			}
		}
		for _, e := range s.r.events {
			if e["op"] == "accept" && !exited[e["c"].(string)] {
				stuck = append(stuck, e["c"].(string))
			}
		}
		s.r.mu.Unlock()
		s.mu.Lock()
		for i, id := range stuck {
			stuck[i] = id + ":" + s.kinds[id]
		}
		s.mu.Unlock()
	}
	close(release)
	res := s.finish(enc, false)
	res["still_served_6s_after_the_client_left"] = stuck
	return res
}

// ---------------------------------------------------------------- family L: one Server, two listeners (C17)

// The same Server serves two listeners (Serve called twice - a public and an internal port, say).  An HTTP/1.1 exchange that came in
// through the first one is in flight when the context is cancelled: NEITHER call may return before it has drained - "Serve returned"
// is what the embedding program takes as "safe to exit".  The scenario is observed from outside only (its hook events go to a recorder
// of its own that is not written to the trace: ProxyServer.tla models one Serve call).
func scenarioTwoListeners(idx int) map[string]any {
	res := map[string]any{"name": fmt.Sprintf("shutdown-two-listeners-%d", idx), "family": "twolisten", "variant": "two_listeners", "conns": 0, "notes": []string{}}
	recMu.Lock()
	rec = NewRecorder()
	recMu.Unlock()
	release := make(chan struct{})
	arrived := make(chan struct{}, 4)
	wrap := func(srv *proxyserver.Server) {
		inner := srv.HTTPServer.Handler
		srv.HTTPServer.Handler = http.HandlerFunc(func(w http.ResponseWriter, r *http.Request) {
			if strings.HasPrefix(r.URL.Path, "/slow") {
				arrived <- struct{}{}
				<-release
				w.Header().Set("X-Slow", "done")
				io.WriteString(w, "slow-response-body")
				return
			}
			inner.ServeHTTP(w, r)
		})
	}
	st, err := stack.Start(stack.Options{HandshakeTimeout: 5 * time.Second, MutateServer: wrap})
	if err != nil {
		res["error"] = "start: " + err.Error()
		return res
	}
	ln2, err := net.Listen("tcp", "127.0.0.1:0")
	if err != nil {
		res["error"] = "listen: " + err.Error()
		st.Close()
		return res
	}
	serr2 := make(chan error, 1)
	go func() { serr2 <- st.Server.Serve(ln2) }()
	time.Sleep(50 * time.Millisecond)
	slowDone := make(chan string, 1)
	go func() {
		raw, err := net.DialTimeout("tcp", st.Addr, 3*time.Second)
		if err != nil {
			slowDone <- "dial: " + err.Error()
			return
		}
		defer raw.Close()
		tc, err := tlsClient(raw, []string{"http/1.1"})
		if err != nil {
			slowDone <- "handshake: " + err.Error()
			return
		}
		tc.SetDeadline(time.Now().Add(20 * time.Second))
		io.WriteString(tc, "GET /slow HTTP/1.1\r\nHost: vf.test\r\n\r\n")
		resp, err := http.ReadResponse(bufio.NewReader(tc), nil)
		if err != nil {
			slowDone <- "response: " + err.Error()
			return
		}
		b, _ := io.ReadAll(resp.Body)
		slowDone <- fmt.Sprintf("%d %s %s", resp.StatusCode, resp.Header.Get("X-Slow"), b)
	}()
	select {
	case <-arrived:
	case <-time.After(5 * time.Second):
		res["error"] = "the slow request never reached the handler"
		close(release)
		st.Close()
		return res
	}
	st.Cancel()
	time.Sleep(400 * time.Millisecond) // both watchers have been told; the exchange is still held
	var early []string
	var e1, e2 error
	got1, got2 := false, false
	select {
	case e1 = <-st.ServeErr:
		got1 = true
		early = append(early, "listener 1 (the one the exchange came in through): "+errName(e1))
	default:
	}
	select {
	case e2 = <-serr2:
		got2 = true
		early = append(early, "listener 2: "+errName(e2))
	default:
	}
	res["returned_before_drain_list"] = early
	close(release)
	select {
	case r := <-slowDone:
		res["slow_exchange"] = r
	case <-time.After(8 * time.Second):
		res["slow_exchange"] = "no response"
	}
	deadline := time.After(10 * time.Second)
	for !(got1 && got2) {
		select {
		case e1 = <-st.ServeErr:
			got1 = true
		case e2 = <-serr2:
			got2 = true
		case <-deadline:
			res["not_returned_10s_after_drain"] = fmt.Sprintf("listener1 returned=%v listener2 returned=%v", got1, got2)
			got1, got2 = true, true
		}
	}
	if got1 {
		st.ServeErr <- e1 // Close() below reads it
	}
	st.Close()
	return res
}

// ---------------------------------------------------------------- family R: every way of leaving, one connection kind x stage x manner each (C11)

func scenarioLeave(enc *json.Encoder, idx int, reset bool) map[string]any {
	name := map[bool]string{false: "close", true: "reset"}[reset]
	s := startScenario(fmt.Sprintf("leave-%s-%d", name, idx), "leave", stack.Options{HandshakeTimeout: 2 * time.Second, IdleTimeout: 30 * time.Second})
	var wg sync.WaitGroup
	for _, k := range []string{"h1", "noalpn", "h2"} {
		for _, o := range []clientOpts{{requests: 0}, {requests: 1}, {requests: 2}, {requests: 1, partial: true}, {requests: 1, unread: true}, {requests: 0, partial: true}} {
			k, o := k, o
			o.reset = reset
			wg.Add(1)
			go func() {
				defer wg.Done()
				s.client(k, o)
			}()
		}
	}
	wg.Wait()
	// nothing but the client's departure can release these connections (timeouts are far away)
	if !s.waitExited(5 * time.Second) {
		s.note("connections still open 5s after every client left by " + name)
	}
	return s.finish(enc, false)
}

// capture-race: the handler of a request is held at a point of the fingerprint computation while the same client sends frames the
// connection records (PRIORITY, WINDOW_UPDATE, SETTINGS, a second request); then it is let go.  Whatever the two sides do about
// their shared data, both requests are answered and, once the client has left, the connection is released like any other.
func scenarioCaptureRace(enc *json.Encoder, idx int, point string) map[string]any {
	s := startScenario(fmt.Sprintf("leave-capture-race-%s-%d", strings.TrimPrefix(point, "metadata.marshal."), idx), "leave", stack.Options{HandshakeTimeout: 2 * time.Second, IdleTimeout: 30 * time.Second})
	hit, release := s.r.arm(point)
	defer release()
	raw, id, err := s.dial("h2")
	if err != nil {
		s.note("dial: %v", err)
		return s.finish(enc, false)
	}
	tc, err := tlsClient(raw, []string{"h2"})
	if err != nil {
		raw.Close()
		s.note("handshake: %v", err)
		return s.finish(enc, false)
	}
	tc.SetDeadline(time.Now().Add(15 * time.Second))
	tc.Write([]byte(h2raw.Preface))
	tc.Write(h2raw.Settings())
	hc := h2raw.NewConn(tc)
	req := func(sid uint32, pr *h2raw.Prio) {
		blk := h2raw.Block([]h2raw.HF{{":method", "GET"}, {":scheme", "https"}, {":authority", "vf.test"}, {":path", "/" + id}, {"x-vf-tag", id}})
		tc.Write(h2raw.Headers(sid, true, blk, pr, 0))
	}
	req(1, nil)
	select {
	case <-hit:
	case <-time.After(3 * time.Second):
		s.note("the handler of the first request never reached %s", point)
	}
	// from here on later computations pass the point freely
	s.r.mu.Lock()
	delete(s.r.gates, point)
	s.r.mu.Unlock()
	tc.Write(h2raw.Priority(5, h2raw.Prio{Dep: 0, Weight: 33}))
	tc.Write(h2raw.WindowUpdate(0, 4096))
	tc.Write(h2raw.Settings(h2raw.Setting{ID: 3, Val: 77}))
	req(3, &h2raw.Prio{Dep: 1, Weight: 9})
	time.Sleep(40 * time.Millisecond) // the serve goroutine has met the held reader by now, one way or the other
	release()
	done := make(chan error, 1)
	go func() { done <- hc.WaitStreams(1, 3) }()
	select {
	case err := <-done:
		if err != nil {
			s.note("control: requests not answered after frames arrived during the fingerprint computation (held at %s): %v", point, err)
		}
	case <-time.After(4 * time.Second):
		s.note("control: requests not answered within 4s after frames arrived during the fingerprint computation (held at %s)", point)
	}
	tc.Close()
	raw.Close()
	if !s.waitExited(4 * time.Second) {
		s.note("connection %s never logged exit: still held 4s after the client left (frames had arrived during a fingerprint computation held at %s)", id, point)
	}
	return s.finish(enc, false)
}

// ---------------------------------------------------------------- family F: server-side I/O errors at every operation index (C10, C11, C16)

// The k-th Read (or Write) the server performs on the accepted connection fails like a reset connection, for k = from..to, on every
// connection kind; the clients run an ordinary two-request session and put up with whatever happens.  Every connection must still be
// released and counted exactly once, and a connection without a fault must be served afterwards.
func scenarioIOFault(enc *json.Encoder, idx int, op string, from, to int) map[string]any {
	s := startScenario(fmt.Sprintf("iofault-%s-%d-%d", op, from, idx), "iofault", stack.Options{HandshakeTimeout: 2 * time.Second, IdleTimeout: 2 * time.Second})
	s.faults = map[string][2]any{}
	var wg sync.WaitGroup
	for k := from; k <= to; k++ {
		for _, kind := range []string{"h1", "h2", "noalpn"} {
			raw, id, err := s.dial(kind)
			if err != nil {
				continue
			}
			// the fault plan is keyed by the id, which the listener learns at Accept: register before any byte is written
			s.mu.Lock()
			s.faults[id] = [2]any{op, k}
			s.mu.Unlock()
			wg.Add(1)
			go func(kind string, raw net.Conn) {
				defer wg.Done()
				s.session(kind, raw, 2)
			}(kind, raw)
		}
	}
	wg.Wait()
	if !s.waitExited(6 * time.Second) {
		s.note("connections still open 6s after every client of the I/O fault scenario left")
	}
	// control: no fault
	for _, kind := range []string{"h1", "h2"} {
		if _, err := s.client(kind, clientOpts{requests: 1}); err != nil {
			s.note("control %s request after the faults failed: %v", kind, err)
		}
	}
	s.waitExited(3 * time.Second)
	return s.finish(enc, false)
}

// ---------------------------------------------------------------- family G: behaviours generated by TLC, replayed as schedules

type schedule struct {
	Kinds map[string]string `json:"kinds"`
	Steps [][]any           `json:"steps"` // [action, conn or nil]
}

// order of a connection's hooks / of the specification's per-connection actions
var hookRank = map[string]int{"accept": 0, "proxyserver.conn.start": 1, "proxyserver.handshake": 2, "proxyserver.hello": 3, "proxyserver.h2.begin": 4, "proxyserver.h1.send": 4,
	"proxyserver.h2.end": 5, "proxyserver.h1.sent": 5, "proxyserver.h1.send_aborted": 5, "proxyserver.h1.done": 6, "proxyserver.counted": 7, "proxyserver.conn.exit": 8}
var actionRank = map[string]int{"Accept": 0, "Start": 1, "HsOK": 2, "HsFail": 2, "HelloOK": 3, "H2Begin": 4, "H1Send": 4, "H2End": 5, "H1Sent": 5, "H1SendAborted": 5, "H1Done": 6, "Counted": 7, "Exit": 8}

// scenarioSched drives the real server through one behaviour of ProxyServer.tla: client arrivals, departures and the cancellation
// happen where the behaviour has them, and each goroutine of the proxy advances one instrumentation point at a time, in the
// behaviour's order as far as the implementation offers the step (a step the implementation does not offer is skipped: the recorded
// trace, not the schedule, is what gets validated).
func scenarioSched(enc *json.Encoder, idx int, sc schedule) map[string]any {
	s := startScenarioCtrl(fmt.Sprintf("sched-%d", idx), "sched", stack.Options{HandshakeTimeout: 3 * time.Second})
	ct := s.r.ctrl
	ids := map[string]string{} // specification connection -> harness connection id
	raws := map[string]net.Conn{}
	holds := map[string]chan struct{}{}
	leave := func(conn string) {
		if h := holds[conn]; h != nil {
			close(h)
			delete(holds, conn)
		}
		if raw := raws[conn]; raw != nil {
			raw.Close()
		}
	}
	var wg sync.WaitGroup
	followed, skipped := 0, 0
	cancelled := false
	for _, st := range sc.Steps {
		action, _ := st[0].(string)
		conn, _ := st[1].(string)
		ct.settle(3*time.Millisecond, 400*time.Millisecond)
		switch action {
		case "ClientConnect":
			kind := sc.Kinds[conn]
			raw, id, err := s.dial(kind)
			if err != nil {
				skipped++ // listener already closed
				continue
			}
			hold := make(chan struct{})
			ids[conn], raws[conn], holds[conn] = id, raw, hold
			wg.Add(1)
			go func() {
				defer wg.Done()
				s.run(kind, raw, id, clientOpts{requests: 1, hold: hold, deadline: 6 * time.Second})
			}()
			followed++
		case "ClientGone":
			if raws[conn] != nil {
				leave(conn)
				followed++
			} else {
				skipped++
			}
		case "Cancel":
			if !cancelled {
				cancelled = true
				s.r.emit(map[string]any{"op": "cancel"})
				s.st.Cancel()
				followed++
			}
		case "ShutdownBegin": // the watcher reaches its first hook on its own once cancelled
			followed++
		case "H1ShutdownDone", "LnClose":
			if ct.release("watcher") {
				followed++
			} else {
				skipped++
			}
		case "RawClose", "ServeReturn":
		default:
			id := ids[conn]
			want, known := actionRank[action]
			if id == "" || !known {
				skipped++
				continue
			}
			moved := false
			for try := 0; try < 3; try++ {
				actor := id
				at, parked := ct.where(actor)
				if !parked {
					actor = "accept:" + id // the accept loop still holds the connection
					at, parked = ct.where(actor)
				}
				if !parked {
					break // running (or blocked in I/O), or not there yet: nothing to release
				}
				if hookRank[at] >= want {
					moved = true // the implementation is already there
					break
				}
				ct.release(actor)
				moved = true
				ct.settle(3*time.Millisecond, 400*time.Millisecond)
			}
			if moved {
				followed++
			} else {
				skipped++
			}
		}
	}
	// the behaviour is over: everything runs freely to the end
	ct.releaseAll()
	for conn := range raws {
		leave(conn)
	}
	wg.Wait()
	s.waitExited(4 * time.Second)
	res := s.finish(enc, cancelled)
	res["schedule_steps"], res["followed"], res["skipped"] = len(sc.Steps), followed, skipped
	return res
}

// ---------------------------------------------------------------- family T: timeouts (C11)

func scenarioTimeouts(enc *json.Encoder, idx int) map[string]any {
	s := startScenario(fmt.Sprintf("timeouts-%d", idx), "timeouts", stack.Options{HandshakeTimeout: 200 * time.Millisecond, IdleTimeout: 300 * time.Millisecond, ReadTimeout: 300 * time.Millisecond})
	hold := make(chan struct{})
	var wg sync.WaitGroup
	start := time.Now()
	type holder struct {
		kind string
		o    clientOpts
	}
	holders := []holder{{"stall", clientOpts{requests: 1}}, {"stall", clientOpts{trickle: true}}, {"h1", clientOpts{requests: 1}}, {"h2", clientOpts{requests: 1}}, {"noalpn", clientOpts{requests: 1}},
		// served requests, then one the client cancels (RST_STREAM), then silence: idle after serving a request all the same.
		// (connections that never had a request served are not promised an idle cut by the statement: net/http applies
		// IdleTimeout only between requests, the first one is under ReadTimeout)
		{"h2", clientOpts{requests: 2, h2cancel: true}},
		{"h2", clientOpts{requests: 1, h2cancel: true}},
		// first bytes that are no TLS at all - a plain HTTP request (answered with 400 by the handshake code), random bytes - from
		// clients that stay connected afterwards: whatever the proxy answers, it is the proxy that has to let go
		{"plainhttp", clientOpts{}}, {"garbage", clientOpts{}},
		// a request body that stops half-way (no content-length): the read timeout ends the stream, after which the connection is idle
		{"h2", clientOpts{requests: 1, halfPost: true}}}
	httpHolders := 0
	for _, h := range holders {
		if h.kind == "h1" || h.kind == "h2" || h.kind == "noalpn" {
			httpHolders++
		}
	}
	for _, h := range holders {
		h := h
		h.o.hold = hold
		wg.Add(1)
		go func() {
			defer wg.Done()
			s.client(h.kind, h.o)
		}()
	}
	// the proxy must cut the stalled handshake and the idle connections on its own: clients keep their side open
	for i := 0; i < 400 && s.countOp("h2_begin")+s.countOp("h1_sent") < httpHolders; i++ {
		time.Sleep(5 * time.Millisecond) // until the HTTP connections are being served
	}
	time.Sleep(100 * time.Millisecond)   // requests done; the connections are idle from here on
	cut := s.waitExited(4 * time.Second) // >= 10x the configured timeouts
	s.Latency["all_cut_after_s"] = time.Since(start).Seconds()
	if !cut {
		s.note("stalled/idle connections still open after 4s (handshake timeout 200ms, idle timeout 300ms)")
	}
	res := s.finishHolding(enc, hold, &wg)
	return res
}

func (s *Scenario) finishHolding(enc *json.Encoder, hold chan struct{}, wg *sync.WaitGroup) map[string]any {
	// record which connections the proxy had NOT closed while the clients were still holding them
	s.r.mu.Lock()
	closed := map[string]bool{}
	for _, e := range s.r.events {
		if e["op"] == "raw_close" {
			closed[e["c"].(string)] = true
		}
	}
	s.r.mu.Unlock()
	var open []string
	s.mu.Lock()
	for id, k := range s.kinds {
		if !closed[id] {
			open = append(open, id+":"+k)
		}
	}
	s.mu.Unlock()
	close(hold)
	wg.Wait()
	s.waitExited(3 * time.Second)
	res := s.finish(enc, false)
	res["not_cut_by_proxy"] = open
	return res
}

// ---------------------------------------------------------------- family S: shutdown (C17)

func scenarioShutdown(enc *json.Encoder, idx int, variant string) map[string]any {
	if variant == "active" {
		return scenarioShutdownActive(enc, idx)
	}
	s := startScenario(fmt.Sprintf("shutdown-%s-%d", variant, idx), "shutdown", stack.Options{HandshakeTimeout: 5 * time.Second})
	hold := make(chan struct{})
	var wg sync.WaitGroup
	add := func(kind string, req int) {
		wg.Add(1)
		go func() {
			defer wg.Done()
			s.client(kind, clientOpts{requests: req, hold: hold})
		}()
	}
	gateRelease := func() {}
	switch variant {
	case "none":
	case "early": // cancel before the first accept
	case "idle":
		add("h1", 1)
		add("h2", 1)
		add("noalpn", 1)
	case "handshaking":
		add("stall", 0)
		add("stall", 0)
	case "mixed":
		add("h1", 2)
		add("h2", 2)
		add("stall", 0)
	case "handoff": // cancel exactly between the handshake and the hand-off to the internal server (TLC's D8 schedule)
		hit, rel := s.r.arm("h1.send:*")
		gateRelease = rel
		add("h1", 1)
		select {
		case <-hit:
		case <-time.After(3 * time.Second):
			s.note("gate h1.send never reached")
		}
	}
	if variant != "early" && variant != "handoff" {
		time.Sleep(150 * time.Millisecond) // let the connections reach their state
	}
	t0 := time.Now()
	s.r.emit(map[string]any{"op": "cancel"})
	s.st.Cancel()
	if variant == "handoff" {
		// wait until the watcher has shut the internal server down, then let the connection goroutine continue
		time.Sleep(200 * time.Millisecond)
		gateRelease()
	}
	if variant == "repeat" {
		s.st.Cancel()
	}
	var serr error
	returned := false
	select {
	case serr = <-s.st.ServeErr:
		returned = true
		s.Latency["serve_return_s"] = time.Since(t0).Seconds()
		s.r.emit(map[string]any{"op": "serve_return", "err": errName(serr)})
	case <-time.After(10 * time.Second):
		s.note("Serve did not return within 10s of cancel although no HTTP/1.1 exchange was in flight")
	}
	// a connection attempted after Serve returned must be refused; one attempted after cancel must never be served
	late, _, lerr := s.dial("h1")
	lateServed := false
	if lerr == nil {
		tc := tls.Client(late, &tls.Config{InsecureSkipVerify: true, NextProtos: []string{"http/1.1"}})
		late.SetDeadline(time.Now().Add(2 * time.Second))
		if tc.Handshake() == nil {
			io.WriteString(tc, "GET /late HTTP/1.1\r\nHost: vf.test\r\n\r\n")
			if resp, err := http.ReadResponse(bufio.NewReader(tc), nil); err == nil {
				lateServed = true
				resp.Body.Close()
			}
		}
		late.Close()
	}
	close(hold)
	wg.Wait()
	s.waitExited(3 * time.Second)
	_ = serr
	var res map[string]any
	if returned {
		res = s.finishCommon(enc)
	} else {
		res = s.finish(enc, true)
	}
	res["late_dial_refused"] = lerr != nil
	res["late_connection_served"] = lateServed
	res["variant"] = variant
	return res
}

// An HTTP/1.1 exchange is in flight at the instant of cancel: the listener stays open while it drains.  Connections
// attempted in that window - on either protocol - must not be served; the exchange completes intact; then Serve returns.
func scenarioShutdownActive(enc *json.Encoder, idx int) map[string]any {
	release := make(chan struct{})
	arrived := make(chan struct{}, 4)
	var lateHandled int32
	// the handler in front of the reverse proxy holds /slow regardless of its context (the reverse proxy itself aborts an
	// exchange whose context - derived from the server's - is cancelled, which ends it at once); /late must never get here
	wrap := func(srv *proxyserver.Server) {
		inner := srv.HTTPServer.Handler
		srv.HTTPServer.Handler = http.HandlerFunc(func(w http.ResponseWriter, r *http.Request) {
			if strings.HasPrefix(r.URL.Path, "/slow") {
				arrived <- struct{}{}
				<-release
				w.Header().Set("X-Slow", "done")
				io.WriteString(w, "slow-response-body")
				return
			}
			if strings.HasPrefix(r.URL.Path, "/late") {
				atomic.AddInt32(&lateHandled, 1)
			}
			inner.ServeHTTP(w, r)
		})
	}
	s := startScenario(fmt.Sprintf("shutdown-active-%d", idx), "shutdown", stack.Options{HandshakeTimeout: 5 * time.Second, MutateServer: wrap})
	res := map[string]any{}
	slowDone := make(chan string, 1)
	go func() {
		raw, _, err := s.dial("h1")
		if err != nil {
			slowDone <- "dial: " + err.Error()
			return
		}
		defer raw.Close()
		tc, err := tlsClient(raw, []string{"http/1.1"})
		if err != nil {
			slowDone <- "handshake: " + err.Error()
			return
		}
		tc.SetDeadline(time.Now().Add(20 * time.Second))
		io.WriteString(tc, "GET /slow HTTP/1.1\r\nHost: vf.test\r\n\r\n")
		resp, err := http.ReadResponse(bufio.NewReader(tc), nil)
		if err != nil {
			slowDone <- "response: " + err.Error()
			return
		}
		b, _ := io.ReadAll(resp.Body)
		slowDone <- fmt.Sprintf("%d %s %s", resp.StatusCode, resp.Header.Get("X-Slow"), b)
	}()
	select {
	case <-arrived:
	case <-time.After(5 * time.Second):
		s.note("the slow request never reached the backend")
	}
	s.r.emit(map[string]any{"op": "cancel"})
	s.st.Cancel()
	time.Sleep(150 * time.Millisecond) // the watcher is now inside HTTPServer.Shutdown, waiting for the exchange
	// late connections during the drain
	late := map[string]string{}
	for _, k := range []string{"h2", "h1", "noalpn"} {
		raw, _, err := s.dial(k)
		if err != nil {
			late[k] = "refused"
			continue
		}
		alpn := map[string][]string{"h2": {"h2"}, "h1": {"http/1.1"}, "noalpn": nil}[k]
		raw.SetDeadline(time.Now().Add(1500 * time.Millisecond))
		tc := tls.Client(raw, &tls.Config{InsecureSkipVerify: true, ServerName: "vf.test", NextProtos: alpn})
		if err := tc.Handshake(); err != nil {
			late[k] = "handshake failed"
			raw.Close()
			continue
		}
		if k == "h2" {
			tc.Write([]byte(h2raw.Preface))
			tc.Write(h2raw.Settings())
			hc := h2raw.NewConn(tc)
			tc.Write(h2raw.Headers(1, true, h2raw.Block([]h2raw.HF{{":method", "GET"}, {":scheme", "https"}, {":authority", "vf.test"}, {":path", "/late-h2"}}), nil, 0))
			if err := hc.WaitStreams(1); err == nil && hc.Resp[1] != nil && hc.Resp[1].Status != "" {
				late[k] = "served: " + hc.Resp[1].Status
			} else {
				late[k] = "not served"
			}
		} else {
			io.WriteString(tc, "GET /late-"+k+" HTTP/1.1\r\nHost: vf.test\r\n\r\n")
			if resp, err := http.ReadResponse(bufio.NewReader(tc), nil); err == nil {
				late[k] = fmt.Sprintf("served: %d", resp.StatusCode)
				resp.Body.Close()
			} else {
				late[k] = "not served"
			}
		}
		raw.Close()
	}
	res["late_during_drain"] = late
	early := false
	select {
	case err := <-s.st.ServeErr:
		early = true
		s.r.emit(map[string]any{"op": "serve_return", "err": errName(err)})
		s.st.ServeErr <- err
	default:
	}
	res["returned_before_drain"] = early
	t0 := time.Now()
	close(release)
	select {
	case r := <-slowDone:
		res["slow_exchange"] = r
	case <-time.After(8 * time.Second):
		res["slow_exchange"] = "no response"
	}
	returned := false
	if early {
		returned = true
		<-s.st.ServeErr
	} else {
		select {
		case serr := <-s.st.ServeErr:
			returned = true
			s.Latency["serve_return_s"] = time.Since(t0).Seconds()
			s.r.emit(map[string]any{"op": "serve_return", "err": errName(serr)})
		case <-time.After(10 * time.Second):
			s.note("Serve did not return within 10s after the last HTTP/1.1 exchange finished")
		}
	}
	_, _, lerr := s.dial("h1")
	s.waitExited(3 * time.Second)
	var out map[string]any
	if returned {
		out = s.finishCommon(enc)
	} else {
		out = s.finish(enc, true)
	}
	for k, v := range res {
		out[k] = v
	}
	served := atomic.LoadInt32(&lateHandled) > 0
	for _, v := range late {
		if strings.HasPrefix(v, "served") {
			served = true
		}
	}
	out["late_connection_served"] = served
	out["late_dial_refused"] = lerr != nil
	out["variant"] = "active"
	return out
}

func (s *Scenario) finishCommon(enc *json.Encoder) map[string]any {
	released := s.waitExited(3 * time.Second)
	if !released {
		s.note("some accepted connections never logged exit")
	}
	recMu.Lock()
	rec = nil
	recMu.Unlock()
	if s.st.Backend.Srv != nil {
		s.st.Backend.Srv.CloseClientConnections()
		s.st.Backend.Srv.Close()
	}
	bag := map[string]float64{}
	mfs, _ := s.st.Registry.Gather()
	for _, mf := range mfs {
		if mf.GetName() == "fingerproxy_requests_total" {
			for _, m := range mf.Metric {
				bag[labels(m)] = m.GetCounter().GetValue()
			}
		}
	}
	s.r.mu.Lock()
	evs := append([]map[string]any{}, s.r.events...)
	s.r.mu.Unlock()
	enc.Encode(map[string]any{"op": "reset", "scenario": s.Name, "family": s.Family, "kinds": s.kinds})
	for _, e := range evs {
		enc.Encode(e)
	}
	enc.Encode(map[string]any{"op": "end", "scenario": s.Name})
	hookBag := map[string]float64{}
	for _, e := range evs {
		if e["op"] == "counted" {
			hookBag[fmt.Sprintf("ok=%v,proto=%v", e["ok"], e["proto"])]++
		}
	}
	accepted := 0
	for _, e := range evs {
		if e["op"] == "accept" {
			accepted++
		}
	}
	// conns: connections the listener handed to the server (a connection still in the kernel's backlog when the listener closes was never the proxy's)
	return map[string]any{"name": s.Name, "family": s.Family, "events": len(evs), "conns": accepted, "dialled": len(s.kinds), "kinds": s.kinds, "registry": bag, "hook_bag": hookBag,
		"notes": s.Notes, "latency": s.Latency, "released": released}
}

// ---------------------------------------------------------------- family P: panics in user callbacks, in a child process (C10)

// panicChild runs a server whose user-supplied callback panics for marked connections; it reports on stdout.
func panicChild(point string) {
	opts := stack.Options{HandshakeTimeout: 2 * time.Second}
	switch point {
	case "getcertificate":
		opts.MutateTLS = func(c *tls.Config) {
			cert := c.Certificates[0]
			c.Certificates = nil
			c.GetCertificate = func(h *tls.ClientHelloInfo) (*tls.Certificate, error) {
				if h.ServerName == "panic.test" {
					panic("user GetCertificate callback panics")
				}
				return &cert, nil
			}
		}
	case "connstate-h2", "connstate-h1":
		// a user ConnState hook that panics for connections whose first request path says so is not possible (the hook
		// sees no request); it panics for every connection from a marked source port instead
	}
	if point == "counterror-h2" {
		// a user callback that the HTTP/2 server calls from its serve loop, on the connection goroutine, long after the handshake:
		// the panic unwinds ServeConn and is confined by serveConn's deferred recover, which counts with the labels known by then
		opts.MutateServer = func(srv *proxyserver.Server) {
			srv.HTTP2Server.CountError = func(t string) {
				if strings.HasSuffix(t, "headers_even") { // counted by processHeaders, i.e. on the connection goroutine (the framer counts its own errors on the reader goroutine)
					panic("user CountError callback panics")
				}
			}
		}
	}
	if point == "connstate-h2" || point == "connstate-h1" {
		opts.MutateServer = func(srv *proxyserver.Server) {
			srv.HTTPServer.ConnState = func(c net.Conn, state http.ConnState) {
				if p, _ := strconv.Atoi(os.Getenv("VF_PANIC_PORT")); p != 0 && c.RemoteAddr().(*net.TCPAddr).Port == p {
					panic("user ConnState hook panics")
				}
			}
		}
	}
	st, err := stack.Start(opts)
	if err != nil {
		fmt.Println("CHILD-ERROR", err)
		os.Exit(3)
	}
	fmt.Println("CHILD-ADDR", st.Addr)
	// serve until stdin closes
	io.Copy(io.Discard, os.Stdin)
	mfs, _ := st.Registry.Gather()
	for _, mf := range mfs {
		if mf.GetName() == "fingerproxy_requests_total" {
			for _, m := range mf.Metric {
				fmt.Printf("CHILD-METRIC %s %v\n", labels(m), m.GetCounter().GetValue())
			}
		}
	}
	os.Exit(0)
}

func scenarioPanic(point string) map[string]any {
	res := map[string]any{"name": "panic-" + point, "family": "panic", "point": point}
	// reserve the victim's source port first so that the child can be told
	la, _ := net.ResolveTCPAddr("tcp", "127.0.0.1:0")
	l, _ := net.ListenTCP("tcp", la)
	vport := l.Addr().(*net.TCPAddr).Port
	l.Close()
	cmd := exec.Command(os.Args[0], "panicchild", point)
	cmd.Env = append(os.Environ(), "VF_PANIC_PORT="+strconv.Itoa(vport))
	stdin, _ := cmd.StdinPipe()
	stdout, _ := cmd.StdoutPipe()
	var stderr strings.Builder
	cmd.Stderr = &stderr
	if err := cmd.Start(); err != nil {
		res["error"] = err.Error()
		return res
	}
	br := bufio.NewReader(stdout)
	line, _ := br.ReadString('\n')
	if !strings.HasPrefix(line, "CHILD-ADDR ") {
		res["error"] = "child did not start: " + line + stderr.String()
		cmd.Process.Kill()
		return res
	}
	addr := strings.TrimSpace(strings.TrimPrefix(line, "CHILD-ADDR "))
	request := func(sni string, alpn []string, port int) (int, error) {
		d := net.Dialer{Timeout: 2 * time.Second}
		if port != 0 {
			d.LocalAddr = &net.TCPAddr{IP: net.IPv4(127, 0, 0, 1), Port: port}
		}
		c, err := d.Dial("tcp", addr)
		if err != nil {
			return 0, err
		}
		defer c.Close()
		c.SetDeadline(time.Now().Add(3 * time.Second))
		tc := tls.Client(c, &tls.Config{InsecureSkipVerify: true, ServerName: sni, NextProtos: alpn})
		if err := tc.Handshake(); err != nil {
			return 0, err
		}
		if tc.ConnectionState().NegotiatedProtocol == "h2" {
			cl := &stack.Client{Conn: tc}
			return h2get(cl)
		}
		io.WriteString(tc, "GET /x HTTP/1.1\r\nHost: vf.test\r\n\r\n")
		resp, err := http.ReadResponse(bufio.NewReader(tc), nil)
		if err != nil {
			return 0, err
		}
		resp.Body.Close()
		return resp.StatusCode, nil
	}
	// control request before
	c0, e0 := request("vf.test", []string{"http/1.1"}, 0)
	res["control_before"] = fmt.Sprintf("%d %v", c0, e0)
	// the victim connection
	var ve error
	switch point {
	case "getcertificate":
		_, ve = request("panic.test", []string{"h2"}, 0)
	case "connstate-h2":
		_, ve = request("vf.test", []string{"h2"}, vport)
	case "connstate-h1":
		_, ve = request("vf.test", []string{"http/1.1"}, vport)
	case "counterror-h2":
		// an HTTP/2 connection that draws an error counted by the serve loop: HEADERS on an even stream id
		d := net.Dialer{Timeout: 2 * time.Second}
		if c, err := d.Dial("tcp", addr); err == nil {
			c.SetDeadline(time.Now().Add(3 * time.Second))
			tc := tls.Client(c, &tls.Config{InsecureSkipVerify: true, ServerName: "vf.test", NextProtos: []string{"h2"}})
			if ve = tc.Handshake(); ve == nil {
				tc.Write([]byte(h2raw.Preface))
				tc.Write(h2raw.Settings())
				tc.Write(h2raw.Headers(2, true, h2raw.Block([]h2raw.HF{{":method", "GET"}, {":scheme", "https"}, {":authority", "vf.test"}, {":path", "/x"}}), nil, 0))
				_, ve = io.Copy(io.Discard, tc)
			}
			c.Close()
		} else {
			ve = err
		}
	}
	res["victim"] = fmt.Sprint(ve)
	time.Sleep(150 * time.Millisecond)
	// control requests after: the proxy must still accept and serve other connections, on both protocols
	c1, e1 := request("vf.test", []string{"http/1.1"}, 0)
	c2, e2 := request("vf.test", []string{"h2"}, 0)
	res["control_after_h1"] = fmt.Sprintf("%d %v", c1, e1)
	res["control_after_h2"] = fmt.Sprintf("%d %v", c2, e2)
	res["survived"] = c1 == 200 && c2 == 200
	time.Sleep(200 * time.Millisecond) // the control connections are counted when their goroutines end, shortly after the clients closed
	stdin.Close()
	done := make(chan error, 1)
	go func() { done <- cmd.Wait() }()
	var metrics []string
	go func() {
		for {
			l, err := br.ReadString('\n')
			if strings.HasPrefix(l, "CHILD-METRIC ") {
				metrics = append(metrics, strings.TrimSpace(strings.TrimPrefix(l, "CHILD-METRIC ")))
			}
			if err != nil {
				return
			}
		}
	}()
	select {
	case err := <-done:
		res["child_exit"] = fmt.Sprint(err)
	case <-time.After(5 * time.Second):
		cmd.Process.Kill()
		res["child_exit"] = "killed after timeout"
	}
	res["child_metrics"] = metrics
	if s := stderr.String(); s != "" {
		if len(s) > 600 {
			s = s[:600]
		}
		res["child_stderr_head"] = s
	}
	return res
}

func runAll(tracePath, reportPath string) {
	seed, _ := strconv.ParseInt(os.Getenv("VERIF_SEED"), 10, 64)
	tier := os.Getenv("VERIF_TIER")
	rng := rand.New(rand.NewSource(seed))
	f, err := os.Create(tracePath)
	if err != nil {
		panic(err)
	}
	enc := json.NewEncoder(f)
	var report []map[string]any
	leak := startLeakCheck()
	nmix, nconn := 6, 10
	if tier == "thorough" {
		nmix, nconn = 60, 20
	}
	for i := 0; i < nmix; i++ {
		report = append(report, scenarioMix(enc, i, rng, nconn))
	}
	report = append(report, scenarioBurst(enc, 0))
	report = append(report, scenarioBackendPending(enc, 0))
	report = append(report, scenarioLeave(enc, 0, false), scenarioLeave(enc, 1, true))
	for i, pt := range []string{"metadata.marshal.begin", "metadata.marshal.after_settings", "metadata.marshal.after_window_update", "metadata.marshal.after_priorities"} {
		report = append(report, scenarioCaptureRace(enc, i, pt))
	}
	nf := 10
	if tier == "thorough" {
		nf = 40
	}
	for i, op := range []string{"read", "write"} {
		for from := 1; from <= nf; from += 10 {
			report = append(report, scenarioIOFault(enc, i, op, from, from+9))
		}
	}
	report = append(report, scenarioTimeouts(enc, 0))
	for i, v := range []string{"none", "early", "idle", "handshaking", "mixed", "repeat", "handoff", "active", "handoff", "handoff", "handoff", "handoff", "handoff", "handoff", "handoff"} {
		report = append(report, scenarioShutdown(enc, i, v))
	}
	report = append(report, scenarioTwoListeners(0))
	if p := os.Getenv("VF_SCHED"); p != "" {
		if b, err := os.ReadFile(p); err == nil {
			var scheds []schedule
			if json.Unmarshal(b, &scheds) == nil {
				for i, sc := range scheds {
					report = append(report, scenarioSched(enc, i, sc))
				}
			}
		}
	}
	f.Close()
	report = append(report, leak.finish())
	for _, p := range []string{"getcertificate", "connstate-h2", "connstate-h1", "counterror-h2"} {
		report = append(report, scenarioPanic(p))
	}
	b, _ := json.MarshalIndent(report, "", " ")
	os.WriteFile(reportPath, b, 0o644)
}

// ---------------------------------------------------------------- end-of-run goroutine census (C11: "every goroutine serving it ends")

// A second, untraced stack runs beside the scenarios with clients that stall where only the HTTP/2 server's own long timers
// (10 s preface timeout) end the connection.  When every scenario is over and every server is stopped, no goroutine may be left
// inside the proxy's packages - whatever connection it once served.
type leakCheck struct {
	st    *stack.Stack
	held  []net.Conn
	start time.Time
	err   string
}

func startLeakCheck() *leakCheck {
	l := &leakCheck{start: time.Now()}
	if os.Getenv("VF_CENSUS") != "1" {
		l.err = "off"
		return l
	}
	st, err := stack.Start(stack.Options{HandshakeTimeout: 2 * time.Second, IdleTimeout: time.Second})
	if err != nil {
		l.err = err.Error()
		return l
	}
	l.st = st
	for _, script := range []string{"h2-half-preface", "h2-no-preface", "h2-preface-no-settings"} {
		raw, err := net.DialTimeout("tcp", st.Addr, 2*time.Second)
		if err != nil {
			l.err = err.Error()
			return l
		}
		tc := tls.Client(raw, &tls.Config{InsecureSkipVerify: true, ServerName: "vf.test", NextProtos: []string{"h2"}})
		raw.SetDeadline(time.Now().Add(5 * time.Second))
		if err := tc.Handshake(); err != nil {
			l.err = "leak-check client handshake: " + err.Error()
			return l
		}
		raw.SetDeadline(time.Time{})
		switch script {
		case "h2-half-preface":
			tc.Write([]byte(h2raw.Preface[:10]))
		case "h2-preface-no-settings":
			tc.Write([]byte(h2raw.Preface))
		}
		l.held = append(l.held, raw)
	}
	return l
}

func (l *leakCheck) finish() map[string]any {
	res := map[string]any{"name": "goroutine-census", "family": "leakcheck"}
	if l.err == "off" {
		res["off"] = true
		return res
	}
	if l.err != "" {
		res["error"] = l.err
		return res
	}
	// the stalled clients stay until the server's own 10 s preface timeout has passed
	if d := 11*time.Second - time.Since(l.start); d > 0 {
		time.Sleep(d)
	}
	for _, c := range l.held {
		c.Close()
	}
	l.st.Close()
	var leaked []string
	for try := 0; try < 20; try++ { // goroutines on their way out get two seconds
		time.Sleep(100 * time.Millisecond)
		leaked = leaked[:0]
		buf := make([]byte, 4<<20)
		buf = buf[:runtime.Stack(buf, true)]
		for _, g := range strings.Split(string(buf), "\n\n") {
			if strings.Contains(g, "github.com/wi1dcard/fingerproxy/pkg/") && !strings.Contains(g, "verifharness/cmd/lcdriver.(*leakCheck)") {
				lines := strings.Split(g, "\n")
				head := lines[0]
				for _, ln := range lines[1:] {
					if strings.Contains(ln, "fingerproxy/pkg/") && !strings.HasPrefix(ln, "\t") {
						head += " | " + strings.TrimSpace(ln)
						break
					}
				}
				leaked = append(leaked, head)
			}
		}
		if len(leaked) == 0 {
			break
		}
	}
	res["leaked"] = leaked
	res["waited_s"] = time.Since(l.start).Seconds()
	return res
}

func (s *Scenario) countOp(op string) int {
	s.r.mu.Lock()
	defer s.r.mu.Unlock()
	n := 0
	for _, e := range s.r.events {
		if e["op"] == op {
			n++
		}
	}
	return n
}
