// c06driver: many concurrent clients with pairwise different ClientHellos and HTTP/2 preambles, several requests each
// (keep-alive on HTTP/1.1, multiplexed on HTTP/2), connecting and disconnecting at random times in several waves (ports
// get reused, all from the same peer address).  Reports, per connection, what the client really sent and what the backend
// received for every request.
package main

import (
	"encoding/hex"
	"encoding/json"
	"fmt"
	"math/rand"
	"net"
	"os"
	"strconv"
	"sync"
	"time"

	"github.com/wi1dcard/fingerproxy/pkg/verifhook"
	"verifharness/h2raw"
	"verifharness/hello"
	"verifharness/hellospec"
	"verifharness/stack"
)

type Preamble struct {
	Settings [][2]uint32 `json:"settings"`
	WU       uint32      `json:"wu"`
	Prios    [][4]uint32 `json:"prios"` // stream, excl, dep, weight byte
	Order    string      `json:"order"`
}

type ReqObs struct {
	Tag string   `json:"tag"`
	JA3 []string `json:"ja3"`
	JA4 []string `json:"ja4"`
	H2  []string `json:"h2"`
	Fwd int      `json:"fwd"`
}

type ConnObs struct {
	ID       int             `json:"id"`
	Wave     int             `json:"wave"`
	Proto    string          `json:"proto"`
	Err      string          `json:"err,omitempty"`
	Abstract *hello.Abstract `json:"abstract"`
	HelloHex string          `json:"hello_hex"`
	Pre      *Preamble       `json:"preamble,omitempty"`
	Reqs     []ReqObs        `json:"reqs"`
}

func variant(rng *rand.Rand, i int) hellospec.Desc {
	d := hellospec.Base13()
	if i%3 == 0 {
		d = hellospec.Base12()
	}
	rng.Shuffle(len(d.Ciphers), func(a, b int) { d.Ciphers[a], d.Ciphers[b] = d.Ciphers[b], d.Ciphers[a] })
	// distinct cipher multiset per connection => distinct JA4 (JA4 ignores order): add i-dependent unknown suites
	d.Ciphers = append(d.Ciphers, uint16(0x5000+i), uint16(0x5100+(i*7)%200))
	rng.Shuffle(len(d.Exts), func(a, b int) { d.Exts[a], d.Exts[b] = d.Exts[b], d.Exts[a] })
	if i%2 == 0 {
		d.Exts = append(d.Exts, fmt.Sprintf("generic:%04x:", 0x7000+i))
	}
	if i%5 == 0 {
		d.Exts = append([]string{"grease"}, d.Exts...)
	}
	return d
}

// session: the requests of one connection; before(i) runs before request i (coordination between two clients)
func session(st *stack.Stack, cl *stack.Client, pre *Preamble, tags []string, enc *h2raw.Enc, before func(i int)) string {
	if cl.Proto == "h2" {
		cl.Conn.SetDeadline(time.Now().Add(20 * time.Second))
		cl.Conn.Write([]byte(h2raw.Preface))
		var ss []h2raw.Setting
		for _, s := range pre.Settings {
			ss = append(ss, h2raw.Setting{ID: uint16(s[0]), Val: s[1]})
		}
		cl.Conn.Write(h2raw.Settings(ss...))
		cl.Conn.Write(h2raw.WindowUpdate(0, pre.WU))
		for _, p := range pre.Prios {
			cl.Conn.Write(h2raw.Priority(p[0], h2raw.Prio{Dep: p[2], Excl: p[1] == 1, Weight: uint8(p[3])}))
		}
		hc := h2raw.NewConn(cl.Conn)
		hc.AutoWU = false
		m := map[byte]h2raw.HF{'m': {":method", "GET"}, 'a': {":authority", "vf.test"}, 's': {":scheme", "https"}, 'p': {":path", "/r"}}
		for r, tag := range tags {
			before(r)
			var fs []h2raw.HF
			for i := 0; i < 4; i++ {
				fs = append(fs, m[pre.Order[i]])
			}
			fs = append(fs, h2raw.HF{"x-vf-tag", tag})
			sid := uint32(1 + 2*r)
			cl.Conn.Write(h2raw.Headers(sid, true, h2raw.Block(fs), nil, 0))
			if err := hc.WaitStreams(sid); err != nil {
				return "h2: " + err.Error()
			}
		}
		return ""
	}
	for r, tag := range tags {
		before(r)
		if _, _, err := cl.H1("GET /r HTTP/1.1\r\nHost: vf.test\r\nX-Vf-Tag: "+tag+"\r\n\r\n", "GET"); err != nil {
			return "h1: " + err.Error()
		}
	}
	return ""
}

func collect(st *stack.Stack, o *ConnObs, tags []string) {
	for _, tag := range tags {
		ro := ReqObs{Tag: tag}
		for _, r := range st.Backend.ByTag(tag) {
			ro.Fwd++
			ro.JA3 = append(ro.JA3, r.Header.Values("X-Ja3-Fingerprint")...)
			ro.JA4 = append(ro.JA4, r.Header.Values("X-Ja4-Fingerprint")...)
			ro.H2 = append(ro.H2, r.Header.Values("X-Http2-Fingerprint")...)
		}
		o.Reqs = append(o.Reqs, ro)
	}
}

// latecomer: connection A is established and has been served once; connection B arrives and is caught in the middle of its
// ClientHello; A is served again; B completes its hello and is served.  Whatever A left behind (a buffer, a cached object) and
// whatever A does meanwhile must not reach B's fingerprints, nor B's arrival A's.
func latecomer(st *stack.Stack, rng *rand.Rand, idA, idB, wave int, protoA, protoB string) []ConnObs {
	mk := func(id int, proto string) (hellospec.Desc, *Preamble) {
		d := variant(rng, id)
		if proto == "h1" {
			d.ALPN = []string{"http/1.1"}
		}
		pre := &Preamble{Settings: [][2]uint32{{3, uint32(100 + id)}, {4, uint32(65536 + 16*id)}}, WU: uint32(1000000 + id), Order: []string{"masp", "mpas", "mspa", "msap"}[id%4]}
		return d, pre
	}
	dA, preA := mk(idA, protoA)
	dB, preB := mk(idB, protoB)
	oA, oB := ConnObs{ID: idA, Wave: wave}, ConnObs{ID: idB, Wave: wave}
	abstract := func(o *ConnObs, cl *stack.Client) {
		if cl != nil && cl.Raw != nil {
			msg := cl.Raw.HelloMessage()
			o.HelloHex = hex.EncodeToString(msg)
			if a, perr := hello.ParseMessage(msg); perr == nil {
				o.Abstract = a
			}
		}
	}
	clA, err := stack.DialUTLS(st.Addr, dA.Spec(), stack.DialOpts{ALPN: dA.ALPN})
	abstract(&oA, clA)
	if err != nil {
		oA.Err = err.Error()
		return []ConnObs{oA}
	}
	defer clA.Close()
	oA.Proto = clA.Proto
	if clA.Proto == "h2" {
		oA.Pre = preA
	}
	tagsA := []string{fmt.Sprintf("c%d-r0", idA), fmt.Sprintf("c%d-r1", idA), fmt.Sprintf("c%d-r2", idA)}
	tagsB := []string{fmt.Sprintf("c%d-r0", idB), fmt.Sprintf("c%d-r1", idB)}
	held, release := make(chan struct{}), make(chan struct{})
	bDone := make(chan struct{})
	go func() {
		defer close(bDone)
		clB, err := stack.DialUTLS(st.Addr, dB.Spec(), stack.DialOpts{ALPN: dB.ALPN, HoldAt: 40 + rng.Intn(60), HoldCh: release, Held: held})
		abstract(&oB, clB)
		if err != nil {
			oB.Err = err.Error()
			return
		}
		defer clB.Close()
		oB.Proto = clB.Proto
		if clB.Proto == "h2" {
			oB.Pre = preB
		}
		oB.Err = session(st, clB, preB, tagsB, nil, func(int) {})
		collect(st, &oB, tagsB)
	}()
	oA.Err = session(st, clA, preA, tagsA, nil, func(i int) {
		switch i {
		case 1: // A was served once; now let B get stuck in its hello, then go on
			select {
			case <-held:
			case <-time.After(3 * time.Second):
			}
			time.Sleep(5 * time.Millisecond)
		case 2: // A was served again while B was stuck; let B finish, and serve A once more afterwards
			close(release)
			time.Sleep(30 * time.Millisecond)
		}
	})
	select {
	case <-bDone:
	case <-time.After(10 * time.Second):
	}
	collect(st, &oA, tagsA)
	return []ConnObs{oA, oB}
}

// successor: connection A is served and goes away; connection B, another client altogether, then arrives from the very same
// source address and port.  Nothing A left behind under that address may reach B.
func successor(st *stack.Stack, rng *rand.Rand, idA, idB, wave int, protoA, protoB string) []ConnObs {
	ip := fmt.Sprintf("127.0.%d.%d", 40+wave%50, 2+idA%200)
	l, err := net.Listen("tcp", ip+":0")
	if err != nil {
		return []ConnObs{{ID: idA, Wave: wave, Err: "no source address: " + err.Error()}}
	}
	port := l.Addr().(*net.TCPAddr).Port
	l.Close()
	var res []ConnObs
	for n, x := range []struct {
		id    int
		proto string
	}{{idA, protoA}, {idB, protoB}} {
		d := variant(rng, x.id)
		if x.proto == "h1" {
			d.ALPN = []string{"http/1.1"}
		}
		pre := &Preamble{Settings: [][2]uint32{{3, uint32(100 + x.id)}, {4, uint32(65536 + 16*x.id)}}, WU: uint32(1000000 + x.id), Order: []string{"masp", "mpas", "mspa", "msap"}[x.id%4]}
		o := ConnObs{ID: x.id, Wave: wave}
		var cl *stack.Client
		for try := 0; try < 20; try++ { // the port is free again as soon as the kernel has dealt with the reset
			cl, err = stack.DialUTLS(st.Addr, d.Spec(), stack.DialOpts{ALPN: d.ALPN, LocalIP: ip, LocalPort: port})
			if err == nil || cl != nil {
				break
			}
			time.Sleep(20 * time.Millisecond)
		}
		if cl != nil && cl.Raw != nil {
			msg := cl.Raw.HelloMessage()
			o.HelloHex = hex.EncodeToString(msg)
			if a, perr := hello.ParseMessage(msg); perr == nil {
				o.Abstract = a
			}
		}
		if err != nil {
			o.Err = err.Error()
			res = append(res, o)
			if cl != nil {
				cl.Reset()
			}
			continue
		}
		o.Proto = cl.Proto
		if cl.Proto == "h2" {
			o.Pre = pre
		}
		tags := []string{fmt.Sprintf("c%d-r0", x.id), fmt.Sprintf("c%d-r1", x.id)}
		o.Err = session(st, cl, pre, tags, nil, func(int) {})
		collect(st, &o, tags)
		cl.Reset()
		if n == 0 {
			time.Sleep(20 * time.Millisecond)
		}
		res = append(res, o)
	}
	return res
}

// noisyNeighbour: one HTTP/2 client keeps its connection open after sending an enormous number of PRIORITY frames (legal; the proxy
// records them for that connection's fingerprint).  Clients that arrive afterwards are other connections: what the noisy one made the
// proxy record - or any budget it used up - is none of their business, their fingerprints are functions of what THEY sent.
func noisyNeighbour(st *stack.Stack, rng *rand.Rand, firstID, wave, frames int) []ConnObs {
	dN := variant(rng, firstID)
	clN, err := stack.DialUTLS(st.Addr, dN.Spec(), stack.DialOpts{ALPN: dN.ALPN})
	if err != nil || clN.Proto != "h2" {
		return []ConnObs{{ID: firstID, Wave: wave, Err: fmt.Sprintf("noisy connection: %v", err)}}
	}
	defer clN.Close()
	clN.Conn.SetDeadline(time.Now().Add(30 * time.Second))
	clN.Conn.Write([]byte(h2raw.Preface))
	clN.Conn.Write(h2raw.Settings())
	var buf []byte
	for i := 0; i < frames; i++ {
		buf = append(buf, h2raw.Priority(uint32(3+2*(i%50)), h2raw.Prio{Dep: 0, Weight: uint8(i)})...)
		if len(buf) > 60000 || i == frames-1 {
			if _, err := clN.Conn.Write(buf); err != nil {
				return []ConnObs{{ID: firstID, Wave: wave, Err: "noisy connection: " + err.Error()}}
			}
			buf = buf[:0]
		}
	}
	hcN := h2raw.NewConn(clN.Conn)
	clN.Conn.Write(h2raw.Headers(1, true, h2raw.Block([]h2raw.HF{{":method", "GET"}, {":authority", "vf.test"}, {":scheme", "https"}, {":path", "/r"}, {"x-vf-tag", fmt.Sprintf("c%d-noisy", firstID)}}), nil, 0))
	if err := hcN.WaitStreams(1); err != nil { // all its PRIORITY frames have been processed once this request is answered
		return []ConnObs{{ID: firstID, Wave: wave, Err: "noisy connection: " + err.Error()}}
	}
	var out []ConnObs
	for k := 1; k <= 3; k++ { // the noisy connection is still open
		id := firstID + k
		d := variant(rng, id)
		pre := &Preamble{Settings: [][2]uint32{{3, uint32(100 + id)}, {4, uint32(65536 + 16*id)}}, WU: uint32(1000000 + id), Order: []string{"masp", "mpas", "mspa", "msap"}[id%4],
			Prios: [][4]uint32{{3, 0, 0, 200}, {5, 1, 3, uint32(id % 256)}, {7, 0, 0, 0}}}
		o := ConnObs{ID: id, Wave: wave}
		cl, err := stack.DialUTLS(st.Addr, d.Spec(), stack.DialOpts{ALPN: d.ALPN})
		if cl != nil && cl.Raw != nil {
			msg := cl.Raw.HelloMessage()
			o.HelloHex = hex.EncodeToString(msg)
			if a, perr := hello.ParseMessage(msg); perr == nil {
				o.Abstract = a
			}
		}
		if err != nil {
			o.Err = err.Error()
			out = append(out, o)
			continue
		}
		o.Proto = cl.Proto
		if cl.Proto == "h2" {
			o.Pre = pre
		}
		tags := []string{fmt.Sprintf("c%d-r0", id), fmt.Sprintf("c%d-r1", id)}
		o.Err = session(st, cl, pre, tags, nil, func(int) {})
		collect(st, &o, tags)
		cl.Close()
		out = append(out, o)
	}
	return out
}

func main() {
	out := os.Args[1]
	seed, _ := strconv.ParseInt(os.Getenv("VERIF_SEED"), 10, 64)
	rng := rand.New(rand.NewSource(seed))
	nconn, waves := 16, 3
	if os.Getenv("VERIF_TIER") == "thorough" {
		nconn, waves = 32, 12
	}
	st, err := stack.Start(stack.Options{})
	if err != nil {
		panic(err)
	}
	defer st.Close()
	var mu sync.Mutex
	var all []ConnObs
	id := 0
	// gated waves: all connections of the wave are held at one instrumentation point of serveConn until every one of them
	// has got there (or 300ms passed), then released together - each point in turn, so that whatever a connection set up before
	// the point is exposed to what the others set up before it
	points := []string{"proxyserver.conn.start", "proxyserver.handshake", "proxyserver.hello", "proxyserver.h2.begin", "proxyserver.h1.send", "proxyserver.h1.sent"}
	rounds := 2
	if os.Getenv("VERIF_TIER") == "thorough" {
		rounds = 10
	}
	total := waves + rounds*len(points)
	for w := 0; w < total; w++ {
		var wg sync.WaitGroup
		gated := w >= waves
		if gated {
			nconn = 6
			pt := points[(w-waves)%len(points)]
			want := nconn
			if pt == "proxyserver.h2.begin" || pt == "proxyserver.h1.send" || pt == "proxyserver.h1.sent" {
				want = nconn / 2
			}
			var bmu sync.Mutex
			arrived := 0
			open := make(chan struct{})
			var once sync.Once
			verifhook.Sink = func(point string, args ...any) {
				if point != pt {
					return
				}
				bmu.Lock()
				arrived++
				full := arrived >= want
				bmu.Unlock()
				if full {
					once.Do(func() { close(open) })
				}
				select {
				case <-open:
				case <-time.After(300 * time.Millisecond):
					once.Do(func() { close(open) })
				}
			}
		}
		for k := 0; k < nconn; k++ {
			id++
			d := variant(rng, id)
			h1 := rng.Intn(2) == 0
			if gated {
				h1 = k%2 == 0
			}
			if h1 {
				d.ALPN = []string{"http/1.1"}
			}
			pre := &Preamble{Settings: [][2]uint32{{3, uint32(100 + id)}, {4, uint32(65536 + 16*id)}}, WU: uint32(1000000 + id), Order: []string{"masp", "mpas", "mspa", "msap"}[id%4]}
			for p := 0; p < id%3; p++ {
				pre.Prios = append(pre.Prios, [4]uint32{uint32(101 + 2*p), uint32(p % 2), 0, uint32((id + p) % 256)})
			}
			nreq := 2 + rng.Intn(3)
			delay := time.Duration(rng.Intn(15)) * time.Millisecond
			if gated {
				delay = 0
			}
			linger := time.Duration(rng.Intn(20)) * time.Millisecond
			wg.Add(1)
			go func(id int, d hellospec.Desc, pre *Preamble, nreq int) {
				defer wg.Done()
				time.Sleep(delay)
				o := ConnObs{ID: id, Wave: w}
				cl, err := stack.DialUTLS(st.Addr, d.Spec(), stack.DialOpts{ALPN: d.ALPN})
				if cl != nil && cl.Raw != nil {
					msg := cl.Raw.HelloMessage()
					o.HelloHex = hex.EncodeToString(msg)
					if a, perr := hello.ParseMessage(msg); perr == nil {
						o.Abstract = a
					}
				}
				if err != nil {
					o.Err = err.Error()
					mu.Lock()
					all = append(all, o)
					mu.Unlock()
					return
				}
				o.Proto = cl.Proto
				var tags []string
				for r := 0; r < nreq; r++ {
					tags = append(tags, fmt.Sprintf("c%d-r%d", id, r))
				}
				if cl.Proto == "h2" {
					o.Pre = pre
					cl.Conn.SetDeadline(time.Now().Add(20 * time.Second))
					cl.Conn.Write([]byte(h2raw.Preface))
					var ss []h2raw.Setting
					for _, s := range pre.Settings {
						ss = append(ss, h2raw.Setting{ID: uint16(s[0]), Val: s[1]})
					}
					cl.Conn.Write(h2raw.Settings(ss...))
					cl.Conn.Write(h2raw.WindowUpdate(0, pre.WU))
					for _, p := range pre.Prios {
						cl.Conn.Write(h2raw.Priority(p[0], h2raw.Prio{Dep: p[2], Excl: p[1] == 1, Weight: uint8(p[3])}))
					}
					hc := h2raw.NewConn(cl.Conn)
					hc.AutoWU = false
					m := map[byte]h2raw.HF{'m': {":method", "GET"}, 'a': {":authority", "vf.test"}, 's': {":scheme", "https"}, 'p': {":path", "/r"}}
					var ids []uint32
					var henc *h2raw.Enc
					if id%2 == 1 {
						henc = &h2raw.Enc{}
					}
					for r, tag := range tags { // multiplexed: all requests are in flight together
						var fs []h2raw.HF
						for i := 0; i < 4; i++ {
							fs = append(fs, m[pre.Order[i]])
						}
						fs = append(fs, h2raw.HF{"x-vf-tag", tag})
						sid := uint32(1 + 2*r)
						blk := h2raw.Block(fs)
						if henc != nil {
							blk = henc.Block(fs)
						}
						cl.Conn.Write(h2raw.Headers(sid, true, blk, nil, 0))
						ids = append(ids, sid)
					}
					if err := hc.WaitStreams(ids...); err != nil {
						o.Err = "h2: " + err.Error()
					}
				} else {
					for _, tag := range tags { // sequential keep-alive reuse
						if _, _, err := cl.H1("GET /r HTTP/1.1\r\nHost: vf.test\r\nX-Vf-Tag: "+tag+"\r\n\r\n", "GET"); err != nil {
							o.Err = "h1: " + err.Error()
							break
						}
					}
				}
				time.Sleep(linger)
				cl.Close()
				for _, tag := range tags {
					ro := ReqObs{Tag: tag}
					for _, r := range st.Backend.ByTag(tag) {
						ro.Fwd++
						ro.JA3 = append(ro.JA3, r.Header.Values("X-Ja3-Fingerprint")...)
						ro.JA4 = append(ro.JA4, r.Header.Values("X-Ja4-Fingerprint")...)
						ro.H2 = append(ro.H2, r.Header.Values("X-Http2-Fingerprint")...)
					}
					o.Reqs = append(o.Reqs, ro)
				}
				mu.Lock()
				all = append(all, o)
				mu.Unlock()
			}(id, d, pre, nreq)
		}
		wg.Wait()
		if gated {
			verifhook.Sink = nil
		}
	}
	// latecomer pairs, every protocol combination
	pairs := 2
	if os.Getenv("VERIF_TIER") == "thorough" {
		pairs = 10
	}
	for k := 0; k < pairs; k++ {
		for _, pp := range [][2]string{{"h1", "h1"}, {"h1", "h2"}, {"h2", "h1"}, {"h2", "h2"}} {
			id += 2
			all = append(all, latecomer(st, rng, id-1, id, 1000+k, pp[0], pp[1])...)
		}
	}
	// successors from the same source address and port, every protocol combination
	for k := 0; k < pairs; k++ {
		for _, pp := range [][2]string{{"h1", "h1"}, {"h1", "h2"}, {"h2", "h1"}, {"h2", "h2"}} {
			id += 2
			all = append(all, successor(st, rng, id-1, id, 2000+k, pp[0], pp[1])...)
		}
	}
	// a noisy neighbour: 70 000 PRIORITY frames on a connection that stays open, then three newcomers
	all = append(all, noisyNeighbour(st, rng, id+1, 3000, 70000)...)
	id += 4
	b, _ := json.Marshal(all)
	os.WriteFile(out, b, 0o644)
}
