// h2fpdriver replays behaviours of H2Fingerprint.tla on the real stack: a raw-frame HTTP/2 client over TLS sends
// the scheduled frames; after every HEADERS frame it waits for the response, so the X-HTTP2-Fingerprint the
// recording backend received is the fingerprint of the connection state right after that frame.
package main

import (
	"encoding/json"
	"fmt"
	"math"
	"os"
	"strconv"
	"strings"
	"sync"
	"time"

	"verifharness/h2raw"
	"verifharness/stack"
)

type Step struct {
	F      string   `json:"f"`
	Expect []string `json:"expect,omitempty"` // one per configured limit (index into Ns)
	Alt    []string `json:"alt,omitempty"`    // the other admissible value per limit (requests with a trailer block)
}
type Path struct {
	ID    int    `json:"id"`
	N     int    `json:"n"` // index into Ns: which stack (limit) to run against
	Steps []Step `json:"steps"`
}

type Mismatch struct {
	Path   int      `json:"path"`
	N      int      `json:"n"`
	Step   int      `json:"step"`
	Frames []string `json:"frames"`
	Want   string   `json:"want"`
	Got    []string `json:"got"`
	Kind   string   `json:"kind"`
	Err    string   `json:"err,omitempty"`
}

type Out struct {
	Paths      int        `json:"paths"`
	Requests   int        `json:"requests"`
	Frames     int        `json:"frames"`
	Mismatches []Mismatch `json:"mismatches"`
	Errors     []string   `json:"errors"`
	H1NoFP     int        `json:"h1_requests_without_h2_fingerprint"`
	Samples    []any      `json:"samples"`
}

var Ns = []uint{0, 1, 2, 3, 1000000}

func frameBytes(f string, sid uint32, lastSid uint32) []byte {
	switch f {
	case "S0":
		return h2raw.Settings()
	case "S1":
		return h2raw.Settings(h2raw.Setting{ID: 1, Val: 65536}, h2raw.Setting{ID: 4, Val: 131072})
	case "S2":
		return h2raw.Settings(h2raw.Setting{ID: 3, Val: 100}, h2raw.Setting{ID: 2, Val: 0}, h2raw.Setting{ID: 153, Val: 7})
	case "SA":
		return h2raw.SettingsAck()
	case "PING":
		return h2raw.Ping(false, [8]byte{1, 2, 3})
	case "W0a":
		return h2raw.WindowUpdate(0, 15663105)
	case "W0b":
		return h2raw.WindowUpdate(0, 12)
	case "Ws":
		return h2raw.WindowUpdate(lastSid, 5000)
	case "P1":
		return h2raw.Priority(3, h2raw.Prio{Dep: 0, Weight: 200})
	case "P2":
		return h2raw.Priority(5, h2raw.Prio{Dep: 3, Excl: true, Weight: 100})
	case "P3":
		return h2raw.Priority(7, h2raw.Prio{Dep: 0, Weight: 0})
	}
	panic("unknown frame " + f)
}

// ni: the literal fields of this connection use the never-indexed representation for every other field, pseudo-header fields
// included (legal, and the same header list: the fingerprint is a function of the list, not of its HPACK representation)
func headerFrame(f string, sid uint32, tag string, enc *h2raw.Enc, ni bool) []byte {
	order := map[string]string{"H1": "masp", "H2": "mpas", "H3": "mspa"}[f]
	m := map[byte]h2raw.HF{'m': {":method", "GET"}, 'a': {":authority", "vf.test"}, 's': {":scheme", "https"}, 'p': {":path", "/r"}}
	var fs []h2raw.HF
	for i := 0; i < len(order); i++ {
		fs = append(fs, m[order[i]])
	}
	fs = append(fs, h2raw.HF{"x-vf-tag", tag})
	blk := h2raw.Block(fs)
	if enc != nil { // indexed representations and a growing dynamic table, as real clients send them
		blk = enc.Block(fs)
	} else if ni {
		k := int(sid / 2)
		blk = h2raw.BlockRep(fs, func(i int) byte {
			if (i+k)%2 == 0 || k%3 == 0 {
				return 0x10
			}
			return 0x00
		})
	}
	switch f {
	case "H2":
		return h2raw.Headers(sid, true, blk, &h2raw.Prio{Dep: 0, Excl: true, Weight: 255}, 0)
	case "H3":
		return h2raw.Headers(sid, true, blk, &h2raw.Prio{}, 11) // HEADERS + CONTINUATION frames of 11 bytes; PRIORITY flag with all-zero fields
	}
	return h2raw.Headers(sid, true, blk, nil, 0)
}

func trailerRequest(f string, sid uint32, tag string, enc *h2raw.Enc) []byte {
	fs := []h2raw.HF{{":method", "POST"}, {":authority", "vf.test"}, {":scheme", "https"}, {":path", "/r"}, {"x-vf-tag", tag}}
	tr := []h2raw.HF{{"x-vf-trailer", "1"}}
	blk, tblk := h2raw.Block(fs), h2raw.Block(tr)
	if enc != nil {
		blk = enc.Block(fs)
		tblk = enc.Block(tr)
	}
	out := h2raw.Headers(sid, false, blk, nil, 0)
	if f == "T1" {
		return append(out, h2raw.Headers(sid, true, tblk, &h2raw.Prio{Dep: 5, Weight: 9}, 0)...)
	}
	return append(out, h2raw.Headers(sid, true, tblk, nil, 0)...)
}

func runPath(st *stack.Stack, p Path, out *Out, mu *sync.Mutex) {
	fail := func(e string) {
		mu.Lock()
		if len(out.Errors) < 20 {
			out.Errors = append(out.Errors, fmt.Sprintf("path %d: %s", p.ID, e))
		}
		mu.Unlock()
	}
	// every seventh path arrives on a connection whose ClientHello spans two TLS records: JA3 and JA4 have nothing to say about it, the
	// HTTP/2 fingerprint is owed all the same
	do := stack.DialOpts{ALPN: []string{"h2"}}
	if p.ID%7 == 3 {
		do.Fragment = 37
	}
	cl, err := stack.DialStd(st.Addr, do, nil)
	if err != nil {
		fail("dial: " + err.Error())
		return
	}
	defer cl.Close()
	cl.Conn.SetDeadline(time.Now().Add(20 * time.Second))
	cl.Conn.Write([]byte(h2raw.Preface))
	hc := h2raw.NewConn(cl.Conn)
	hc.AutoWU = false
	hc.NoAck = true // the behaviour decides whether and when SETTINGS is acknowledged
	var frames []string
	var enc *h2raw.Enc
	if p.ID%2 == 1 {
		enc = &h2raw.Enc{}
	}
	sid := uint32(1)
	last := uint32(0)
	nreq, nfr := 0, 0
	for si, s := range p.Steps {
		frames = append(frames, s.F)
		nfr++
		if strings.HasPrefix(s.F, "H") || strings.HasPrefix(s.F, "T") {
			tag := fmt.Sprintf("p%d-s%d", p.ID, si)
			var wire []byte
			if strings.HasPrefix(s.F, "T") {
				// request HEADERS (block of H1) without END_STREAM and, right behind it, the trailer block that ends the stream
				wire = trailerRequest(s.F, sid, tag, enc)
			} else {
				wire = headerFrame(s.F, sid, tag, enc, p.ID%6 == 4)
			}
			if _, err := cl.Conn.Write(wire); err != nil {
				fail("write: " + err.Error())
				return
			}
			if err := hc.WaitStreams(sid); err != nil {
				fail(fmt.Sprintf("after %v: %v goaway=%v payload=%x", frames, err, hc.GoAway, func() []byte { if hc.GoAway != nil { return hc.GoAway.Payload }; return nil }()))
				return
			}
			rs := hc.Resp[sid]
			var got []string
			fwd := 0
			for _, r := range st.Backend.ByTag(tag) {
				fwd++
				got = append(got, r.Header.Values("X-Http2-Fingerprint")...)
			}
			nreq++
			want := s.Expect[p.N]
			alt := want
			if len(s.Alt) > p.N {
				alt = s.Alt[p.N]
			}
			kind := ""
			switch {
			case rs.Reset || rs.Status != "200" || fwd != 1:
				kind = "request_failed"
			case len(got) != 1:
				kind = "header_count"
			case got[0] != want && got[0] != alt:
				kind = "header_wrong"
				if strings.Count(got[0], "|") != 3 {
					kind = "not_four_parts"
				}
			}
			mu.Lock()
			if kind != "" && len(out.Mismatches) < 100 {
				out.Mismatches = append(out.Mismatches, Mismatch{Path: p.ID, N: int(Ns[p.N]), Step: si, Frames: append([]string{}, frames...), Want: want, Got: got, Kind: kind,
					Err: fmt.Sprintf("status=%s reset=%v code=%d forwarded=%d", rs.Status, rs.Reset, rs.RSTCode, fwd)})
			}
			if len(out.Samples) < 6 && p.ID%97 == 0 {
				out.Samples = append(out.Samples, map[string]any{"limit": Ns[p.N], "frames": append([]string{}, frames...), "spec": want, "backend_saw": got})
			}
			mu.Unlock()
			last = sid
			sid += 2
			continue
		}
		if _, err := cl.Conn.Write(frameBytes(s.F, sid, last)); err != nil {
			fail("write: " + err.Error())
			return
		}
	}
	mu.Lock()
	out.Paths++
	out.Requests += nreq
	out.Frames += nfr
	mu.Unlock()
}

func main() {
	in, outp := os.Args[1], os.Args[2]
	b, err := os.ReadFile(in)
	if err != nil {
		panic(err)
	}
	var paths []Path
	if err := json.Unmarshal(b, &paths); err != nil {
		panic(err)
	}
	stacks := make([]*stack.Stack, len(Ns))
	for i, n := range Ns {
		if n == 1000000 {
			n = math.MaxUint // "unlimited" as the library itself configures it (DefaultHeaderInjectors without flags, HTTP2FingerprintingFrames.String)
		}
		st, err := stack.Start(stack.Options{MaxPrio: n, MaxPrioSet: true})
		if err != nil {
			panic(err)
		}
		stacks[i] = st
		defer st.Close()
	}
	out := &Out{}
	var mu sync.Mutex
	var wg sync.WaitGroup
	par, _ := strconv.Atoi(os.Getenv("VF_PAR"))
	if par == 0 {
		par = 32
	}
	sem := make(chan struct{}, par)
	for _, p := range paths {
		wg.Add(1)
		sem <- struct{}{}
		go func(p Path) {
			defer wg.Done()
			defer func() { <-sem }()
			runPath(stacks[p.N], p, out, &mu)
		}(p)
	}
	wg.Wait()
	// the negative clause: connections that did not negotiate HTTP/2 produce no HTTP/2 fingerprint
	for i := 0; i < 8; i++ {
		cl, err := stack.DialStd(stacks[i%len(stacks)].Addr, stack.DialOpts{ALPN: []string{"http/1.1"}}, nil)
		if err != nil {
			out.Errors = append(out.Errors, "h1 dial: "+err.Error())
			continue
		}
		tag := fmt.Sprintf("h1-%d", i)
		_, _, err = cl.H1("GET /h1 HTTP/1.1\r\nHost: vf.test\r\nX-Vf-Tag: "+tag+"\r\n\r\n", "GET")
		cl.Close()
		if err != nil {
			out.Errors = append(out.Errors, "h1: "+err.Error())
			continue
		}
		for _, r := range stacks[i%len(stacks)].Backend.ByTag(tag) {
			if v := r.Header.Values("X-Http2-Fingerprint"); len(v) != 0 {
				out.Mismatches = append(out.Mismatches, Mismatch{Path: -1, Kind: "h2_fingerprint_on_h1", Got: v})
			} else {
				out.H1NoFP++
			}
		}
	}
	ob, _ := json.Marshal(out)
	os.WriteFile(outp, ob, 0o644)
}
