// c12driver records flow-control traces of the real HTTP/2 server from the client side of the wire (FlowLedger.tla):
// a raw-frame client over TLS grants and withdraws window according to a seeded random schedule and logs, in its own
// program order, every credit it sends and every DATA / WINDOW_UPDATE / RST_STREAM / GOAWAY it receives.
package main

import (
	"context"
	"crypto/tls"
	"encoding/json"
	"fmt"
	"io"
	"math/rand"
	"net"
	"net/http"
	"os"
	"strconv"
	"sync"
	"time"

	fphttp2 "github.com/wi1dcard/fingerproxy/pkg/http2"
	"verifharness/h2raw"
	"verifharness/stack"
)

var codeName = map[uint32]string{0: "NO", 1: "PE", 2: "INTERNAL", 3: "FC", 5: "SC", 6: "FS", 7: "RS", 8: "CANCEL"}

type rec struct {
	enc   *json.Encoder
	n     int
	notes []string
}

func (r *rec) ev(m map[string]any) { r.enc.Encode(m); r.n++ }

func backend(w http.ResponseWriter, r *http.Request) {
	n, _ := io.Copy(io.Discard, r.Body)
	size, _ := strconv.Atoi(r.Header.Get("X-Vf-Body"))
	w.Header().Set("X-Vf-Up", strconv.FormatInt(n, 10))
	w.WriteHeader(200)
	buf := make([]byte, 8192)
	for i := range buf {
		buf[i] = byte(i)
	}
	for size > 0 {
		k := len(buf)
		if size < k {
			k = size
		}
		w.Write(buf[:k])
		size -= k
	}
}

type client struct {
	cl       *stack.Client
	hc       *h2raw.Conn
	r        *rec
	pn       byte
	graceful bool // the client announced GOAWAY(NO_ERROR): the server's own GOAWAY(NO_ERROR) is part of the graceful shutdown, not the end
}

func dial(st *stack.Stack, r *rec) (*client, error) {
	cl, err := stack.DialStd(st.Addr, stack.DialOpts{ALPN: []string{"h2"}}, nil)
	if err != nil {
		return nil, err
	}
	cl.Conn.SetDeadline(time.Now().Add(30 * time.Second))
	cl.Conn.Write([]byte(h2raw.Preface))
	hc := h2raw.NewConn(cl.Conn)
	hc.AutoWU = false
	return &client{cl: cl, hc: hc, r: r}, nil
}

// pump reads frames until cond() or the PING barrier is acknowledged; every relevant frame is logged in arrival order
func (c *client) logFrame(f h2raw.RFrame) {
	switch f.Type {
	case h2raw.TData:
		c.r.ev(map[string]any{"op": "data", "s": f.Stream, "len": len(f.Payload), "end": f.Flags&h2raw.FEndStream != 0})
	case h2raw.TRSTStream:
		c.r.ev(map[string]any{"op": "rst", "s": f.Stream, "code": codeName[f.U32(0)]})
	case h2raw.TGoAway:
		c.r.ev(map[string]any{"op": "goaway", "code": codeName[f.U32(4)]})
	case h2raw.TWindowUpdate:
		c.r.ev(map[string]any{"op": "srv_wu", "s": f.Stream, "n": f.U32(0) & 0x7fffffff})
	case h2raw.TSettings:
		if f.Flags&h2raw.FAck != 0 {
			c.r.ev(map[string]any{"op": "initwin_ack"})
		}
	}
}

func (c *client) barrier() error {
	c.pn++
	c.cl.Conn.Write(h2raw.Ping(false, [8]byte{0xfd, c.pn}))
	for {
		f, err := c.hc.Step()
		if err != nil {
			return err
		}
		c.logFrame(f)
		if f.Type == h2raw.TGoAway && !(c.graceful && f.U32(4) == 0) {
			return io.EOF
		}
		if f.Type == h2raw.TPing && f.Flags&h2raw.FAck != 0 && len(f.Payload) == 8 && f.Payload[0] == 0xfd && f.Payload[1] == c.pn {
			return nil
		}
	}
}

func (c *client) until(cond func() bool) error {
	for !cond() {
		f, err := c.hc.Step()
		if err != nil {
			return err
		}
		c.logFrame(f)
		if f.Type == h2raw.TGoAway && !(c.graceful && f.U32(4) == 0) {
			return io.EOF
		}
	}
	return nil
}

func reqBlock(method string, body int, tag string) []byte {
	return h2raw.Block([]h2raw.HF{{":method", method}, {":scheme", "https"}, {":authority", "vf.test"}, {":path", "/f"}, {"x-vf-body", strconv.Itoa(body)}, {"x-vf-tag", tag}})
}

// ---------------------------------------------------------------- server as sender
func senderScenario(st *stack.Stack, r *rec, rng *rand.Rand, idx int) {
	r.ev(map[string]any{"op": "reset", "scenario": fmt.Sprintf("send-%d", idx)})
	c, err := dial(st, r)
	if err != nil {
		r.notes = append(r.notes, "dial: "+err.Error())
		return
	}
	defer c.cl.Close()
	w0 := []int{0, 1, 7, 100, 3000, 16384, 65535, 70000}[rng.Intn(8)]
	connBound := idx%5 == 1 // large stream windows, big bodies, no connection-level credit: the 65535-byte connection window is what binds
	if connBound {
		w0 = 100000
	}
	c.cl.Conn.Write(h2raw.Settings(h2raw.Setting{ID: 4, Val: uint32(w0)}))
	c.r.ev(map[string]any{"op": "initwin_send", "v": w0})
	acked := func() bool {
		for _, f := range c.hc.Frames {
			if f.Type == h2raw.TSettings && f.Flags&h2raw.FAck != 0 {
				return true
			}
		}
		return false
	}
	if err := c.until(acked); err != nil {
		return
	}
	granted := map[uint32]int{}
	connGranted := 0
	bodyOf := map[uint32]int{}
	maxInit := w0
	sizes := []int{0, 1, 100, 5000, 20000, 40000, 70000, 70000}
	nstreams := 1 + rng.Intn(3)
	if connBound {
		nstreams = 3
		sizes = []int{40000, 70000}
	}
	var ids []uint32
	for i := 0; i < nstreams; i++ {
		sid := uint32(1 + 2*i)
		body := sizes[rng.Intn(len(sizes))]
		c.cl.Conn.Write(h2raw.Headers(sid, true, reqBlock("GET", body, fmt.Sprintf("s%d-%d", idx, sid)), nil, 0))
		c.r.ev(map[string]any{"op": "open", "s": sid, "body": body, "adv": 0})
		bodyOf[sid] = body
		ids = append(ids, sid)
	}
	overflowed := map[uint32]bool{}
	if idx%6 == 2 {
		// the client announces that it will open no more streams (GOAWAY NO_ERROR): the server shuts down gracefully, which means
		// that everything open - the highest stream included - is served to the end under the same window rules
		c.graceful = true
		c.cl.Conn.Write(h2raw.GoAway(0, 0))
		if err := c.barrier(); err != nil {
			r.notes = append(r.notes, fmt.Sprintf("send-%d: after the client's GOAWAY(NO_ERROR): %v", idx, err))
			return
		}
	}
	steps := 6 + rng.Intn(10)
	for i := 0; i < steps; i++ {
		switch k := rng.Intn(10); {
		case k < 4:
			sid := ids[rng.Intn(len(ids))]
			n := []uint32{1, 2, 50, 1000, 16384, 30000}[rng.Intn(6)]
			c.cl.Conn.Write(h2raw.WindowUpdate(sid, n))
			granted[sid] += int(n)
			c.r.ev(map[string]any{"op": "wu", "s": sid, "n": n, "sure": false})
		case k < 6 && !connBound:
			n := []uint32{1, 1000, 20000, 100000}[rng.Intn(4)]
			c.cl.Conn.Write(h2raw.WindowUpdate(0, n))
			connGranted += int(n)
			c.r.ev(map[string]any{"op": "wu", "s": 0, "n": n, "sure": false})
		case k < 8:
			v := []int{0, 5, 200, 4000, 65535, 100000}[rng.Intn(6)]
			before := len(c.hc.Frames)
			c.cl.Conn.Write(h2raw.Settings(h2raw.Setting{ID: 4, Val: uint32(v)}))
			c.r.ev(map[string]any{"op": "initwin_send", "v": v})
			if v > maxInit {
				maxInit = v
			}
			got := func() bool {
				for _, f := range c.hc.Frames[before:] {
					if f.Type == h2raw.TSettings && f.Flags&h2raw.FAck != 0 {
						return true
					}
				}
				return false
			}
			if err := c.until(got); err != nil {
				return
			}
		case k == 8 && len(overflowed) == 0 && rng.Intn(3) == 0:
			// overflow attempt on one stream: two maximal increments - the second overflows 2^31-1 whatever the window was
			sid := ids[rng.Intn(len(ids))]
			if maxInit+granted[sid] >= bodyOf[sid] || bodyOf[sid] <= 65535+connGranted {
				// the response may already be complete (stream closed at the server: the increment would be ignored), or may
				// complete between the two increments (the first one is ample stream credit): the outcome is only certain on a
				// stream that cannot finish at all - its body exceeds all connection-level credit handed out so far
				continue
			}
			c.cl.Conn.Write(h2raw.WindowUpdate(sid, 1<<31-1))
			c.r.ev(map[string]any{"op": "wu", "s": sid, "n": uint32(1<<31 - 1), "sure": false})
			c.cl.Conn.Write(h2raw.WindowUpdate(sid, 1<<31-1))
			c.r.ev(map[string]any{"op": "wu", "s": sid, "n": uint32(1<<31 - 1), "sure": true})
			overflowed[sid] = true
			if err := c.barrier(); err != nil {
				return
			}
			c.r.ev(map[string]any{"op": "err_deadline"})
		}
		if err := c.barrier(); err != nil {
			return
		}
	}
	// grant ample window and wait for everything that was queued
	c.cl.Conn.Write(h2raw.WindowUpdate(0, 1<<20))
	c.r.ev(map[string]any{"op": "wu", "s": 0, "n": 1 << 20, "sure": false})
	for _, sid := range ids {
		if overflowed[sid] {
			continue
		}
		c.cl.Conn.Write(h2raw.WindowUpdate(sid, 1<<20))
		c.r.ev(map[string]any{"op": "wu", "s": sid, "n": 1 << 20, "sure": false})
	}
	done := func() bool {
		for _, sid := range ids {
			rs := c.hc.Resp[sid]
			if rs == nil || !(rs.Ended || rs.Reset) {
				return false
			}
		}
		return true
	}
	if err := c.until(done); err != nil {
		r.notes = append(r.notes, fmt.Sprintf("send-%d: connection ended before all streams finished: %v", idx, err))
	}
	for _, sid := range ids {
		c.r.ev(map[string]any{"op": "drained", "s": sid})
	}
	if idx%4 == 0 && !c.graceful {
		// connection-level overflow: must end in GOAWAY(FLOW_CONTROL_ERROR)
		c.cl.Conn.Write(h2raw.WindowUpdate(0, 1<<31-1))
		c.r.ev(map[string]any{"op": "wu", "s": 0, "n": uint32(1<<31 - 1), "sure": false})
		c.cl.Conn.Write(h2raw.WindowUpdate(0, 1<<31-1))
		c.r.ev(map[string]any{"op": "wu", "s": 0, "n": uint32(1<<31 - 1), "sure": true})
		c.barrier()
		c.r.ev(map[string]any{"op": "err_deadline"})
	}
}

// ---------------------------------------------------------------- server as receiver
// The receiving side is driven against pkg/http2.Server directly (ServeConn on a plain TCP connection), so that the
// handler can be one that consumes everything or one that reads nothing at all (the only way to make an overrun certain).
func directServer(handler http.Handler, streamWin, connWin int32) (string, func()) {
	ln, err := net.Listen("tcp", "127.0.0.1:0")
	if err != nil {
		panic(err)
	}
	h2s := &fphttp2.Server{MaxUploadBufferPerStream: streamWin, MaxUploadBufferPerConnection: connWin}
	go func() {
		for {
			c, err := ln.Accept()
			if err != nil {
				return
			}
			go h2s.ServeConn(c, &fphttp2.ServeConnOpts{Handler: handler})
		}
	}()
	return ln.Addr().String(), func() { ln.Close() }
}

func dialPlain(addr string, r *rec) (*client, error) {
	c, err := net.DialTimeout("tcp", addr, 3*time.Second)
	if err != nil {
		return nil, err
	}
	c.SetDeadline(time.Now().Add(30 * time.Second))
	c.Write([]byte(h2raw.Preface))
	hc := h2raw.NewConn(c)
	hc.AutoWU = false
	return &client{cl: &stack.Client{Conn: c}, hc: hc, r: r}, nil
}

func consumeAll(w http.ResponseWriter, r *http.Request) {
	io.Copy(io.Discard, r.Body)
	w.Write([]byte("abc"))
}
func readNothing(w http.ResponseWriter, r *http.Request) {
	<-r.Context().Done()
}

// closeBody: a handler that closes the request body at once and then stays (the stream remains open).  DATA that keeps
// arriving is discarded by the server, which must return its connection-level credit - padding included - right away.
var (
	cbMu      sync.Mutex
	cbClosed  = map[string]chan struct{}{}
	cbRelease = map[string]chan struct{}{}
)

func cbChans(tag string) (chan struct{}, chan struct{}) {
	cbMu.Lock()
	defer cbMu.Unlock()
	if cbClosed[tag] == nil {
		cbClosed[tag], cbRelease[tag] = make(chan struct{}), make(chan struct{})
	}
	return cbClosed[tag], cbRelease[tag]
}

func closeBody(w http.ResponseWriter, r *http.Request) {
	closed, release := cbChans(r.Header.Get("X-Vf-Tag"))
	r.Body.Close()
	close(closed)
	select {
	case <-release:
	case <-r.Context().Done():
	}
}

func closedBodyScenario(addr string, r *rec, rng *rand.Rand, idx int) {
	r.ev(map[string]any{"op": "reset", "scenario": fmt.Sprintf("recv-closedbody-%d", idx)})
	c, err := dialPlain(addr, r)
	if err != nil {
		r.notes = append(r.notes, "dial: "+err.Error())
		return
	}
	defer c.cl.Close()
	c.cl.Conn.Write(h2raw.Settings())
	if err := c.barrier(); err != nil {
		return
	}
	tag := fmt.Sprintf("cb%d", idx)
	closed, release := cbChans(tag)
	defer close(release)
	c.cl.Conn.Write(h2raw.Headers(1, false, reqBlock("POST", 0, tag), nil, 0))
	c.r.ev(map[string]any{"op": "open", "s": 1, "body": 0, "adv": 1 << 20})
	select {
	case <-closed:
	case <-time.After(5 * time.Second):
		r.notes = append(r.notes, "closeBody handler never ran")
		return
	}
	// far below the stream window (whose credit is not returned for discarded data), far above the batching bound in padding alone
	frames := 120 + rng.Intn(120)
	for i := 0; i < frames; i++ {
		n := []int{1, 7, 100, 900}[rng.Intn(4)]
		pad := -1
		switch rng.Intn(3) {
		case 0:
			pad = rng.Intn(256)
		case 1:
			pad = 200 + rng.Intn(56)
		}
		fr := h2raw.Data(1, false, make([]byte, n), pad)
		c.cl.Conn.Write(fr)
		c.r.ev(map[string]any{"op": "up_data", "s": 1, "n": len(fr) - 9, "overrun": false})
		if rng.Intn(25) == 0 {
			if err := c.barrier(); err != nil {
				return
			}
		}
	}
	for i := 0; i < 2; i++ {
		if err := c.barrier(); err != nil {
			return
		}
		time.Sleep(10 * time.Millisecond)
	}
	if err := c.barrier(); err != nil {
		return
	}
	c.r.ev(map[string]any{"op": "up_quiesce"})
}

func receiverScenario(addr string, r *rec, rng *rand.Rand, idx int, overrun bool, withRST bool) {
	name := fmt.Sprintf("recv-%d", idx)
	if withRST {
		name = fmt.Sprintf("recv-rst-%d", idx)
	}
	r.ev(map[string]any{"op": "reset", "scenario": name})
	c, err := dialPlain(addr, r)
	if err != nil {
		r.notes = append(r.notes, "dial: "+err.Error())
		return
	}
	defer c.cl.Close()
	c.cl.Conn.Write(h2raw.Settings())
	if err := c.barrier(); err != nil {
		return
	}
	adv := 65535
	for _, f := range c.hc.Frames {
		if f.Type == h2raw.TSettings && f.Flags&h2raw.FAck == 0 {
			for i := 0; i+6 <= len(f.Payload); i += 6 {
				if int(f.Payload[i])<<8|int(f.Payload[i+1]) == 4 {
					adv = int(f.Payload[i+2])<<24 | int(f.Payload[i+3])<<16 | int(f.Payload[i+4])<<8 | int(f.Payload[i+5])
				}
			}
		}
	}
	nstreams := 1 + rng.Intn(2)
	if overrun {
		nstreams = 1
	}
	left := map[uint32]int{}
	var ids []uint32
	for i := 0; i < nstreams; i++ {
		sid := uint32(1 + 2*i)
		c.cl.Conn.Write(h2raw.Headers(sid, false, reqBlock("POST", 3, fmt.Sprintf("r%d-%d", idx, sid)), nil, 0))
		c.r.ev(map[string]any{"op": "open", "s": sid, "body": 3, "adv": adv})
		left[sid] = []int{1, 5000, 70000, 200000}[rng.Intn(4)]
		if overrun {
			left[sid] = adv
		}
		ids = append(ids, sid)
	}
	sentSince := 0
	for len(left) > 0 {
		sid := ids[rng.Intn(len(ids))]
		if _, ok := left[sid]; !ok {
			continue
		}
		n := []int{1, 100, 4000, 16000}[rng.Intn(4)]
		pad := -1
		if rng.Intn(4) == 0 && !overrun && os.Getenv("VF_NOPAD") == "" {
			pad = rng.Intn(40)
		}
		if n > left[sid] {
			n = left[sid]
		}
		left[sid] -= n
		end := left[sid] == 0 && !overrun
		fr := h2raw.Data(sid, end, make([]byte, n), pad)
		c.cl.Conn.Write(fr)
		c.r.ev(map[string]any{"op": "up_data", "s": sid, "n": len(fr) - 9, "overrun": false})
		if left[sid] == 0 {
			delete(left, sid)
		} else if withRST && rng.Intn(12) == 0 {
			c.r.ev(map[string]any{"op": "client_rst", "s": sid})
			c.cl.Conn.Write(h2raw.RST(sid, 8)) // the client gives up in the middle of the body
			delete(left, sid)
		}
		sentSince += n
		if sentSince > 30000 || rng.Intn(6) == 0 {
			sentSince = 0
			if err := c.barrier(); err != nil {
				return
			}
		}
	}
	if overrun {
		// the handler reads nothing and the stream window is used up: one more byte is beyond what the server advertised
		if err := c.barrier(); err != nil {
			return
		}
		fr := h2raw.Data(ids[0], false, make([]byte, 1000), -1)
		c.cl.Conn.Write(fr)
		c.r.ev(map[string]any{"op": "up_data", "s": ids[0], "n": 1000, "overrun": true})
		c.barrier()
		c.r.ev(map[string]any{"op": "err_deadline"})
		return
	}
	for i := 0; i < 3; i++ { // the handler consumes, credit comes back: let it settle, then the quiescent point
		if err := c.barrier(); err != nil {
			return
		}
		time.Sleep(15 * time.Millisecond)
	}
	if err := c.barrier(); err != nil {
		return
	}
	c.r.ev(map[string]any{"op": "up_quiesce"})
}

// ---------------------------------------------------------------- the client transport as sender
// The fork's Transport uploads request bodies to a raw-frame server of the harness, which plays the peer: it announces windows and
// a maximum frame size, changes them in mid-upload, hands out credit in a seeded random schedule and logs every DATA frame it gets.
type patternReader struct{ n, off int }

func (p *patternReader) Read(b []byte) (int, error) {
	if p.off >= p.n {
		return 0, io.EOF
	}
	k := len(b)
	if k > p.n-p.off {
		k = p.n - p.off
	}
	for i := 0; i < k; i++ {
		b[i] = byte(p.off + i)
	}
	p.off += k
	return k, nil
}

func transportScenario(r *rec, rng *rand.Rand, idx int) {
	r.ev(map[string]any{"op": "reset", "scenario": fmt.Sprintf("tsend-%d", idx)})
	ln, err := net.Listen("tcp", "127.0.0.1:0")
	if err != nil {
		r.notes = append(r.notes, "listen: "+err.Error())
		return
	}
	defer ln.Close()
	tr := &fphttp2.Transport{AllowHTTP: true, DialTLSContext: func(ctx context.Context, network, addr string, _ *tls.Config) (net.Conn, error) {
		return net.Dial(network, addr)
	}}
	defer func() { go tr.CloseIdleConnections() }() // not waited for: a transport that is stuck must not take the recording with it
	nreq := 1 + rng.Intn(3)
	sizes := []int{0, 1, 100, 20000, 70000, 200000}
	// every third scenario is a fixed one: a large frame size is announced, the upload starts against a tiny window, the frame size is
	// lowered in mid-upload and only then the windows are opened wide - what follows must respect the lowered limit
	mfdrop := idx%3 == 0
	if mfdrop {
		nreq, sizes = 1, []int{200000}
	}
	// another third: several uploads stuck on their stream windows at once; at the end credit comes stream by stream (WINDOW_UPDATE on each
	// stream, in an order of the scenario's own) - every one of them must get going, whoever else is waiting on the connection
	perStream := idx%3 == 1
	if perStream {
		nreq, sizes = 4, []int{20000, 70000}
	}
	// every fifth: the peer admits one stream at a time (and the transport is told to honour that on this one connection), a second
	// upload waits for its turn, and while it waits the peer changes the initial window size; the stream it finally gets starts
	// with the window in force then
	queued := idx%5 == 4
	if queued {
		mfdrop, perStream = false, false
		nreq, sizes = 2, []int{20000, 70000}
		tr.StrictMaxConcurrentStreams = true
	}
	done := make(chan error, nreq+1)
	launch := func(size int, known bool) {
		go func() {
			req, _ := http.NewRequest("POST", "http://"+ln.Addr().String()+"/t", &patternReader{n: size})
			req.Header.Set("X-Vf-Body", strconv.Itoa(size))
			if known {
				req.ContentLength = int64(size)
			} else {
				req.ContentLength = -1
			}
			resp, err := tr.RoundTrip(req)
			if err == nil {
				io.Copy(io.Discard, resp.Body)
				resp.Body.Close()
			}
			done <- err
		}()
	}
	if mfdrop {
		launch(0, true) // warm-up: the big upload starts on a connection that has seen the peer's SETTINGS
	} else if queued {
		launch(20000, true)
	} else {
		for i := 0; i < nreq; i++ {
			launch(sizes[rng.Intn(len(sizes))], rng.Intn(2) == 0)
			time.Sleep(2 * time.Millisecond) // the requests share one connection (the second dial waits for the first)
		}
	}
	ln.(*net.TCPListener).SetDeadline(time.Now().Add(5 * time.Second))
	conn, err := ln.Accept()
	if err != nil {
		r.notes = append(r.notes, "transport never connected: "+err.Error())
		return
	}
	defer conn.Close()
	conn.SetDeadline(time.Now().Add(40 * time.Second))
	pre := make([]byte, len(h2raw.Preface))
	if _, err := io.ReadFull(conn, pre); err != nil || string(pre) != h2raw.Preface {
		r.notes = append(r.notes, "no client preface from the transport")
		return
	}
	hc := h2raw.NewConn(conn)
	hc.AutoWU = false
	c := &client{cl: &stack.Client{Conn: conn}, hc: hc, r: r}
	opened := map[uint32]bool{}
	var ids []uint32
	// server-role logging: request HEADERS open a stream, DATA is what the ledger judges
	logT := func(f h2raw.RFrame) {
		switch f.Type {
		case h2raw.THeaders, h2raw.TContinuation:
			for sid, rs := range hc.Resp {
				if !opened[sid] && rs != nil && len(rs.Trailer) > 0 {
					body := 0
					for _, h := range rs.Trailer {
						if h.Name == "x-vf-body" {
							body, _ = strconv.Atoi(h.Value)
						}
					}
					opened[sid] = true
					ids = append(ids, sid)
					r.ev(map[string]any{"op": "open", "s": sid, "body": body, "adv": 0})
				}
			}
		case h2raw.TData:
			r.ev(map[string]any{"op": "data", "s": f.Stream, "len": len(f.Payload), "end": f.Flags&h2raw.FEndStream != 0})
		case h2raw.TRSTStream:
			r.ev(map[string]any{"op": "rst", "s": f.Stream, "code": codeName[f.U32(0)]})
		case h2raw.TGoAway:
			r.ev(map[string]any{"op": "goaway", "code": codeName[f.U32(4)]})
		case h2raw.TSettings:
			if f.Flags&h2raw.FAck != 0 {
				r.ev(map[string]any{"op": "initwin_ack"})
			}
		}
	}
	pn := byte(0)
	barrier := func() error {
		pn++
		conn.Write(h2raw.Ping(false, [8]byte{0xfc, pn}))
		for {
			f, err := hc.Step()
			if err != nil {
				return err
			}
			logT(f)
			if f.Type == h2raw.TPing && f.Flags&h2raw.FAck != 0 && len(f.Payload) == 8 && f.Payload[0] == 0xfc && f.Payload[1] == pn {
				return nil
			}
		}
	}
	settings := func(ss ...h2raw.Setting) error {
		before := len(hc.Frames)
		conn.Write(h2raw.Settings(ss...))
		for _, st := range ss {
			switch st.ID {
			case 4:
				r.ev(map[string]any{"op": "initwin_send", "v": st.Val})
			case 5:
				r.ev(map[string]any{"op": "mf_send", "v": st.Val})
			}
		}
		for {
			for _, f := range hc.Frames[before:] {
				if f.Type == h2raw.TSettings && f.Flags&h2raw.FAck != 0 {
					return nil
				}
			}
			before = len(hc.Frames)
			f, err := hc.Step()
			if err != nil {
				return err
			}
			logT(f)
			if f.Type == h2raw.TSettings && f.Flags&h2raw.FAck != 0 {
				return nil
			}
		}
	}
	w0 := []uint32{0, 1, 100, 16384, 65535, 100000}[rng.Intn(6)]
	mf0 := []uint32{16384, 32768, 65536}[rng.Intn(3)]
	if mfdrop {
		w0, mf0 = 10, 65536
	}
	if perStream {
		w0 = []uint32{0, 100}[rng.Intn(2)]
	}
	maxc := uint32(100)
	if queued {
		w0, maxc = []uint32{65535, 30000, 0}[(idx/5)%3], 1
	}
	if err := settings(h2raw.Setting{ID: 4, Val: w0}, h2raw.Setting{ID: 5, Val: mf0}, h2raw.Setting{ID: 3, Val: maxc}); err != nil {
		r.notes = append(r.notes, fmt.Sprintf("tsend-%d: %v", idx, err))
		return
	}
	_ = c
	responded := map[uint32]bool{}
	finished := 0
	steps := 6 + rng.Intn(12)
	if perStream {
		steps = 0
	}
	if queued {
		steps = 0
		fail := func(what string) { r.notes = append(r.notes, fmt.Sprintf("tsend-%d (queued): %s", idx, what)) }
		for by := time.Now().Add(15 * time.Second); len(ids) == 0 && time.Now().Before(by); { // the first upload has started
			if err := barrier(); err != nil {
				fail(err.Error())
				return
			}
			time.Sleep(2 * time.Millisecond)
		}
		if len(ids) != 1 {
			fail("the first upload never started")
			return
		}
		launch(70000, rng.Intn(2) == 0) // waits inside the transport: the peer admits one stream
		time.Sleep(30 * time.Millisecond)
		if err := barrier(); err != nil {
			fail(err.Error())
			return
		}
		if len(ids) != 1 {
			fail("the transport opened a second stream beyond the peer's limit of one")
			return
		}
		w1 := []uint32{100, 5, 40000}[(idx/5)%3] // 65535 -> 100, 30000 -> 5, 0 -> 40000
		if err := settings(h2raw.Setting{ID: 4, Val: w1}); err != nil {
			fail(err.Error())
			return
		}
		// let the first upload finish and answer it; the second one gets its stream now
		conn.Write(h2raw.WindowUpdate(0, 1<<22))
		r.ev(map[string]any{"op": "wu", "s": 0, "n": 1 << 22, "sure": false})
		conn.Write(h2raw.WindowUpdate(ids[0], 1<<20))
		r.ev(map[string]any{"op": "wu", "s": ids[0], "n": 1 << 20, "sure": false})
		for by := time.Now().Add(15 * time.Second); time.Now().Before(by); {
			if rs := hc.Resp[ids[0]]; rs != nil && (rs.Ended || rs.Reset) {
				break
			}
			if err := barrier(); err != nil {
				fail(err.Error())
				return
			}
		}
		r.ev(map[string]any{"op": "drained", "s": ids[0]})
		conn.Write(h2raw.Headers(ids[0], true, h2raw.Block([]h2raw.HF{{":status", "200"}}), nil, 0))
		responded[ids[0]] = true
		select {
		case <-done:
		case <-time.After(5 * time.Second):
			fail("the first RoundTrip did not finish")
			return
		}
		finished++
		for by := time.Now().Add(15 * time.Second); len(ids) < 2 && time.Now().Before(by); { // the queued upload gets its stream
			if err := barrier(); err != nil {
				fail(err.Error())
				return
			}
			time.Sleep(2 * time.Millisecond)
		}
		for i := 0; i < 5; i++ { // ... and sends what the window in force allows, no more
			if err := barrier(); err != nil {
				fail(err.Error())
				return
			}
			time.Sleep(5 * time.Millisecond)
		}
	}
	if mfdrop {
		steps = 0
		// finish the warm-up request, then start the upload proper
		for by := time.Now().Add(15 * time.Second); len(ids) == 0 && time.Now().Before(by); {
			if err := barrier(); err != nil {
				r.notes = append(r.notes, fmt.Sprintf("tsend-%d: %v", idx, err))
				return
			}
			time.Sleep(2 * time.Millisecond)
		}
		if len(ids) == 1 {
			r.ev(map[string]any{"op": "drained", "s": ids[0]})
			conn.Write(h2raw.Headers(ids[0], true, h2raw.Block([]h2raw.HF{{":status", "200"}}), nil, 0))
			responded[ids[0]] = true
			select {
			case <-done:
			case <-time.After(5 * time.Second):
				r.notes = append(r.notes, fmt.Sprintf("tsend-%d: the warm-up RoundTrip did not finish", idx))
				return
			}
			finished++
		}
		nreq = 2
		launch(200000, rng.Intn(2) == 0)
		for by := time.Now().Add(15 * time.Second); len(ids) < 2 && time.Now().Before(by); { // wait for the upload to start
			if err := barrier(); err != nil {
				r.notes = append(r.notes, fmt.Sprintf("tsend-%d: %v", idx, err))
				return
			}
			time.Sleep(5 * time.Millisecond)
		}
		if err := settings(h2raw.Setting{ID: 5, Val: 16384}); err != nil {
			r.notes = append(r.notes, fmt.Sprintf("tsend-%d: %v", idx, err))
			return
		}
	}
	for i := 0; i < steps; i++ {
		if err := barrier(); err != nil {
			r.notes = append(r.notes, fmt.Sprintf("tsend-%d: %v", idx, err))
			return
		}
		switch k := rng.Intn(10); {
		case k < 4 && len(ids) > 0:
			sid := ids[rng.Intn(len(ids))]
			n := []uint32{1, 50, 5000, 16384, 40000, 70000}[rng.Intn(6)]
			conn.Write(h2raw.WindowUpdate(sid, n))
			r.ev(map[string]any{"op": "wu", "s": sid, "n": n, "sure": false})
		case k < 6:
			n := []uint32{1, 1000, 20000, 100000}[rng.Intn(4)]
			conn.Write(h2raw.WindowUpdate(0, n))
			r.ev(map[string]any{"op": "wu", "s": 0, "n": n, "sure": false})
		case k < 8:
			v := []uint32{0, 5, 4000, 65535, 100000}[rng.Intn(5)]
			if err := settings(h2raw.Setting{ID: 4, Val: v}); err != nil {
				r.notes = append(r.notes, fmt.Sprintf("tsend-%d: %v", idx, err))
				return
			}
		default:
			v := []uint32{16384, 32768, 65536, 16384}[rng.Intn(4)]
			if err := settings(h2raw.Setting{ID: 5, Val: v}); err != nil {
				r.notes = append(r.notes, fmt.Sprintf("tsend-%d: %v", idx, err))
				return
			}
		}
	}
	// ample credit; everything the requests hold must arrive
	conn.Write(h2raw.WindowUpdate(0, 1<<24))
	r.ev(map[string]any{"op": "wu", "s": 0, "n": 1 << 24, "sure": false})
	if perStream {
		for i := 0; i < 100 && len(ids) < nreq; i++ { // all uploads have started (and are stuck on their stream windows)
			if err := barrier(); err != nil {
				r.notes = append(r.notes, fmt.Sprintf("tsend-%d: %v", idx, err))
				return
			}
			time.Sleep(5 * time.Millisecond)
		}
		for _, i := range rng.Perm(len(ids)) { // in an order of the scenario's own (whoever has waited longest is not necessarily served first)
			conn.Write(h2raw.WindowUpdate(ids[i], 1<<22))
			r.ev(map[string]any{"op": "wu", "s": ids[i], "n": 1 << 22, "sure": false})
			if err := barrier(); err != nil {
				r.notes = append(r.notes, fmt.Sprintf("tsend-%d: %v", idx, err))
				return
			}
			time.Sleep(20 * time.Millisecond)
		}
	} else if err := settings(h2raw.Setting{ID: 4, Val: 1 << 24}); err != nil {
		r.notes = append(r.notes, fmt.Sprintf("tsend-%d: %v", idx, err))
		return
	}
	deadline := time.Now().Add(15 * time.Second)
	for time.Now().Before(deadline) {
		if len(ids) == nreq {
			all := true
			for _, sid := range ids {
				if rs := hc.Resp[sid]; rs == nil || !(rs.Ended || rs.Reset) {
					all = false
				}
			}
			if all {
				break
			}
		}
		if err := barrier(); err != nil {
			r.notes = append(r.notes, fmt.Sprintf("tsend-%d: connection ended before the uploads finished: %v", idx, err))
			return
		}
	}
	for _, sid := range ids {
		if responded[sid] {
			continue
		}
		r.ev(map[string]any{"op": "drained", "s": sid})
		conn.Write(h2raw.Headers(sid, true, h2raw.Block([]h2raw.HF{{":status", "200"}}), nil, 0))
	}
	for i := finished; i < nreq; i++ {
		select {
		case <-done:
		case <-time.After(5 * time.Second):
			r.notes = append(r.notes, fmt.Sprintf("tsend-%d: a RoundTrip did not finish", idx))
			return
		}
	}
}

// ---------------------------------------------------------------- the client transport as receiver
// The raw-frame peer answers a GET with a body in DATA frames (some padded); the application behind the Transport reads it all, or
// reads a little and closes the body.  Every byte the peer sent must come back as connection-level credit - consumed or discarded -
// never more than was sent, and all but a batching remainder once things are quiet.
func transportRecvScenario(r *rec, rng *rand.Rand, idx int) {
	r.ev(map[string]any{"op": "reset", "scenario": fmt.Sprintf("trecv-%d", idx)})
	ln, err := net.Listen("tcp", "127.0.0.1:0")
	if err != nil {
		r.notes = append(r.notes, "listen: "+err.Error())
		return
	}
	defer ln.Close()
	tr := &fphttp2.Transport{AllowHTTP: true, DialTLSContext: func(ctx context.Context, network, addr string, _ *tls.Config) (net.Conn, error) {
		return net.Dial(network, addr)
	}}
	defer func() { go tr.CloseIdleConnections() }() // not waited for: a transport that is stuck must not take the recording with it
	total := []int{1, 5000, 70000, 200000}[rng.Intn(4)]
	early := rng.Intn(2) == 0 // read a little, then close the body
	keep := []int{0, 1, 3000}[rng.Intn(3)]
	done := make(chan error, 1)
	go func() {
		req, _ := http.NewRequest("GET", "http://"+ln.Addr().String()+"/r", nil)
		resp, err := tr.RoundTrip(req)
		if err == nil {
			if early {
				io.CopyN(io.Discard, resp.Body, int64(keep))
			} else {
				io.Copy(io.Discard, resp.Body)
			}
			resp.Body.Close()
		}
		done <- err
	}()
	ln.(*net.TCPListener).SetDeadline(time.Now().Add(5 * time.Second))
	conn, err := ln.Accept()
	if err != nil {
		r.notes = append(r.notes, "transport never connected: "+err.Error())
		return
	}
	defer conn.Close()
	conn.SetDeadline(time.Now().Add(40 * time.Second))
	pre := make([]byte, len(h2raw.Preface))
	if _, err := io.ReadFull(conn, pre); err != nil || string(pre) != h2raw.Preface {
		r.notes = append(r.notes, "no client preface from the transport")
		return
	}
	hc := h2raw.NewConn(conn)
	hc.AutoWU = false
	conn.Write(h2raw.Settings())
	gone := false // the transport reset the stream
	logR := func(f h2raw.RFrame) {
		switch f.Type {
		case h2raw.TWindowUpdate:
			r.ev(map[string]any{"op": "srv_wu", "s": f.Stream, "n": f.U32(0) & 0x7fffffff})
		case h2raw.TRSTStream:
			gone = true
			r.ev(map[string]any{"op": "rst", "s": f.Stream, "code": codeName[f.U32(0)]})
		case h2raw.TGoAway:
			r.ev(map[string]any{"op": "goaway", "code": codeName[f.U32(4)]})
		}
	}
	pn := byte(0)
	barrier := func() error {
		pn++
		conn.Write(h2raw.Ping(false, [8]byte{0xfb, pn}))
		for {
			f, err := hc.Step()
			if err != nil {
				return err
			}
			logR(f)
			if f.Type == h2raw.TPing && f.Flags&h2raw.FAck != 0 && len(f.Payload) == 8 && f.Payload[0] == 0xfb && f.Payload[1] == pn {
				return nil
			}
		}
	}
	// wait for the request
	for reqBy := time.Now().Add(15 * time.Second); hc.Resp[1] == nil && time.Now().Before(reqBy); {
		if err := barrier(); err != nil {
			r.notes = append(r.notes, fmt.Sprintf("trecv-%d: %v", idx, err))
			return
		}
		time.Sleep(2 * time.Millisecond)
	}
	if hc.Resp[1] == nil {
		r.notes = append(r.notes, fmt.Sprintf("trecv-%d: no request arrived", idx))
		return
	}
	r.ev(map[string]any{"op": "open", "s": 1, "body": 0, "adv": 4194304})
	conn.Write(h2raw.Headers(1, false, h2raw.Block([]h2raw.HF{{":status", "200"}}), nil, 0))
	left := total
	afterReset := 0
	for left > 0 {
		n := []int{1, 100, 4000, 16000}[rng.Intn(4)]
		if n > left {
			n = left
		}
		pad := -1
		if rng.Intn(4) == 0 {
			pad = rng.Intn(200)
		}
		left -= n
		fr := h2raw.Data(1, left == 0, make([]byte, n), pad)
		conn.Write(fr)
		r.ev(map[string]any{"op": "up_data", "s": 1, "n": len(fr) - 9, "overrun": false})
		if gone {
			afterReset++
			if afterReset >= 3 { // what was "in flight" when the reset arrived
				break
			}
		}
		if rng.Intn(4) == 0 {
			if err := barrier(); err != nil {
				r.notes = append(r.notes, fmt.Sprintf("trecv-%d: %v", idx, err))
				return
			}
		}
	}
	select {
	case <-done:
	case <-time.After(10 * time.Second):
		r.notes = append(r.notes, fmt.Sprintf("trecv-%d: the request did not finish", idx))
		return
	}
	for i := 0; i < 3; i++ {
		if err := barrier(); err != nil {
			return
		}
		time.Sleep(15 * time.Millisecond)
	}
	if err := barrier(); err != nil {
		return
	}
	r.ev(map[string]any{"op": "up_quiesce"})
}

func main() {
	tracePath, reportPath := os.Args[1], os.Args[2]
	seed, _ := strconv.ParseInt(os.Getenv("VERIF_SEED"), 10, 64)
	rng := rand.New(rand.NewSource(seed))
	f, err := os.Create(tracePath)
	if err != nil {
		panic(err)
	}
	r := &rec{enc: json.NewEncoder(f)}
	if os.Getenv("VF_C12_MODE") == "transport" { // the client transport as sender, in a run of its own
		nt := 12
		if os.Getenv("VERIF_TIER") == "thorough" {
			nt = 200
		}
		for i := 0; i < nt && len(r.notes) == 0; i++ { // a scenario that could not run to its end ends the recording (the note makes it inconclusive)
			transportScenario(r, rng, i)
		}
		for i := 0; i < nt && len(r.notes) == 0; i++ {
			transportRecvScenario(r, rng, 5000+i)
		}
		f.Close()
		b, _ := json.Marshal(map[string]any{"events": r.n, "transport_scenarios": nt, "notes": r.notes})
		os.WriteFile(reportPath, b, 0o644)
		return
	}
	st, err := stack.Start(stack.Options{BackendHandler: http.HandlerFunc(backend)})
	if err != nil {
		panic(err)
	}
	addrAll, closeAll := directServer(http.HandlerFunc(consumeAll), 1<<20, 1<<20)
	addrSmall, closeSmall := directServer(http.HandlerFunc(consumeAll), 70000, 200000)
	addrHold, closeHold := directServer(http.HandlerFunc(readNothing), 70000, 1<<20)
	ns, nr := 25, 12
	if os.Getenv("VERIF_TIER") == "thorough" {
		ns, nr = 400, 150
	}
	for i := 0; i < ns; i++ {
		senderScenario(st, r, rng, i)
	}
	for i := 0; i < nr; i++ {
		if i%3 == 2 {
			receiverScenario(addrSmall, r, rng, i, false, false)
		} else {
			receiverScenario(addrAll, r, rng, i, false, false)
		}
	}
	for i := 0; i < 3; i++ {
		receiverScenario(addrHold, r, rng, 1000+i, true, false)
	}
	for i := 0; i < nr/2+2; i++ { // the client gives up in the middle of a body (kept apart: see D16 in DESIGN.md)
		receiverScenario(addrAll, r, rng, 2000+i, false, true)
	}
	addrCB, closeCB := directServer(http.HandlerFunc(closeBody), 1<<20, 1<<20)
	for i := 0; i < nr/4+2; i++ { // the handler closed the request body and stays: discarded DATA, padded or not, is credited back at once
		closedBodyScenario(addrCB, r, rng, 3000+i)
	}
	closeCB()
	f.Close()
	st.Close()
	closeAll()
	closeSmall()
	closeHold()
	b, _ := json.Marshal(map[string]any{"events": r.n, "sender_scenarios": ns, "receiver_scenarios": nr + 3, "notes": r.notes})
	os.WriteFile(reportPath, b, 0o644)
}
