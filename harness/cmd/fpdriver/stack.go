package main

import (
	"encoding/hex"
	"encoding/json"
	"fmt"
	"github.com/wi1dcard/fingerproxy/pkg/http2"
	"github.com/wi1dcard/fingerproxy/pkg/proxyserver"
	"github.com/wi1dcard/fingerproxy/pkg/reverseproxy"
	"math/rand"
	"net/http"
	"os"
	"strconv"
	"strings"
	"sync"
	"time"

	"verifharness/h2raw"
	"verifharness/hello"
	"verifharness/hellospec"
	"verifharness/stack"
)

type Case struct {
	Name     string
	Class    string // normal | d7 | d9a | d9b | d11 | d12 | ...
	D        hellospec.Desc
	Fragment int
	Segment  int
	TailCCS  int
	WantH1   bool
}

type ReqObs struct {
	Tag       string   `json:"tag"`
	Status    int      `json:"status"`
	Forwarded int      `json:"forwarded"`
	JA3       []string `json:"ja3"`
	JA4       []string `json:"ja4"`
	H2        []string `json:"h2"`
}

type CaseObs struct {
	Name         string          `json:"name"`
	Class        string          `json:"class"`
	Proto        string          `json:"proto"`
	HandshakeErr string          `json:"handshake_err,omitempty"`
	Err          string          `json:"err,omitempty"`
	HelloHex     string          `json:"hello_hex"`
	Abstract     *hello.Abstract `json:"abstract"`
	Fragmented   bool            `json:"fragmented"`
	Segment      int             `json:"segment"`
	Requests     []ReqObs        `json:"requests"`
}

func insertU16(s []uint16, i int, v uint16) []uint16 {
	out := append([]uint16{}, s[:i]...)
	out = append(out, v)
	return append(out, s[i:]...)
}
func insertStr(s []string, i int, v string) []string {
	out := append([]string{}, s[:i]...)
	out = append(out, v)
	return append(out, s[i:]...)
}
func removeStr(s []string, v string) []string {
	var out []string
	for _, x := range s {
		if x != v {
			out = append(out, x)
		}
	}
	return out
}

func buildCases(rng *rand.Rand, tier string) []Case {
	var cs []Case
	add := func(name, class string, d hellospec.Desc) *Case {
		cs = append(cs, Case{Name: name, Class: class, D: d})
		return &cs[len(cs)-1]
	}
	b13, b12 := hellospec.Base13(), hellospec.Base12()
	add("base13-h2", "normal", b13)
	h1 := b13.Clone()
	h1.ALPN = []string{"http/1.1"}
	add("base13-h1", "normal", h1)
	add("base12-h2", "normal", b12)
	h112 := b12.Clone()
	h112.ALPN = []string{"http/1.1"}
	add("base12-h1", "normal", h112)
	noalpn := b13.Clone()
	noalpn.Exts = removeStr(noalpn.Exts, "alpn")
	add("base13-noalpn", "normal", noalpn)
	nosni := b13.Clone()
	nosni.Exts = removeStr(nosni.Exts, "sni")
	add("base13-nosni", "normal", nosni)
	rev := b13.Clone()
	rev.ALPN = []string{"http/1.1", "h2"}
	add("alpn-http11-first", "normal", rev)
	// hellos that fill their record: handshake message of exactly 16379 / 16380 / 16383 / 16384 octets (2^14 is the most one record may carry)
	for i, n := range []int{4096, 16379, 16380, 16383, 16384} {
		d := b13.Clone()
		if i%2 == 1 {
			d.ALPN = []string{"http/1.1"}
		}
		if pd, err := d.PadTo(n); err == nil {
			add(fmt.Sprintf("hello-of-%d-octets", n), "normal", pd)
		} else {
			panic("PadTo: " + err.Error())
		}
	}
	// GREASE cipher at every position (first / middle / last)
	step := 1
	if tier == "quick" {
		step = 4
	}
	for i := 0; i <= len(b13.Ciphers); i += step {
		d := b13.Clone()
		d.Ciphers = insertU16(d.Ciphers, i, 0x0a0a)
		if i%2 == 1 {
			d.ALPN = []string{"http/1.1"}
		}
		add(fmt.Sprintf("grease-cipher-at-%d", i), "normal", d)
	}
	{
		d := b13.Clone()
		d.Ciphers = insertU16(d.Ciphers, len(d.Ciphers), 0xfafa)
		add("grease-cipher-last", "normal", d)
	}
	// GREASE extension first / last / both; GREASE-typed generic extensions in the middle
	for _, pos := range [][]int{{0}, {len(b13.Exts)}, {0, len(b13.Exts) + 1}, {3}} {
		d := b13.Clone()
		for _, p := range pos {
			d.Exts = insertStr(d.Exts, p, "grease")
		}
		add(fmt.Sprintf("grease-ext-at-%v", pos), "normal", d)
	}
	{
		d := b13.Clone()
		d.Exts = insertStr(d.Exts, 2, "generic:3a3a:")
		d.Exts = insertStr(d.Exts, 6, "generic:dada:00")
		d.ALPN = []string{"http/1.1"}
		add("three-grease-exts", "normal", d)
	}
	// GREASE in supported_groups, supported_versions
	{
		d := b13.Clone()
		d.Groups = []uint16{0x0a0a, 29, 23}
		d.SV = []uint16{0x0a0a, 0x0304, 0x0303}
		add("grease-groups-sv", "normal", d)
	}
	{
		d := b13.Clone()
		d.SV = []uint16{0x0303, 0x0304}
		add("sv-12-first", "normal", d)
	}
	// unknown extension types, padding
	{
		d := b13.Clone()
		d.Exts = insertStr(d.Exts, 4, "generic:9999:dead")
		d.Exts = insertStr(d.Exts, 9, "generic:fe0d:00")
		add("unknown-exts", "normal", d)
	}
	{
		d := b13.Clone()
		d.Exts = append(d.Exts, "padding")
		add("padding", "normal", d)
	}
	// permutations of ciphers and of extensions
	nperm := 6
	if tier == "thorough" {
		nperm = 60
	}
	for k := 0; k < nperm; k++ {
		d := b13.Clone()
		if k%3 == 0 {
			d = b12.Clone()
		}
		rng.Shuffle(len(d.Ciphers), func(i, j int) { d.Ciphers[i], d.Ciphers[j] = d.Ciphers[j], d.Ciphers[i] })
		rng.Shuffle(len(d.Exts), func(i, j int) { d.Exts[i], d.Exts[j] = d.Exts[j], d.Exts[i] })
		if rng.Intn(2) == 0 {
			d.Ciphers = insertU16(d.Ciphers, rng.Intn(len(d.Ciphers)+1), 0x0a0a)
		}
		if rng.Intn(2) == 0 {
			d.Exts = insertStr(d.Exts, rng.Intn(len(d.Exts)+1), "grease")
		}
		if rng.Intn(3) == 0 {
			d.Exts = insertStr(d.Exts, rng.Intn(len(d.Exts)+1), fmt.Sprintf("generic:%04x:", 0x0a0a+0x1010*(1+rng.Intn(14))))
		}
		if rng.Intn(2) == 0 {
			d.ALPN = []string{"http/1.1"}
		}
		if rng.Intn(4) == 0 {
			d.Exts = removeStr(d.Exts, "sni")
		}
		c := add(fmt.Sprintf("perm-%d", k), "normal", d)
		if k%4 == 1 {
			c.Segment = 1 + rng.Intn(7)
		}
	}
	// more than 99 ciphers
	{
		d := b13.Clone()
		for i := 0; i < 110; i++ {
			d.Ciphers = append(d.Ciphers, uint16(0x5000+i))
		}
		add("ciphers-119", "normal", d)
	}
	// byte-at-a-time delivery of the hello, and coalescing is what the kernel does anyway
	{
		c := add("segment-1", "normal", b13.Clone())
		c.Segment = 1
		d := b13.Clone()
		d.ALPN = []string{"http/1.1"}
		c2 := add("segment-3-h1", "normal", d)
		c2.Segment = 3
	}
	// the hello in two segments, the second one carrying the next record as well (change_cipher_spec right behind the hello)
	{
		c := add("hello-tail-with-ccs-100", "normal", b13.Clone())
		c.TailCCS = 100
		d := b13.Clone()
		d.ALPN = []string{"http/1.1"}
		c2 := add("hello-header-then-rest-with-ccs-h1", "normal", d)
		c2.TailCCS = 5
	}
	// ---- inputs behind known findings
	{
		d := b13.Clone()
		d.SNI = strings.Repeat("a", 63) + "." + strings.Repeat("b", 63) + "." + strings.Repeat("c", 63) + "." + strings.Repeat("d", 61)
		add("sni-253", "d7", d)
	}
	{
		c := add("hello-in-two-records", "d9a", b13.Clone())
		c.Fragment = 100
		d := b13.Clone()
		d.ALPN = []string{"http/1.1"}
		c2 := add("hello-in-two-records-h1", "d9a", d)
		c2.Fragment = 37
	}
	for _, e := range []string{"generic:001b:ff", "generic:001c:40", "generic:0022:0003", "generic:4469:0005"} {
		d := b13.Clone()
		d.Exts = insertStr(d.Exts, 5, e)
		add("malformed-ignored-ext-"+e[8:12], "d9b", d)
	}
	{
		d := b13.Clone()
		d.SigAlgs = append([]uint16{0x0a0a}, d.SigAlgs...)
		add("grease-sigalg-first", "d11", d)
		d2 := b13.Clone()
		d2.SigAlgs = append(d2.SigAlgs, 0xfafa)
		d2.ALPN = []string{"http/1.1"}
		add("grease-sigalg-last", "d11", d2)
	}
	{
		d := b13.Clone()
		d.ALPN = []string{"\n\n", "h2", "http/1.1"}
		add("alpn-grease-controlbytes", "d12", d)
	}
	return cs
}

func runCase(st *stack.Stack, c Case, idx int) CaseObs {
	obs := CaseObs{Name: c.Name, Class: c.Class, Fragmented: c.Fragment > 0, Segment: c.Segment}
	cl, err := stack.DialUTLS(st.Addr, c.D.Spec(), stack.DialOpts{Segment: c.Segment, Fragment: c.Fragment, TailCCS: c.TailCCS, ALPN: c.D.ALPN, SNI: c.D.SNI})
	if cl != nil && cl.Raw != nil {
		msg := cl.Raw.HelloMessage()
		obs.HelloHex = hex.EncodeToString(msg)
		if a, perr := hello.ParseMessage(msg); perr == nil {
			obs.Abstract = a
		} else {
			obs.Err = "harness parse: " + perr.Error()
		}
	}
	if err != nil {
		obs.HandshakeErr = err.Error()
		return obs
	}
	defer cl.Close()
	obs.Proto = cl.Proto
	tags := []string{fmt.Sprintf("c%d-r1", idx), fmt.Sprintf("c%d-r2", idx)}
	status := map[string]int{}
	if cl.Proto == "h2" {
		cl.Conn.SetDeadline(time.Now().Add(15 * time.Second))
		cl.Conn.Write([]byte(h2raw.Preface))
		cl.Conn.Write(h2raw.Settings())
		hc := h2raw.NewConn(cl.Conn)
		for i, tag := range tags {
			sid := uint32(1 + 2*i)
			blk := h2raw.Block([]h2raw.HF{{":method", "GET"}, {":scheme", "https"}, {":authority", "vf.test"}, {":path", "/c/" + tag}, {"x-vf-tag", tag}})
			cl.Conn.Write(h2raw.Headers(sid, true, blk, nil, 0))
			if err := hc.WaitStreams(sid); err != nil {
				obs.Err = "h2: " + err.Error()
				break
			}
			status[tag], _ = strconv.Atoi(hc.Resp[sid].Status)
		}
	} else {
		for ti, tag := range tags {
			// the later requests of an HTTP/1.1 connection take request forms that concern the proxy's own header handling: the
			// fingerprint names listed in Connection (hop-by-hop for that request: the client's lines go, the proxy's values are
			// still owed), a body, an absolute-form target
			extra := ""
			switch ti % 3 {
			case 1:
				extra = "Connection: keep-alive, X-JA3-Fingerprint, x-ja4-fingerprint\r\n"
			case 2:
				extra = "Connection: X-Http2-Fingerprint\r\nX-JA3-Fingerprint: from-client\r\n"
			}
			resp, _, err := cl.H1("GET /c/"+tag+" HTTP/1.1\r\nHost: vf.test\r\n"+extra+"X-Vf-Tag: "+tag+"\r\n\r\n", "GET")
			if err != nil {
				obs.Err = "h1: " + err.Error()
				break
			}
			status[tag] = resp.StatusCode
		}
	}
	for _, tag := range tags {
		ro := ReqObs{Tag: tag, Status: status[tag]}
		for _, r := range st.Backend.ByTag(tag) {
			ro.Forwarded++
			ro.JA3 = append(ro.JA3, r.Header.Values("X-Ja3-Fingerprint")...)
			ro.JA4 = append(ro.JA4, r.Header.Values("X-Ja4-Fingerprint")...)
			ro.H2 = append(ro.H2, r.Header.Values("X-Http2-Fingerprint")...)
		}
		obs.Requests = append(obs.Requests, ro)
	}
	return obs
}

type nothingInjector struct {
	name string
	err  error
}

func (n nothingInjector) GetHeaderName() string                        { return n.name }
func (n nothingInjector) GetHeaderValue(*http.Request) (string, error) { return "", n.err }

func runStack(out string, _ string) {
	seed, _ := strconv.ParseInt(os.Getenv("VERIF_SEED"), 10, 64)
	tier := os.Getenv("VERIF_TIER")
	rng := rand.New(rand.NewSource(seed))
	st, err := stack.Start(stack.Options{})
	if err != nil {
		panic(err)
	}
	defer st.Close()
	// every second case runs against a handler whose injector list is in another order, behind an injector that yields nothing and one
	// that fails (the list and its order are the user's; what one injector yields says nothing about the next)
	d := stack.DefaultInjectors(^uint(0))
	st2, err := stack.Start(stack.Options{Injectors: []reverseproxy.HeaderInjector{nothingInjector{"X-Vf-Nothing", nil}, d[2], nothingInjector{"X-Vf-Failing", fmt.Errorf("fails on purpose")}, d[1], d[0]}})
	if err != nil {
		panic(err)
	}
	defer st2.Close()
	// every third case: an application that brings its own http.Server and http2.Server ("set to your http.Server if you want to
	// customize", says the field's comment) after NewServer, the way it sets every other exported field
	st3, err := stack.Start(stack.Options{MutateServer: func(srv *proxyserver.Server) {
		srv.HTTPServer = &http.Server{Handler: srv.HTTPServer.Handler, ErrorLog: srv.HTTPServer.ErrorLog, MaxHeaderBytes: 1 << 19}
		srv.HTTP2Server = &http2.Server{MaxConcurrentStreams: 100}
	}})
	if err != nil {
		panic(err)
	}
	defer st3.Close()
	cases := buildCases(rng, tier)
	res := make([]CaseObs, len(cases))
	var wg sync.WaitGroup
	sem := make(chan struct{}, 8)
	for i := range cases {
		wg.Add(1)
		sem <- struct{}{}
		go func(i int) {
			defer wg.Done()
			defer func() { <-sem }()
			if i%3 == 2 {
				res[i] = runCase(st3, cases[i], i)
			} else if i%2 == 1 {
				res[i] = runCase(st2, cases[i], i)
			} else {
				res[i] = runCase(st, cases[i], i)
			}
		}(i)
	}
	wg.Wait()
	b, _ := json.Marshal(map[string]any{"cases": res, "log_tail": tailStr(st.LogBuf.String(), 4000)})
	os.WriteFile(out, b, 0o644)
}

func tailStr(s string, n int) string {
	if len(s) > n {
		return s[len(s)-n:]
	}
	return s
}
