// fpdriver binds JA3.tla / JA4.tla to the code.
//
//	fpdriver vectors <in.json> <out.json>   function level: every TLC state as a synthesized record through
//	                                        fingerprint.JA3Fingerprint / ja3.Bare / fingerprint.JA4Fingerprint / pkg/ja4
//	fpdriver stack <out.json>               stack level: utls clients with perturbed hellos through the real
//	                                        proxyserver + reverseproxy stack; emits what the client really sent
//	                                        (independent parse) and what the backend received
package main

import (
	"encoding/hex"
	"encoding/json"
	"fmt"
	"os"
	"strings"

	"github.com/dreadl0ck/tlsx"
	fp "github.com/wi1dcard/fingerproxy/pkg/fingerprint"
	"github.com/wi1dcard/fingerproxy/pkg/ja3"
	"github.com/wi1dcard/fingerproxy/pkg/ja4"
	"github.com/wi1dcard/fingerproxy/pkg/metadata"
	"verifharness/hello"
)

type Vector struct {
	ID     int             `json:"id"`
	Kind   string          `json:"kind"` // ja3 | ja4
	Hello  *hello.Abstract `json:"hello"`
	Expect struct {
		Bare string `json:"bare,omitempty"` // ja3 pre-hash string
		MD5  string `json:"md5,omitempty"`
		JA4  string `json:"ja4,omitempty"`
		A    string `json:"a,omitempty"`
		BPre string `json:"bpre,omitempty"`
		CPre string `json:"cpre,omitempty"`
		// dont-care classes: observed value is logged, not asserted
		DontCare string `json:"dontcare,omitempty"`
	} `json:"expect"`
}

type Mismatch struct {
	ID       int             `json:"id"`
	Kind     string          `json:"kind"`
	Field    string          `json:"field"`
	Want     string          `json:"want"`
	Got      string          `json:"got"`
	Hello    *hello.Abstract `json:"hello"`
	Record   string          `json:"record_hex"`
	DontCare string          `json:"dontcare,omitempty"`
}

type VecOut struct {
	Evaluated  int        `json:"evaluated"`
	Mismatches []Mismatch `json:"mismatches"`
	DontCare   int        `json:"dontcare_logged"`
	Samples    []any      `json:"samples"`
}

func runVectors(in, out string) {
	b, err := os.ReadFile(in)
	if err != nil {
		panic(err)
	}
	var vs []Vector
	if err := json.Unmarshal(b, &vs); err != nil {
		panic(err)
	}
	res := &VecOut{}
	add := func(v *Vector, rec []byte, field, want, got string) {
		if want == got {
			return
		}
		if len(res.Mismatches) < 200 {
			res.Mismatches = append(res.Mismatches, Mismatch{v.ID, v.Kind, field, want, got, v.Hello, hex.EncodeToString(trunc(rec, 400)), v.Expect.DontCare})
		}
	}
	for i := range vs {
		v := &vs[i]
		rec := v.Hello.Record(0x0301)
		md := &metadata.Metadata{ClientHelloRecord: rec}
		res.Evaluated++
		switch v.Kind {
		case "ja3":
			got, err := fp.JA3Fingerprint(md)
			if err != nil {
				got = "ERR:" + err.Error()
			}
			add(v, rec, "X-JA3-Fingerprint", v.Expect.MD5, got)
			hb := &tlsx.ClientHelloBasic{}
			if err := hb.Unmarshal(rec); err == nil {
				add(v, rec, "ja3.Bare", v.Expect.Bare, string(ja3.Bare(hb)))
			}
			if len(res.Samples) < 4 && len(v.Hello.Exts) > 2 {
				res.Samples = append(res.Samples, map[string]any{"kind": "ja3", "hello": v.Hello, "spec_string": v.Expect.Bare, "header": got})
			}
		case "ja4":
			got, err := fp.JA4Fingerprint(md)
			if err != nil {
				got = "ERR:" + err.Error()
			}
			if v.Expect.DontCare != "" {
				res.DontCare++
			}
			add(v, rec, "X-JA4-Fingerprint", v.Expect.JA4, got)
			j := &ja4.JA4Fingerprint{}
			if err := j.UnmarshalBytes(rec, 't'); err == nil {
				add(v, rec, "ja4.CipherSuites", v.Expect.BPre, j.CipherSuites.String())
				c := j.Extensions.String()
				if len(j.SignatureAlgorithms) > 0 {
					c += "_" + j.SignatureAlgorithms.String()
				}
				add(v, rec, "ja4.Extensions_SignatureAlgorithms", v.Expect.CPre, c)
			}
			if len(res.Samples) < 8 && len(res.Samples) >= 4 || (len(res.Samples) < 4 && len(v.Hello.Exts) > 2 && i%7 == 0) {
				res.Samples = append(res.Samples, map[string]any{"kind": "ja4", "hello": v.Hello, "spec_a": v.Expect.A, "spec_b_pre": v.Expect.BPre, "spec_c_pre": v.Expect.CPre, "header": got})
			}
		}
	}
	ob, _ := json.Marshal(res)
	os.WriteFile(out, ob, 0o644)
}

func trunc(b []byte, n int) []byte {
	if len(b) > n {
		return b[:n]
	}
	return b
}

func main() {
	if len(os.Args) < 2 {
		fmt.Println("usage: fpdriver vectors|stack ...")
		os.Exit(2)
	}
	switch os.Args[1] {
	case "vectors":
		runVectors(os.Args[2], os.Args[3])
	case "stack":
		runStack(os.Args[2], strings.Join(os.Args[3:], " "))
	default:
		os.Exit(2)
	}
}
