// rwdriver replays every scenario of Rewrite.tla (C05, C09, C15, header clause of C08) through the real
// listener -> TLS -> {net/http | forked http2} -> reverseproxy chain and reports what the client and the
// recording backend observed.  Comparison with the specification is done by ./check.
package main

import (
	"encoding/json"
	"fmt"
	"net/http"
	"os"
	"strconv"
	"strings"
	"sync"
	"time"

	fp "github.com/wi1dcard/fingerproxy/pkg/fingerprint"
	"github.com/wi1dcard/fingerproxy/pkg/reverseproxy"
	"verifharness/h2raw"
	"verifharness/hellospec"
	"verifharness/stack"
)

type Line struct {
	K  string `json:"k"`
	V  string `json:"v"`
	Sp string `json:"sp"`
}

type Req struct {
	Fam          string   `json:"fam"`
	Proto        string   `json:"proto"`
	Kind         string   `json:"kind"`
	Probe        bool     `json:"probe"`
	PreserveHost bool     `json:"preserveHost"`
	Host         string   `json:"host"`
	Custom       string   `json:"custom"`
	UA           []string `json:"ua"`
	ProbeText    bool     `json:"probeText"`
	Method       string   `json:"method"`
	Path         string   `json:"path"`
	Scheme       string   `json:"scheme"`
	Prefix       string   `json:"prefix"`
	Lines        []Line   `json:"lines"`
	Pre          []Line   `json:"pre"` // lines in front of the User-Agent line(s)
	Trailers     []Line   `json:"trailers"` // trailer section after a one-octet body, names announced in Trailer
}

type Scenario struct {
	ID  int `json:"id"`
	Req Req `json:"req"`
}

type Obs struct {
	ID        int                 `json:"id"`
	Err       string              `json:"err,omitempty"`
	Status    int                 `json:"status"`
	Body      string              `json:"body"`
	Forwarded int                 `json:"forwarded"`
	Host      string              `json:"host"`
	Method    string              `json:"method"`
	URI       string              `json:"uri"`
	Headers   map[string][]string `json:"headers"`
	Trailers  map[string][]string `json:"trailers"` // what the backend found in the trailer section, by canonical name
	Baseline  map[string][]string `json:"baseline"`
	Backend   string              `json:"backend_host"`
	Peer      string              `json:"peer"`
	Wire      string              `json:"wire,omitempty"`
}

// customInjector is "user-supplied code": its outcome is chosen per request by the X-Vf-Custom header.
type customInjector struct{}

func (customInjector) GetHeaderName() string { return "X-Custom-Fingerprint" }
func (customInjector) GetHeaderValue(r *http.Request) (string, error) {
	switch r.Header.Get("X-Vf-Custom") {
	case "value":
		return "custom-computed", nil
	case "error":
		return "", fmt.Errorf("custom injector failed on purpose")
	}
	return "", nil
}

var wireName = map[string]string{"X-Ja3-Fingerprint": "X-JA3-Fingerprint", "X-Ja4-Fingerprint": "X-JA4-Fingerprint",
	"X-Http2-Fingerprint": "X-HTTP2-Fingerprint"}

func spell(l Line, h2 bool) string {
	n := l.K
	if w, ok := wireName[n]; ok {
		n = w
	}
	switch {
	case h2 || l.Sp == "lower":
		return strings.ToLower(n)
	case l.Sp == "upper":
		return strings.ToUpper(n)
	}
	return n
}

type stackKey struct {
	probe, ph, custom bool
	prefix            string
	late              bool // the custom injector is appended to the handler after construction
	first             bool // the custom injector is listed before the default three (the order of the list is the user's)
}
type connKey struct {
	sk    stackKey
	proto string
	kind  string
	fill  bool // HTTP/2: the connection's first request carries 40 uncommon header names (per-connection caches of the server are full afterwards)
}

type conn struct {
	peer     string
	fill     bool
	cl       *stack.Client
	hc       *h2raw.Conn
	next     uint32
	baseline map[string][]string
}

var fpKeys = []string{"X-Ja3-Fingerprint", "X-Ja4-Fingerprint", "X-Http2-Fingerprint", "X-Custom-Fingerprint"}
var universe = append([]string{"X-Forwarded-For", "X-Forwarded-Host", "X-Forwarded-Proto", "Forwarded", "X-Keep", "X-Multi", "X-Empty",
	"Connection", "X-Hop", "Te", "Keep-Alive", "Upgrade", "User-Agent", "X-Note", "Accept-Encoding"}, fpKeys...)

func dial(st *stack.Stack, proto, kind, localIP string) (*conn, error) {
	d := hellospec.Base13()
	if proto == "h1" {
		d.ALPN = []string{"http/1.1"}
	}
	o := stack.DialOpts{ALPN: d.ALPN, LocalIP: localIP}
	switch kind {
	case "sni253":
		d.SNI = strings.Repeat("a", 63) + "." + strings.Repeat("b", 63) + "." + strings.Repeat("c", 63) + "." + strings.Repeat("d", 61)
		o.SNI = d.SNI
	case "tworec":
		o.Fragment = 37 // cut inside the random: tlsx returns an error (cuts inside the cipher list make tlsx panic, see D14)
	case "tworeccs":
		o.Fragment = stack.FragmentInCipherList // the cut that made the JA3 parser panic (D14, repaired): an error like any other
	}
	cl, err := stack.DialUTLS(st.Addr, d.Spec(), o)
	if err != nil {
		return nil, err
	}
	c := &conn{cl: cl, next: 1}
	if proto == "h2" {
		if cl.Proto != "h2" {
			return nil, fmt.Errorf("negotiated %q", cl.Proto)
		}
		cl.Conn.Write([]byte(h2raw.Preface))
		cl.Conn.Write(h2raw.Settings(h2raw.Setting{ID: 3, Val: 100}, h2raw.Setting{ID: 4, Val: 1 << 20}))
		cl.Conn.Write(h2raw.WindowUpdate(0, 1<<20))
		c.hc = h2raw.NewConn(cl.Conn)
		c.hc.AutoWU = false
	}
	return c, nil
}

func (c *conn) do(st *stack.Stack, sc Scenario, tag string, baseline bool) Obs {
	r := sc.Req
	o := Obs{ID: sc.ID, Headers: map[string][]string{}}
	method, path, host := r.Method, r.Path, r.Host
	if baseline {
		method, path, host = "GET", "/baseline", "vf.test"
	}
	status, body := 0, ""
	if c.hc != nil {
		scheme := "https"
		if r.Scheme != "" && !baseline {
			scheme = r.Scheme
		}
		fields := []h2raw.HF{{":method", method}, {":scheme", scheme}, {":authority", host}, {":path", path}, {"x-vf-tag", tag}}
		if baseline && c.fill {
			for i := 0; i < 40; i++ {
				fields = append(fields, h2raw.HF{fmt.Sprintf("x-uncommon-filler-header-%02d", i), "f"})
			}
		}
		if !baseline {
			for _, l := range r.Pre {
				fields = append(fields, h2raw.HF{spell(l, true), l.V})
			}
			for _, u := range r.UA {
				fields = append(fields, h2raw.HF{"user-agent", u})
			}
			if r.ProbeText {
				fields = append(fields, h2raw.HF{"x-note", "kube-probe/1.26"})
			}
			for _, l := range r.Lines {
				fields = append(fields, h2raw.HF{spell(l, true), l.V})
			}
			if r.Custom != "absent" {
				fields = append(fields, h2raw.HF{"x-vf-custom", r.Custom})
			}
		}
		sid := c.next
		c.next += 2
		c.cl.Conn.SetDeadline(time.Now().Add(15 * time.Second))
		if len(r.Trailers) > 0 && !baseline {
			var names []string
			var tf []h2raw.HF
			for _, l := range r.Trailers {
				names = append(names, spell(l, true))
				tf = append(tf, h2raw.HF{spell(l, true), l.V})
			}
			fields = append(fields, h2raw.HF{"trailer", strings.Join(names, ", ")})
			c.cl.Conn.Write(h2raw.Headers(sid, false, h2raw.Block(fields), nil, 0))
			c.cl.Conn.Write(h2raw.Data(sid, false, []byte("x"), 0))
			c.cl.Conn.Write(h2raw.Headers(sid, true, h2raw.Block(tf), nil, 0))
		} else {
			c.cl.Conn.Write(h2raw.Headers(sid, true, h2raw.Block(fields), nil, 0))
		}
		if err := c.hc.WaitStreams(sid); err != nil {
			o.Err = "h2: " + err.Error()
			return o
		}
		rs := c.hc.Resp[sid]
		if rs.Reset {
			o.Err = fmt.Sprintf("h2: stream reset code %d", rs.RSTCode)
			return o
		}
		status, _ = strconv.Atoi(rs.Status)
		body = string(rs.Body)
	} else {
		var b strings.Builder
		fmt.Fprintf(&b, "%s %s HTTP/1.1\r\nHost: %s\r\nX-Vf-Tag: %s\r\n", method, path, host, tag)
		if !baseline {
			for _, l := range r.Pre {
				fmt.Fprintf(&b, "%s: %s\r\n", spell(l, false), l.V)
			}
			for _, u := range r.UA {
				fmt.Fprintf(&b, "User-Agent: %s\r\n", u)
			}
			if r.ProbeText {
				b.WriteString("X-Note: kube-probe/1.26\r\n")
			}
			for _, l := range r.Lines {
				fmt.Fprintf(&b, "%s: %s\r\n", spell(l, false), l.V)
			}
			if r.Custom != "absent" {
				fmt.Fprintf(&b, "X-Vf-Custom: %s\r\n", r.Custom)
			}
			if len(r.Trailers) > 0 {
				var names []string
				for _, l := range r.Trailers {
					names = append(names, spell(l, false))
				}
				fmt.Fprintf(&b, "Transfer-Encoding: chunked\r\nTrailer: %s\r\n", strings.Join(names, ", "))
			} else if method == "POST" || method == "PATCH" || method == "PUT" {
				b.WriteString("Content-Length: 0\r\n")
			}
		}
		b.WriteString("\r\n")
		if len(r.Trailers) > 0 && !baseline {
			b.WriteString("1\r\nx\r\n0\r\n")
			for _, l := range r.Trailers {
				fmt.Fprintf(&b, "%s: %s\r\n", spell(l, false), l.V)
			}
			b.WriteString("\r\n")
		}
		o.Wire = b.String()
		resp, rb, err := c.cl.H1(b.String(), method)
		if err != nil {
			o.Err = "h1: " + err.Error()
			return o
		}
		status, body = resp.StatusCode, string(rb)
	}
	o.Status, o.Body = status, body
	for _, br := range st.Backend.ByTag(tag) {
		o.Forwarded++
		o.Host, o.Method, o.URI = br.Host, br.Method, br.RequestURI
		for _, k := range universe {
			if v := br.Header.Values(k); len(v) > 0 {
				o.Headers[k] = append(o.Headers[k], v...)
			}
		}
		for k, v := range br.Trailer {
			if len(v) > 0 {
				if o.Trailers == nil {
					o.Trailers = map[string][]string{}
				}
				o.Trailers[http.CanonicalHeaderKey(k)] = append(o.Trailers[http.CanonicalHeaderKey(k)], v...)
			}
		}
	}
	return o
}

func main() {
	in, out := os.Args[1], os.Args[2]
	b, err := os.ReadFile(in)
	if err != nil {
		panic(err)
	}
	var scs []Scenario
	if err := json.Unmarshal(b, &scs); err != nil {
		panic(err)
	}
	groups := map[connKey][]Scenario{}
	for _, s := range scs {
		k := connKey{stackKey{s.Req.Probe, s.Req.PreserveHost, s.Req.Custom != "absent", s.Req.Prefix, s.Req.Custom != "absent" && (s.ID/2)%2 == 0, s.Req.Custom != "absent" && (s.ID/2)%2 == 1 && (s.ID/4)%2 == 0}, s.Req.Proto, s.Req.Kind, s.Req.Proto == "h2" && s.ID%2 == 1}
		groups[k] = append(groups[k], s)
	}
	stacks := map[stackKey]*stack.Stack{}
	for k := range groups {
		if stacks[k.sk] != nil {
			continue
		}
		inj := stack.DefaultInjectors(^uint(0))
		var late []reverseproxy.HeaderInjector
		if k.sk.custom && k.sk.late {
			late = append(late, reverseproxy.HeaderInjector(customInjector{})) // user code that extends the handler after it was built
		} else if k.sk.custom && k.sk.first {
			inj = append([]reverseproxy.HeaderInjector{customInjector{}}, inj...)
		} else if k.sk.custom {
			inj = append(inj, reverseproxy.HeaderInjector(customInjector{}))
		}
		st, err := stack.Start(stack.Options{Probe: k.sk.probe, PreserveHost: k.sk.ph, Injectors: inj, LateInjectors: late, ForwardPath: k.sk.prefix})
		if err != nil {
			panic(err)
		}
		stacks[k.sk] = st
	}
	_ = fp.VerboseLogs
	var mu sync.Mutex
	var res []Obs
	var wg sync.WaitGroup
	sem := make(chan struct{}, 8)
	gi := 0
	for k, list := range groups {
		gi++
		wg.Add(1)
		sem <- struct{}{}
		go func(k connKey, list []Scenario, gi int) {
			defer wg.Done()
			defer func() { <-sem }()
			st := stacks[k.sk]
			var c *conn
			for n, sc := range list {
				if c == nil || (k.proto == "h2" && c.next > 1500) {
					if c != nil {
						c.cl.Close()
					}
					peer := "127.0.0.1"
					if gi%2 == 1 {
						peer = fmt.Sprintf("127.0.0.%d", 2+gi%200) // any 127/8 address is local on Linux
					}
					nc, err := dial(st, k.proto, k.kind, peer)
					if err != nil {
						mu.Lock()
						res = append(res, Obs{ID: sc.ID, Err: "dial: " + err.Error()})
						mu.Unlock()
						continue
					}
					c = nc
					c.peer = peer
					c.fill = k.fill
					bo := c.do(st, sc, fmt.Sprintf("g%d-b%d", gi, n), true)
					if bo.Err != "" || bo.Forwarded != 1 {
						mu.Lock()
						res = append(res, Obs{ID: sc.ID, Err: "baseline failed: " + bo.Err + " LOG: " + tail(st.LogBuf.String(), 1500)})
						mu.Unlock()
						c.cl.Close()
						c = nil
						continue
					}
					c.baseline = bo.Headers
				}
				o := c.do(st, sc, fmt.Sprintf("g%d-s%d", gi, sc.ID), false)
				o.Baseline = c.baseline
				o.Peer = c.peer
				if st.Backend.Srv != nil {
					o.Backend = strings.TrimPrefix(st.Backend.Srv.URL, "http://")
				}
				if o.Err != "" {
					c.cl.Close()
					c = nil
				}
				mu.Lock()
				res = append(res, o)
				mu.Unlock()
			}
			if c != nil {
				c.cl.Close()
			}
		}(k, list, gi)
	}
	wg.Wait()
	for _, st := range stacks {
		st.Close()
	}
	ob, _ := json.Marshal(res)
	os.WriteFile(out, ob, 0o644)
}

func tail(s string, n int) string {
	if len(s) > n {
		return s[len(s)-n:]
	}
	return s
}
