// c07driver forces TLC's interleavings of H2FPConc.tla on the real code: the handler of request 1 is parked at a
// hook point inside HTTP2FingerprintingFrames.Marshal, later frames of the same client are processed (or blocked)
// meanwhile, optionally the serve goroutine is parked between the two capture writes of a HEADERS frame with priority.
//
//	c07driver gated <in.json> <out.json>
//	c07driver stress <out.json>            (built with -race by ./check: unsynchronised access is reported by the race detector)
package main

import (
	"encoding/json"
	"fmt"
	"os"
	"strconv"
	"sync"
	"time"

	"github.com/wi1dcard/fingerproxy/pkg/verifhook"
	"verifharness/h2raw"
	"verifharness/stack"
)

type Schedule struct {
	ID         int      `json:"id"`
	Park       string   `json:"park"` // begin | after_settings | after_window_update | after_priorities
	Later      []string `json:"later"`
	WriterGate bool     `json:"writer_gate"`
	ResetFirst bool     `json:"reset_first"` // the client resets request 1's stream before the later frames: its handler (parked) outlives the stream
}

type Obs struct {
	ID           int      `json:"id"`
	Err          string   `json:"err,omitempty"`
	FP1          []string `json:"fp1"`
	FP2          []string `json:"fp2"`
	ReaderParked bool     `json:"reader_parked"`
	WriterParked bool     `json:"writer_parked"`
	// a capture event was observed while the reader sat between marshal.begin and marshal.end
	CaptureWhileReading bool `json:"capture_while_reading"`
}

type gate struct {
	hit     chan struct{}
	release chan struct{}
	once    sync.Once
}

var (
	mu              sync.Mutex
	gates           = map[string]*gate{}
	reading         int
	capWhileReading bool
)

func arm(point string) *gate {
	g := &gate{hit: make(chan struct{}, 1), release: make(chan struct{})}
	mu.Lock()
	gates[point] = g
	mu.Unlock()
	return g
}
func (g *gate) open() { g.once.Do(func() { close(g.release) }) }

func sink(point string, args ...any) {
	key := point
	if point == "http2.capture" {
		key = "capture:" + args[1].(string)
		mu.Lock()
		if reading > 0 {
			capWhileReading = true
		}
		mu.Unlock()
	}
	switch point {
	case "metadata.marshal.after_settings":
		mu.Lock()
		reading++
		mu.Unlock()
	case "metadata.marshal.end":
		mu.Lock()
		if reading > 0 {
			reading--
		}
		mu.Unlock()
	}
	mu.Lock()
	g := gates[key]
	if g != nil {
		delete(gates, key) // first hit only
	}
	mu.Unlock()
	if g != nil {
		g.hit <- struct{}{}
		<-g.release
	}
}

func frame(f string) []byte {
	switch f {
	case "S1":
		return h2raw.Settings(h2raw.Setting{ID: 1, Val: 65536}, h2raw.Setting{ID: 4, Val: 131072})
	case "S2":
		return h2raw.Settings(h2raw.Setting{ID: 3, Val: 100}, h2raw.Setting{ID: 2, Val: 0}, h2raw.Setting{ID: 153, Val: 7})
	case "W0a":
		return h2raw.WindowUpdate(0, 15663105)
	case "P1":
		return h2raw.Priority(3, h2raw.Prio{Dep: 0, Weight: 200})
	}
	panic(f)
}

func headers(f string, sid uint32, tag string) []byte {
	order := map[string]string{"H1": "masp", "H2": "mpas"}[f]
	m := map[byte]h2raw.HF{'m': {":method", "GET"}, 'a': {":authority", "vf.test"}, 's': {":scheme", "https"}, 'p': {":path", "/r"}}
	var fs []h2raw.HF
	for i := 0; i < len(order); i++ {
		fs = append(fs, m[order[i]])
	}
	fs = append(fs, h2raw.HF{"x-vf-tag", tag})
	if f == "H2" {
		return h2raw.Headers(sid, true, h2raw.Block(fs), &h2raw.Prio{Dep: 0, Excl: true, Weight: 255}, 0)
	}
	return h2raw.Headers(sid, true, h2raw.Block(fs), nil, 0)
}

func runSchedule(st *stack.Stack, s Schedule) Obs {
	o := Obs{ID: s.ID}
	mu.Lock()
	gates = map[string]*gate{}
	reading = 0
	capWhileReading = false
	mu.Unlock()
	rg := arm("metadata.marshal." + s.Park)
	cl, err := stack.DialStd(st.Addr, stack.DialOpts{ALPN: []string{"h2"}}, nil)
	if err != nil {
		o.Err = "dial: " + err.Error()
		return o
	}
	defer cl.Close()
	cl.Conn.SetDeadline(time.Now().Add(15 * time.Second))
	cl.Conn.Write([]byte(h2raw.Preface))
	hc := h2raw.NewConn(cl.Conn)
	hc.AutoWU = false
	hc.NoAck = true
	t1, t2 := fmt.Sprintf("s%d-r1", s.ID), fmt.Sprintf("s%d-r2", s.ID)
	cl.Conn.Write(frame("S1"))
	cl.Conn.Write(headers("H1", 1, t1))
	select {
	case <-rg.hit:
		o.ReaderParked = true
	case <-time.After(3 * time.Second):
		rg.open()
		o.Err = "reader never reached marshal." + s.Park
		return o
	}
	var wg *gate
	if s.WriterGate {
		wg = arm("capture:headers")
	}
	hasReq2 := false
	if s.ResetFirst {
		cl.Conn.Write(h2raw.RST(1, 8))
	}
	for _, f := range s.Later {
		if f == "H2" {
			cl.Conn.Write(headers("H2", 3, t2))
			hasReq2 = true
		} else {
			cl.Conn.Write(frame(f))
		}
	}
	if wg != nil {
		select {
		case <-wg.hit:
			o.WriterParked = true
		case <-time.After(700 * time.Millisecond):
		}
		rg.open() // the reader runs while the serve goroutine sits between its two writes (if the code lets it)
		time.Sleep(150 * time.Millisecond)
		wg.open()
	} else {
		time.Sleep(150 * time.Millisecond) // the serve goroutine processes the later frames now (if the code lets it)
		rg.open()
	}
	ids := []uint32{1}
	if s.ResetFirst {
		ids = nil // the client gave request 1 up; whether and how the proxy answers it is not this schedule's business
		time.Sleep(100 * time.Millisecond)
	}
	if hasReq2 {
		ids = append(ids, 3)
	}
	if err := hc.WaitStreams(ids...); err != nil {
		o.Err = "wait: " + err.Error()
	}
	for _, r := range st.Backend.ByTag(t1) {
		o.FP1 = append(o.FP1, r.Header.Values("X-Http2-Fingerprint")...)
	}
	for _, r := range st.Backend.ByTag(t2) {
		o.FP2 = append(o.FP2, r.Header.Values("X-Http2-Fingerprint")...)
	}
	mu.Lock()
	o.CaptureWhileReading = capWhileReading
	mu.Unlock()
	return o
}

func gated(in, out string) {
	b, err := os.ReadFile(in)
	if err != nil {
		panic(err)
	}
	var ss []Schedule
	json.Unmarshal(b, &ss)
	verifhook.Sink = sink
	st, err := stack.Start(stack.Options{})
	if err != nil {
		panic(err)
	}
	defer st.Close()
	var res []Obs
	for _, s := range ss {
		res = append(res, runSchedule(st, s))
	}
	ob, _ := json.Marshal(res)
	os.WriteFile(out, ob, 0o644)
}

// stress: many multiplexed streams while SETTINGS / WINDOW_UPDATE / PRIORITY / HEADERS keep arriving; no hooks, no gates.
func stress(out string) {
	st, err := stack.Start(stack.Options{})
	if err != nil {
		panic(err)
	}
	defer st.Close()
	conns, _ := strconv.Atoi(os.Getenv("VF_STRESS_CONNS"))
	if conns == 0 {
		conns = 8
	}
	var wg sync.WaitGroup
	total := 0
	var tmu sync.Mutex
	for c := 0; c < conns; c++ {
		wg.Add(1)
		go func(c int) {
			defer wg.Done()
			cl, err := stack.DialStd(st.Addr, stack.DialOpts{ALPN: []string{"h2"}}, nil)
			if err != nil {
				return
			}
			defer cl.Close()
			cl.Conn.SetDeadline(time.Now().Add(20 * time.Second))
			cl.Conn.Write([]byte(h2raw.Preface))
			hc := h2raw.NewConn(cl.Conn)
			hc.AutoWU = false
			cl.Conn.Write(frame("S1"))
			var ids []uint32
			for i := 0; i < 40; i++ {
				sid := uint32(1 + 2*i)
				f := "H1"
				if i%2 == 1 {
					f = "H2"
				}
				cl.Conn.Write(headers(f, sid, fmt.Sprintf("st%d-%d", c, i)))
				cl.Conn.Write(frame([]string{"S2", "W0a", "P1", "S1"}[i%4]))
				ids = append(ids, sid)
			}
			hc.WaitStreams(ids...)
			tmu.Lock()
			total += len(ids)
			tmu.Unlock()
		}(c)
	}
	wg.Wait()
	ob, _ := json.Marshal(map[string]any{"requests": total})
	os.WriteFile(out, ob, 0o644)
}

func main() {
	switch os.Args[1] {
	case "gated":
		gated(os.Args[2], os.Args[3])
	case "stress":
		stress(os.Args[2])
	case "own":
		own(os.Args[2], os.Args[3])
	}
}
