package main

// Mode "own": a request's fingerprint is the history at an instant *after the arrival of its own HEADERS frame*.
// The serve goroutine is held - without any hook, through the base context it looks its metadata up in - at the moment it is
// about to record the HEADERS frame of request k, until a handler has computed a fingerprint for that request (or 300 ms have
// passed: in the code as it stands no handler exists yet, the capture precedes processHeaders).  Whatever fingerprint request k is
// given must contain its own pseudo-header order and priority; the expected strings are evaluated by TLC (H2FpOps.Marshal).
//
//	c07driver own <in.json> <out.json>

import (
	"context"
	"encoding/json"
	"fmt"
	"net"
	"net/http"
	"os"
	"runtime"
	"strings"
	"sync"
	"time"

	"github.com/wi1dcard/fingerproxy/pkg/fingerprint"
	fphttp2 "github.com/wi1dcard/fingerproxy/pkg/http2"
	"github.com/wi1dcard/fingerproxy/pkg/metadata"
	"verifharness/h2raw"
)

type OwnReq struct {
	Order    string  `json:"order"`    // pseudo-header order, e.g. "masp"
	Prio     []int   `json:"prio"`     // HEADERS priority: excl, dep, weight (wire value) - empty: none
	PrioPre  [][]int `json:"prio_pre"` // PRIORITY frames sent before the request: stream, excl, dep, weight
	Limit    uint    `json:"limit"`    // unused (unlimited)
	Expected string  `json:"-"`
}
type OwnScenario struct {
	ID       int         `json:"id"`
	Settings [][2]uint32 `json:"settings"`
	WU       uint32      `json:"wu"`
	Reqs     []OwnReq    `json:"reqs"`
}
type OwnObs struct {
	ID      int      `json:"id"`
	Err     string   `json:"err,omitempty"`
	FP      []string `json:"fp"`      // per request, as its handler computed it
	HeldFor []int64  `json:"held_ms"` // how long the serve goroutine was held before recording each HEADERS frame
	Early   []bool   `json:"early"`   // a handler had finished its fingerprint while the serve goroutine was still held
}

type gateCtx struct {
	context.Context
	mu      sync.Mutex
	armed   bool
	fpDone  chan struct{}
	heldFor time.Duration
	early   bool
}

func (g *gateCtx) arm() {
	g.mu.Lock()
	g.armed, g.fpDone, g.heldFor, g.early = true, make(chan struct{}, 4), 0, false
	g.mu.Unlock()
}

func fromCapture() bool {
	pcs := make([]uintptr, 24)
	n := runtime.Callers(3, pcs)
	fr := runtime.CallersFrames(pcs[:n])
	sawFrom, sawPF := false, false
	for {
		f, more := fr.Next()
		switch {
		case strings.HasSuffix(f.Function, "metadata.FromContext"):
			sawFrom = true
		case strings.HasSuffix(f.Function, "(*serverConn).processFrame"):
			sawPF = true
		case strings.HasSuffix(f.Function, "(*serverConn).processHeaders"), strings.HasSuffix(f.Function, "(*serverConn).runHandler"):
			return false
		}
		if !more {
			break
		}
	}
	return sawFrom && sawPF
}

func (g *gateCtx) Value(k any) any {
	g.mu.Lock()
	if g.armed && fromCapture() {
		g.armed = false
		ch := g.fpDone
		g.mu.Unlock()
		t0 := time.Now()
		early := false
		select {
		case <-ch:
			early = true
		case <-time.After(300 * time.Millisecond):
		}
		g.mu.Lock()
		g.heldFor, g.early = time.Since(t0), early
	}
	g.mu.Unlock()
	return g.Context.Value(k)
}

func ownScenario(sc OwnScenario) (o OwnObs) {
	o.ID = sc.ID
	ln, err := net.Listen("tcp", "127.0.0.1:0")
	if err != nil {
		o.Err = err.Error()
		return
	}
	defer ln.Close()
	var gmu sync.Mutex
	var gate *gateCtx
	fps := map[string]string{}
	param := &fingerprint.HTTP2FingerprintParam{MaxPriorityFrames: ^uint(0)}
	handler := http.HandlerFunc(func(w http.ResponseWriter, r *http.Request) {
		md, ok := metadata.FromContext(r.Context())
		fp := "no metadata"
		if ok {
			fp, _ = param.HTTP2Fingerprint(md)
		}
		gmu.Lock()
		fps[r.URL.Path] = fp
		g := gate
		gmu.Unlock()
		if g != nil {
			g.mu.Lock()
			ch := g.fpDone
			g.mu.Unlock()
			if ch != nil {
				select {
				case ch <- struct{}{}:
				default:
				}
			}
		}
		w.WriteHeader(200)
	})
	srvDone := make(chan struct{})
	go func() {
		defer close(srvDone)
		c, err := ln.Accept()
		if err != nil {
			return
		}
		ctx, md := metadata.NewContext(context.Background())
		md.ConnectionState.NegotiatedProtocol = "h2"
		g := &gateCtx{Context: ctx}
		gmu.Lock()
		gate = g
		gmu.Unlock()
		(&fphttp2.Server{}).ServeConn(c, &fphttp2.ServeConnOpts{Context: g, Handler: handler})
	}()
	conn, err := net.Dial("tcp", ln.Addr().String())
	if err != nil {
		o.Err = err.Error()
		return
	}
	defer conn.Close()
	conn.SetDeadline(time.Now().Add(20 * time.Second))
	conn.Write([]byte(h2raw.Preface))
	var ss []h2raw.Setting
	for _, s := range sc.Settings {
		ss = append(ss, h2raw.Setting{ID: uint16(s[0]), Val: s[1]})
	}
	conn.Write(h2raw.Settings(ss...))
	if sc.WU > 0 {
		conn.Write(h2raw.WindowUpdate(0, sc.WU))
	}
	hc := h2raw.NewConn(conn)
	pn := byte(0)
	barrier := func() error {
		pn++
		conn.Write(h2raw.Ping(false, [8]byte{0xf7, pn}))
		for {
			f, err := hc.Step()
			if err != nil {
				return err
			}
			if f.Type == h2raw.TPing && f.Flags&h2raw.FAck != 0 && len(f.Payload) == 8 && f.Payload[0] == 0xf7 && f.Payload[1] == pn {
				return nil
			}
		}
	}
	names := map[byte]string{'m': ":method", 'a': ":authority", 's': ":scheme", 'p': ":path"}
	for k, rq := range sc.Reqs {
		sid := uint32(1 + 2*k)
		for _, p := range rq.PrioPre {
			conn.Write(h2raw.Priority(uint32(p[0]), h2raw.Prio{Excl: p[1] != 0, Dep: uint32(p[2]), Weight: uint8(p[3])}))
		}
		if err := barrier(); err != nil { // everything before the request has been processed: the next capture is the request's own
			o.Err = fmt.Sprintf("request %d: %v", k+1, err)
			return
		}
		gmu.Lock()
		g := gate
		gmu.Unlock()
		if g == nil {
			o.Err = "no server connection"
			return
		}
		g.arm()
		path := fmt.Sprintf("/r%d", k+1)
		vals := map[byte]string{'m': "GET", 'a': "vf.test", 's': "https", 'p': path}
		var fields []h2raw.HF
		for i := 0; i < len(rq.Order); i++ {
			fields = append(fields, h2raw.HF{Name: names[rq.Order[i]], Value: vals[rq.Order[i]]})
		}
		var pr *h2raw.Prio
		if len(rq.Prio) == 3 {
			pr = &h2raw.Prio{Excl: rq.Prio[0] != 0, Dep: uint32(rq.Prio[1]), Weight: uint8(rq.Prio[2])}
		}
		conn.Write(h2raw.Headers(sid, true, h2raw.Block(fields), pr, 0))
		if err := hc.WaitStreams(sid); err != nil {
			o.Err = fmt.Sprintf("request %d: %v", k+1, err)
			return
		}
		gmu.Lock()
		o.FP = append(o.FP, fps[path])
		gmu.Unlock()
		g.mu.Lock()
		o.HeldFor = append(o.HeldFor, g.heldFor.Milliseconds())
		o.Early = append(o.Early, g.early)
		g.mu.Unlock()
	}
	conn.Close()
	select {
	case <-srvDone:
	case <-time.After(3 * time.Second):
	}
	return
}

func own(in, out string) {
	b, err := os.ReadFile(in)
	if err != nil {
		panic(err)
	}
	var scs []OwnScenario
	if err := json.Unmarshal(b, &scs); err != nil {
		panic(err)
	}
	res := make([]OwnObs, len(scs))
	var wg sync.WaitGroup
	sem := make(chan struct{}, 8)
	for i := range scs {
		wg.Add(1)
		sem <- struct{}{}
		go func(i int) {
			defer wg.Done()
			defer func() { <-sem }()
			res[i] = ownScenario(scs[i])
		}(i)
	}
	wg.Wait()
	ob, _ := json.Marshal(res)
	os.WriteFile(out, ob, 0o644)
}
