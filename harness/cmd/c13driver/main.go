// c13driver replays paths of the TLC graph of H2Conn.tla on the real server: a raw-frame client over TLS sends one
// abstract frame per step, waits for a PING acknowledgement (so the frame and its reactions are complete) and reports the
// reactions: RST_STREAM, GOAWAY, SETTINGS ack, response end, and whether the request reached the (gated) backend.
package main

import (
	"encoding/json"
	"fmt"
	"io"
	"net/http"
	"os"
	"strconv"
	"strings"
	"sync"
	"time"

	"github.com/wi1dcard/fingerproxy/pkg/proxyserver"
	"verifharness/h2raw"
	"verifharness/stack"
)

type Step struct {
	Frame   []any   `json:"f,omitempty"`      // type, stream, es, eh, kind
	Finish  int     `json:"finish,omitempty"` // HandlerFinish(stream)
	Expect  [][]any `json:"expect"`
	Trailer bool    `json:"trailer"` // the stream is open in the specification state: a header block on it is a trailer block
	Dead    bool    `json:"dead"`    // the specification state before this step already had a connection error
}
type Path struct {
	ID      int    `json:"id"`
	Steps   []Step `json:"steps"`
	Declare bool   `json:"declare"` // requests with a body declare its length (otherwise every third path does)
}
type StepObs struct {
	Got [][]any `json:"got"`
	Err string  `json:"err,omitempty"`
}
type PathObs struct {
	ID    int       `json:"id"`
	Steps []StepObs `json:"steps"`
	Late  []string  `json:"late_starts,omitempty"` // backend arrivals nobody expected, seen at the end of the path
	Err   string    `json:"err,omitempty"`
}

// gated backend: records arrival at once, answers when released
type gated struct {
	mu      sync.Mutex
	arrived map[string]bool
	gates   map[string]chan struct{}
}

func (g *gated) gate(tag string) chan struct{} {
	g.mu.Lock()
	defer g.mu.Unlock()
	c := g.gates[tag]
	if c == nil {
		c = make(chan struct{})
		g.gates[tag] = c
	}
	return c
}

// front: the same gate installed in front of the reverse proxy, for paths whose requests declare a content-length the body never
// reaches - the reverse proxy would fail such a request on its own the moment END_STREAM arrives short, at a time the client cannot
// control; this handler never looks at the body, so when it finishes is decided by the gate alone
func (g *gated) front(inner http.Handler) http.Handler {
	return http.HandlerFunc(func(w http.ResponseWriter, r *http.Request) {
		if r.Header.Get("X-Vf-Front") == "" {
			inner.ServeHTTP(w, r)
			return
		}
		tag := r.Header.Get("X-Vf-Tag")
		g.mu.Lock()
		g.arrived[tag] = true
		g.mu.Unlock()
		select {
		case <-g.gate(tag):
		case <-r.Context().Done():
			return
		case <-time.After(20 * time.Second):
		}
		w.Header().Set("Content-Length", "2")
		w.WriteHeader(200)
		io.WriteString(w, "ok")
	})
}

func (g *gated) ServeHTTP(w http.ResponseWriter, r *http.Request) {
	tag := r.Header.Get("X-Vf-Tag")
	g.mu.Lock()
	g.arrived[tag] = true
	g.mu.Unlock()
	select {
	case <-g.gate(tag):
	case <-r.Context().Done():
		return
	case <-time.After(20 * time.Second):
	}
	// answer while the request body may still be open (net/http would otherwise first try to consume it)
	http.NewResponseController(w).EnableFullDuplex()
	w.Header().Set("Content-Length", "2")
	w.WriteHeader(200)
	io.WriteString(w, "ok")
	if f, ok := w.(http.Flusher); ok {
		f.Flush()
	}
	// keep reading the (possibly still open) request body so that the connection is not reused under our feet
	io.Copy(io.Discard, r.Body)
}
func (g *gated) has(tag string) bool {
	g.mu.Lock()
	defer g.mu.Unlock()
	return g.arrived[tag]
}
func (g *gated) release(tag string) {
	c := g.gate(tag)
	select {
	case <-c:
	default:
		close(c)
	}
}

var codeName = map[uint32]string{0: "NO", 1: "PE", 3: "FC", 5: "SC", 6: "FS", 7: "RS", 8: "CANCEL", 2: "INTERNAL", 9: "CE", 11: "EYC"}

var frontPath = map[int]bool{} // path id -> its requests go to the front gate (set before the paths run)

func frameBytes(f []any, tag func(sid uint32) string, trailer bool) []byte {
	return frameBytesF(f, tag, trailer, false, 0)
}

// cl > 0: a well-formed request block also declares this content-length - the number of octets the path will really send on the stream
func frameBytesF(f []any, tag func(sid uint32) string, trailer bool, front bool, cl int) []byte {
	typ := f[0].(string)
	sid := uint32(f[1].(float64))
	es, eh := f[2].(bool), f[3].(bool)
	kind := f[4].(string)
	reqFields := func() []h2raw.HF {
		fs := []h2raw.HF{{":method", "POST"}, {":scheme", "https"}, {":authority", "vf.test"}, {":path", "/r"}, {"x-vf-tag", tag(sid)}}
		if trailer { // a second header block on a stream this path already opened: trailers carry no pseudo-header fields
			fs = []h2raw.HF{{"x-trailer", "1"}}
		}
		if kind == "malformed" {
			fs = append(fs, h2raw.HF{":late-pseudo", "1"}) // pseudo-header after a regular field
		}
		if front && !trailer {
			fs = append(fs, h2raw.HF{"x-vf-front", "1"})
		}
		if kind == "toolong" && !trailer {
			// 60 fields of 100 octets each as the limit counts them (name + value + 32): above the limit of the stack under test
			// (MaxHeaderBytes 4096 -> 4416), below twice the limit in encoded form (more would be a connection error)
			for i := 0; i < 60; i++ {
				fs = append(fs, h2raw.HF{fmt.Sprintf("x-big-%02d", i), strings.Repeat("v", 60)})
			}
		}
		if cl > 0 && kind == "ok" && !trailer {
			fs = append(fs, h2raw.HF{"content-length", strconv.Itoa(cl)})
		}
		if kind == "clsmall" && !trailer {
			fs = append(fs, h2raw.HF{"content-length", "1"}) // less than any DATA frame of the alphabet carries
		}
		if kind == "clbig" && !trailer {
			fs = append(fs, h2raw.HF{"content-length", "100"}) // more than this alphabet ever sends: END_STREAM arrives short
		}
		return fs
	}
	switch typ {
	case "SETTINGS":
		switch kind {
		case "ack":
			return h2raw.SettingsAck()
		case "bad":
			return h2raw.Settings(h2raw.Setting{ID: 2, Val: 2})
		case "badwin":
			return h2raw.Settings(h2raw.Setting{ID: 4, Val: 1 << 31})
		}
		return h2raw.Settings(h2raw.Setting{ID: 3, Val: 100})
	case "HEADERS":
		blk := h2raw.Block(reqFields())
		if trailer && kind != "malformed" {
			blk = h2raw.Block([]h2raw.HF{{"x-trailer", "1"}, {"x-trailer-two", "22"}})
		}
		var flags byte
		if es {
			flags |= h2raw.FEndStream
		}
		var p []byte
		if kind == "selfdep" {
			flags |= h2raw.FPriority
			p = append(p, byte(sid>>24), byte(sid>>16), byte(sid>>8), byte(sid), 10)
		}
		if eh {
			flags |= h2raw.FEndHeaders
			return h2raw.Frame(h2raw.THeaders, flags, sid, append(p, blk...))
		}
		return h2raw.Frame(h2raw.THeaders, flags, sid, append(p, blk[:10]...)) // the rest travels in the final CONTINUATION
	case "CONT":
		blk := h2raw.Block(reqFields())
		if trailer {
			blk = h2raw.Block([]h2raw.HF{{"x-trailer", "1"}, {"x-trailer-two", "22"}})
		}
		if eh {
			return h2raw.Frame(h2raw.TContinuation, h2raw.FEndHeaders, sid, blk[10:])
		}
		return h2raw.Frame(h2raw.TContinuation, 0, sid, nil)
	case "DATA":
		// the sixth element chooses the form of the frame: plain, padded, or a legal frame that is padding only (no data octets)
		if len(f) > 5 {
			switch int(f[5].(float64)) {
			case 1:
				return h2raw.Data(sid, es, []byte("abc"), []int{0, 4, 255}[int(sid)%3])
			case 2:
				return h2raw.Data(sid, es, nil, []int{0, 3}[int(sid/2)%2])
			}
		}
		return h2raw.Data(sid, es, []byte("abc"), -1)
	case "RST":
		return h2raw.RST(sid, 8)
	case "WU":
		switch kind {
		case "zero":
			return h2raw.WindowUpdate(sid, 0)
		case "overflow":
			return h2raw.WindowUpdate(sid, 1<<31-1)
		}
		return h2raw.WindowUpdate(sid, 100)
	case "PRIORITY":
		if kind == "selfdep" {
			return h2raw.Priority(sid, h2raw.Prio{Dep: sid, Weight: 1})
		}
		return h2raw.Priority(sid, h2raw.Prio{Dep: 0, Weight: 1})
	case "PUSH":
		return h2raw.Frame(h2raw.TPushPromise, h2raw.FEndHeaders, sid, []byte{0, 0, 0, 2, 0x82})
	case "UNKNOWN":
		return h2raw.Frame(0x42, 0, sid, []byte{1, 2, 3})
	case "PING":
		switch kind {
		case "ack":
			return h2raw.Frame(h2raw.TPing, h2raw.FAck, sid, []byte{0xaa, 1, 2, 3, 4, 5, 6, 7})
		case "bad":
			return h2raw.Frame(h2raw.TPing, 0, sid, []byte{0xaa, 1, 2, 3, 4, 5, 6})
		}
		return h2raw.Frame(h2raw.TPing, 0, sid, []byte{0xaa, 1, 2, 3, 4, 5, 6, 7})
	case "GOAWAY":
		return h2raw.Frame(h2raw.TGoAway, 0, sid, []byte{0, 0, 0, 0, 0, 0, 0, 0}) // last stream 0, NO_ERROR
	}
	panic("frame " + typ)
}

func runPath(st *stack.Stack, g *gated, p Path) PathObs {
	o := PathObs{ID: p.ID}
	cl, err := stack.DialStd(st.Addr, stack.DialOpts{ALPN: []string{"h2"}}, nil)
	if err != nil {
		o.Err = "dial: " + err.Error()
		return o
	}
	defer cl.Close()
	cl.Conn.SetDeadline(time.Now().Add(20 * time.Second))
	cl.Conn.Write([]byte(h2raw.Preface))
	hc := h2raw.NewConn(cl.Conn)
	hc.AutoWU = false
	hc.NoAck = true
	gen := map[uint32]int{} // a stream id may be used for several HEADERS on a path; tags must differ
	curTag := map[uint32]string{}
	tag := func(sid uint32) string {
		if t, ok := curTag[sid]; ok {
			return t
		}
		gen[sid]++
		t := fmt.Sprintf("p%d-s%d-%d", p.ID, sid, gen[sid])
		curTag[sid] = t
		return t
	}
	expectedStarts := map[string]bool{}
	headersSeen := map[uint32]bool{}
	isTrailer := map[uint32]bool{}
	openBlock := false
	var allTags []string
	pingN := byte(0)
	ended := map[uint32]bool{}
	reported := map[uint32]bool{}
	defer func() {
		for _, t := range allTags {
			g.release(t)
		}
	}()
	waitRST := uint32(0)
	collect := func(waitResp uint32, usePing bool, wantGoAway bool) ([][]any, string) {
		sawRST := false
		extra := 0
		var want [8]byte
		if usePing {
			pingN++
			want = [8]byte{0xfe, pingN}
			cl.Conn.Write(h2raw.Ping(false, want))
		} else if waitResp == 0 && !wantGoAway {
			return nil, ""
		}
		var got [][]any
		gotAck := false
		for {
			f, err := hc.Step()
			if err != nil {
				if !usePing {
					return got, "" // nothing (more) came
				}
				return got, "conn: " + err.Error()
			}
			switch f.Type {
			case h2raw.TRSTStream:
				got = append(got, []any{"S", f.Stream, codeName[f.U32(0)]})
				if f.Stream == waitRST {
					sawRST = true
				}
			case h2raw.TGoAway:
				got = append(got, []any{"C", codeName[f.U32(4)], f.U32(0) & 0x7fffffff})
				if f.U32(4) != 0 || !usePing {
					return got, ""
				}
				// GOAWAY(NO_ERROR): the graceful answer to our own GOAWAY; the connection lives on, wait for the barrier
			case h2raw.TSettings:
				if f.Flags&h2raw.FAck != 0 {
					got = append(got, []any{"ACK"})
				}
			case h2raw.TPing:
				if usePing && f.Flags&h2raw.FAck != 0 && len(f.Payload) == 8 && f.Payload[0] == 0xfe && f.Payload[1] == pingN {
					gotAck = true
				}
				if f.Flags&h2raw.FAck != 0 && len(f.Payload) == 8 && f.Payload[0] == 0xaa {
					got = append(got, []any{"PONG"})
				}
			}
			for sid, r := range hc.Resp {
				if r.Ended && !reported[sid] {
					reported[sid] = true
					ended[sid] = true
					if r.Status == "431" {
						got = append(got, []any{"RESP431", sid})
					} else {
						got = append(got, []any{"RESP", sid})
					}
				}
			}
			if usePing && gotAck && (waitResp == 0 || reported[waitResp]) && (waitRST == 0 || sawRST) {
				return got, ""
			}
			if usePing && gotAck && (waitResp == 0 || reported[waitResp]) && waitRST != 0 && !sawRST {
				// the RST_STREAM(NO_ERROR) after a response on a still open stream may be queued behind our PING ack:
				// one more barrier (a read deadline would poison the TLS connection)
				if extra < 3 {
					extra++
					gotAck = false
					pingN++
					want = [8]byte{0xfe, pingN}
					cl.Conn.Write(h2raw.Ping(false, want))
				} else {
					return got, ""
				}
			}
			if !usePing && !wantGoAway && waitResp != 0 && reported[waitResp] {
				return got, ""
			}
		}
	}
	front := false // see gated.front
	for _, s0 := range p.Steps {
		if s0.Frame != nil && len(s0.Frame) > 4 && (s0.Frame[4] == "clbig" || s0.Frame[4] == "clsmall") {
			front = true
		}
	}
	declared := map[uint32]int{} // stream -> content-length its request block declared
	for si, s := range p.Steps {
		var so StepObs
		if s.Dead {
			break
		}
		if s.Frame != nil {
			typ := s.Frame[0].(string)
			sid := uint32(s.Frame[1].(float64))
			if typ == "HEADERS" {
				if !s.Trailer {
					delete(curTag, sid) // a new request on this stream id gets a fresh tag
				}
				isTrailer[sid] = s.Trailer
				headersSeen[sid] = true
				if !s.Trailer {
					delete(declared, sid)
					// every third path: a request that will carry a body declares its length - the octets of the DATA frames the path
					// sends on the stream before it ends (whatever their padding); legal, and nothing in the reactions depends on it
					if (p.Declare || p.ID%3 == 0) && s.Frame[4].(string) == "ok" && !s.Frame[2].(bool) {
						total, ended := 0, false
					scan:
						for _, n := range p.Steps[si+1:] {
							if n.Dead {
								break
							}
							if n.Frame == nil || uint32(n.Frame[1].(float64)) != sid {
								continue
							}
							switch n.Frame[0].(string) {
							case "DATA":
								if !(len(n.Frame) > 5 && int(n.Frame[5].(float64)) == 2) {
									total += 3
								}
								if n.Frame[2].(bool) {
									ended = true
									break scan
								}
							case "HEADERS":
								ended = n.Trailer && n.Frame[2].(bool) && n.Frame[3].(bool) && n.Frame[4].(string) == "ok"
								break scan
							case "RST", "CONT":
								break scan
							}
						}
						if ended && total > 0 {
							declared[sid] = total
							if dbg := os.Getenv("VF_DECL_DEBUG"); dbg != "" {
								if f, err := os.OpenFile(dbg, os.O_APPEND|os.O_CREATE|os.O_WRONLY, 0o644); err == nil {
									fmt.Fprintf(f, "path %d stream %d declares %d\n", p.ID, sid, total)
									f.Close()
								}
							}
						}
					}
				}
			}
			b := frameBytesF(s.Frame, tag, isTrailer[sid], front, declared[sid])
			if typ == "HEADERS" || typ == "CONT" {
				allTags = append(allTags, tag(sid))
			}
			if _, err := cl.Conn.Write(b); err != nil {
				so.Err = "write: " + err.Error()
				o.Steps = append(o.Steps, so)
				break
			}
			wantConnErr := false
			for _, x := range s.Expect {
				if x[0] == "C" && !(len(x) > 1 && x[1] == "NO") {
					wantConnErr = true
				}
			}
			wasOpen := openBlock
			if typ == "HEADERS" || typ == "CONT" {
				openBlock = !s.Frame[3].(bool)
			}
			var got [][]any
			var e string
			switch {
			case (typ == "HEADERS" || typ == "CONT") && openBlock && !wantConnErr:
				// inside a header block: no barrier (our PING would itself be a protocol error); nothing is expected
			case wasOpen && typ != "CONT" || (openBlock && wantConnErr):
				got, e = collect(0, false, true) // the server must answer with GOAWAY on its own
			default:
				// a 431 of the server's own is written by a goroutine: wait for it (and for the reset behind it) beyond the barrier
				wr := uint32(0)
				for _, x := range s.Expect {
					if x[0] == "RESP431" {
						wr = sid
					}
				}
				if wr != 0 {
					for _, x := range s.Expect {
						if x[0] == "S" {
							waitRST = sid
						}
					}
				}
				got, e = collect(wr, true, false)
				waitRST = 0
			}
			so.Got, so.Err = got, e
			// did the request reach the handler?
			wantStart := false
			for _, x := range s.Expect {
				if x[0] == "START" {
					wantStart = true
				}
			}
			if typ == "HEADERS" || typ == "CONT" {
				t := tag(sid)
				if wantStart {
					expectedStarts[t] = true
					for i := 0; i < 400 && !g.has(t); i++ {
						time.Sleep(5 * time.Millisecond)
					}
				}
				if g.has(t) && !startSeen(o, t) {
					so.Got = append(so.Got, []any{"START", sid})
					o.Late = append(o.Late, "+"+t) // bookkeeping: remember it was reported
				}
			}
		} else {
			sid := uint32(s.Finish)
			t, ok := curTag[sid]
			wantResp := false
			for _, x := range s.Expect {
				if x[0] == "RESP" {
					wantResp = true
				}
			}
			if ok {
				g.release(t)
			}
			w := uint32(0)
			if wantResp {
				w = sid
			}
			waitRST = 0
			for _, x := range s.Expect {
				if x[0] == "S" {
					waitRST = sid
				}
			}
			got, e := collect(w, !openBlock, false)
			waitRST = 0
			so.Got, so.Err = got, e
		}
		o.Steps = append(o.Steps, so)
		if so.Err != "" {
			break
		}
		dead := false
		for _, x := range so.Got {
			if x[0] == "C" && !(len(x) > 1 && x[1] == "NO") {
				dead = true
			}
		}
		if dead {
			break
		}
	}
	// starts nobody expected
	time.Sleep(20 * time.Millisecond)
	var late []string
	seen := map[string]bool{}
	for _, l := range o.Late {
		seen[l[1:]] = true
	}
	for _, t := range allTags {
		if g.has(t) && !seen[t] {
			late = append(late, t)
			seen[t] = true
		}
	}
	o.Late = late
	return o
}

func startSeen(o PathObs, t string) bool {
	for _, l := range o.Late {
		if l == "+"+t {
			return true
		}
	}
	return false
}

func main() {
	in, out := os.Args[1], os.Args[2]
	b, err := os.ReadFile(in)
	if err != nil {
		panic(err)
	}
	if os.Getenv("VF_MODE") == "handlers" {
		mainHandlers(b, out)
		return
	}
	var paths []Path
	if err := json.Unmarshal(b, &paths); err != nil {
		panic(err)
	}
	g := &gated{arrived: map[string]bool{}, gates: map[string]chan struct{}{}}
	st, err := stack.Start(stack.Options{BackendHandler: g, MutateServer: func(s *proxyserver.Server) {
		s.HTTP2Server.MaxConcurrentStreams = 2
		s.HTTPServer.MaxHeaderBytes = 4096 // header list limit of the HTTP/2 server: 4096 + 10 * 32
		if v, err := strconv.Atoi(os.Getenv("VF_ADVMAX")); err == nil && v > 0 {
			s.HTTP2Server.MaxConcurrentStreams = uint32(v) // the specification's AdvMax
		}
		s.HTTPServer.Handler = g.front(s.HTTPServer.Handler)
	}})
	if err != nil {
		panic(err)
	}
	defer st.Close()
	res := make([]PathObs, len(paths))
	par, _ := strconv.Atoi(os.Getenv("VF_PAR"))
	if par == 0 {
		par = 32
	}
	sem := make(chan struct{}, par)
	var wg sync.WaitGroup
	for i := range paths {
		wg.Add(1)
		sem <- struct{}{}
		go func(i int) {
			defer wg.Done()
			defer func() { <-sem }()
			res[i] = runPath(st, g, paths[i])
		}(i)
	}
	wg.Wait()
	ob, _ := json.Marshal(res)
	os.WriteFile(out, ob, 0o644)
}

func mainHandlers(b []byte, out string) {
	var paths []HPath
	if err := json.Unmarshal(b, &paths); err != nil {
		panic(err)
	}
	h := &holder{arrived: map[string]int{}, gates: map[string]chan struct{}{}}
	adv := 1
	if v, err := strconv.Atoi(os.Getenv("VF_ADVMAX")); err == nil && v > 0 {
		adv = v
	}
	settle := 30 * time.Millisecond
	if v, err := strconv.Atoi(os.Getenv("VF_SETTLE_MS")); err == nil && v > 0 {
		settle = time.Duration(v) * time.Millisecond
	}
	st, err := stack.Start(stack.Options{MutateServer: func(s *proxyserver.Server) {
		s.HTTP2Server.MaxConcurrentStreams = uint32(adv)
		s.HTTPServer.Handler = h.wrap(s.HTTPServer.Handler)
	}})
	if err != nil {
		panic(err)
	}
	defer st.Close()
	res := make([]PathObs, len(paths))
	par, _ := strconv.Atoi(os.Getenv("VF_PAR"))
	if par == 0 {
		par = 32
	}
	sem := make(chan struct{}, par)
	var wg sync.WaitGroup
	for i := range paths {
		wg.Add(1)
		sem <- struct{}{}
		go func(i int) {
			defer wg.Done()
			defer func() { <-sem }()
			res[i] = runHandlersPath(st, h, paths[i], settle)
		}(i)
	}
	wg.Wait()
	ob, _ := json.Marshal(res)
	os.WriteFile(out, ob, 0o644)
}
