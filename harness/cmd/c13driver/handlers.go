// Mode "handlers" (VF_MODE=handlers): replays paths of the TLC graph of H2Handlers.tla - when the handler of an accepted
// request starts.  The handler in front of the reverse proxy ignores its context and ends only when the path says so
// (Finish), so that handlers outlive reset streams, requests queue up behind the handler limit, and a long enough flood
// of opened-and-reset streams draws ENHANCE_YOUR_CALM.
package main

import (
	"fmt"
	"io"
	"net/http"
	"sync"
	"time"

	"verifharness/h2raw"
	"verifharness/stack"
)

type HStep struct {
	Op     string  `json:"op"` // open | rst | finish
	S      int     `json:"s"`  // the specification's stream number k (wire id 2k-1)
	Expect [][]any `json:"expect"`
}
type HPath struct {
	ID    int     `json:"id"`
	Steps []HStep `json:"steps"`
}

// holder: a handler that looks neither at the request body nor at the context
type holder struct {
	mu      sync.Mutex
	arrived map[string]int // tag -> arrival sequence number (global)
	seq     int
	gates   map[string]chan struct{}
}

func (h *holder) gate(tag string) chan struct{} {
	h.mu.Lock()
	defer h.mu.Unlock()
	c := h.gates[tag]
	if c == nil {
		c = make(chan struct{})
		h.gates[tag] = c
	}
	return c
}
func (h *holder) has(tag string) bool {
	h.mu.Lock()
	defer h.mu.Unlock()
	return h.arrived[tag] != 0
}
func (h *holder) release(tag string) {
	c := h.gate(tag)
	select {
	case <-c:
	default:
		close(c)
	}
}
func (h *holder) wrap(inner http.Handler) http.Handler {
	return http.HandlerFunc(func(w http.ResponseWriter, r *http.Request) {
		tag := r.Header.Get("X-Vf-Hold")
		if tag == "" {
			inner.ServeHTTP(w, r)
			return
		}
		h.mu.Lock()
		h.seq++
		h.arrived[tag] = h.seq
		h.mu.Unlock()
		select {
		case <-h.gate(tag):
		case <-time.After(60 * time.Second):
		}
		w.Header().Set("Content-Length", "2")
		w.WriteHeader(200)
		io.WriteString(w, "ok")
	})
}

// settle: how long the driver waits after a step whose only effect is invisible (a handler of a reset stream returned: the
// server learns of it through a message to its serve loop that nothing on the wire acknowledges)
func runHandlersPath(st *stack.Stack, h *holder, p HPath, settle time.Duration) PathObs {
	o := PathObs{ID: p.ID}
	cl, err := stack.DialStd(st.Addr, stack.DialOpts{ALPN: []string{"h2"}}, nil)
	if err != nil {
		o.Err = "dial: " + err.Error()
		return o
	}
	defer cl.Close()
	cl.Conn.SetDeadline(time.Now().Add(60 * time.Second))
	cl.Conn.Write([]byte(h2raw.Preface))
	cl.Conn.Write(h2raw.Settings())
	hc := h2raw.NewConn(cl.Conn)
	hc.AutoWU = false
	hc.NoAck = false
	tag := func(k int) string { return fmt.Sprintf("h%d-k%d", p.ID, k) }
	var tags []string
	defer func() {
		for _, t := range tags {
			h.release(t)
		}
	}()
	reportedStart := map[int]bool{}
	reportedResp := map[uint32]bool{}
	pingN := byte(0)
	// barrier: PING round trip; collects RST_STREAM / GOAWAY / response ends seen meanwhile
	barrier := func(waitResp uint32) ([][]any, string) {
		pingN++
		want := [8]byte{0xfd, pingN}
		cl.Conn.Write(h2raw.Ping(false, want))
		var got [][]any
		gotAck := false
		for {
			f, err := hc.Step()
			if err != nil {
				return got, "conn: " + err.Error()
			}
			switch f.Type {
			case h2raw.TRSTStream:
				got = append(got, []any{"S", int((f.Stream + 1) / 2), codeName[f.U32(0)]})
			case h2raw.TGoAway:
				got = append(got, []any{"C", codeName[f.U32(4)]})
				return got, ""
			case h2raw.TPing:
				if f.Flags&h2raw.FAck != 0 && len(f.Payload) == 8 && f.Payload[0] == 0xfd && f.Payload[1] == pingN {
					gotAck = true
				}
			}
			for sid, r := range hc.Resp {
				if r.Ended && !reportedResp[sid] {
					reportedResp[sid] = true
					got = append(got, []any{"RESP", int((sid + 1) / 2)})
				}
			}
			if gotAck && (waitResp == 0 || reportedResp[waitResp]) {
				return got, ""
			}
		}
	}
	starts := func(expect [][]any) [][]any {
		// wait for the starts the specification names, then report every start not reported before
		for _, x := range expect {
			if x[0] == "START" {
				k := int(x[1].(float64))
				for i := 0; i < 600 && !h.has(tag(k)); i++ {
					time.Sleep(5 * time.Millisecond)
				}
			}
		}
		var got [][]any
		for k := 1; k <= len(tags); k++ {
			if h.has(tag(k)) && !reportedStart[k] {
				reportedStart[k] = true
				got = append(got, []any{"START", k})
			}
		}
		return got
	}
	dead := false
	for _, s := range p.Steps {
		var so StepObs
		if dead {
			break
		}
		wantStart, wantResp := false, uint32(0)
		for _, x := range s.Expect {
			if x[0] == "START" {
				wantStart = true
			}
			if x[0] == "RESP" {
				wantResp = uint32(2*int(x[1].(float64)) - 1)
			}
		}
		sid := uint32(2*s.S - 1)
		switch s.Op {
		case "open":
			for len(tags) < s.S {
				tags = append(tags, tag(len(tags)+1))
			}
			blk := h2raw.Block([]h2raw.HF{{":method", "GET"}, {":scheme", "https"}, {":authority", "vf.test"}, {":path", "/h"}, {"x-vf-hold", tag(s.S)}})
			cl.Conn.Write(h2raw.Frame(h2raw.THeaders, h2raw.FEndHeaders|h2raw.FEndStream, sid, blk))
			so.Got, so.Err = barrier(0)
		case "rst":
			cl.Conn.Write(h2raw.RST(sid, 8))
			so.Got, so.Err = barrier(0)
		case "finish":
			h.release(tag(s.S))
			if !wantStart && wantResp == 0 {
				time.Sleep(settle)
			}
			so.Got, so.Err = barrier(wantResp)
		}
		if so.Err == "" {
			if !wantStart {
				time.Sleep(2 * time.Millisecond) // a start nobody expects needs a moment to show
			}
			so.Got = append(so.Got, starts(s.Expect)...)
		}
		o.Steps = append(o.Steps, so)
		if so.Err != "" {
			break
		}
		for _, x := range so.Got {
			if x[0] == "C" {
				dead = true
			}
		}
	}
	// starts nobody expected, seen late
	time.Sleep(30 * time.Millisecond)
	for k := 1; k <= len(tags); k++ {
		if h.has(tag(k)) && !reportedStart[k] {
			o.Late = append(o.Late, tag(k))
		}
	}
	return o
}
