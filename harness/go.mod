module verifharness

go 1.21.7

require (
	github.com/dreadl0ck/tlsx v1.0.1-google-gopacket
	github.com/fsnotify/fsnotify v1.7.0
	github.com/google/gopacket v1.1.18
	github.com/prometheus/client_golang v1.18.0
	github.com/prometheus/client_model v0.5.0
	github.com/refraction-networking/utls v1.6.0
	github.com/wi1dcard/fingerproxy v0.0.0
	golang.org/x/net v0.19.0
)

require (
	github.com/andybalholm/brotli v1.0.6 // indirect
	github.com/beorn7/perks v1.0.1 // indirect
	github.com/cespare/xxhash/v2 v2.2.0 // indirect
	github.com/cloudflare/circl v1.3.7 // indirect
	github.com/klauspost/compress v1.17.4 // indirect
	github.com/matttproud/golang_protobuf_extensions/v2 v2.0.0 // indirect
	github.com/prometheus/common v0.45.0 // indirect
	github.com/prometheus/procfs v0.12.0 // indirect
	github.com/quic-go/quic-go v0.40.1 // indirect
	golang.org/x/crypto v0.17.0 // indirect
	golang.org/x/sys v0.15.0 // indirect
	golang.org/x/text v0.14.0 // indirect
	google.golang.org/protobuf v1.31.0 // indirect
)

replace github.com/wi1dcard/fingerproxy => /repo
