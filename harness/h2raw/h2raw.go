// Package h2raw is the harness's own HTTP/2 frame and HPACK *serializer* plus a minimal reader for
// scripted clients.  The writer is written from RFC 7540 / RFC 7541 and shares no code with the
// framer under test; header blocks are encoded as "literal without indexing, new name", raw strings,
// so no dynamic-table state is needed on the sending side.
package h2raw

import (
	"encoding/binary"
	"errors"
	"fmt"
	"io"
	"sync"

	"golang.org/x/net/http2/hpack"
)

const Preface = "PRI * HTTP/2.0\r\n\r\nSM\r\n\r\n"

const (
	TData         = 0
	THeaders      = 1
	TPriority     = 2
	TRSTStream    = 3
	TSettings     = 4
	TPushPromise  = 5
	TPing         = 6
	TGoAway       = 7
	TWindowUpdate = 8
	TContinuation = 9

	FEndStream  = 0x1
	FAck        = 0x1
	FEndHeaders = 0x4
	FPadded     = 0x8
	FPriority   = 0x20
)

// Frame builds one frame with an explicit (possibly lying) length.
func Frame(typ, flags byte, stream uint32, payload []byte) []byte {
	return FrameLen(typ, flags, stream, payload, len(payload))
}

func FrameLen(typ, flags byte, stream uint32, payload []byte, declared int) []byte {
	b := []byte{byte(declared >> 16), byte(declared >> 8), byte(declared), typ, flags, 0, 0, 0, 0}
	binary.BigEndian.PutUint32(b[5:], stream)
	return append(b, payload...)
}

type Setting struct {
	ID  uint16
	Val uint32
}

func Settings(ss ...Setting) []byte {
	var p []byte
	for _, s := range ss {
		p = append(p, byte(s.ID>>8), byte(s.ID), byte(s.Val>>24), byte(s.Val>>16), byte(s.Val>>8), byte(s.Val))
	}
	return Frame(TSettings, 0, 0, p)
}
func SettingsAck() []byte { return Frame(TSettings, FAck, 0, nil) }

func WindowUpdate(stream uint32, incr uint32) []byte {
	return Frame(TWindowUpdate, 0, stream, []byte{byte(incr >> 24), byte(incr >> 16), byte(incr >> 8), byte(incr)})
}

type Prio struct {
	Dep    uint32
	Excl   bool
	Weight uint8
}

func (p Prio) bytes() []byte {
	d := p.Dep
	if p.Excl {
		d |= 1 << 31
	}
	return []byte{byte(d >> 24), byte(d >> 16), byte(d >> 8), byte(d), p.Weight}
}

func Priority(stream uint32, p Prio) []byte { return Frame(TPriority, 0, stream, p.bytes()) }
func RST(stream uint32, code uint32) []byte {
	return Frame(TRSTStream, 0, stream, []byte{byte(code >> 24), byte(code >> 16), byte(code >> 8), byte(code)})
}
func Ping(ack bool, data [8]byte) []byte {
	var f byte
	if ack {
		f = FAck
	}
	return Frame(TPing, f, 0, data[:])
}
func GoAway(last uint32, code uint32) []byte {
	return Frame(TGoAway, 0, 0, []byte{byte(last >> 24), byte(last >> 16), byte(last >> 8), byte(last), byte(code >> 24), byte(code >> 16), byte(code >> 8), byte(code)})
}

func Data(stream uint32, end bool, body []byte, pad int) []byte {
	var f byte
	if end {
		f |= FEndStream
	}
	p := body
	if pad >= 0 {
		f |= FPadded
		p = append([]byte{byte(pad)}, body...)
		p = append(p, make([]byte, pad)...)
	}
	return Frame(TData, f, stream, p)
}

type HF struct{ Name, Value string }

func hpackInt(prefixBits uint, first byte, n int) []byte {
	max := (1 << prefixBits) - 1
	if n < max {
		return []byte{first | byte(n)}
	}
	b := []byte{first | byte(max)}
	n -= max
	for n >= 128 {
		b = append(b, byte(n%128+128))
		n /= 128
	}
	return append(b, byte(n))
}

// Block encodes a header list: literal header field without indexing, new name, no Huffman.
func Block(fields []HF) []byte {
	var b []byte
	for _, f := range fields {
		b = append(b, 0x00)
		b = append(b, hpackInt(7, 0, len(f.Name))...)
		b = append(b, f.Name...)
		b = append(b, hpackInt(7, 0, len(f.Value))...)
		b = append(b, f.Value...)
	}
	return b
}

// BlockRep is Block with the literal representation chosen per field: rep(i) is 0x00 (literal without indexing) or 0x10 (literal never
// indexed, RFC 7541 6.2.3 - what a client uses for values it does not want intermediaries to put into compression contexts).  Both
// decode to the same header list.
func BlockRep(fields []HF, rep func(i int) byte) []byte {
	var b []byte
	for i, f := range fields {
		b = append(b, rep(i))
		b = append(b, hpackInt(7, 0, len(f.Name))...)
		b = append(b, f.Name...)
		b = append(b, hpackInt(7, 0, len(f.Value))...)
		b = append(b, f.Value...)
	}
	return b
}

// Enc is a small stateful HPACK encoder of the kind real clients use: exact matches of the static or dynamic table are sent as
// indexed fields, everything else as a literal with incremental indexing (name taken from a table when it is there).  One Enc per
// connection; the server's decoder has to keep its dynamic table in step or later requests decode to other headers.
type Enc struct {
	Max  int // dynamic table size limit (0 => 4096)
	dyn  []HF
	size int
}

var staticTable = []HF{{":authority", ""}, {":method", "GET"}, {":method", "POST"}, {":path", "/"}, {":path", "/index.html"}, {":scheme", "http"}, {":scheme", "https"},
	{":status", "200"}, {":status", "204"}, {":status", "206"}, {":status", "304"}, {":status", "400"}, {":status", "404"}, {":status", "500"}, {"accept-charset", ""},
	{"accept-encoding", "gzip, deflate"}, {"accept-language", ""}, {"accept-ranges", ""}, {"accept", ""}, {"access-control-allow-origin", ""}, {"age", ""}, {"allow", ""},
	{"authorization", ""}, {"cache-control", ""}, {"content-disposition", ""}, {"content-encoding", ""}, {"content-language", ""}, {"content-length", ""},
	{"content-location", ""}, {"content-range", ""}, {"content-type", ""}, {"cookie", ""}, {"date", ""}, {"etag", ""}, {"expect", ""}, {"expires", ""}, {"from", ""},
	{"host", ""}, {"if-match", ""}, {"if-modified-since", ""}, {"if-none-match", ""}, {"if-range", ""}, {"if-unmodified-since", ""}, {"last-modified", ""}, {"link", ""},
	{"location", ""}, {"max-forwards", ""}, {"proxy-authenticate", ""}, {"proxy-authorization", ""}, {"range", ""}, {"referer", ""}, {"refresh", ""}, {"retry-after", ""},
	{"server", ""}, {"set-cookie", ""}, {"strict-transport-security", ""}, {"transfer-encoding", ""}, {"user-agent", ""}, {"vary", ""}, {"via", ""}, {"www-authenticate", ""}}

func (e *Enc) Block(fields []HF) []byte {
	max := e.Max
	if max == 0 {
		max = 4096
	}
	var b []byte
	for _, f := range fields {
		exact, name := 0, 0
		for i, s := range staticTable {
			if s.Name == f.Name {
				if name == 0 {
					name = i + 1
				}
				if s.Value == f.Value && exact == 0 {
					exact = i + 1
				}
			}
		}
		for i, d := range e.dyn {
			if d.Name == f.Name {
				if name == 0 {
					name = 62 + i
				}
				if d.Value == f.Value && exact == 0 {
					exact = 62 + i
				}
			}
		}
		if exact != 0 {
			b = append(b, hpackInt(7, 0x80, exact)...)
			continue
		}
		b = append(b, hpackInt(6, 0x40, name)...)
		if name == 0 {
			b = append(b, hpackInt(7, 0, len(f.Name))...)
			b = append(b, f.Name...)
		}
		b = append(b, hpackInt(7, 0, len(f.Value))...)
		b = append(b, f.Value...)
		// insert, newest first, evict from the old end
		e.dyn = append([]HF{f}, e.dyn...)
		e.size += len(f.Name) + len(f.Value) + 32
		for e.size > max && len(e.dyn) > 0 {
			last := e.dyn[len(e.dyn)-1]
			e.size -= len(last.Name) + len(last.Value) + 32
			e.dyn = e.dyn[:len(e.dyn)-1]
		}
	}
	return b
}

// Headers builds HEADERS (+ CONTINUATION frames when split > 0: the block is cut into pieces of `split` bytes).
func Headers(stream uint32, end bool, block []byte, prio *Prio, split int) []byte {
	var f byte
	if end {
		f |= FEndStream
	}
	first := block
	var rest [][]byte
	if split > 0 && len(block) > split {
		first = block[:split]
		r := block[split:]
		for len(r) > 0 {
			n := split
			if n > len(r) {
				n = len(r)
			}
			rest = append(rest, r[:n])
			r = r[n:]
		}
	}
	if len(rest) == 0 {
		f |= FEndHeaders
	}
	var p []byte
	if prio != nil {
		f |= FPriority
		p = append(p, prio.bytes()...)
	}
	p = append(p, first...)
	out := Frame(THeaders, f, stream, p)
	for i, r := range rest {
		var cf byte
		if i == len(rest)-1 {
			cf = FEndHeaders
		}
		out = append(out, Frame(TContinuation, cf, stream, r)...)
	}
	return out
}

// ---- reader

type RFrame struct {
	Type, Flags byte
	Stream      uint32
	Payload     []byte
}

func (f RFrame) String() string {
	return fmt.Sprintf("{t=%d f=%#x s=%d len=%d}", f.Type, f.Flags, f.Stream, len(f.Payload))
}

func ReadFrame(r io.Reader) (RFrame, error) {
	var h [9]byte
	if _, err := io.ReadFull(r, h[:]); err != nil {
		return RFrame{}, err
	}
	n := int(h[0])<<16 | int(h[1])<<8 | int(h[2])
	f := RFrame{Type: h[3], Flags: h[4], Stream: binary.BigEndian.Uint32(h[5:]) & 0x7fffffff}
	f.Payload = make([]byte, n)
	if _, err := io.ReadFull(r, f.Payload); err != nil {
		return f, err
	}
	return f, nil
}

func (f RFrame) U32(off int) uint32 {
	if len(f.Payload) < off+4 {
		return 0
	}
	return binary.BigEndian.Uint32(f.Payload[off:])
}

// Response is what a scripted client collected for one stream.
type Response struct {
	Status   string
	Header   []HF
	Body     []byte
	Trailer  []HF
	Reset    bool
	RSTCode  uint32
	Ended    bool
	Informal [][]HF // 1xx header blocks
}

// Conn is a minimal client-side reader: it acks SETTINGS/PING, keeps windows open and collects responses.
type Conn struct {
	RW       io.ReadWriter
	dec      *hpack.Decoder
	Resp     map[uint32]*Response
	GoAway   *RFrame
	Frames   []RFrame // everything the server sent
	AutoWU   bool
	NoAck    bool                                       // do not acknowledge the server's SETTINGS automatically
	OnData   func(stream uint32, data []byte, end bool) // optional: called for every DATA frame (payload without padding)
	OnWU     func(stream uint32, n uint32)              // optional: called for every WINDOW_UPDATE
	WMu      sync.Locker                                // optional: serialises this reader's own writes with other writers
	contStrm uint32
	contBuf  []byte
	contEnd  bool
}

func NewConn(rw io.ReadWriter) *Conn {
	return &Conn{RW: rw, dec: hpack.NewDecoder(4096, nil), Resp: map[uint32]*Response{}, AutoWU: true}
}

func (c *Conn) write(b []byte) {
	if c.WMu != nil {
		c.WMu.Lock()
		defer c.WMu.Unlock()
	}
	c.RW.Write(b)
}

func (c *Conn) resp(s uint32) *Response {
	r := c.Resp[s]
	if r == nil {
		r = &Response{}
		c.Resp[s] = r
	}
	return r
}

func (c *Conn) headerBlock(stream uint32, block []byte, end bool) error {
	fs, err := c.dec.DecodeFull(block)
	if err != nil {
		return err
	}
	r := c.resp(stream)
	var list []HF
	status := ""
	for _, f := range fs {
		if f.Name == ":status" {
			status = f.Value
			continue
		}
		list = append(list, HF{f.Name, f.Value})
	}
	switch {
	case status != "" && status[0] == '1':
		r.Informal = append(r.Informal, list)
	case status != "":
		r.Status = status
		r.Header = list
	default:
		r.Trailer = list
	}
	if end {
		r.Ended = true
	}
	return nil
}

var ErrGoAway = errors.New("goaway")

// Step reads and processes one frame.
func (c *Conn) Step() (RFrame, error) {
	f, err := ReadFrame(c.RW)
	if err != nil {
		return f, err
	}
	c.Frames = append(c.Frames, f)
	switch f.Type {
	case TSettings:
		if f.Flags&FAck == 0 && !c.NoAck {
			c.write(SettingsAck())
		}
	case TPing:
		if f.Flags&FAck == 0 {
			var d [8]byte
			copy(d[:], f.Payload)
			c.write(Ping(true, d))
		}
	case THeaders:
		p := f.Payload
		if f.Flags&FPadded != 0 && len(p) > 0 {
			pad := int(p[0])
			p = p[1:]
			if pad <= len(p) {
				p = p[:len(p)-pad]
			}
		}
		if f.Flags&FPriority != 0 && len(p) >= 5 {
			p = p[5:]
		}
		if f.Flags&FEndHeaders != 0 {
			if err := c.headerBlock(f.Stream, p, f.Flags&FEndStream != 0); err != nil {
				return f, err
			}
		} else {
			c.contStrm, c.contBuf, c.contEnd = f.Stream, append([]byte{}, p...), f.Flags&FEndStream != 0
		}
	case TContinuation:
		c.contBuf = append(c.contBuf, f.Payload...)
		if f.Flags&FEndHeaders != 0 {
			if err := c.headerBlock(c.contStrm, c.contBuf, c.contEnd); err != nil {
				return f, err
			}
			c.contBuf = nil
		}
	case TData:
		p := f.Payload
		if f.Flags&FPadded != 0 && len(p) > 0 {
			pad := int(p[0])
			p = p[1:]
			if pad <= len(p) {
				p = p[:len(p)-pad]
			}
		}
		if c.OnData != nil {
			c.OnData(f.Stream, p, f.Flags&FEndStream != 0)
		}
		r := c.resp(f.Stream)
		if c.OnData == nil {
			r.Body = append(r.Body, p...)
		}
		if f.Flags&FEndStream != 0 {
			r.Ended = true
		}
		if c.AutoWU && len(f.Payload) > 0 {
			c.write(WindowUpdate(0, uint32(len(f.Payload))))
			if f.Flags&FEndStream == 0 {
				c.write(WindowUpdate(f.Stream, uint32(len(f.Payload))))
			}
		}
	case TWindowUpdate:
		if c.OnWU != nil {
			c.OnWU(f.Stream, f.U32(0)&0x7fffffff)
		}
	case TRSTStream:
		r := c.resp(f.Stream)
		r.Reset = true
		r.RSTCode = f.U32(0)
	case TGoAway:
		g := f
		c.GoAway = &g
	}
	return f, nil
}

// WaitStreams reads until every listed stream has ended or was reset (or the connection fails).
func (c *Conn) WaitStreams(ids ...uint32) error {
	for {
		done := true
		for _, id := range ids {
			r := c.Resp[id]
			if r == nil || !(r.Ended || r.Reset) {
				done = false
			}
		}
		if done {
			return nil
		}
		if _, err := c.Step(); err != nil {
			return err
		}
	}
}
