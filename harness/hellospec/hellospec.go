// Package hellospec builds utls ClientHelloSpecs from a small description (extension names in wire order).
package hellospec

import (
	"encoding/hex"
	"fmt"
	"net"
	"strconv"
	"strings"

	utls "github.com/refraction-networking/utls"
)

// Desc describes a ClientHello to be produced by utls; extension names in wire order.
type Desc struct {
	Ciphers []uint16
	Exts    []string
	ALPN    []string
	SigAlgs []uint16
	SV      []uint16
	Groups  []uint16
	SNI     string
}

func (d Desc) Clone() Desc {
	n := d
	n.Ciphers = append([]uint16{}, d.Ciphers...)
	n.Exts = append([]string{}, d.Exts...)
	n.ALPN = append([]string{}, d.ALPN...)
	n.SigAlgs = append([]uint16{}, d.SigAlgs...)
	n.SV = append([]uint16{}, d.SV...)
	n.Groups = append([]uint16{}, d.Groups...)
	return n
}

func Base13() Desc {
	return Desc{
		Ciphers: []uint16{0x1301, 0x1302, 0x1303, 0xc02b, 0xc02f, 0xc02c, 0xc030, 0xcca9, 0xcca8},
		Exts:    []string{"sni", "ems", "reneg", "groups", "points", "ticket", "alpn", "status", "sigalgs", "sct", "keyshare", "pskmodes", "sv"},
		ALPN:    []string{"h2", "http/1.1"},
		SigAlgs: []uint16{0x0403, 0x0804, 0x0401, 0x0503, 0x0805, 0x0501},
		SV:      []uint16{0x0304, 0x0303},
		Groups:  []uint16{29, 23},
	}
}

func Base12() Desc {
	return Desc{
		Ciphers: []uint16{0xc02b, 0xc02f, 0xc02c, 0xc030, 0xcca9, 0xcca8, 0xc009, 0xc013},
		Exts:    []string{"sni", "ems", "reneg", "groups", "points", "alpn", "sigalgs"},
		ALPN:    []string{"h2", "http/1.1"},
		SigAlgs: []uint16{0x0403, 0x0804, 0x0401},
		Groups:  []uint16{29, 23},
	}
}

func (d Desc) Spec() *utls.ClientHelloSpec {
	s := &utls.ClientHelloSpec{CipherSuites: append([]uint16{}, d.Ciphers...), CompressionMethods: []byte{0}}
	for _, e := range d.Exts {
		switch {
		case e == "sni":
			s.Extensions = append(s.Extensions, &utls.SNIExtension{ServerName: d.SNI})
		case e == "ems":
			s.Extensions = append(s.Extensions, &utls.ExtendedMasterSecretExtension{})
		case e == "reneg":
			s.Extensions = append(s.Extensions, &utls.RenegotiationInfoExtension{Renegotiation: utls.RenegotiateOnceAsClient})
		case e == "groups":
			var cs []utls.CurveID
			for _, g := range d.Groups {
				cs = append(cs, utls.CurveID(g))
			}
			s.Extensions = append(s.Extensions, &utls.SupportedCurvesExtension{Curves: cs})
		case e == "points":
			s.Extensions = append(s.Extensions, &utls.SupportedPointsExtension{SupportedPoints: []byte{0}})
		case e == "ticket":
			s.Extensions = append(s.Extensions, &utls.SessionTicketExtension{})
		case e == "alpn":
			s.Extensions = append(s.Extensions, &utls.ALPNExtension{AlpnProtocols: append([]string{}, d.ALPN...)})
		case e == "status":
			s.Extensions = append(s.Extensions, &utls.StatusRequestExtension{})
		case e == "sigalgs":
			var sa []utls.SignatureScheme
			for _, a := range d.SigAlgs {
				sa = append(sa, utls.SignatureScheme(a))
			}
			s.Extensions = append(s.Extensions, &utls.SignatureAlgorithmsExtension{SupportedSignatureAlgorithms: sa})
		case e == "sct":
			s.Extensions = append(s.Extensions, &utls.SCTExtension{})
		case e == "keyshare":
			s.Extensions = append(s.Extensions, &utls.KeyShareExtension{KeyShares: []utls.KeyShare{{Group: utls.X25519}}})
		case e == "pskmodes":
			s.Extensions = append(s.Extensions, &utls.PSKKeyExchangeModesExtension{Modes: []uint8{utls.PskModeDHE}})
		case e == "sv":
			s.Extensions = append(s.Extensions, &utls.SupportedVersionsExtension{Versions: append([]uint16{}, d.SV...)})
		case e == "grease":
			s.Extensions = append(s.Extensions, &utls.UtlsGREASEExtension{})
		case e == "padding":
			s.Extensions = append(s.Extensions, &utls.UtlsPaddingExtension{GetPaddingLen: utls.BoringPaddingStyle})
		case strings.HasPrefix(e, "generic:"):
			// generic:<type hex>:<body hex>
			parts := strings.Split(e, ":")
			id, _ := strconv.ParseUint(parts[1], 16, 16)
			body, _ := hex.DecodeString(parts[2])
			s.Extensions = append(s.Extensions, &utls.GenericExtension{Id: uint16(id), Data: body})
		default:
			panic("unknown ext " + e)
		}
	}
	return s
}

// RawLen marshals the hello this description stands for (throw-away random, key shares and session id - their lengths are what
// matters) and returns the length of the handshake message, i.e. of the payload of the one TLS record that carries it.
func (d Desc) RawLen() (int, error) {
	a, b := net.Pipe()
	defer a.Close()
	defer b.Close()
	sni := d.SNI
	if sni == "" {
		sni = "vf.test" // what stack.DialUTLS names when the description does not say
	}
	uc := utls.UClient(a, &utls.Config{InsecureSkipVerify: true, ServerName: sni, NextProtos: d.ALPN}, utls.HelloCustom)
	if err := uc.ApplyPreset(d.Spec()); err != nil {
		return 0, err
	}
	if err := uc.BuildHandshakeState(); err != nil {
		return 0, err
	}
	return len(uc.HandshakeState.Hello.Raw), nil
}

// PadTo adds a padding extension (type 21) so that the handshake message is exactly n octets long.
func (d Desc) PadTo(n int) (Desc, error) {
	l0, err := d.RawLen()
	if err != nil {
		return d, err
	}
	pad := n - l0 - 4
	if pad < 0 {
		return d, fmt.Errorf("hello already %d octets", l0)
	}
	c := d.Clone()
	c.Exts = append(c.Exts, "generic:0015:"+strings.Repeat("00", pad))
	if l, err := c.RawLen(); err != nil || l != n {
		return d, fmt.Errorf("padded hello is %d octets, wanted %d (%v)", l, n, err)
	}
	return c, nil
}
