// Package hello is the harness's own ClientHello synthesizer and wire parser.  It is written from
// RFC 5246/8446 and shares no code with the parsers under test (tlsx, utls, crypto/tls).
package hello

import (
	"encoding/binary"
	"encoding/hex"
	"errors"
	"fmt"
)

// Abstract is the abstract hello of JA3.tla / JA4.tla.
type Abstract struct {
	Legacy  int      `json:"legacy"`
	Ciphers []int    `json:"ciphers"`
	Exts    []int    `json:"exts"` // extension types in wire order
	Groups  []int    `json:"groups"`
	Points  []int    `json:"points"`
	SNI     bool     `json:"sni"`
	HasALPN bool     `json:"has_alpn"`
	ALPN    []string `json:"alpn"` // hex of each protocol name
	SigAlgs []int    `json:"sigalgs"`
	HasSV   bool     `json:"has_sv"`
	SV      []int    `json:"sv"`
	SNIName string   `json:"sni_name,omitempty"`
	// ExtBodies maps a type to an explicit body (hex); used by the synthesizer only.
	ExtBodies map[string]string `json:"ext_bodies,omitempty"`
}

func u16(v int) []byte { return []byte{byte(v >> 8), byte(v)} }

func vec16(b []byte) []byte { return append(u16(len(b)), b...) }
func vec8(b []byte) []byte  { return append([]byte{byte(len(b))}, b...) }

func list16(vs []int) []byte {
	var b []byte
	for _, v := range vs {
		b = append(b, u16(v)...)
	}
	return b
}

func IsGrease(v int) bool { return v&0x0f0f == 0x0a0a && v>>8 == v&0xff }

// DefaultBody returns a well-formed body for extension type t given the abstract hello.
func (a *Abstract) DefaultBody(t int) []byte {
	if a.ExtBodies != nil {
		if h, ok := a.ExtBodies[fmt.Sprint(t)]; ok {
			b, _ := hex.DecodeString(h)
			return b
		}
	}
	switch t {
	case 0:
		name := a.SNIName
		if name == "" {
			name = "example.com"
		}
		e := append([]byte{0}, vec16([]byte(name))...)
		return vec16(e)
	case 5:
		return []byte{1, 0, 0, 0, 0}
	case 10:
		return vec16(list16(a.Groups))
	case 11:
		var p []byte
		for _, v := range a.Points {
			p = append(p, byte(v))
		}
		return vec8(p)
	case 13:
		return vec16(list16(a.SigAlgs))
	case 16:
		var l []byte
		for _, h := range a.ALPN {
			p, _ := hex.DecodeString(h)
			l = append(l, vec8(p)...)
		}
		return vec16(l)
	case 18, 23, 35, 22, 49:
		return nil
	case 21:
		return make([]byte, 7)
	case 27:
		return []byte{2, 0, 2}
	case 28:
		return []byte{0x40, 0x01}
	case 34:
		return []byte{0, 8, 4, 3, 5, 3, 6, 3, 2, 1}
	case 43:
		return vec8(list16(a.SV))
	case 45:
		return []byte{1, 1}
	case 50:
		return vec16(list16([]int{0x0503, 0x0806})) // signature_algorithms_cert: schemes that no signature_algorithms list of the models contains
	case 51:
		ks := append(u16(29), vec16(make([]byte, 32))...)
		return vec16(ks)
	case 17513:
		return []byte{0, 3, 2, 'h', '2'}
	case 65281:
		return []byte{0}
	}
	if IsGrease(t) {
		return nil
	}
	return []byte{0xde, 0xad}
}

// Message builds the ClientHello handshake message (type, 24-bit length, body).
func (a *Abstract) Message() []byte {
	var b []byte
	b = append(b, u16(a.Legacy)...)
	rnd := make([]byte, 32)
	for i := range rnd {
		rnd[i] = byte(i*7 + 1)
	}
	b = append(b, rnd...)
	b = append(b, vec8(make([]byte, 32))...)
	b = append(b, vec16(list16(a.Ciphers))...)
	b = append(b, 1, 0)
	if a.Exts != nil {
		var ex []byte
		for _, t := range a.Exts {
			ex = append(ex, u16(t)...)
			ex = append(ex, vec16(a.DefaultBody(t))...)
		}
		b = append(b, vec16(ex)...)
	}
	msg := []byte{1, byte(len(b) >> 16), byte(len(b) >> 8), byte(len(b))}
	return append(msg, b...)
}

// Record wraps the message in one TLS record.
func (a *Abstract) Record(recVer int) []byte {
	m := a.Message()
	r := []byte{22}
	r = append(r, u16(recVer)...)
	r = append(r, u16(len(m))...)
	return append(r, m...)
}

type rd struct {
	b   []byte
	err error
}

func (r *rd) take(n int) []byte {
	if r.err != nil {
		return nil
	}
	if n < 0 || len(r.b) < n {
		r.err = errors.New("short")
		return nil
	}
	x := r.b[:n]
	r.b = r.b[n:]
	return x
}
func (r *rd) u8() int {
	x := r.take(1)
	if x == nil {
		return 0
	}
	return int(x[0])
}
func (r *rd) u16() int {
	x := r.take(2)
	if x == nil {
		return 0
	}
	return int(binary.BigEndian.Uint16(x))
}
func (r *rd) vec8() *rd  { return &rd{b: r.take(r.u8()), err: r.err} }
func (r *rd) vec16() *rd { return &rd{b: r.take(r.u16()), err: r.err} }

// ParseRecord parses one TLS record holding a complete ClientHello.
func ParseRecord(rec []byte) (*Abstract, error) {
	if len(rec) < 5 || rec[0] != 22 {
		return nil, errors.New("not a handshake record")
	}
	n := int(binary.BigEndian.Uint16(rec[3:5]))
	if len(rec) < 5+n {
		return nil, errors.New("short record")
	}
	return ParseMessage(rec[5 : 5+n])
}

// ParseMessage parses a ClientHello handshake message.
func ParseMessage(m []byte) (*Abstract, error) {
	if len(m) < 4 || m[0] != 1 {
		return nil, errors.New("not a client hello")
	}
	l := int(m[1])<<16 | int(m[2])<<8 | int(m[3])
	if len(m) < 4+l {
		return nil, errors.New("short message")
	}
	r := &rd{b: m[4 : 4+l]}
	a := &Abstract{Ciphers: []int{}, Exts: []int{}, Groups: []int{}, Points: []int{}, ALPN: []string{}, SigAlgs: []int{}, SV: []int{}}
	a.Legacy = r.u16()
	r.take(32)
	r.vec8()
	cs := r.vec16()
	for len(cs.b) >= 2 {
		a.Ciphers = append(a.Ciphers, cs.u16())
	}
	r.vec8()
	if r.err != nil {
		return nil, r.err
	}
	if len(r.b) == 0 {
		return a, nil
	}
	ex := r.vec16()
	if r.err != nil {
		return nil, r.err
	}
	for len(ex.b) > 0 {
		t := ex.u16()
		body := ex.vec16()
		if ex.err != nil {
			return nil, ex.err
		}
		a.Exts = append(a.Exts, t)
		switch t {
		case 0:
			a.SNI = true
			lst := body.vec16()
			lst.u8()
			a.SNIName = string(lst.vec16().b)
		case 10:
			lst := body.vec16()
			for len(lst.b) >= 2 {
				a.Groups = append(a.Groups, lst.u16())
			}
		case 11:
			lst := body.vec8()
			for _, p := range lst.b {
				a.Points = append(a.Points, int(p))
			}
		case 13:
			lst := body.vec16()
			for len(lst.b) >= 2 {
				a.SigAlgs = append(a.SigAlgs, lst.u16())
			}
		case 16:
			a.HasALPN = true
			lst := body.vec16()
			for len(lst.b) > 0 && lst.err == nil {
				a.ALPN = append(a.ALPN, hex.EncodeToString(lst.vec8().b))
			}
		case 43:
			a.HasSV = true
			lst := body.vec8()
			for len(lst.b) >= 2 {
				a.SV = append(a.SV, lst.u16())
			}
		}
	}
	return a, nil
}
