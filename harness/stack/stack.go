// Package stack runs the real fingerproxy stack in-process: proxyserver.Server + reverseproxy.HTTPHandler
// (wired like fingerproxy.Run does) in front of a recording backend, plus TLS clients that expose the
// exact ClientHello record they sent.
package stack

import (
	"bufio"
	"bytes"
	"context"
	"crypto/ecdsa"
	"crypto/elliptic"
	"crypto/rand"
	"crypto/tls"
	"crypto/x509"
	"crypto/x509/pkix"
	"errors"
	"fmt"
	"io"
	"log"
	"math"
	"math/big"
	"net"
	"net/http"
	"net/http/httptest"
	"net/http/httputil"
	"net/url"
	"sync"
	"syscall"
	"time"

	"github.com/prometheus/client_golang/prometheus"
	utls "github.com/refraction-networking/utls"
	fp "github.com/wi1dcard/fingerproxy/pkg/fingerprint"
	"github.com/wi1dcard/fingerproxy/pkg/proxyserver"
	"github.com/wi1dcard/fingerproxy/pkg/reverseproxy"
)

// FragmentInCipherList as DialOpts.Fragment / RecConn.FragmentAt: see RecConn.FragmentAt
const FragmentInCipherList = -1

type BackendReq struct {
	Seq        int
	Method     string
	RequestURI string
	Host       string
	Proto      string
	Header     http.Header
	Body       []byte
	Trailer    http.Header
	TE         []string
	CL         int64
}

type Backend struct {
	mu      sync.Mutex
	Reqs    []*BackendReq
	byTag   map[string][]*BackendReq
	Srv     *httptest.Server
	Respond func(w http.ResponseWriter, r *http.Request, rec *BackendReq) // optional
}

func (b *Backend) handler(w http.ResponseWriter, r *http.Request) {
	body, _ := io.ReadAll(r.Body)
	rec := &BackendReq{Method: r.Method, RequestURI: r.RequestURI, Host: r.Host, Proto: r.Proto, Header: r.Header.Clone(),
		Body: body, Trailer: r.Trailer.Clone(), TE: r.TransferEncoding, CL: r.ContentLength}
	b.mu.Lock()
	rec.Seq = len(b.Reqs)
	b.Reqs = append(b.Reqs, rec)
	if t := r.Header.Get("X-Vf-Tag"); t != "" {
		if b.byTag == nil {
			b.byTag = map[string][]*BackendReq{}
		}
		b.byTag[t] = append(b.byTag[t], rec)
	}
	b.mu.Unlock()
	if b.Respond != nil {
		b.Respond(w, r, rec)
		return
	}
	w.Header().Set("X-Vf-Backend", "1")
	w.WriteHeader(200)
	io.WriteString(w, "backend-ok")
}

func (b *Backend) Snapshot() []*BackendReq {
	b.mu.Lock()
	defer b.mu.Unlock()
	return append([]*BackendReq{}, b.Reqs...)
}

// ByTag returns the recorded requests carrying X-Vf-Tag: tag.
func (b *Backend) ByTag(tag string) []*BackendReq {
	b.mu.Lock()
	defer b.mu.Unlock()
	return append([]*BackendReq{}, b.byTag[tag]...)
}

type Options struct {
	PreserveHost     bool
	Probe            bool
	Injectors        []reverseproxy.HeaderInjector // nil => the default three
	LateInjectors    []reverseproxy.HeaderInjector // appended to the handler's exported HeaderInjectors field after construction (the way PreserveHost and IsProbeRequest are set)
	MaxPrio          uint                          // 0 => math.MaxUint (only with default injectors); use MaxPrioSet for an explicit 0
	MaxPrioSet       bool
	IdleTimeout      time.Duration
	ReadTimeout      time.Duration
	HandshakeTimeout time.Duration
	MutateTLS        func(*tls.Config)
	MutateServer     func(*proxyserver.Server)
	WrapListener     func(net.Listener) net.Listener
	Respond          func(w http.ResponseWriter, r *http.Request, rec *BackendReq)
	Log              io.Writer
	Verbose          bool
	NoBackend        bool
	BackendHandler   http.Handler // replaces the recording backend's handler
	ForwardPath      string       // path of the forward URL (escaped form), e.g. "/api"
}

type Stack struct {
	Addr     string
	Backend  *Backend
	Server   *proxyserver.Server
	Handler  *reverseproxy.HTTPHandler
	Registry *prometheus.Registry
	Cancel   context.CancelFunc
	ServeErr chan error
	Cert     tls.Certificate
	Ln       net.Listener
	LogBuf   *SyncBuffer
}

type SyncBuffer struct {
	mu sync.Mutex
	b  bytes.Buffer
}

func (s *SyncBuffer) Write(p []byte) (int, error) {
	s.mu.Lock()
	defer s.mu.Unlock()
	return s.b.Write(p)
}
func (s *SyncBuffer) String() string {
	s.mu.Lock()
	defer s.mu.Unlock()
	return s.b.String()
}

var certOnce sync.Once
var sharedCert tls.Certificate

func SelfSigned() tls.Certificate {
	certOnce.Do(func() {
		key, _ := ecdsa.GenerateKey(elliptic.P256(), rand.Reader)
		tmpl := &x509.Certificate{SerialNumber: big.NewInt(1), Subject: pkix.Name{CommonName: "vf.test"},
			NotBefore: time.Now().Add(-time.Hour), NotAfter: time.Now().Add(24 * time.Hour),
			DNSNames: []string{"vf.test", "localhost"}, KeyUsage: x509.KeyUsageDigitalSignature,
			ExtKeyUsage: []x509.ExtKeyUsage{x509.ExtKeyUsageServerAuth}}
		der, _ := x509.CreateCertificate(rand.Reader, tmpl, tmpl, &key.PublicKey, key)
		sharedCert = tls.Certificate{Certificate: [][]byte{der}, PrivateKey: key}
	})
	return sharedCert
}

func DefaultInjectors(maxPrio uint) []reverseproxy.HeaderInjector {
	h2 := &fp.HTTP2FingerprintParam{MaxPriorityFrames: maxPrio}
	return []reverseproxy.HeaderInjector{
		fp.NewFingerprintHeaderInjector("X-JA3-Fingerprint", fp.JA3Fingerprint),
		fp.NewFingerprintHeaderInjector("X-JA4-Fingerprint", fp.JA4Fingerprint),
		fp.NewFingerprintHeaderInjector("X-HTTP2-Fingerprint", h2.HTTP2Fingerprint),
	}
}

func Start(o Options) (*Stack, error) {
	s := &Stack{Backend: &Backend{Respond: o.Respond}, ServeErr: make(chan error, 1), LogBuf: &SyncBuffer{}}
	if !o.NoBackend {
		if o.BackendHandler != nil {
			s.Backend.Srv = httptest.NewServer(o.BackendHandler)
		} else {
			s.Backend.Srv = httptest.NewServer(http.HandlerFunc(s.Backend.handler))
		}
	}
	to, _ := url.Parse("http://127.0.0.1:1")
	if s.Backend.Srv != nil {
		to, _ = url.Parse(s.Backend.Srv.URL)
	}
	if o.ForwardPath != "" {
		to, _ = url.Parse(to.String() + o.ForwardPath)
	}
	var lw io.Writer = s.LogBuf
	if o.Log != nil {
		lw = io.MultiWriter(s.LogBuf, o.Log)
	}
	lg := log.New(lw, "", 0)
	inj := o.Injectors
	if inj == nil {
		mp := o.MaxPrio
		if mp == 0 && !o.MaxPrioSet {
			mp = math.MaxUint
		}
		inj = DefaultInjectors(mp)
	}
	tr := http.DefaultTransport.(*http.Transport).Clone()
	h := reverseproxy.NewHTTPHandler(to, &httputil.ReverseProxy{ErrorLog: lg, FlushInterval: 100 * time.Millisecond, Transport: tr,
		ErrorHandler: func(rw http.ResponseWriter, req *http.Request, err error) {
			lg.Printf("proxy error: %v", err)
			if errors.Is(err, context.DeadlineExceeded) || errors.Is(err, context.Canceled) {
				rw.WriteHeader(http.StatusGatewayTimeout)
			} else {
				rw.WriteHeader(http.StatusBadGateway)
			}
		}}, inj)
	h.PreserveHost = o.PreserveHost
	if len(o.LateInjectors) > 0 {
		h.HeaderInjectors = append(h.HeaderInjectors, o.LateInjectors...)
	}
	if o.Probe {
		h.IsProbeRequest = reverseproxy.IsKubernetesProbeRequest
	}
	s.Handler = h
	s.Cert = SelfSigned()
	cfg := &tls.Config{NextProtos: []string{"h2", "http/1.1"}, MinVersion: tls.VersionTLS12, MaxVersion: tls.VersionTLS13,
		Certificates: []tls.Certificate{s.Cert}}
	if o.MutateTLS != nil {
		o.MutateTLS(cfg)
	}
	ctx, cancel := context.WithCancel(context.Background())
	s.Cancel = cancel
	srv := proxyserver.NewServer(ctx, h, cfg)
	srv.ErrorLog = lg
	srv.HTTPServer.ErrorLog = lg
	srv.VerboseLogs = o.Verbose
	s.Registry = prometheus.NewRegistry()
	srv.MetricsRegistry = s.Registry
	srv.HTTPServer.IdleTimeout = o.IdleTimeout
	srv.HTTPServer.ReadTimeout = o.ReadTimeout
	srv.TLSHandshakeTimeout = o.HandshakeTimeout
	if o.MutateServer != nil {
		o.MutateServer(srv)
	}
	s.Server = srv
	ln, err := net.Listen("tcp", "127.0.0.1:0")
	if err != nil {
		return nil, err
	}
	s.Addr = ln.Addr().String()
	s.Ln = ln
	var l net.Listener = ln
	if o.WrapListener != nil {
		l = o.WrapListener(ln)
	}
	go func() { s.ServeErr <- srv.Serve(l) }()
	return s, nil
}

func (s *Stack) Close() {
	s.Cancel()
	select {
	case <-s.ServeErr:
	case <-time.After(10 * time.Second):
	}
	if s.Backend.Srv != nil {
		s.Backend.Srv.CloseClientConnections()
		s.Backend.Srv.Close()
	}
}

// ---------------------------------------------------------------- clients

// RecConn records every byte written (the client's flights) and can cut writes into segments.
type RecConn struct {
	net.Conn
	mu      sync.Mutex
	Written []byte
	Segment int           // >0: write in pieces of this many bytes
	Gap     time.Duration // pause between pieces
	// FragmentAt > 0: the first handshake record written is re-framed into two TLS records, the first
	// carrying FragmentAt bytes of the handshake message (a ClientHello spanning two records).
	FragmentAt int // FragmentInCipherList: the cut falls one octet before the end of the cipher suite list
	fragDone   bool
	// TailCCS > 0: the first handshake record is sent in two TCP segments - TailCCS bytes, a pause, then the rest of the record
	// together with a change_cipher_spec record (as TLS 1.3 clients in middlebox-compatibility mode may coalesce them)
	TailCCS  int
	tailDone bool
	// HoldAt > 0: the first handshake record is written up to HoldAt bytes, Held is closed, and the rest follows when HoldCh is closed
	// (a client caught in the middle of its ClientHello while other connections go on)
	HoldAt   int
	HoldCh   chan struct{}
	Held     chan struct{}
	holdDone bool
}

func (c *RecConn) Write(p []byte) (int, error) {
	if c.HoldAt > 0 && !c.holdDone && len(p) > c.HoldAt && len(p) >= 5 && p[0] == 22 {
		c.holdDone = true
		c.mu.Lock()
		c.Written = append(c.Written, p...)
		c.mu.Unlock()
		if _, err := c.Conn.Write(p[:c.HoldAt]); err != nil {
			return 0, err
		}
		close(c.Held)
		select {
		case <-c.HoldCh:
		case <-time.After(5 * time.Second):
		}
		if _, err := c.Conn.Write(p[c.HoldAt:]); err != nil {
			return 0, err
		}
		return len(p), nil
	}
	if c.TailCCS > 0 && !c.tailDone && len(p) > c.TailCCS && len(p) >= 5 && p[0] == 22 {
		c.tailDone = true
		c.mu.Lock()
		c.Written = append(c.Written, p...)
		c.mu.Unlock()
		if _, err := c.Conn.Write(p[:c.TailCCS]); err != nil {
			return 0, err
		}
		time.Sleep(30 * time.Millisecond)
		rest := append(append([]byte{}, p[c.TailCCS:]...), 0x14, 0x03, 0x03, 0x00, 0x01, 0x01)
		if _, err := c.Conn.Write(rest); err != nil {
			return 0, err
		}
		return len(p), nil
	}
	if c.FragmentAt != 0 && !c.fragDone && len(p) >= 5 && p[0] == 22 {
		c.fragDone = true
		n := int(p[3])<<8 | int(p[4])
		if len(p) >= 5+n && n >= 2 {
			k := c.FragmentAt
			if k == FragmentInCipherList {
				// one octet before the end of the cipher suite list: handshake header (4), version (2), random (32), session id, list length (2)
				body := p[5 : 5+n]
				k = n / 2
				if len(body) > 39 {
					sid := int(body[38])
					if len(body) > 39+sid+2 {
						cs := int(body[39+sid])<<8 | int(body[39+sid+1])
						if cs >= 2 && 39+sid+2+cs < n {
							k = 39 + sid + 2 + cs - 1
						}
					}
				}
			}
			if k >= n || k < 0 {
				k = n / 2
			}
			body := p[5 : 5+n]
			q := []byte{22, p[1], p[2], byte(k >> 8), byte(k)}
			q = append(q, body[:k]...)
			q = append(q, 22, p[1], p[2], byte((n-k)>>8), byte(n-k))
			q = append(q, body[k:]...)
			q = append(q, p[5+n:]...)
			if _, err := c.writeRec(q); err != nil {
				return 0, err
			}
			return len(p), nil
		}
	}
	return c.writeRec(p)
}

// HelloMessage reassembles the first handshake message (the ClientHello) from the records written.
func (c *RecConn) HelloMessage() []byte {
	c.mu.Lock()
	defer c.mu.Unlock()
	w := c.Written
	var msg []byte
	for len(w) >= 5 && w[0] == 22 {
		n := int(w[3])<<8 | int(w[4])
		if len(w) < 5+n {
			break
		}
		msg = append(msg, w[5:5+n]...)
		w = w[5+n:]
		if len(msg) >= 4 {
			l := int(msg[1])<<16 | int(msg[2])<<8 | int(msg[3])
			if len(msg) >= 4+l {
				return msg[:4+l]
			}
		}
	}
	return nil
}

func (c *RecConn) writeRec(p []byte) (int, error) {
	c.mu.Lock()
	c.Written = append(c.Written, p...)
	c.mu.Unlock()
	if c.Segment <= 0 {
		return c.Conn.Write(p)
	}
	n := 0
	for len(p) > 0 {
		k := c.Segment
		if k > len(p) {
			k = len(p)
		}
		m, err := c.Conn.Write(p[:k])
		n += m
		if err != nil {
			return n, err
		}
		p = p[k:]
		if c.Gap > 0 && len(p) > 0 {
			time.Sleep(c.Gap)
		}
	}
	return n, nil
}

// FirstRecord returns the first TLS record the client wrote.
func (c *RecConn) FirstRecord() []byte {
	c.mu.Lock()
	defer c.mu.Unlock()
	w := c.Written
	if len(w) < 5 {
		return nil
	}
	n := int(w[3])<<8 | int(w[4])
	if len(w) < 5+n {
		return nil
	}
	return append([]byte{}, w[:5+n]...)
}

type Client struct {
	Conn  net.Conn // the TLS connection (application data)
	Raw   *RecConn
	Proto string
	BR    *bufio.Reader
}

func (c *Client) Close() { c.Conn.Close() }

// Reset closes the TCP connection with RST (no TIME_WAIT: the source port is free again at once)
func (c *Client) Reset() {
	if c.Raw != nil {
		if tc, ok := c.Raw.Conn.(*net.TCPConn); ok {
			tc.SetLinger(0)
		}
	}
	c.Conn.Close()
}

type DialOpts struct {
	HoldAt    int
	HoldCh    chan struct{}
	Held      chan struct{}
	LocalIP   string
	LocalPort int // with LocalIP: the client's source port (a later connection may come from the very address an earlier one used)
	TailCCS   int
	Fragment  int
	Segment   int
	Gap       time.Duration
	ALPN      []string
	SNI       string
	Timeout   time.Duration
}

func dialRaw(addr string, o DialOpts) (*RecConn, error) {
	d := net.Dialer{Timeout: 5 * time.Second}
	if o.LocalIP != "" { // another loopback source address: the proxy's peer is not always 127.0.0.1
		d.LocalAddr = &net.TCPAddr{IP: net.ParseIP(o.LocalIP), Port: o.LocalPort}
		if o.LocalPort != 0 {
			d.Control = func(network, address string, c syscall.RawConn) error {
				return c.Control(func(fd uintptr) { syscall.SetsockoptInt(int(fd), syscall.SOL_SOCKET, syscall.SO_REUSEADDR, 1) })
			}
		}
	}
	c, err := d.Dial("tcp", addr)
	if err != nil {
		return nil, err
	}
	if tc, ok := c.(*net.TCPConn); ok {
		tc.SetNoDelay(true)
	}
	return &RecConn{Conn: c, Segment: o.Segment, Gap: o.Gap, FragmentAt: o.Fragment, TailCCS: o.TailCCS, HoldAt: o.HoldAt, HoldCh: o.HoldCh, Held: o.Held}, nil
}

// DialUTLS handshakes with a custom ClientHelloSpec.
func DialUTLS(addr string, spec *utls.ClientHelloSpec, o DialOpts) (*Client, error) {
	rc, err := dialRaw(addr, o)
	if err != nil {
		return nil, err
	}
	sni := o.SNI
	if sni == "" {
		sni = "vf.test"
	}
	cfg := &utls.Config{ServerName: sni, InsecureSkipVerify: true, NextProtos: o.ALPN}
	uc := utls.UClient(rc, cfg, utls.HelloCustom)
	if err := uc.ApplyPreset(spec); err != nil {
		rc.Close()
		return nil, fmt.Errorf("ApplyPreset: %w", err)
	}
	to := o.Timeout
	if to == 0 {
		to = 10 * time.Second
	}
	rc.SetDeadline(time.Now().Add(to))
	if err := uc.Handshake(); err != nil {
		rc.Close()
		return &Client{Raw: rc}, fmt.Errorf("handshake: %w", err)
	}
	rc.SetDeadline(time.Time{})
	rc.Segment = 0
	return &Client{Conn: uc, Raw: rc, Proto: uc.ConnectionState().NegotiatedProtocol, BR: bufio.NewReader(uc)}, nil
}

// DialStd handshakes with crypto/tls.
func DialStd(addr string, o DialOpts, mutate func(*tls.Config)) (*Client, error) {
	rc, err := dialRaw(addr, o)
	if err != nil {
		return nil, err
	}
	sni := o.SNI
	if sni == "" {
		sni = "vf.test"
	}
	cfg := &tls.Config{ServerName: sni, InsecureSkipVerify: true, NextProtos: o.ALPN}
	if mutate != nil {
		mutate(cfg)
	}
	tc := tls.Client(rc, cfg)
	rc.SetDeadline(time.Now().Add(10 * time.Second))
	if err := tc.Handshake(); err != nil {
		rc.Close()
		return &Client{Raw: rc}, err
	}
	rc.SetDeadline(time.Time{})
	rc.Segment = 0
	return &Client{Conn: tc, Raw: rc, Proto: tc.ConnectionState().NegotiatedProtocol, BR: bufio.NewReader(tc)}, nil
}

// H1 sends raw request bytes and parses one response.
func (c *Client) H1(raw string, method string) (*http.Response, []byte, error) {
	c.Conn.SetDeadline(time.Now().Add(15 * time.Second))
	defer c.Conn.SetDeadline(time.Time{})
	if _, err := io.WriteString(c.Conn, raw); err != nil {
		return nil, nil, err
	}
	resp, err := http.ReadResponse(c.BR, &http.Request{Method: method})
	if err != nil {
		return nil, nil, err
	}
	body, err := io.ReadAll(resp.Body)
	resp.Body.Close()
	return resp, body, err
}
