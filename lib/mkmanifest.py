#!/usr/bin/env python3
"""Regenerates /verif/MANIFEST.json from the table below (single source of truth for the interface)."""
import json
import os

VERIF = os.path.dirname(os.path.dirname(os.path.abspath(__file__)))

BASELINE_OFF = ("cd /repo && GOFLAGS=-mod=mod GOPROXY=off GOSUMDB=off go test -mod=mod -json -vet=off -count=1 "
                "-timeout 25m ./...")

LIFE = ("Trusts the hook placement (after the step, on the goroutine that performed it), the harness-owned listener and the trace specification's relaxation of "
        "guards the log cannot know; liveness is decided by TLC on the model and observed as end-of-scenario release on the code.")

# id -> (technique, level text, level note)
CHECKS = {
    'C04': ("TLC state graphs of ClientHelloCapture.tla / ClientHelloCaptureLen.tla replayed path-by-path into "
            "hack.HijackClientHelloConn (state projection after every Read)",
            "All byte streams, truncations and read segmentations inside the bound are enumerated by TLC (invariants Exact, "
            "Transparent, BufIsPrefix, Stable) and every path of the state graph is replayed on the real type; real record "
            "sizes (0..2^14+2048) are covered by a landmark model whose paths are replayed with real bytes.",
            "Trusts TLC, the TLA+ value parser and the scripted net.Conn; byte values are abstract in the model and concrete "
            "in the replay; lengths >= 65531 (uint16 wrap) are outside the quantifier."),
    'C01': ("JA3.tla (token machine of ja3.Bare refines the ideal JA3 string) checked exhaustively by TLC; every final state replayed as a "
            "synthesized ClientHello through tlsx + ja3.Bare + fingerprint.JA3Fingerprint; utls hellos through the real proxy stack with "
            "expected values evaluated by TLC on the independently parsed hello",
            "TLC enumerates every list shape up to the bound (GREASE first/last/only/all, empty lists, no extensions) and checks the "
            "implementation-shaped machine against the ideal; each state is an implementation test; real handshakes over both protocols, "
            "two requests per connection, concurrent connections and re-segmented delivery tie the header at the backend to the bytes the client sent.",
            "MD5, the harness hello synthesizer/parser and utls (as a client) are trusted; stack-level hellos are a sample; known findings D7, D9a are reported as KNOWN-FINDING."),
    'C02': ("JA4.tla (part a and pre-hash strings of b, c; metamorphic moves with the action property Invariance) checked by TLC; every reachable "
            "state replayed through utls + pkg/ja4 (header and exported pre-hash fields); utls hellos through the real proxy stack",
            "TLC enumerates cipher/extension/signature-algorithm/supported_versions/ALPN shapes up to the bound plus >99 shapes and proves the "
            "order/GREASE invariance on the specification; each state is an implementation test with SHA-256 applied by the harness; real handshakes as in C01.",
            "SHA-256, the harness hello synthesizer/parser and utls (as a client) are trusted; dont-care ALPN classes are logged only; known findings D9a, D9b are reported as KNOWN-FINDING."),
    'C05': ("Rewrite.tla (request pipeline ServeHTTP -> ReverseProxy -> rewriteFunc, invariant NoSpoof) checked exhaustively by TLC; every scenario "
            "(initial state) replayed through the real proxy stack with raw HTTP/1.1 and HTTP/2 clients and compared with the final state",
            "All combinations of protocol, connection kind (every real injector outcome: value, empty, error), custom injector outcome and up to "
            "MaxLines client-chosen lines (any letter case, repeated) are enumerated; for each the backend must see exactly the proxy-computed value or nothing.",
            "The computed value is taken from a clean request on the same connection; the recording backend is net/http."),
    'C09': ("Rewrite.tla invariant Truth checked by TLC; every scenario of family fwd replayed through the real listener/TLS/server chain",
            "Protocol x PreserveHost x Host x client X-Forwarded-For/-Host/-Proto/Forwarded lines enumerated exhaustively; X-Forwarded-For must be the client's list "
            "plus the TCP peer, X-Forwarded-Host the client's Host, X-Forwarded-Proto https, client Forwarded/XFH/XFP never passed on.",
            "Clients connect from loopback (peer 127.0.0.1); HTTP/2 requests with :scheme http on the TLS connection are part of the family; HTTP/1.1 scenarios are also replayed through the real flag wiring."),
    'C15': ("Rewrite.tla invariant ProbeXor checked by TLC; every scenario of family probe replayed through the real stack",
            "User-Agent variants (absent, empty, prefix, infix, suffix, case, leading space), probe text in other places, methods, paths, both protocols and probe "
            "support on/off are enumerated; each request is answered locally with 200 OK XOR forwarded exactly once, as the prefix predicate dictates.",
            "Two User-Agent lines are judged by the first line. HTTP/1.1 scenarios are also replayed through the real flag wiring (flag.Parse -> defaultReverseProxyHTTPHandler -> defaultProxyServer)."),
    'C03': ("H2Fingerprint.tla: capture state machine + Marshal refine the ideal FP(history, N) (TLC, all histories up to MaxHist); the history-free "
            "state graph is edge-covered by paths replayed with a raw-frame HTTP/2 client over TLS against the real proxy, one stack per limit N",
            "TLC decides latest/first/all/latest semantics, truncation at every limit class and the print format on the specification; the replay ties the "
            "real processFrame capture + Marshal + injector + backend header to the specification's value after every request of thousands of frame sequences.",
            "Sequential client (waits for each response); h2raw serializer trusted; quick tier covers a seeded sample of graph edges."),
    'C20': ("WriteSched.tla (reference FIFOs + round-robin ring + RFC 7540 priority tree + Consume) checked exhaustively per scheduler; seeded random "
            "operation histories recorded in-package from the real schedulers are validated by TLC as behaviours of the same actions (trace validation)",
            "TLC decides exactly-once, per-stream order, control-first, window/frame-size limits, 'nothing to write only if nothing sendable' and tree-ness on the "
            "design for all operation sequences in the bound; every recorded history (open/close/adjust/push/pop, windows down to 0, four priority configurations) "
            "must be explainable step by step, with all invariants evaluated in every state.",
            "Interface contract respected by the generator; order among ready streams not asserted for random/priority; trace acceptance uses a high-water mark (-workers 1)."),
    'C18': ("Hpack.tla (encoder + decoder at representation level, modelled from the code) checked exhaustively by TLC; recorded round-trip histories "
            "validated as traces; every path of the decoder-only graph replayed with an independent serializer under three segmentations and two string encodings; "
            "Huffman table proven prefix-free and complete by TLC and compared entry by entry",
            "TLC decides round trip, table agreement and size bounds for all field/table-size schedules in the bound and the decoder's result for all sequences of "
            "valid and invalid representations; the real Encoder/Decoder are bound by trace validation (bytes parsed by the harness) and by exhaustive path replay; "
            "segmentation independence and no-panic are observed on every path.",
            "Byte serialisation, entry sizes and the RFC tables are harness data; Huffman padding/EOS rules are checked differentially against a bit-level reference decoder "
            "(not a TLA+ notion); arbitrary byte strings beyond the modelled representation families are not enumerated."),
    'C19': ("H2Frame.tla (per-type parser checks in code order + checkFrameOrder refine the reactions RFC 7540 permits) and H2FrameWrite.tla (Write* -> abstract frame) "
            "checked by TLC; every (frame, header-block state) edge serialized independently and read by the real Framer; every write vector byte-compared and read back",
            "All frame types x stream-id classes x length/padding/flag classes x HEADERS/CONTINUATION states are enumerated at two read limits; the real outcome must be in the "
            "RFC-permitted set with the exact error code and scope; every frame is also truncated at every offset; all Write* boundary parameters round-trip byte-exactly.",
            "Harness serializer trusted; random bit flips are sampled exploration. Header blocks through ReadMetaHeaders are replayed from H2Meta.tla (every history of 4 / 5 blocks: own judgement per block, dynamic table continuity); parsed field values of every accepted frame are compared with what was serialized."),
    'C10': ("ProxyServer.tla (connection lifecycle with client aborts anywhere and panics in user callbacks; PanicConfined under fairness) checked by TLC; "
            "panics injected into GetCertificate / ConnState(h2) / ConnState(h1) against the real server in a child process; abusive client scripts "
            "(garbage, plain HTTP, aborts at random byte offsets, resets, stalls, server-side I/O errors at the k-th Read/Write) in-process with their hook traces validated by TLC; "
            "the frame space of H2Frame.tla (TLC graph, serialized by the C19 driver) and stall scripts under a read timeout thrown at the stack in a child process with control requests in between",
            "TLC explores every interleaving of two connections with faults; the real process must survive each injected panic and keep serving both protocols, "
            "every abusive run must be a behaviour of the specification, and no single connection out of the modelled frame space (quick: stratified sample, thorough: all ~28k x fresh/open-stream) may stop the child from serving others.",
            "%s Errors of the backend connection are not injected; purely random byte strings are not a TLA+ notion (modelled malformation families are exhaustive)." % LIFE),
    'C11': ("ProxyServer.tla, EventuallyReleased under weak fairness checked by TLC; lifecycle traces of the real proxyserver (hooks + harness-owned listener) "
            "validated by TLC, each trace ending in 'every accepted connection exited, closed and counted'; TLC's hand-off race forced with a blocking hook; timeout scenario",
            "Release of every accepted connection is decided for all interleavings on the model and demanded at the end of every recorded scenario; stalled handshakes and "
            "idle HTTP/1.1 and HTTP/2 connections (also after a client-cancelled stream) must be cut by the proxy itself while the clients keep their side open; clients leave in every manner (close, TCP reset, half-sent and unread requests) at every stage.",
            LIFE),
    'C16': ("ProxyServer.tla invariants CountedOnce / TrueLabels / FailedMeansZero over all six client kinds checked by TLC; recorded traces validated with the counted hook "
            "attributed per connection; Prometheus registry compared with the attributed bag and the number of accepted connections",
            "Exactly-once counting with true labels is decided for all interleavings of two connections with cancellation, aborts and panics; on the code every scenario's "
            "registry must equal the per-connection increments the trace specification accepted.",
            LIFE),
    'C17': ("ProxyServer.tla, ShutdownCompletes under fairness + NotServedAfterCancel / ServeReturnsClosed / ReturnedMeansDrained checked by TLC; states at the instant of cancel "
            "constructed on the real server (none, early, idle, handshaking, mixed, repeated, gated hand-off race, HTTP/1.1 exchange in flight with late clients of every protocol during the drain) and replayed; traces validated",
            "Shutdown is decided for cancellation in every reachable model state; on the code each constructed state is cancelled and return value, listener state, late "
            "connections, and latency class are compared with the specification.",
            LIFE + " The exchange held across cancel uses a handler that ignores its context (the reverse proxy itself aborts in-flight exchanges at cancel)."),
    'C07': ("H2FPConc.tla (writer = capture with two-step HEADERS, reader = four-read Marshal, one lock): Consistent + Exclusion checked by TLC for all interleavings, and the "
            "lock-free variant shown to violate Consistent; TLC's interleavings forced on the real code with blocking verifhook points (reader parked at every point of Marshal, "
            "serve goroutine parked between its two writes); forwarded fingerprints must lie in the snapshot set TLC computed; race-detector run as corroboration",
            "Every interleaving of capture sub-steps and Marshal reads is explored on the model; on the code 90 gated schedules (park point x later frames x writer gate) are "
            "deterministic replays - no timing luck - and each forwarded fingerprint must be the fingerprint of one instant.",
            "Hooks sit inside the critical sections; the -race stress run is corroboration outside the TLA+ argument (it also reports an unrelated race in the x/net HPACK encoder, see DESIGN D15)."),
    'C06': ("Attribution.tla (per-connection metadata through both dispatch paths, slot reuse) checked by TLC; waves of concurrent utls clients with pairwise different "
            "hellos and HTTP/2 preambles against the real stack, expected per-connection fingerprints evaluated by TLC from what each client really sent",
            "The design is explored for all interleavings of 5 connections over 3 reusable slots; on the code every request of dozens of concurrent connections (keep-alive and "
            "multiplexed) must carry exactly its own connection's three values, and any foreign value is attributed to the connection it belongs to.",
            "Single peer address (loopback); random (seeded) waves plus gated waves in which all connections are held at one hook point of serveConn until all have arrived, each point in turn."),
    'C13': ("H2Conn.tla (reaction table of processFrame and callees in code order; handler legality, GOAWAY coverage, no start after a connection error) checked by TLC; "
            "a seeded sample of the live graph edges covered by paths replayed with a raw-frame client over TLS (PING/ACK barrier per frame, gated backend as handler completion); "
            "H2Handlers.tla (when an accepted request's handler starts: handler limit, early-reset backlog, ENHANCE_YOUR_CALM, liveness NoStarvation) checked by TLC and its graph replayed "
            "against handlers that ignore their context; ServeLoop.tla (select between the stream-ending write's result and the next HEADERS frame, drain rule, model mutant) bound by an "
            "in-package construction of the both-pending state",
            "TLC explores all frame sequences to the depth bound over a rich alphabet; on the real server every replayed step's reactions (RST_STREAM code, GOAWAY code, SETTINGS ack, "
            "response, handler start) must equal the specification's modulo the latitude RFC 9113 gives; unexpected handler starts are checked at the end of every path.",
            "The permitted set is the tabulated reaction plus two latitude rules, not an independent RFC transcription; reset-in-flight states and steps inside an open header block "
            "that do not end in GOAWAY are not observable with a barrier and are cut."),
    'C14': ("CertReload.tla / CertReloadK8s.tla (file system with inodes and symlinks, inotify event model, watcher steps interleaved with writer steps) checked by TLC for all "
            "interleavings incl. torn two-file reads, with a non-vacuity mutant; histories of the serialized models replayed with real syscalls on a real directory against the real "
            "certwatcher and real inotify, served pair compared after every step, real TLS handshakes, stress phase; CertHandout.tla (what a handshake holds across reloads); the TLS "
            "configuration as the program wires it, observed by clients with / without / with another server name before and after rotations",
            "Safety (only valid matching pairs, last good pair kept) and convergence are decided for every update history in the bound in all three supported styles; the real watcher "
            "must serve exactly the version the specification predicts after each step of hundreds of histories - which also validates the kernel event model instead of trusting it.",
            "Quiescence is detected through the event hooks (verdict only after a solitary re-run); the torn read inside tls.LoadX509KeyPair is decided in the model only."),
    'C12': ("Flow.tla (internal model of flow.go/server.go: inflow avail/unsent with batching, outflow with SETTINGS deltas and overflow checks) checked exhaustively per direction by TLC and, for arbitrary window sizes / batching threshold / increments / SETTINGS values / frame sizes, as an inductive invariant by Apalache (FlowIndRecv.tla, FlowIndSend.tla; thorough tier also requires four broken models to be rejected); "
            "client-side wire traces of the real server under seeded random window schedules validated by TLC against FlowLedger.tla (the peer's ledger)",
            "TLC decides send safety incl. negative windows, overflow errors, the conservation law, the batching bound and agreement with the peer's ledger on the model; on the code "
            "every DATA frame of every recorded connection must fit the ledger, queued data must drain, provoked overflows/overruns must draw FLOW_CONTROL_ERROR and honest peers none, "
            "returned credit may never exceed bytes received and must be within 4096 of them at quiescence.",
            "Client ledger = upper bound (increases at send, decreases at ack); the fork's client Transport is driven as a sender of request bodies against a raw-frame peer (same ledger, incl. MAX_FRAME_SIZE changes; a rejection must repeat in a second recording) and as a receiver of response bodies; receiver scenarios include a handler that closed the body (discarded, heavily padded DATA must be refunded at once); D16 (over-returned connection credit after a client RST mid-body) is reported as KNOWN-FINDING."),
    'C08': ("Rewrite.tla (end-to-end headers kept, hop-by-hop removed, Host rule, request-target identity) and Relay.tla (FIFO relay with free re-framing, conservation + liveness) "
            "checked by TLC; Rewrite scenarios replayed through the real stack; real end-to-end runs with keyed body bytes recorded at both ends and validated by TLC (Trace_Relay.tla)",
            "Header/URL/Host rules are decided for all scenarios in the bound and replayed one by one; for bodies every piece received by the backend or the client must be the next "
            "contiguous range of its own request's keyed byte stream, ends must come after the last byte with the announced method/target/headers/status/trailers, and every exchange "
            "must complete - under concurrent keep-alive and multiplexed traffic, both protocols, PreserveHost on and off.",
            "Request trailers are logged only; Accept-Encoding: gzip added by Go's transport, header-name case, User-Agent defaulting, Cookie merging and re-framing are dont-care; forward URLs with a path prefix and bodies on GET/DELETE/OPTIONS with and without declared length are part of the families; D12 and D17 are reported as KNOWN-FINDING."),
}

NOT_YET = {}


def main():
    props = [json.loads(l) for l in open(os.path.join(VERIF, 'properties.jsonl'))]
    checks = []
    na = []
    for p in props:
        pid = p['id']
        if pid in CHECKS:
            tech, text, note = CHECKS[pid]
            checks.append({
                'property_id': pid,
                'quick_cmd': './check %s --tier quick' % pid,
                'thorough_cmd': './check %s --tier thorough' % pid,
                'replay_cmd_template': './check %s --replay {path}' % pid,
                'evidence_file': 'evidence/%s.json' % pid,
                'engine': 'tlc+harness',
                'technique': tech,
                'level_claimed': {'category': 'model_checking', 'text': text, 'design_ref': 'DESIGN.md §4 ' + pid},
                'level_note': note,
            })
        else:
            na.append({'property_id': pid, 'reason': NOT_YET.get(pid, 'check not built yet in this round (planned, see DESIGN.md §4 %s); no claim is made until its TLA+ specification is bound to the code' % pid)})
    hooks_commits = []
    hc = os.path.join(VERIF, 'HOOK_COMMITS.txt')
    if os.path.exists(hc):
        hooks_commits = [l.split()[0] for l in open(hc) if l.strip() and not l.startswith('#')]
    m = {
        'version': 1,
        'setup_cmd': './check setup',
        'hooks': {'guard': 'verif', 'enable': 'go build/test -tags verif (done by ./check; in-package drivers are added with go test -overlay, /repo is never written)',
                  'baseline_off_cmd': BASELINE_OFF, 'source_commits': hooks_commits, 'add_only': True},
        'engines': [
            {'name': 'tlc', 'path': 'spec/', 'kind_free_text': 'explicit TLA+ specifications checked with TLC (exhaustive, simulation, trace validation)',
             'serves_properties': sorted(CHECKS)},
            {'name': 'harness', 'path': 'harness/', 'kind_free_text': 'Go replay and trace-recording drivers bound to the sources in /repo (separate module + in-package overlay tests)',
             'serves_properties': sorted(CHECKS)}],
        'checks': checks,
        'not_applicable': na,
        'notes': 'See DESIGN.md. ./check exits 0 (held), 1 (VIOLATION line), 2 (inconclusive: tool failure, never a verdict).',
    }
    json.dump(m, open(os.path.join(VERIF, 'MANIFEST.json'), 'w'), indent=1)
    print('MANIFEST.json: %d checks, %d not_applicable' % (len(checks), len(na)))


if __name__ == '__main__':
    main()
