"""Parser for TLA+ values as printed by TLC (state dumps, dot labels, -simulate files).

Mapping to JSON-able python values:
  integers, booleans        -> int, bool
  "strings"                 -> str
  model values / identifiers-> str (bare name)
  <<a, b>>                  -> list
  {a, b}                    -> list (in TLC's print order)  -- sets are rare in our specs
  [k |-> v, ...]            -> dict
  (k :> v @@ k2 :> v2)      -> dict with str(k) keys when keys are scalars, else list of [k, v]
"""
import re

_tok = re.compile(r'''\s*(?:
    (?P<str>"(?:[^"\\]|\\.)*") |
    (?P<int>-?\d+) |
    (?P<sym><<|>>|\|->|:>|@@|/\\|\[|\]|\{|\}|\(|\)|,|=|\.\.) |
    (?P<id>[A-Za-z_][A-Za-z0-9_!]*)
)''', re.X)


class Tokens:
    def __init__(self, text):
        self.toks = []
        pos = 0
        n = len(text)
        while pos < n:
            m = _tok.match(text, pos)
            if not m:
                if text[pos:].strip() == '':
                    break
                raise ValueError('cannot tokenize at %r' % text[pos:pos + 40])
            pos = m.end()
            k = m.lastgroup
            self.toks.append((k, m.group(k)))
        self.i = 0

    def peek(self):
        return self.toks[self.i] if self.i < len(self.toks) else (None, None)

    def next(self):
        t = self.peek()
        self.i += 1
        return t

    def expect(self, v):
        t = self.next()
        if t[1] != v:
            raise ValueError('expected %r got %r' % (v, t))


def _unescape(s):
    out = []
    i = 1
    while i < len(s) - 1:
        c = s[i]
        if c == '\\':
            i += 1
            c2 = s[i]
            out.append({'n': '\n', 't': '\t', 'r': '\r', 'f': '\f'}.get(c2, c2))
        else:
            out.append(c)
        i += 1
    return ''.join(out)


def _value(t):
    k, v = t.next()
    if k == 'int':
        r = int(v)
        if t.peek()[1] == '..':
            t.next()
            hi = _value(t)
            return list(range(r, hi + 1))
        return r
    if k == 'str':
        return _unescape(v)
    if k == 'id':
        if v == 'TRUE':
            return True
        if v == 'FALSE':
            return False
        return v
    if v == '<<':
        out = []
        if t.peek()[1] == '>>':
            t.next()
            return out
        while True:
            out.append(_value(t))
            k2, v2 = t.next()
            if v2 == '>>':
                return out
            if v2 != ',':
                raise ValueError('bad sequence near %r' % v2)
    if v == '{':
        out = []
        if t.peek()[1] == '}':
            t.next()
            return out
        while True:
            out.append(_value(t))
            k2, v2 = t.next()
            if v2 == '}':
                return out
            if v2 != ',':
                raise ValueError('bad set near %r' % v2)
    if v == '[':
        out = {}
        while True:
            kk, name = t.next()
            t.expect('|->')
            out[name] = _value(t)
            k2, v2 = t.next()
            if v2 == ']':
                return out
            if v2 != ',':
                raise ValueError('bad record near %r' % v2)
    if v == '(':
        pairs = []
        while True:
            key = _value(t)
            t.expect(':>')
            val = _value(t)
            pairs.append((key, val))
            k2, v2 = t.next()
            if v2 == ')':
                break
            if v2 != '@@':
                raise ValueError('bad function near %r' % v2)
        if all(isinstance(p[0], (int, str, bool)) for p in pairs):
            return {str(p[0]): p[1] for p in pairs}
        return [[p[0], p[1]] for p in pairs]
    raise ValueError('unexpected token %r' % v)


def parse_value(text):
    t = Tokens(text)
    v = _value(t)
    return v


def parse_state(text):
    """text: '/\\ a = 1\n/\\ b = <<>>' -> dict.  A single-variable state is printed without '/\\'."""
    t = Tokens(text)
    out = {}
    while t.peek()[0] is not None:
        if t.peek()[1] == '/\\':
            t.next()
        k, name = t.next()
        if k != 'id':
            raise ValueError('bad state var %r' % name)
        t.expect('=')
        out[name] = _value(t)
    return out


_dot_node = re.compile(r'^(-?\d+) \[label="((?:[^"\\]|\\.)*)"(,style = filled)?')
_dot_edge = re.compile(r'^(-?\d+) -> (-?\d+) \[label="((?:[^"\\]|\\.)*)"')


def _dot_unescape(s):
    # dot label escaping: \\ -> \, \n -> newline, \" -> "
    out = []
    i = 0
    n = len(s)
    while i < n:
        c = s[i]
        if c == '\\' and i + 1 < n:
            c2 = s[i + 1]
            if c2 == 'n':
                out.append('\n')
            elif c2 == '\\':
                out.append('\\')
            elif c2 == '"':
                out.append('"')
            else:
                out.append(c2)
            i += 2
        else:
            out.append(c)
            i += 1
    return ''.join(out)


def parse_action_label(lbl):
    """'Read(1)' -> ('Read', [1]);  'Foo' -> ('Foo', []); args parsed as TLA values."""
    m = re.match(r'^([A-Za-z_][A-Za-z0-9_]*)(?:\((.*)\))?$', lbl, re.S)
    if not m:
        return lbl, []
    name, args = m.group(1), m.group(2)
    if args is None or args.strip() == '':
        return name, []
    return name, parse_value('<<' + args + '>>')


def parse_dot(path):
    """Returns dict(nodes=[state...], init=[idx...], edges=[[from,to,action,[args]]...])."""
    ids = {}
    nodes = []
    init = []
    edges = []
    with open(path) as f:
        for line in f:
            m = _dot_edge.match(line)
            if m:
                a, b, lbl = m.group(1), m.group(2), _dot_unescape(m.group(3))
                name, args = parse_action_label(lbl)
                edges.append((a, b, name, args))
                continue
            m = _dot_node.match(line)
            if m:
                nid = m.group(1)
                if nid in ids:
                    continue
                ids[nid] = len(nodes)
                nodes.append(parse_state(_dot_unescape(m.group(2))))
                if m.group(3):
                    init.append(ids[nid])
    out_edges = []
    for a, b, name, args in edges:
        out_edges.append([ids[a], ids[b], name, args])
    return {'nodes': nodes, 'init': init, 'edges': out_edges}


_state_hdr = re.compile(r'^State (\d+):')


def parse_dump(path):
    """TLC '-dump file' output: 'State N:\n/\\ a = ..\n\n' blocks -> list of dicts."""
    out = []
    cur = None
    with open(path) as f:
        for line in f:
            if _state_hdr.match(line):
                if cur:
                    out.append(parse_state(''.join(cur)))
                cur = []
            elif cur is not None:
                cur.append(line)
    if cur and ''.join(cur).strip():
        out.append(parse_state(''.join(cur)))
    return out


_sim_state = re.compile(r'^STATE_(\d+) ==')
_sim_act = re.compile(r'^\\\* <(\w+)(?:\((.*)\))? line')


def parse_simulate_file(path):
    """'-simulate file=p' trace file -> list of (action, args, state)."""
    steps = []
    with open(path) as f:
        text = f.read()
    blocks = re.split(r'\n(?=STATE_\d+ ==)', text)
    pending_act = None
    for b in blocks:
        m = re.match(r'STATE_(\d+) ==\s*\n?(.*)', b, re.S)
        if not m:
            # may hold the leading action comment
            ma = re.search(r'\\\* <(\w+)', b)
            continue
        body = m.group(2)
        # trailing comment names the action leading to the *next* state
        act = None
        ma = re.search(r'\n\\\* <([A-Za-z_0-9]+)(?:\((.*?)\))? line', body)
        stxt = body
        if ma:
            stxt = body[:ma.start()]
        stxt = re.sub(r'\n\s*\n.*', '', stxt, flags=re.S) if False else stxt
        steps.append((pending_act, parse_state(stxt.strip())))
        if ma:
            pending_act = (ma.group(1), parse_value('<<' + (ma.group(2) or '') + '>>'))
        else:
            pending_act = None
    return steps
