"""Shared machinery of the ./check orchestrator (python3, stdlib only).

  * scratch directories outside /repo and /verif, removed on exit
  * TLC runner + summary parser (exhaustive, dot dump, simulation, trace validation)
  * Go builders: the harness module (replace fingerproxy => $VERIF_REPO) and in-package overlay tests,
    always with -modfile copies so /repo is never written
  * evidence writer, known-findings matcher, exit codes (0 ok / 1 violation / 2 inconclusive)
"""
import atexit
import json
import os
import re
import shutil
import subprocess
import sys
import time

VERIF = os.path.dirname(os.path.dirname(os.path.abspath(__file__)))
sys.path.insert(0, os.path.join(VERIF, 'lib'))
import tlaval  # noqa: E402

REPO = os.environ.get('VERIF_REPO', '/repo')
# evidence of runs against another tree (seeded changes, pre-fix commits) must not replace the evidence about /repo
EVID = os.environ.get('VERIF_EVIDENCE_DIR') or (os.path.join(VERIF, 'evidence') if os.path.realpath(REPO) == '/repo' else os.path.join('/var/tmp', 'vf-evidence-other'))
NCPU = os.cpu_count() or 4


class Inconclusive(Exception):
    pass


class Crashed(Exception):
    """the driver process hosting the real stack died from a failure raised in the code under test (already recorded as a violation)"""


class Ctx:
    def __init__(self, prop, tier, seed):
        self.prop = prop
        self.tier = tier
        self.seed = seed
        self.t0 = time.time()
        base = os.environ.get('VERIF_SCRATCH') or os.environ.get('TMPDIR') or '/var/tmp'
        self.scratch = os.path.join(base, 'vf-%s-%d' % (prop, os.getpid()))
        shutil.rmtree(self.scratch, ignore_errors=True)
        os.makedirs(self.scratch)
        if not os.environ.get('VERIF_KEEP'):
            atexit.register(shutil.rmtree, self.scratch, True)
        self.violations = []      # list of dict(signature, what, replay)
        self.known_hits = []
        self.tlc_runs = []
        self.apalache_runs = []
        self.coverage = {}
        self.assumptions = []
        self.level = 'model_checking'
        self._spec_copied = False
        self._mods = {}
        self.known = load_known()

    # ------------------------------------------------------------------ TLC
    def specdir(self):
        d = os.path.join(self.scratch, 'spec')
        if not self._spec_copied:
            shutil.copytree(os.path.join(VERIF, 'spec'), d)
            self._spec_copied = True
        return d

    def tlc(self, module, cfg, workers=None, dot=None, dump=None, simulate=None, timeout=600,
            extra=None, depth_first=False, expect_ok=True, heap=None, defines=None, label=None):
        """Run TLC on spec/<module>.tla with spec/<cfg>. Returns dict."""
        d = self.specdir()
        meta = os.path.join(self.scratch, 'meta-%d' % len(self.tlc_runs))
        cmd = ['tlc', '-workers', str(workers or min(NCPU, 16)), '-metadir', meta, '-config', cfg]
        if dot:
            cmd += ['-dump', 'dot,actionlabels', dot]
        if dump:
            cmd += ['-dump', dump]
        if simulate:
            cmd += ['-simulate', simulate]
        if extra:
            cmd += list(extra)
        cmd += [module + '.tla']
        env = dict(os.environ)
        jopts = []
        if depth_first:
            jopts.append('-Dtlc2.tool.queue.IStateQueue=StateDeque')
        if heap:
            jopts.append('-Xmx' + heap)
        jopts.append('-Xss64m')
        env['JAVA_TOOL_OPTIONS'] = ' '.join(jopts)
        if defines:
            env.update(defines)
        t0 = time.time()
        try:
            p = subprocess.run(cmd, cwd=d, env=env, stdout=subprocess.PIPE, stderr=subprocess.STDOUT,
                               timeout=timeout, text=True)
        except subprocess.TimeoutExpired as e:
            subprocess.run(['pkill', '-f', 'tlc2.TL[C]'], check=False)
            raise Inconclusive('TLC timeout after %ss on %s/%s' % (timeout, module, cfg))
        out = p.stdout
        res = {'module': module, 'cfg': cfg, 'cmd': ' '.join(cmd), 'wall_s': round(time.time() - t0, 2),
               'rc': p.returncode, 'out': out, 'label': label or cfg}
        m = re.search(r'(\d+) states generated, (\d+) distinct states found, (\d+) states left on queue', out)
        if m:
            res['generated'] = int(m.group(1))
            res['distinct'] = int(m.group(2))
            res['queue'] = int(m.group(3))
        m = re.search(r'The depth of the complete state graph search is (\d+)', out)
        if m:
            res['depth'] = int(m.group(1))
        viol = None
        m = re.search(r'Error: Invariant (\S+) is violated', out)
        if m:
            viol = 'invariant ' + m.group(1)
        m2 = re.search(r'Error: Action property (\S+) is violated', out)
        if m2:
            viol = 'action property ' + m2.group(1)
        if 'Temporal properties were violated' in out:
            viol = 'temporal property'
        if 'Error: Deadlock reached' in out:
            viol = 'deadlock'
        m3 = re.search(r'Error: The postcondition.*', out)
        if m3 or 'is violated' in out and 'ostcondition' in out:
            viol = viol or 'postcondition'
        if 'Assumption' in out and 'is false' in out:
            viol = viol or 'assumption'
        res['violation'] = viol
        res['completed'] = ('Model checking completed' in out) or (simulate is not None and viol is None
                                                                  and p.returncode in (0,))
        errs = re.findall(r'^Error: .*', out, re.M)
        res['errors'] = errs[:5]
        self.tlc_runs.append(res)
        if expect_ok:
            if viol:
                with open(os.path.join(self.scratch, 'tlc-fail.txt'), 'w') as f:
                    f.write(out)
                raise Inconclusive('TLC reports %s in %s/%s (model-level; see DESIGN §3.7 rule ii)\n%s'
                                   % (viol, module, cfg, tail(out, 60)))
            if simulate is None and not res['completed']:
                raise Inconclusive('TLC did not complete on %s/%s:\n%s' % (module, cfg, tail(out, 40)))
            if errs and simulate is None:
                raise Inconclusive('TLC error on %s/%s:\n%s' % (module, cfg, tail(out, 40)))
        return res

    def apalache_induction(self, module, label=None, timeout=600, expect_ok=True, subdir=None):
        """Inductive-invariant check with Apalache on spec/<module>.tla (operators ConstInit, Init, IndInit, IndNext, IndInv):
        Init => IndInv (length 0) and IndInv /\ IndNext => IndInv' (length 1).  Symbolic: constants stay unbounded where ConstInit
        leaves them so.  Returns {'ok': bool, 'failed': 'base'|'step'|None}.  A failure on the shipped spec is a model-level
        problem (inconclusive), never a verdict about the code."""
        d = subdir or self.specdir()
        res = {'module': module, 'label': label or ('inductive invariant (Apalache): ' + module), 'tool': 'apalache', 'ok': True, 'failed': None}
        t0 = time.time()
        for phase, args in (('base', ['--init=Init', '--length=0']), ('step', ['--init=IndInit', '--length=1'])):
            out = os.path.join(self.scratch, 'apa-%s-%s-%d' % (module, phase, len(self.apalache_runs)))
            cmd = ['apalache-mc', 'check', '--cinit=ConstInit', '--next=IndNext', '--inv=IndInv', '--out-dir=' + out] + args + [module + '.tla']
            try:
                p = subprocess.run(cmd, cwd=d, stdout=subprocess.PIPE, stderr=subprocess.STDOUT, timeout=timeout, text=True)
            except subprocess.TimeoutExpired:
                raise Inconclusive('Apalache timeout after %ss on %s (%s)' % (timeout, module, phase))
            if 'EXITCODE: OK' in p.stdout and 'The outcome is: NoError' in p.stdout:
                continue
            if 'The outcome is: Error' in p.stdout and 'violated' in p.stdout:
                res['ok'], res['failed'] = False, phase
                break
            raise Inconclusive('Apalache failed on %s (%s):\n%s' % (module, phase, tail(p.stdout, 30)))
        res['wall_s'] = round(time.time() - t0, 2)
        self.apalache_runs.append(res)
        if expect_ok and not res['ok']:
            raise Inconclusive('Apalache: the %s case of the inductive invariant of %s fails (model-level)' % (res['failed'], module))
        return res

    def tlc_totals(self):
        g = sum(r.get('generated', 0) for r in self.tlc_runs)
        d = sum(r.get('distinct', 0) for r in self.tlc_runs)
        return d, g

    # ------------------------------------------------------------------ Go
    def goenv(self):
        env = dict(os.environ)
        env.update({'GOFLAGS': '-mod=mod', 'GOPROXY': 'off', 'GOSUMDB': 'off', 'GOTOOLCHAIN': 'local',
                    'VERIF_SEED': str(self.seed), 'VERIF_TIER': self.tier, 'VERIF_REPO': REPO,
                    'VERIF_SCRATCH_DIR': self.scratch})
        return env

    def harness_modfile(self):
        if 'harness' in self._mods:
            return self._mods['harness']
        src = open(os.path.join(VERIF, 'harness', 'go.mod.tmpl')).read().replace('@REPO@', REPO)
        mf = os.path.join(self.scratch, 'harness.mod')
        open(mf, 'w').write(src)
        shutil.copy(os.path.join(VERIF, 'harness', 'go.sum.base'), os.path.join(self.scratch, 'harness.sum'))
        self._mods['harness'] = mf
        return mf

    def repo_modfile(self):
        if 'repo' in self._mods:
            return self._mods['repo']
        mf = os.path.join(self.scratch, 'repo.mod')
        shutil.copy(os.path.join(REPO, 'go.mod'), mf)
        shutil.copy(os.path.join(REPO, 'go.sum'), os.path.join(self.scratch, 'repo.sum'))
        self._mods['repo'] = mf
        return mf

    def build_driver(self, name, race=False):
        """Build harness/cmd/<name> against the current $VERIF_REPO tree with -tags verif."""
        out = os.path.join(self.scratch, 'bin-' + name + ('-race' if race else ''))
        cmd = ['go', 'build', '-modfile=' + self.harness_modfile(), '-tags', 'verif', '-o', out]
        if race:
            cmd.append('-race')
        cmd.append('./cmd/' + name)
        p = subprocess.run(cmd, cwd=os.path.join(VERIF, 'harness'), env=self.goenv(), stdout=subprocess.PIPE,
                           stderr=subprocess.STDOUT, text=True, timeout=900)
        if p.returncode != 0:
            raise Inconclusive('go build of driver %s failed:\n%s' % (name, tail(p.stdout, 60)))
        return out

    def run_driver(self, binpath, args, timeout=900, stdin=None, env=None, ok_codes=(0,), crash_verdict=None):
        """a crash of the driver process that classify_crash attributes to the code under test is recorded as a violation
        (signature stub crash_verdict, default {'check': <property>}) and raised as Crashed; any other abnormal exit is Inconclusive"""
        e = self.goenv()
        if env:
            e.update(env)
        t0 = time.time()
        try:
            p = subprocess.run([binpath] + list(args), cwd=self.scratch, env=e, stdout=subprocess.PIPE,
                               stderr=subprocess.PIPE, text=True, timeout=timeout, input=stdin)
        except subprocess.TimeoutExpired:
            raise Inconclusive('driver %s timed out after %ss' % (os.path.basename(binpath), timeout))
        if p.returncode not in ok_codes:
            crash_verdict = crash_verdict or {'check': self.prop}
            cr = classify_crash(p.stderr)
            if cr and cr['origin'] == 'code_under_test':
                # the driver hosts the real stack in-process: an unrecovered panic / fatal error raised from the project's own
                # frames (no harness frame between the failure and them) has taken the whole process down
                self.violation(dict(crash_verdict, kind='process_died', frame=cr['frame'].rsplit('/', 1)[-1]),
                               'the process hosting the proxy died: %s, raised from %s (stack: %s)' % (cr['message'], cr['frame'], ' <- '.join(cr['stack'][:8])),
                               {'stderr_tail': tail(p.stderr, 80), 'args': list(args)})
                raise Crashed(cr['message'])
            raise Inconclusive('driver %s exited %d:\n%s\n%s' % (os.path.basename(binpath), p.returncode,
                                                                 tail(p.stdout, 20), tail(p.stderr, 60)))
        return p

    def overlay_test(self, pkg_rel, files, run, timeout=900, env=None, race=False, pkgname=None, extra_overlay=None,
                     tags='verif'):
        """Compile test files that live in /verif *into* a package of the repo (go test -overlay).
        files: list of paths (relative to /verif/overlay) ; '@PKG@' in them is replaced by the package name."""
        pkgdir = os.path.join(REPO, pkg_rel)
        pkgname = pkgname or os.path.basename(pkg_rel)
        repl = {}
        gen = os.path.join(self.scratch, 'ovl-' + pkg_rel.replace('/', '_'))
        os.makedirs(gen, exist_ok=True)
        for f in files:
            src = os.path.join(VERIF, 'overlay', f)
            text = open(src).read().replace('@PKG@', pkgname)
            base = 'vf_' + os.path.basename(f)
            dst = os.path.join(gen, base)
            open(dst, 'w').write(text)
            repl[os.path.join(pkgdir, base)] = dst
        if extra_overlay:
            repl.update(extra_overlay)
        ov = os.path.join(gen, 'overlay.json')
        json.dump({'Replace': repl}, open(ov, 'w'))
        cmd = ['go', 'test', '-modfile=' + self.repo_modfile(), '-overlay=' + ov, '-vet=off', '-count=1',
               '-timeout', '%ds' % timeout, '-run', run]
        if tags:
            cmd += ['-tags', tags]
        if race:
            cmd.append('-race')
        cmd.append('./' + pkg_rel)
        e = self.goenv()
        if env:
            e.update(env)
        try:
            p = subprocess.run(cmd, cwd=REPO, env=e, stdout=subprocess.PIPE, stderr=subprocess.STDOUT, text=True,
                               timeout=timeout + 120)
        except subprocess.TimeoutExpired:
            raise Inconclusive('overlay test %s timed out' % run)
        return p

    # ------------------------------------------------------------------ results
    def violation(self, signature, what, replay=None):
        """Report a violation observed on the real code. Known (open) findings are matched on the signature."""
        for k in self.known:
            if k.get('status') == 'open' and k.get('property') == self.prop and _sig_match(k['signature'], signature):
                if k['id'] not in [h['id'] for h in self.known_hits]:
                    self.known_hits.append({'id': k['id'], 'what': k['what'], 'count': 1, 'example': signature})
                else:
                    for h in self.known_hits:
                        if h['id'] == k['id']:
                            h['count'] += 1
                return False
        self.violations.append({'signature': signature, 'what': what, 'replay': replay})
        return True

    def finish(self, coverage, assumptions=None, level=None):
        os.makedirs(os.path.join(EVID, 'replay'), exist_ok=True)
        for fn in os.listdir(os.path.join(EVID, 'replay')):
            if fn.startswith(self.prop + '-'):
                os.remove(os.path.join(EVID, 'replay', fn))
        for h in self.known_hits:
            print('KNOWN-FINDING: property=%s %s: %s (x%d)' % (self.prop, h['id'], h['what'], h['count']))
        rc = 0
        for i, v in enumerate(self.violations[:20]):
            path = os.path.join(EVID, 'replay', '%s-%d.json' % (self.prop, i))
            json.dump({'property': self.prop, 'tier': self.tier, 'seed': self.seed, 'signature': v['signature'],
                       'what': v['what'], 'replay': v['replay']}, open(path, 'w'), indent=1, default=str)
            print('VIOLATION property=%s replay=%s' % (self.prop, path))
            print('  ' + v['what'][:600])
            rc = 1
        d, g = self.tlc_totals()
        cov = {'states': d, 'transitions': g}
        cov.update(coverage)
        cov['tlc_runs'] = [{k: r.get(k) for k in ('label', 'module', 'cfg', 'generated', 'distinct', 'depth', 'wall_s')}
                           for r in self.tlc_runs]
        if self.apalache_runs:
            cov['apalache_runs'] = [{k: r.get(k) for k in ('label', 'module', 'ok', 'failed', 'wall_s')} for r in self.apalache_runs]
        cov['known_findings_matched'] = self.known_hits
        ev = {'property_id': self.prop, 'tier': self.tier, 'seed': self.seed, 'level': level or self.level,
              'coverage': cov, 'assumptions': (assumptions or []) + self.assumptions,
              'wall_s': round(time.time() - self.t0, 2), 'violations': len(self.violations)}
        path = os.path.join(EVID, self.prop + '.json')
        tmp = path + '.tmp'
        json.dump(ev, open(tmp, 'w'), indent=1, default=str)
        os.replace(tmp, path)
        print('%s %s tier=%s seed=%d states=%d transitions=%d impl_traces=%s wall=%.1fs'
              % ('FAIL' if rc else 'OK', self.prop, self.tier, self.seed, d, g,
                 cov.get('traces_validated_against_impl'), time.time() - self.t0))
        return rc


def _sig_match(pattern, sig):
    for k, v in pattern.items():
        if k not in sig:
            return False
        if isinstance(v, list):
            if sig[k] not in v:
                return False
        elif sig[k] != v:
            return False
    return True




def classify_crash(stderr):
    """Go crash output -> {'message', 'frame', 'origin', 'stack'} or None.  origin is 'code_under_test' when, walking the
    failing goroutine's stack from the top, the first frame outside the Go runtime / standard library / vendored third-party
    packages belongs to github.com/wi1dcard/fingerproxy; 'harness' when it belongs to the verification harness."""
    m = re.search(r'^(panic: .*|fatal error: .*)$', stderr, re.M)
    if not m:
        return None
    rest = stderr[m.end():]
    g = re.search(r'^goroutine \d+[^\n]*\[running[^\n]*\]:\n(.*?)(?:\n\n|\Z)', rest, re.M | re.S)
    if not g:
        g = re.search(r'^goroutine \d+[^\n]*:\n(.*?)(?:\n\n|\Z)', rest, re.M | re.S)
    if not g:
        return None
    stack = []
    for ln in g.group(1).split('\n'):
        if not ln or ln.startswith('\t') or ln.startswith('created by'):
            continue
        fn = re.sub(r'\([^()]*\)\s*$', '', ln.strip())       # drop the argument list
        if fn.startswith('panic') or fn.startswith('runtime.'):
            continue
        stack.append(fn)
    origin, frame = 'unknown', stack[0] if stack else '?'
    for f in stack:
        if f.startswith('github.com/wi1dcard/fingerproxy'):
            origin, frame = 'code_under_test', f
            break
        if f.startswith('verifharness') or f.startswith('main.') or 'zz_vf' in f or '.vf' in f:
            origin, frame = 'harness', f
            break
    return {'message': m.group(1), 'frame': frame, 'origin': origin, 'stack': stack}


def load_known():
    p = os.path.join(VERIF, 'KNOWN_FINDINGS.json')
    if not os.path.exists(p):
        return []
    return json.load(open(p))


def tail(s, n):
    return '\n'.join(s.splitlines()[-n:])


def write_graph(g, path):
    json.dump(g, open(path, 'w'))


def read_json(path):
    return json.load(open(path))


# ---------------------------------------------------------------------- helpers shared by checks
def tlc_graph(ctx, module, cfg, name, **kw):
    """Run TLC exhaustively with a dot dump and convert the state graph to JSON for the Go drivers."""
    dot = os.path.join(ctx.scratch, name + '.dot')
    res = ctx.tlc(module, cfg, dot=dot, label=name, **kw)
    g = tlaval.parse_dot(dot)
    os.remove(dot)
    path = os.path.join(ctx.scratch, name + '.json')
    write_graph(g, path)
    res['graph_nodes'] = len(g['nodes'])
    res['graph_edges'] = len(g['edges'])
    if res.get('distinct') is not None and res['distinct'] != len(g['nodes']):
        raise Inconclusive('graph dump of %s has %d nodes, TLC reports %d distinct states'
                           % (name, len(g['nodes']), res['distinct']))
    return path, g, res


def run_overlay_driver(ctx, pkg_rel, files, run, env=None, timeout=900, race=False, out_name='out.json', tags='verif'):
    out = os.path.join(ctx.scratch, out_name)
    if os.path.exists(out):
        os.remove(out)
    e = {'VF_OUT': out}
    if env:
        e.update(env)
    p = ctx.overlay_test(pkg_rel, files, run, timeout=timeout, env=e, race=race, tags=tags)
    if not os.path.exists(out):
        raise Inconclusive('driver %s wrote no result (go test rc=%d):\n%s' % (run, p.returncode, tail(p.stdout, 60)))
    r = read_json(out)
    r['_go_output'] = tail(p.stdout, 30)
    r['_rc'] = p.returncode
    if p.returncode != 0 and not r.get('violations'):
        raise Inconclusive('driver %s failed without reporting a violation:\n%s' % (run, tail(p.stdout, 80)))
    return r


def absorb(ctx, r):
    """Feed a driver's reported violations through the known-findings matcher."""
    for v in r.get('violations') or []:
        ctx.violation(v['signature'], v['what'], v.get('replay'))


def edge_cover_paths(g, rng, want_edge=None, sample=1.0, max_len=12, end_pred=None):
    """Greedy edge cover of a TLC state graph: a list of paths (lists of edge indexes) from an initial state such that
    every edge selected by want_edge/sample lies on some path.  end_pred(edge) -> True if a path may end after it
    (paths are extended with a shortest continuation to such an edge when needed)."""
    nodes, edges = g['nodes'], g['edges']
    out = [[] for _ in nodes]
    for i, e in enumerate(edges):
        out[e[0]].append(i)
    # BFS tree from the initial states
    parent = {}
    dq = list(g['init'])
    seen = set(dq)
    qi = 0
    while qi < len(dq):
        u = dq[qi]
        qi += 1
        for ei in out[u]:
            v = edges[ei][1]
            if v not in seen:
                seen.add(v)
                parent[v] = ei
                dq.append(v)

    def to_node(u):
        p = []
        while u in parent:
            ei = parent[u]
            p.append(ei)
            u = edges[ei][0]
        p.reverse()
        return p

    todo = set()
    for i, e in enumerate(edges):
        if e[0] not in seen:
            continue
        if want_edge is not None and not want_edge(e):
            continue
        if sample >= 1.0 or rng.random() < sample:
            todo.add(i)
    total = len(todo)
    paths = []
    order = sorted(todo)
    rng.shuffle(order)
    for start in order:
        if start not in todo:
            continue
        p = to_node(edges[start][0]) + [start]
        todo.discard(start)
        for ei in p:
            todo.discard(ei)
        u = edges[start][1]
        while len(p) < max_len:
            cand = [ei for ei in out[u] if ei in todo]
            if not cand:
                break
            ei = cand[rng.randrange(len(cand))]
            p.append(ei)
            todo.discard(ei)
            u = edges[ei][1]
        if end_pred is not None and not end_pred(edges[p[-1]]):
            # extend with one edge after which the path may end, if the state offers one
            ends = [ei for ei in out[u] if end_pred(edges[ei])]
            if ends:
                ei = ends[rng.randrange(len(ends))]
                p.append(ei)
                todo.discard(ei)
        paths.append(p)
    return paths, total


def validate_trace(ctx, module, cfg, trace_path, dest_name, label=None, timeout=900, depth_first=False):
    """TLC trace validation (Trace_<X>.tla idiom with a high-water mark register, -workers 1).
    Returns dict(matched, total, invariant, lines, tlc)."""
    d = ctx.specdir()
    shutil.copy(trace_path, os.path.join(d, dest_name))
    r = ctx.tlc(module, cfg, workers=1, timeout=timeout, expect_ok=False, label=label or ('trace validation ' + module),
                depth_first=depth_first)
    m = re.search(r'<<"TRACE_MATCHED", (\d+), (\d+)>>', r['out'])
    if not m:
        raise Inconclusive('trace validation of %s did not finish:\n%s' % (trace_path, tail(r['out'], 30)))
    inv = r['violation'] if r['violation'] and 'postcondition' not in r['violation'] else None
    lines = open(trace_path).read().splitlines()
    return {'matched': int(m.group(1)), 'total': int(m.group(2)), 'invariant': inv, 'lines': lines, 'tlc': r}


def history_around(lines, matched):
    """The recorded history (from the last reset) that contains the first unexplained event."""
    idx = min(matched, len(lines) - 1)
    start = 0
    for j in range(idx, -1, -1):
        if '"reset"' in lines[j]:
            start = j
            break
    events = [json.loads(x) for x in lines[start:idx + 1]]
    bad = json.loads(lines[matched]) if matched < len(lines) else None
    return events, bad
