#!/usr/bin/env python3
"""Binding demonstration for Trace_H2Stream.tla (not a registered check): corrupt single observations of a recorded, accepted history of the
repository's pkg/http2 tests and validate again.  usage: h2stream_binding.py <recording.ndjson (from overlay/http2/h2rec_test.go)> <workdir> <out.json>
The result of the run described in DESIGN.md is data/h2stream_binding.json: {corruption: [rejected, tried]}."""
import json, os, random, re, shutil, subprocess, sys

rec, work, out = sys.argv[1:4]
spec = os.path.join(os.path.dirname(os.path.abspath(__file__)), '..', 'spec')
os.makedirs(work, exist_ok=True)
for f in ('H2Stream.tla', 'Trace_H2Stream.tla', 'Trace_C13_stream.cfg'):
    shutil.copy(os.path.join(spec, f), work)
L = [json.loads(x) for x in open(rec)]
end = min(4000, len(L) - 1)
while L[end]['e'] != 'reset':
    end -= 1
base = L[:end]
rng = random.Random(1)


def val(lines):
    open(os.path.join(work, 'trace_h2stream.ndjson'), 'w').write('\n'.join(json.dumps(x, separators=(',', ':')) for x in lines) + '\n')
    md = os.path.join(work, 'md')
    p = subprocess.run(['timeout', '120', 'tlc', '-workers', '1', '-metadir', md, '-config', 'Trace_C13_stream.cfg', 'Trace_H2Stream.tla'], cwd=work, capture_output=True, text=True)
    shutil.rmtree(md, ignore_errors=True)
    m = re.search(r'TRACE_MATCHED", (\d+), (\d+)', p.stdout)
    return (int(m.group(1)), int(m.group(2))) if m else None


b = val(base)
assert b and b[0] == b[1], 'the uncorrupted prefix must be accepted: %s' % (b,)
res = {}


def mut(name, f, cands, k=8):
    rej = n = 0
    for i in rng.sample(cands, min(k, len(cands))):
        new = [dict(e) for e in base]
        if f(new, i) is False:
            continue
        r = val(new)
        n += 1
        rej += bool(r and r[0] < r[1])
    res[name] = [rej, n]


idx = lambda pred: [i for i, e in enumerate(base) if pred(e)]
mut('start: stream id lowered by 2 (not increasing / not opened)', lambda n, i: n[i].__setitem__('sid', n[i]['sid'] - 2), idx(lambda e: e['e'] == 'start' and e['sid'] >= 3))
mut('start: handler count above the advertised limit', lambda n, i: n[i].__setitem__('adv', 0), idx(lambda e: e['e'] == 'start'))
mut('request HEADERS read dropped (handler without request)', lambda n, i: n.pop(i), idx(lambda e: e['e'] == 'read' and e['t'] == 'HEADERS'))
mut('GOAWAY last stream id lowered below a started request', lambda n, i: n[i].__setitem__('last', 0), idx(lambda e: e['e'] == 'write' and e['t'] == 'GOAWAY' and e['last'] > 0))
mut('GOAWAY last stream id raised above anything read', lambda n, i: n[i].__setitem__('last', n[i]['last'] + 100), idx(lambda e: e['e'] == 'write' and e['t'] == 'GOAWAY'))
mut('response DATA duplicated after END_STREAM', lambda n, i: n.insert(i + 1, dict(n[i])), idx(lambda e: e['e'] == 'write' and e['t'] == 'DATA' and e['es'] == 1))
mut('RST_STREAM code changed to REFUSED_STREAM on a started stream', lambda n, i: n[i].__setitem__('code', 7), idx(lambda e: e['e'] == 'write' and e['t'] == 'RST_STREAM' and e['code'] != 7))
mut('handler done duplicated', lambda n, i: n.insert(i + 1, dict(n[i])), idx(lambda e: e['e'] == 'done'))
mut('write of response HEADERS moved before the handler start', lambda n, i: (n.insert(max(0, i - 3), n.pop(i)) if n[i - 1]['e'] != 'reset' else False), idx(lambda e: e['e'] == 'write' and e['t'] == 'HEADERS'))
json.dump(res, open(out, 'w'), indent=1)
print(json.dumps(res, indent=1))
