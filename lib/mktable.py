#!/usr/bin/env python3
"""Regenerates the "numbers of the last quick run" table of DESIGN.md (between the TABLE markers) from evidence/*.json."""
import json
import os
import re

VERIF = os.path.dirname(os.path.dirname(os.path.abspath(__file__)))


def main():
    rows = ['| id | TLC: distinct / generated states (all runs of the check) | observations of the real code | wall | known findings reported |', '|---|---|---|---|---|']
    for i in range(1, 21):
        cid = 'C%02d' % i
        p = os.path.join(VERIF, 'evidence', cid + '.json')
        if not os.path.exists(p):
            continue
        e = json.load(open(p))
        c = e.get('coverage', {})
        runs = c.get('tlc_runs') or []
        specs = sorted({r.get('module') for r in runs if r.get('module')})
        kf = c.get('known_findings_matched') or []
        kfs = ', '.join(sorted({k.get('id', '?') if isinstance(k, dict) else str(k) for k in kf})) or '-'
        rows.append('| %s | %s: %s / %s | %s | %s s | %s |' % (cid, ', '.join(specs), c.get('states', '?'), c.get('transitions', '?'),
                                                         c.get('traces_validated_against_impl', '?'), e.get('wall_seconds', e.get('wall_s', '?')), kfs))
    d = open(os.path.join(VERIF, 'DESIGN.md')).read()
    block = '<!-- TABLE:BEGIN -->\n' + '\n'.join(rows) + '\n<!-- TABLE:END -->'
    if '<!-- TABLE:BEGIN -->' in d:
        d = re.sub(r'<!-- TABLE:BEGIN -->.*?<!-- TABLE:END -->', lambda m: block, d, flags=re.S)
        open(os.path.join(VERIF, 'DESIGN.md'), 'w').write(d)
    print(block)


if __name__ == '__main__':
    main()
