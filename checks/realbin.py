"""The program as shipped: cmd/main.go -> fingerproxy.Run() built from the tree under test and run as a child process, with real
signals and real kernel sockets (what the in-process drivers and the wiring driver - which repeats Run()'s steps - cannot see:
signal registration, process exit, what a write to a vanished peer does to the process).

Used by C10 (clients that go away before they read their answer; the process must go on serving) and C17 (the two-signal shutdown:
a second SIGTERM while an HTTP/1.1 exchange is still being drained must not end the process; it ends by itself once the exchange is over).
Both are scenarios of ProxyServer.tla (ClientAbort anywhere; Cancel is idempotent): the model says what must happen, the child shows what does.
"""
import http.server
import os
import signal
import socket
import ssl
import subprocess
import threading
import time

import vf


def _free_port():
    s = socket.socket()
    s.bind(('127.0.0.1', 0))
    p = s.getsockname()[1]
    s.close()
    return p


class _Backend(http.server.BaseHTTPRequestHandler):
    protocol_version = 'HTTP/1.1'

    def do_GET(self):
        body = b'backend-ok'
        self.send_response(200)
        self.send_header('Content-Length', str(len(body)))
        self.end_headers()
        self.wfile.write(body)

    do_POST = do_GET

    def log_message(self, *a):
        pass


class Child:
    def __init__(self, ctx, binpath, extra=()):
        self.dir = os.path.join(ctx.scratch, 'realbin-%d' % _free_port())
        os.makedirs(self.dir)
        crt, key = os.path.join(self.dir, 'tls.crt'), os.path.join(self.dir, 'tls.key')
        p = subprocess.run(['openssl', 'req', '-x509', '-newkey', 'ec', '-pkeyopt', 'ec_paramgen_curve:prime256v1', '-nodes', '-keyout', key, '-out', crt,
                            '-subj', '/CN=vf.test', '-days', '2'], stdout=subprocess.PIPE, stderr=subprocess.STDOUT, text=True)
        if p.returncode != 0:
            raise vf.Inconclusive('openssl could not make a key pair: %s' % p.stdout[-300:])
        self.backend = http.server.ThreadingHTTPServer(('127.0.0.1', 0), _Backend)
        threading.Thread(target=self.backend.serve_forever, daemon=True).start()
        self.port, self.mport = _free_port(), _free_port()
        self.log = open(os.path.join(self.dir, 'log.txt'), 'w')
        self.proc = subprocess.Popen([binpath, '-listen-addr=127.0.0.1:%d' % self.port, '-metrics-listen-addr=127.0.0.1:%d' % self.mport, '-cert-filename=' + crt,
                                      '-certkey-filename=' + key, '-forward-url=http://127.0.0.1:%d' % self.backend.server_address[1]] + list(extra),
                                     stdout=self.log, stderr=subprocess.STDOUT, cwd=self.dir)
        for _ in range(100):
            try:
                socket.create_connection(('127.0.0.1', self.port), timeout=0.2).close()
                return
            except OSError:
                if self.proc.poll() is not None:
                    break
                time.sleep(0.05)
        raise vf.Inconclusive('the program did not start listening: %s' % self.logtext()[-400:])

    def logtext(self):
        self.log.flush()
        return open(os.path.join(self.dir, 'log.txt')).read()

    def tls(self, alpn='http/1.1', timeout=5):
        c = ssl.SSLContext(ssl.PROTOCOL_TLS_CLIENT)
        c.check_hostname = False
        c.verify_mode = ssl.CERT_NONE
        c.set_alpn_protocols([alpn])
        raw = socket.create_connection(('127.0.0.1', self.port), timeout=timeout)
        return c.wrap_socket(raw, server_hostname='vf.test')

    def control(self):
        """an ordinary client: one request, the answer read to the end"""
        try:
            s = self.tls()
            s.sendall(b'GET /control HTTP/1.1\r\nHost: vf.test\r\nConnection: close\r\n\r\n')
            data = b''
            while True:
                b = s.recv(65536)
                if not b:
                    break
                data += b
            s.close()
            return b' 200 ' in data.split(b'\r\n', 1)[0] and data.endswith(b'backend-ok')
        except OSError:
            return False

    def alive(self):
        return self.proc.poll() is None

    def stop(self):
        if self.alive():
            self.proc.kill()
        try:
            self.proc.wait(5)
        except subprocess.TimeoutExpired:
            pass
        self.backend.shutdown()
        self.log.close()


def build(ctx):
    out = os.path.join(ctx.scratch, 'fingerproxy-bin')
    p = subprocess.run(['go', 'build', '-modfile=' + ctx.repo_modfile(), '-o', out, './cmd'], cwd=vf.REPO, env=ctx.goenv(), stdout=subprocess.PIPE, stderr=subprocess.STDOUT, text=True)
    if p.returncode != 0:
        raise vf.Inconclusive('go build ./cmd failed:\n%s' % p.stdout[-600:])
    return out


def clients_going_away(ctx, binpath, rounds=6):
    """C10: a client completes the handshake, sends a whole request and goes away (FIN, or RST) without reading the answer - over and over.
    Returns {'rounds', 'died': None | description, 'log_tail'}"""
    import struct
    ch = Child(ctx, binpath)
    res = {'rounds': 0, 'died': None}
    try:
        if not ch.control():
            raise vf.Inconclusive('real binary: control request fails before anything was done: %s' % ch.logtext()[-300:])
        for r in range(rounds):
            for how in ('fin', 'rst', 'fin-h2'):
                for k in range(4):
                    try:
                        s = ch.tls('h2' if how == 'fin-h2' else 'http/1.1')
                        if how == 'fin-h2':
                            s.sendall(b'PRI * HTTP/2.0\r\n\r\nSM\r\n\r\n' + b'\x00\x00\x00\x04\x00\x00\x00\x00\x00' +
                                      b'\x00\x00\x0c\x01\x05\x00\x00\x00\x01' + b'\x82\x87\x84\x41\x07vf.test')
                        else:
                            s.sendall(b'GET /gone HTTP/1.1\r\nHost: vf.test\r\n\r\n')
                        if how == 'rst':
                            s.setsockopt(socket.SOL_SOCKET, socket.SO_LINGER, struct.pack('ii', 1, 0))
                        raw = s.unwrap() if False else None
                        s.close()   # without reading: the answer (and the close_notify behind it) meets a peer that is gone
                    except OSError:
                        pass
            time.sleep(0.25)
            res['rounds'] += 1
            if not ch.alive():
                res['died'] = 'the process ended (exit status %s) after clients went away without reading their answers' % ch.proc.returncode
                break
            if not ch.control():
                time.sleep(0.3)
                if not ch.alive() or not ch.control():
                    res['died'] = 'the process no longer serves (alive=%s) after clients went away without reading their answers' % ch.alive()
                    break
    finally:
        res['log_tail'] = ch.logtext()[-600:]
        ch.stop()
    return res


def two_signal_shutdown(ctx, binpath):
    """C17: SIGTERM, and again while an HTTP/1.1 exchange is still in flight.  Returns {'ended_by_second_signal': bool, 'exit_status', 'exchange_answered', ...}"""
    ch = Child(ctx, binpath)
    res = {}
    try:
        if not ch.control():
            raise vf.Inconclusive('real binary: control request fails before anything was done: %s' % ch.logtext()[-300:])
        s = ch.tls()
        s.sendall(b'GET /slow HTTP/1.1\r\nHost: vf.test\r\nX-Part')      # an exchange in flight: the request head is under way
        time.sleep(0.2)
        ch.proc.send_signal(signal.SIGTERM)
        time.sleep(0.4)
        res['alive_after_first_signal'] = ch.alive()
        ch.proc.send_signal(signal.SIGTERM)
        time.sleep(0.8)
        res['alive_after_second_signal'] = ch.alive()
        if not ch.alive():
            res['exit_status'] = ch.proc.returncode
        # the client finishes its request; the exchange may be answered (with whatever status) and the process then ends by itself
        try:
            s.sendall(b'ial: 1\r\nConnection: close\r\n\r\n')
            s.settimeout(5)
            data = s.recv(4096)
            res['exchange_answered'] = data[:12].decode('latin1')
        except OSError as e:
            res['exchange_answered'] = 'error: %s' % e
        try:
            s.close()
        except OSError:
            pass
        try:
            ch.proc.wait(12)
            res['exit_status'] = ch.proc.returncode
        except subprocess.TimeoutExpired:
            res['exit_status'] = 'still running 12 s after the last exchange ended'
        res['log_says_server_closed'] = 'Server closed' in ch.logtext()
    finally:
        res['log_tail'] = ch.logtext()[-600:]
        ch.stop()
    return res
