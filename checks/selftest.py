"""selftest - is the binding between the recorded traces and the specifications tight?

For every trace-validated check a trace recorded from the real code (accepted by its trace specification) is corrupted in one place
and validated again.  Only *observations* are corrupted - events and fields that report what the implementation did (a popped frame, a
DATA frame received, a counted label, the encoder's bytes as parsed) - not the driver's own inputs (a WINDOW_UPDATE it chose to send is
whatever it says it is).  An observation event is dropped, duplicated or swapped with the next one, or one observed field (a leaf of a
nested value) is altered.  A corruption that is still accepted shows a field or an ordering the specification does not constrain.  The result (evidence/selftest.json) is a report about the
machinery, not a verdict about fingerproxy; it fails (exit 1) only if a trace specification rejects fewer than 40% of the corrupted observations (FlowLedger.tla, an inequality oracle by nature - an upper bound of what the peer may use - sits near 55-60%).

    ./check selftest            (quick: 60 corruptions per specification; thorough: 300)
"""
import json
import os
import random
import re
import shutil
import subprocess
import sys
from concurrent.futures import ThreadPoolExecutor

import vf

TARGETS = [
    # check, trace file in its scratch dir, module, cfg, name the spec reads, scenarios to skip (known findings live there)
    ('C16', 'lc_part_1.ndjson', 'Trace_ProxyServer', 'Trace_PS.cfg', 'trace_ps.ndjson', ()),
    ('C12', 'c12.ndjson', 'FlowLedger', 'Trace_C12.cfg', 'trace_c12.ndjson', ('recv-rst',)),
    ('C08', 'c08.ndjson', 'Trace_Relay', 'Trace_C08.cfg', 'trace_c08.ndjson', ('alpn_control_bytes', 'hello_fragment', 'trailers_after')),
    ('C18', None, 'Trace_Hpack', 'Trace_C18.cfg', 'trace_c18.ndjson', ()),
    ('C20', None, 'Trace_WriteSched', None, 'trace_c20.ndjson', ()),
]
MAXLINES = 700

# per check: observation events (None = every event) -> observed fields (None = every field but op); 'structural' = may the event be dropped / duplicated / swapped
OBS = {
    'C16': {'ops': None, 'fields': None, 'structural': True},
    'C12': {'ops': {'data': None, 'rst': None, 'goaway': None, 'srv_wu': None, 'drained': None, 'initwin_ack': None}, 'structural': True},
    'C08': {'ops': {'up': None, 'up_end': None, 'down': None, 'down_end': None}, 'structural': True},
    'C18': {'ops': {'write': ['wire', 'emitted', 'derr', 'etab', 'emax', 'dtab', 'dmax'], 'setmax': ['etab', 'emax'], 'endblock': ['err']}, 'structural': False},
    'C20': {'ops': {'pop': None}, 'structural': True},
}


def record(ctx, check):
    """run the check once with its scratch directory kept; return that directory"""
    env = dict(os.environ, VERIF_KEEP='1', VERIF_EVIDENCE_DIR=os.path.join(ctx.scratch, 'evidence-' + check))
    p = subprocess.Popen([os.path.join(vf.VERIF, 'check'), check, '--tier', 'quick'], env=env, stdout=subprocess.PIPE, stderr=subprocess.STDOUT, text=True)
    out, _ = p.communicate(timeout=3600)
    d = '/var/tmp/vf-%s-%d' % (check, p.pid)
    if p.returncode != 0 or not os.path.isdir(d):
        raise vf.Inconclusive('could not record a trace with %s (rc=%s, scratch %s):\n%s' % (check, p.returncode, d, vf.tail(out, 15)))
    return d


def prefix(lines, skip, maxlines=MAXLINES):
    """whole scenarios from the start, up to MAXLINES lines, leaving out the scenarios that hold known findings"""
    out, cur, keep = [], [], True
    def flush():
        if cur and keep and len(out) + len(cur) <= maxlines:
            out.extend(cur)
    for ln in lines:
        if '"op":"reset"' in ln:
            flush()
            cur, keep = [], not any(s in ln for s in skip)
        cur.append(ln)
    flush()
    return out


def run_tlc(specdir, workdir, module, cfg, dest, lines, idx):
    d = os.path.join(workdir, 'w%d' % idx)
    if not os.path.isdir(d):
        shutil.copytree(specdir, d)
    open(os.path.join(d, dest), 'w').write('\n'.join(lines) + '\n')
    meta = os.path.join(d, 'meta')
    shutil.rmtree(meta, ignore_errors=True)
    p = subprocess.run(['tlc', '-workers', '1', '-metadir', meta, '-config', cfg, module + '.tla'], cwd=d, stdout=subprocess.PIPE, stderr=subprocess.STDOUT, text=True, timeout=600)
    m = re.search(r'<<"TRACE_MATCHED", (\d+), (\d+)>>', p.stdout)
    if not m:
        return None
    inv = re.search(r'Invariant (\w+) is violated', p.stdout)
    return {'matched': int(m.group(1)), 'total': int(m.group(2)), 'invariant': inv.group(1) if inv else None}


def leaves(v, path=()):
    """paths of the scalar leaves of a nested JSON value"""
    if isinstance(v, dict):
        for k, x in v.items():
            yield from leaves(x, path + (k,))
    elif isinstance(v, list):
        for i, x in enumerate(v):
            yield from leaves(x, path + (i,))
    else:
        yield path, v


def set_leaf(v, path, new):
    for k in path[:-1]:
        v = v[k]
    v[path[-1]] = new


def corrupt(lines, rng, pools, obs):
    """one corruption of an observation; returns (new lines, description) or None"""
    ops = obs['ops']
    cand = []
    for i, ln in enumerate(lines):
        if '"op":"reset"' in ln or '"op":"end"' in ln:
            continue
        op = json.loads(ln).get('op')
        if ops is None or op in ops:
            cand.append(i)
    if not cand:
        return None
    i = rng.choice(cand)
    ev = json.loads(lines[i])
    kinds = ['field', 'field', 'field'] + (['drop', 'dup', 'swap'] if obs['structural'] else [])
    kind = rng.choice(kinds)
    new = list(lines)
    if kind == 'drop':
        del new[i]
        return new, {'how': 'drop', 'op': ev.get('op'), 'line': i}
    if kind == 'dup':
        new.insert(i, lines[i])
        return new, {'how': 'dup', 'op': ev.get('op'), 'line': i}
    if kind == 'swap':
        if i + 1 >= len(lines) or '"op":"reset"' in lines[i + 1] or lines[i + 1] == lines[i]:
            return None
        new[i], new[i + 1] = new[i + 1], new[i]
        return new, {'how': 'swap', 'op': ev.get('op'), 'with': json.loads(lines[i + 1]).get('op'), 'line': i}
    allowed = None if ops is None else ops.get(ev.get('op'))
    lv = [(p, v) for p, v in leaves(ev) if p and p[0] != 'op' and (allowed is None or p[0] in allowed)]
    if not lv:
        return None
    path, v = rng.choice(lv)
    if isinstance(v, bool):
        nv = not v
    elif isinstance(v, (int, float)):
        nv = v + rng.choice([1, -1]) if v > 0 else v + 1
    elif isinstance(v, str):
        others = [x for x in pools.get(path[-1] if isinstance(path[-1], str) else path[0], []) if x != v]
        nv = rng.choice(others) if others else v + 'x'
    else:
        return None
    set_leaf(ev, path, nv)
    new[i] = json.dumps(ev, separators=(',', ':'))
    return new, {'how': 'field', 'op': ev.get('op'), 'field': '.'.join(str(x) for x in path), 'from': v, 'to': nv, 'line': i}


def run(ctx):
    rng = random.Random(ctx.seed)
    n = 60 if ctx.tier == 'quick' else 300
    report, weak = [], []
    for check, tfile, module, cfg, dest, skip in TARGETS:
        sd = record(ctx, check)
        try:
            specdir = os.path.join(sd, 'spec') if os.path.isdir(os.path.join(sd, 'spec')) else None
            if check == 'C18':
                tfile = next(f for f in os.listdir(sd) if f.endswith('.ndjson'))
            if check == 'C20':
                tdir = os.path.join(sd, 'traces')
                tfile = os.path.join('traces', sorted(f for f in os.listdir(tdir) if 'prio' in f)[0])
                specs = [x for x in os.listdir(sd) if x.startswith('spec')]
                for s_ in specs:
                    cfgs = [c for c in os.listdir(os.path.join(sd, s_)) if c.startswith('Trace_C20_')]
                    if cfgs:
                        specdir = os.path.join(sd, s_)
                        cfg = sorted(cfgs)[0]
                # the cfg belongs to a run config (kind, maxClosed, maxIdle): find the run whose file we took
                runs = None
            if specdir is None:
                specdir = next(os.path.join(sd, x) for x in sorted(os.listdir(sd)) if x.startswith('spec'))
            lines = open(os.path.join(sd, tfile)).read().splitlines()
            if check == 'C20':
                # choose the (trace, cfg) pair consistently: cfg i belongs to run i in the order the driver listed them
                import glob
                pairs = []
                for s_ in sorted(x for x in os.listdir(sd) if x.startswith('spec')):
                    for c in sorted(glob.glob(os.path.join(sd, s_, 'Trace_C20_*.cfg'))):
                        t = os.path.join(sd, s_, 'trace_c20.ndjson')
                        if os.path.exists(t) and 'Kind = "prio"' in open(c).read():
                            pairs.append((os.path.join(sd, s_), os.path.basename(c), t))
                if not pairs:
                    raise vf.Inconclusive('no priority-scheduler trace found in %s' % sd)
                specdir, cfg, tpath = pairs[0]
                lines = open(tpath).read().splitlines()
            base = prefix(lines, skip, 3000 if check == 'C08' else MAXLINES)
            work = os.path.join(ctx.scratch, 'st-' + check)
            os.makedirs(work, exist_ok=True)
            b = run_tlc(specdir, work, module, cfg, dest, base, 0)
            if not b or b['invariant'] or b['matched'] < b['total']:
                raise vf.Inconclusive('%s: the uncorrupted trace prefix is not accepted (%s)' % (check, b))
            pools = {}
            for ln in base:
                for path, v in leaves(json.loads(ln)):
                    k = path[-1] if path and isinstance(path[-1], str) else (path[0] if path else None)
                    if isinstance(v, str) and k and k != 'op':
                        pools.setdefault(k, [])
                        if v not in pools[k] and len(pools[k]) < 50:
                            pools[k].append(v)
            jobs = []
            tries = 0
            while len(jobs) < n and tries < 20 * n:
                tries += 1
                c = corrupt(base, rng, pools, OBS[check])
                if c:
                    jobs.append(c)
            def one(args):
                idx, (new, desc) = args
                r = run_tlc(specdir, work, module, cfg, dest, new, 1 + idx % 12)
                return desc, r
            # 12 work directories, one job at a time in each
            results = []
            for lane_start in range(0, len(jobs), 12):
                with ThreadPoolExecutor(max_workers=12) as ex:
                    results += list(ex.map(one, list(enumerate(jobs))[lane_start:lane_start + 12]))
            rejected = [d for d, r in results if r and (r['invariant'] or r['matched'] < r['total'])]
            accepted = [d for d, r in results if r and not (r['invariant'] or r['matched'] < r['total'])]
            unknown = [d for d, r in results if not r]
            by = {}
            for d in accepted:
                key = '%s %s%s' % (d['how'], d['op'], ('.' + re.sub(r'\.\d+', '[]', d['field'])) if d.get('field') else '')
                by[key] = by.get(key, 0) + 1
            entry = {'check': check, 'spec': module, 'trace_lines': len(base), 'corruptions': len(results), 'rejected': len(rejected), 'accepted': len(accepted),
                     'no_verdict': len(unknown), 'accepted_by_kind': dict(sorted(by.items(), key=lambda kv: -kv[1])), 'accepted_examples': accepted[:8]}
            report.append(entry)
            print('selftest %s (%s): %d lines, %d corruptions, %d rejected, %d still accepted %s' % (check, module, len(base), len(results), len(rejected), len(accepted), entry['accepted_by_kind']))
            if results and len(rejected) < 0.4 * len(results):
                weak.append(check)
        finally:
            shutil.rmtree(sd, ignore_errors=True)
    out = {'seed': ctx.seed, 'tier': ctx.tier, 'targets': report,
           'reading': 'a corruption that is still accepted is a field or an ordering the trace specification leaves free (often rightly: a field that is only logged, '
                      'two independent events of different connections); the list is where to look when tightening a specification'}
    os.makedirs(os.path.join(vf.VERIF, 'evidence'), exist_ok=True)
    json.dump(out, open(os.path.join(vf.VERIF, 'evidence', 'selftest.json'), 'w'), indent=1, default=str)
    if weak:
        print('SELFTEST-WEAK: trace specifications rejecting fewer than 40 percent of the corrupted observations: %s' % (weak,))
        return 1
    print('OK selftest')
    return 0
