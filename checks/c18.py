"""C18 - HPACK codec round-trips and decodes exactly per RFC 7541.

TLC: Hpack.tla (representation level) - (rt) encoder + decoder: RoundTrip, TablesAgree, Bounded over all field / table-size
schedules in the bound; (dec) the decoder alone over all sequences of valid and invalid representations.
Binding: (A) trace validation of seeded random histories recorded from the real Encoder/Decoder, bytes parsed by the harness;
(B) every path of the decoder graph replayed with the harness serializer (raw + Huffman), whole / cut / byte-at-a-time;
(C) byte level: Huffman table equality with an independent RFC transcription, prefix integers, Huffman padding/EOS rules against
a bit-level reference decoder.
"""
import json
import os

import vf

HUFF = os.path.join(vf.VERIF, 'data', 'huffman_rfc7541.json')
FILES = ['common/graph_test.go', 'hpack/c18_test.go']


def huffman_spec_check(ctx):
    """Kraft equality and prefix-freeness of the transcribed table, decided by TLC (HuffmanRFC7541.tla is generated from data/)."""
    t = json.load(open(HUFF))
    d = ctx.specdir()
    rows = ', '.join('<<%d, %d>>' % (c, l) for c, l in zip(t['codes'], t['lengths']))
    open(os.path.join(d, 'HuffmanRFC7541.tla'), 'w').write("""---- MODULE HuffmanRFC7541 ----
(* RFC 7541 Appendix B as data: <<code, bit length>> for symbols 0..255 and EOS (generated from data/huffman_rfc7541.json). *)
EXTENDS Integers, Sequences, FiniteSets, TLC
Table == << %s >>
Pow2(n) == 2 ^ n
\\* code a (length la) is a prefix of code b (length lb)
IsPrefix(a, la, b, lb) == la <= lb /\\ b \\div Pow2(lb - la) = a
PrefixFree == \\A i, j \\in 1..Len(Table) : i # j => ~IsPrefix(Table[i][1], Table[i][2], Table[j][1], Table[j][2])
\\* Kraft equality scaled by 2^30: the code is complete
Kraft == LET RECURSIVE S(_) S(k) == IF k = 0 THEN 0 ELSE Pow2(30 - Table[k][2]) + S(k - 1) IN S(Len(Table)) = Pow2(30)
LengthsOK == \\A i \\in 1..Len(Table) : Table[i][2] \\in 5..30 /\\ Table[i][1] < Pow2(Table[i][2])
ASSUME PrintT(<<"HUFFMAN", PrefixFree, Kraft, LengthsOK, Len(Table)>>)
====
""" % rows)
    open(os.path.join(d, 'HuffmanRFC7541.cfg'), 'w').write('\n')
    r = ctx.tlc('HuffmanRFC7541', 'HuffmanRFC7541.cfg', workers=1, timeout=300, expect_ok=False, label='Huffman table: prefix-free, complete')
    if '<<"HUFFMAN", TRUE, TRUE, TRUE, 257>>' not in r['out']:
        raise vf.Inconclusive('Huffman table check failed:\n' + vf.tail(r['out'], 20))


def run(ctx):
    t = ctx.tier
    ctx.tlc('MC_Hpack', 'MC_C18_rt_%s.cfg' % t, label='encoder+decoder round trip', timeout=1800)
    gpath, g, gr = vf.tlc_graph(ctx, 'MC_Hpack', 'MC_C18_dec_%s.cfg' % t, 'c18dec', timeout=1800)
    huffman_spec_check(ctx)
    env = {'VF_HUFFMAN': HUFF}
    # A. trace validation
    trace = os.path.join(ctx.scratch, 'c18trace.ndjson')
    hist, steps = (150, 40) if t == 'quick' else (2000, 60)
    ra = vf.run_overlay_driver(ctx, 'pkg/http2/hpack', FILES, '^TestVFC18Trace$', env=dict(env, VF_TRACE=trace, VF_HISTORIES=str(hist), VF_STEPS=str(steps)),
                               out_name='c18a.json')
    vf.absorb(ctx, ra)
    tv = vf.validate_trace(ctx, 'Trace_Hpack', 'Trace_C18.cfg', trace, 'trace_c18.ndjson', label='trace validation (round trip)', timeout=1800)
    accepted = 0
    if tv['invariant'] or tv['matched'] < tv['total']:
        events, bad = vf.history_around(tv['lines'], tv['matched'])
        nsize = len([w for w in (bad or {}).get('wire', []) if w.get('k') == 'size']) if bad else 0
        sig = {'check': 'C18', 'kind': 'trace_rejected' if not tv['invariant'] else 'invariant_violated_on_trace',
               'derr': (bad or {}).get('derr'), 'size_updates_in_write': nsize}
        ctx.violation(sig, 'round-trip history is not a behaviour of Hpack.tla (%s) after %d matched events; first unexplained event: %s'
                      % (tv['invariant'] or 'event rejected', tv['matched'], json.dumps(bad)[:700]), {'history': events})
    else:
        accepted = sum(1 for x in tv['lines'] if '"reset"' in x)
    # B. decoder graph replay
    rb = vf.run_overlay_driver(ctx, 'pkg/http2/hpack', FILES, '^TestVFC18Decoder$', env=dict(env, VF_GRAPH=gpath), out_name='c18b.json')
    vf.absorb(ctx, rb)
    if rb['edges_seen'] != rb['edges_total'] and not rb['violations']:
        raise vf.Inconclusive('decoder replay covered %d of %d edges' % (rb['edges_seen'], rb['edges_total']))
    # C. byte level
    # first use of the Huffman tree under concurrency: one fresh process per attempt (the tree is built once per process)
    cold = {'processes': 0, 'decoders': 0}
    for k in range(8 if t == 'quick' else 60):
        cout = os.path.join(ctx.scratch, 'c18cold_%d.json' % k)
        p = ctx.overlay_test('pkg/http2/hpack', ['hpack/c18cold_test.go'], '^TestVFC18Cold$', timeout=300, env={'VF_COLD_OUT': cout}, pkgname='hpack', tags=None)
        if not os.path.exists(cout):
            raise vf.Inconclusive('cold-start driver wrote no result (go test rc=%d):\n%s' % (p.returncode, vf.tail(p.stdout, 30)))
        o = vf.read_json(cout)
        cold['processes'] += 1
        cold['decoders'] += o['decoders']
        if o.get('failures'):
            ctx.violation({'check': 'C18', 'kind': 'decode_mismatch', 'input_class': 'huffman_first_use_concurrent'},
                          'a well-formed RFC 7541 example block was not decoded as specified by one of %d Decoders that used Huffman decoding for the first time in the process together: %s'
                          % (o['decoders'], o['failures'][:3]), o)
            break
    rc = vf.run_overlay_driver(ctx, 'pkg/http2/hpack', FILES, '^TestVFC18Bytes$', env=env, out_name='c18c.json')
    vf.absorb(ctx, rc)
    first_hist = [json.loads(x) for x in tv['lines'][1:6]]
    cov = {
        'traces_validated_against_impl': accepted + rb['paths'],
        'huffman_first_use_under_concurrency': cold,
        'samples': [{'round_trip_history_prefix': first_hist}] + (rb.get('samples') or [])[:2],
        'round_trip_histories_accepted': accepted, 'round_trip_events': ra['steps'], 'round_trip_actions': ra['actions'],
        'writes_with_two_size_updates': ra['extra'].get('writes_with_two_size_updates'),
        'decoder_paths_replayed': rb['paths'], 'decoder_graph_edges': rb['edges_total'], 'decoder_segmentation_cases': rb['extra'].get('segmentation_cases'),
        'byte_level': rc['actions'],
        'exhaustive': True,
        'rule': 'A: seeded random histories (11 fields, limits 0..5000, random cut points) validated event by event; B: every path of the decoder graph '
                '(18 representations incl. invalid indexes and size updates at every position) x raw/Huffman x whole/one-cut/byte-at-a-time; '
                'C: 256-entry table equality, 136 prefix-integer cases, random Huffman strings with tail mutations',
    }
    return ctx.finish(cov, assumptions=['entry sizes (len+len+32), byte serialisation and the Huffman table are harness data (independent transcription of RFC 7541 App. A/B)',
                                        'table-size changes are applied between header blocks (as the HTTP/2 layers do)',
                                        'leniencies of the code are modelled as coded: size update accepted after the first field while the table is empty; any number of updates at block start'])
