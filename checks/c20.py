"""C20 - write schedulers lose nothing, keep order and respect windows.

TLC: WriteSched.tla checked exhaustively per scheduler kind (ExactlyOnce, InOrder, WithinWindows, PieceBounded, ControlFirst,
IsTree, OpenHaveNodes, RetentionBounded).
Binding: trace validation - seeded random operation histories on the real schedulers (in-package recorder) are validated by TLC
against the same actions (Trace_WriteSched.tla); Pop results must be explainable by PopCtl / PopFrom(s) / PopNone.
"""
import json
import os
import re
import shutil

import tlaval
import vf

KINDS = ['rr', 'random', 'prio']


def trace_cfg(kind, max_closed, max_idle, throttle=False):
    return """SPECIFICATION TraceSpec
CONSTANTS
  Kind = "%s"
  Ids = {1, 3, 5, 7, 9}
  MaxFrames = 100000
  Sizes = {}
  WinVals = {}
  CWinVals = {}
  MFVals = {}
  MaxClosed = %d
  MaxIdle = %d
  Weights = {}
  Throttle = %s
INVARIANTS ExactlyOnce InOrder WithinWindows PieceBounded IsTree OpenHaveNodes RetentionBounded
CONSTRAINT HW
POSTCONDITION TraceAccepted
CHECK_DEADLOCK FALSE
""" % (kind, max_closed, max_idle, 'TRUE' if throttle else 'FALSE')


def validate(ctx, run, idx):
    d = ctx.specdir()
    shutil.copy(run['file'], os.path.join(d, 'trace_c20.ndjson'))
    cfg = 'Trace_C20_%d.cfg' % idx
    open(os.path.join(d, cfg), 'w').write(trace_cfg(run['kind'], run['maxClosed'], run['maxIdle'], run.get('throttle', False)))
    r = ctx.tlc('Trace_WriteSched', cfg, workers=1, timeout=600, expect_ok=False,
                label='trace validation %s closed=%d idle=%d' % (run['kind'], run['maxClosed'], run['maxIdle']))
    m = re.search(r'<<"TRACE_MATCHED", (\d+), (\d+)>>', r['out'])
    if not m:
        raise vf.Inconclusive('trace validation did not finish for %s:\n%s' % (run['file'], vf.tail(r['out'], 30)))
    matched, total = int(m.group(1)), int(m.group(2))
    inv = r['violation'] if r['violation'] and 'postcondition' not in r['violation'] else None
    return matched, total, inv, r


def run(ctx):
    t = ctx.tier
    for k in KINDS:
        ctx.tlc('WriteSched', 'MC_C20_%s_%s.cfg' % (k, t), label='exhaustive %s' % k, timeout=2400)
    tdir = os.path.join(ctx.scratch, 'traces')
    os.makedirs(tdir)
    hist, steps = (60, 45) if t == 'quick' else (2400, 60)
    r = vf.run_overlay_driver(ctx, 'pkg/http2', ['common/graph_test.go', 'http2/c20_test.go'], '^TestVFC20$',
                              env={'VF_TRACEDIR': tdir, 'VF_HISTORIES': str(hist), 'VF_STEPS': str(steps)}, timeout=900)
    vf.absorb(ctx, r)     # a scheduler call that never returned (watchdog of the driver)
    runs = r['extra']['runs']
    accepted = 0
    samples = []
    for i, run_ in enumerate(runs):
        matched, total, inv, tr = validate(ctx, run_, i)
        lines = open(run_['file']).read().splitlines()
        if inv or matched < total:
            # locate the history that holds the first unexplained event
            start = max(j for j in range(0, min(matched + 1, len(lines))) if '"reset"' in lines[j])
            hist_events = [json.loads(x) for x in lines[start:matched + 1]]
            bad = json.loads(lines[matched]) if matched < len(lines) else None
            sig = {'check': 'C20', 'scheduler': run_['kind'], 'kind': 'trace_rejected' if not inv else 'invariant_violated_on_trace'}
            if bad and bad.get('op') == 'panic':
                sig['kind'] = 'panic'
                sig['during'] = bad.get('during')
            what = ('%s scheduler (MaxClosed=%d MaxIdle=%d): %s after %d matched events; first unexplained event: %s'
                    % (run_['kind'], run_['maxClosed'], run_['maxIdle'], inv or 'history is not a behaviour of WriteSched.tla', matched, bad))
            ctx.violation(sig, what, {'history': hist_events, 'config': {k: run_[k] for k in ('kind', 'maxClosed', 'maxIdle', 'throttle')}})
        else:
            accepted += lines.count('{"op":"reset"}')
        if len(samples) < 3:
            samples.append({'scheduler': run_['kind'], 'history_prefix': [json.loads(x) for x in lines[1:14]]})
    cov = {
        'traces_validated_against_impl': accepted,
        'samples': samples,
        'recorder_runs': [{k: v for k, v in x.items() if k != 'file'} for x in runs],
        'events_recorded': r['steps'],
        'rule': 'one trace = one seeded random history of interface calls on a real scheduler (streams 1..9, windows/frame sizes incl. 0, '
                'priority configurations (10,10) (1,1) (0,2) (2,0)); accepted iff every event is an enabled action of WriteSched.tla with '
                'matching Pop observation and all invariants hold in every state',
    }
    return ctx.finish(cov, assumptions=['frames naming a stream are pushed only while the stream is open (interface contract)',
                                        'order among ready streams is not asserted for the random and priority schedulers',
                                        'write throttling of the priority scheduler only caps pieces at >= 1024 bytes; payloads here are <= 7 bytes'])
