"""C11 - every connection's resources are released; stalled and idle clients are cut.

TLC: ProxyServer.tla, EventuallyReleased under fairness (+ the invariants).  Binding: trace validation of abort / stall / garbage
scenarios: every accepted connection must reach exit with the raw conn closed (ScenarioDone at the end of every trace), TLC's
hand-off race (cancel between handshake and hand-off) forced with a gate, and the timeout scenario in which clients keep their side
open: the proxy itself must cut the stalled handshake and the idle HTTP/1.1 and HTTP/2 connections (bound: > 10x the timeouts).
"""
import lccommon as lc
import vf
import wiring


def run(ctx):
    ctx.tlc('ProxyServer', 'MC_PS_c11_quick.cfg', label='EventuallyReleased (liveness under fairness)', timeout=1800)
    trace, report = lc.record(ctx, census=True)
    accepted, rejected, lines = lc.validate(ctx, trace)
    for r in rejected:
        st = lc.conn_state_at_end(r['events'])
        stuck = sorted(ops[-1] for c, ops in st.items() if 'accept' in ops and 'exit' not in ops)
        ctx.violation({'check': 'C11', 'kind': 'connection_never_released' if stuck else 'trace_rejected', 'family': r['family'], 'last_step': stuck[0] if stuck else None},
                      'scenario %s: %s; first unexplained event %s; connections without exit stopped at %s'
                      % (r['scenario'], r['invariant'] or 'not a behaviour of ProxyServer.tla', r['event'], stuck), r)
    for sc in report:
        if sc['family'] == 'leakcheck':
            if sc.get('error') or sc.get('off'):
                raise vf.Inconclusive('goroutine census: %s' % (sc.get('error') or 'not run'))
            for g in sc.get('leaked') or []:
                ctx.violation({'check': 'C11', 'kind': 'goroutine_never_ended'},
                              'after every scenario ended and every server was stopped (%.0f s after the stalled HTTP/2 clients connected) a goroutine is still inside the proxy: %s' % (sc.get('waited_s', 0), g), sc)
        if sc['family'] == 'timeouts':
            for c in sc.get('not_cut_by_proxy') or []:
                ctx.violation({'check': 'C11', 'kind': 'not_cut_by_proxy', 'conn_kind': c.split(':')[1]},
                              'scenario %s: connection %s still open %.1fs after going idle/stalling (handshake timeout 200ms, idle timeout 300ms)'
                              % (sc['name'], c, sc['latency'].get('all_cut_after_s', -1)), sc)
        if sc['family'] == 'pending':
            for c in sc.get('still_served_6s_after_the_client_left') or []:
                ctx.violation({'check': 'C11', 'kind': 'connection_never_released', 'family': 'pending', 'conn_kind': c.split(':')[-1]},
                              'scenario %s: connection %s was still being served 6 s after its client had left (a complete request was with a backend that does not answer; '
                              'no timeout is configured that could end it later)' % (sc['name'], c), sc)
        for n in sc.get('notes') or []:
            if 'never logged exit' in n and sc['name'] in accepted:
                ctx.violation({'check': 'C11', 'kind': 'connection_never_released', 'family': sc['family']}, 'scenario %s: %s' % (sc['name'], n), sc)
    # the timeout flags as wired by fingerproxy.go: read back from both servers and observed on real connections
    for wout, how in zip(wiring.run_wiring(ctx, wiring.timeout_configs()), ('command line', 'environment')):
        w, cuts = wout['wiring'], wout['cuts_ms']
        if (w.get('handshake'), w.get('idle'), w.get('read'), w.get('write')) != ('250ms', '300ms', '7s', '9s'):
            ctx.violation({'check': 'C11', 'kind': 'flag_wiring'}, 'timeout settings 250ms/300ms/7s/9s (%s) arrive at the servers as %s' % (how, w), wout)
        for k, lim in (('stall', 250), ('h1_idle', 300), ('h2_idle', 300)):
            v = cuts.get(k)
            if v is None or v < 0 or v > 10 * lim + 1000:
                ctx.violation({'check': 'C11', 'kind': 'not_cut_by_proxy', 'conn_kind': 'wired:' + k},
                              'real wiring (%s), handshake timeout 250ms, idle timeout 300ms: %s connection cut after %s ms (-1 = still open after 4 s)' % (how, k, v), wout)
    cov = {'traces_validated_against_impl': len(accepted), 'real_flag_wiring': {'servers': w, 'cut_after_ms': cuts}, 'samples': [{'trace_prefix': lc.sample_trace(lines)}],
           'scenarios': [s['name'] for s in report if s['family'] not in ('panic', 'leakcheck')],
           'goroutine_census': [s for s in report if s['family'] == 'leakcheck'], 'events': len(lines),
           'timeouts_scenario': [s.get('latency') for s in report if s['family'] == 'timeouts'],
           'rule': 'a trace is accepted only if every accepted connection reaches exit with its raw conn closed and counted; client aborts at random byte offsets of '
                   'HTTP/1.1 and HTTP/2 sessions, garbage, plain HTTP, stalled handshakes, the gated hand-off race, clients that never close'}
    return ctx.finish(cov, assumptions=['real-time verdicts only after >= 10x the configured timeout', 'goroutine release is observed through the conn.exit hook of serveConn'])
