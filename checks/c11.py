"""C11 - every connection's resources are released; stalled and idle clients are cut.

TLC: ProxyServer.tla, EventuallyReleased under fairness (+ the invariants).  Binding: trace validation of abort / stall / garbage
scenarios: every accepted connection must reach exit with the raw conn closed (ScenarioDone at the end of every trace), TLC's
hand-off race (cancel between handshake and hand-off) forced with a gate, and the timeout scenario in which clients keep their side
open: the proxy itself must cut the stalled handshake and the idle HTTP/1.1 and HTTP/2 connections (bound: > 10x the timeouts).
"""
import lccommon as lc
import vf


def run(ctx):
    ctx.tlc('ProxyServer', 'MC_PS_c11_quick.cfg', label='EventuallyReleased (liveness under fairness)', timeout=1800)
    trace, report = lc.record(ctx)
    accepted, rejected, lines = lc.validate(ctx, trace)
    for r in rejected:
        st = lc.conn_state_at_end(r['events'])
        stuck = sorted(ops[-1] for c, ops in st.items() if 'accept' in ops and 'exit' not in ops)
        ctx.violation({'check': 'C11', 'kind': 'connection_never_released' if stuck else 'trace_rejected', 'family': r['family'], 'last_step': stuck[0] if stuck else None},
                      'scenario %s: %s; first unexplained event %s; connections without exit stopped at %s'
                      % (r['scenario'], r['invariant'] or 'not a behaviour of ProxyServer.tla', r['event'], stuck), r)
    for sc in report:
        if sc['family'] == 'timeouts':
            for c in sc.get('not_cut_by_proxy') or []:
                ctx.violation({'check': 'C11', 'kind': 'not_cut_by_proxy', 'conn_kind': c.split(':')[1]},
                              'scenario %s: connection %s still open %.1fs after going idle/stalling (handshake timeout 200ms, idle timeout 300ms)'
                              % (sc['name'], c, sc['latency'].get('all_cut_after_s', -1)), sc)
        for n in sc.get('notes') or []:
            if 'never logged exit' in n and sc['name'] in accepted:
                ctx.violation({'check': 'C11', 'kind': 'connection_never_released', 'family': sc['family']}, 'scenario %s: %s' % (sc['name'], n), sc)
    cov = {'traces_validated_against_impl': len(accepted), 'samples': [{'trace_prefix': lc.sample_trace(lines)}],
           'scenarios': [s['name'] for s in report if s['family'] != 'panic'], 'events': len(lines),
           'timeouts_scenario': [s.get('latency') for s in report if s['family'] == 'timeouts'],
           'rule': 'a trace is accepted only if every accepted connection reaches exit with its raw conn closed and counted; client aborts at random byte offsets of '
                   'HTTP/1.1 and HTTP/2 sessions, garbage, plain HTTP, stalled handshakes, the gated hand-off race, clients that never close'}
    return ctx.finish(cov, assumptions=['real-time verdicts only after >= 10x the configured timeout', 'goroutine release is observed through the conn.exit hook of serveConn'])
