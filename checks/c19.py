"""C19 - HTTP/2 frame codec round-trips; the reader survives any bytes.

TLC: H2Frame.tla - the framer's checks in code order (Outcome) refine what RFC 7540 permits (Allowed) for every abstract frame in
every HEADERS/CONTINUATION state, at two read limits; H2FrameWrite.tla - each Write* call maps to one abstract frame.
Binding: every edge of the read graph serialized by the harness and read by the real Framer (+ truncation at every offset, random
single-bit corruption as exploration); every write vector byte-compared with the harness serialization and read back.
"""
import os

import tlaval
import vf

FILES = ['common/graph_test.go', 'http2/c19_test.go']


def run(ctx):
    t = ctx.tier
    total_edges = 0
    reads = []
    for cfg, maxread in (('MC_C19_read.cfg', 16384), ('MC_C19_read_small.cfg', 20)):
        gpath, g, r = vf.tlc_graph(ctx, 'H2Frame', cfg, 'c19read%d' % maxread)
        rr = vf.run_overlay_driver(ctx, 'pkg/http2', FILES, '^TestVFC19Read$',
                                   env={'VF_GRAPH': gpath, 'VF_MAXREAD': str(maxread), 'VF_MUTATIONS': '2' if t == 'quick' else '150'},
                                   out_name='c19r%d.json' % maxread)
        vf.absorb(ctx, rr)
        reads.append(rr)
        total_edges += rr['edges_total']
    dump = os.path.join(ctx.scratch, 'c19w')
    ctx.tlc('H2FrameWrite', 'MC_C19_write.cfg', dump=dump, label='write vectors')
    states = tlaval.parse_dump(dump + '.dump')
    vecs = [{'op': s['op'], 'frame': s['frame']} for s in states]
    vin = os.path.join(ctx.scratch, 'c19w.json')
    vf.write_graph(vecs, vin)
    rw = vf.run_overlay_driver(ctx, 'pkg/http2', FILES, '^TestVFC19Write$', env={'VF_VECTORS': vin}, out_name='c19w_out.json')
    vf.absorb(ctx, rw)
    if rw['steps'] != len(vecs):
        raise vf.Inconclusive('write driver ran %d of %d vectors' % (rw['steps'], len(vecs)))
    # header blocks through ReadMetaHeaders: every history of H2Meta.tla on one Framer
    mdump = os.path.join(ctx.scratch, 'c19m')
    ctx.tlc('H2Meta', 'MC_C19_meta%s.cfg' % ('_thorough' if t == 'thorough' else ''), dump=mdump, label='header blocks across a connection (H2Meta)')
    mstates = tlaval.parse_dump(mdump + '.dump')
    mvin = os.path.join(ctx.scratch, 'c19m.json')
    vf.write_graph([{'hist': s['hist'], 'table': s['table'], 'out': s['out']} for s in mstates], mvin)
    rm = vf.run_overlay_driver(ctx, 'pkg/http2', FILES, '^TestVFC19Meta$', env={'VF_VECTORS': mvin}, out_name='c19m_out.json')
    vf.absorb(ctx, rm)
    cov = {
        'traces_validated_against_impl': sum(r['steps'] for r in reads) + rw['steps'] + rm['paths'],
        'meta_header_histories': rm['paths'], 'meta_header_blocks_by_kind': rm['actions'],
        'samples': (reads[0].get('samples') or [])[:3] + (rw.get('samples') or [])[:2],
        'exhaustive': True,
        'read_edges_replayed': total_edges, 'read_by_type': reads[0]['actions'],
        'read_outcomes_differing_from_code_order_layer': [(r.get('extra') or {}).get('outcomes_differing_from_implementation_shaped_layer') for r in reads],
        'truncation_cases': sum(r['extra']['truncation_cases'] for r in reads),
        'random_mutations_exploration': sum((r.get('extra') or {}).get('random_mutations', 0) for r in reads),
        'long_lived_reader_frames (one Framer, seeded orders, default and SetReuseFrames)': sum(r['actions'].get('long_lived_reader_frames', 0) for r in reads),
        'write_vectors': rw['steps'], 'write_by_method': rw['actions'],
        'rule': 'read: one case per (abstract frame, open-header-block state) edge of the TLC graph at read limits 16384 and 20; '
                'write: one case per state of H2FrameWrite.tla',
    }
    return ctx.finish(cov, assumptions=['the harness frame serializer is trusted', 'ShortPrefix (PADDED/PRIORITY prefix cut short -> io.ErrUnexpectedEOF) is a named deviation, accepted',
                                        'purely random byte strings are not a TLA+ notion: modelled malformation families are exhaustive, bit flips are sampled',
                                        'HPACK decoding itself is C18; here the Framer-level treatment of header blocks in sequence (H2Meta.tla)'])
