"""./check setup - run once after a fresh restore, offline.  Verifies the tools and warms the Go build cache."""
import os
import shutil
import subprocess
import sys
import vf


def run():
    ok = True
    for tool in ('tlc', 'go', 'java'):
        if not shutil.which(tool):
            print('setup: missing tool', tool)
            ok = False
    ctx = vf.Ctx('setup', 'quick', 1)
    env = ctx.goenv()
    # harness module: compile everything once (also proves the module cache is sufficient offline)
    p = subprocess.run(['go', 'build', '-modfile=' + ctx.harness_modfile(), '-tags', 'verif', '-o', os.devnull, './...'],
                       cwd=os.path.join(vf.VERIF, 'harness'), env=env, stdout=subprocess.PIPE, stderr=subprocess.STDOUT, text=True)
    if p.returncode != 0:
        # building several main packages to /dev/null is refused by go; fall back to vet-less compile of each
        p = subprocess.run(['go', 'vet', '-modfile=' + ctx.harness_modfile(), '-tags', 'verif', './...'],
                           cwd=os.path.join(vf.VERIF, 'harness'), env=env, stdout=subprocess.PIPE, stderr=subprocess.STDOUT, text=True)
    print('setup: harness build rc=%d' % p.returncode)
    if p.returncode != 0:
        print(vf.tail(p.stdout, 30))
    # repo packages with the verif tag (test binaries are compiled lazily by the checks)
    p2 = subprocess.run(['go', 'build', '-modfile=' + ctx.repo_modfile(), '-tags', 'verif', './...'], cwd=vf.REPO, env=env,
                        stdout=subprocess.PIPE, stderr=subprocess.STDOUT, text=True)
    print('setup: repo build (tags verif) rc=%d' % p2.returncode)
    if p2.returncode != 0:
        print(vf.tail(p2.stdout, 30))
        ok = False
    # TLC smoke test
    try:
        r = ctx.tlc('ClientHelloCaptureLen', 'MC_C04len_quick.cfg', workers=4, timeout=120)
        print('setup: TLC ok (%s distinct states)' % r.get('distinct'))
    except vf.Inconclusive as e:
        print('setup: TLC failed:', e)
        ok = False
    return 0 if ok else 1
