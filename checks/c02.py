"""C02 - X-JA4-Fingerprint equals the JA4 of the ClientHello; order / GREASE invariance.

TLC: JA4.tla - part a and the pre-hash strings of b and c for every hello of the bounded domain; the action property
Invariance checks that no metamorphic move (swap, GREASE insert/delete/alter in ciphers, extensions, supported_versions,
signature_algorithms) changes the fingerprint; >99 shapes.
Binding: every reachable state is a vector through utls + pkg/ja4 (header value and exported pre-hash fields);
the same stack-level runs as C01; SHA-256 by hashlib.
"""
import os

import fpcommon as fc
import tlaval
import vf


def dontcare(h):
    if 16 in h['exts'] and h['alpn']:
        p = h['alpn'][0]
        if p[0] == 'HI':
            return 'AlpnHighByte'
        if len(p) == 1:
            return 'AlpnOneChar'
    return ''


def run(ctx):
    t = ctx.tier
    dump = os.path.join(ctx.scratch, 'c02states')
    ctx.tlc('JA4', 'MC_C02_%s.cfg' % t, dump=dump, label='JA4 exhaustive + metamorphic moves')
    states = tlaval.parse_dump(dump + '.dump')
    os.remove(dump + '.dump')
    hellos = []
    seen = set()
    for s in states:
        key = repr(s['h'])
        if key in seen:
            continue
        seen.add(key)
        hellos.append(s['h'])
    # expected strings for the vectors are evaluated by TLC as well (JA4Ops), in one batch
    abstr = []
    for h in hellos:
        abstr.append({'legacy': h['legacy'], 'ciphers': h['ciphers'], 'exts': h['exts'], 'groups': [29], 'points': [0],
                      'sni': 0 in h['exts'], 'has_alpn': 16 in h['exts'], 'alpn': fc.alpn_from_tokens(h['alpn']),
                      'sigalgs': h['sigalgs'], 'has_sv': 43 in h['exts'], 'sv': h['sv']})
    _, e4 = fc.batch_eval(ctx, [], abstr, name='BatchVec')
    vecs = []
    ndc = 0
    for i, a in enumerate(abstr):
        aa, b, c = e4[i]
        dc = dontcare(hellos[i])
        if dc:
            ndc += 1
        vecs.append({'id': i, 'kind': 'ja4', 'hello': a,
                     'expect': {'ja4': '%s_%s_%s' % (aa, fc.sha12(b), fc.sha12(c)), 'a': aa, 'bpre': b, 'cpre': c, 'dontcare': dc}})
    vin = os.path.join(ctx.scratch, 'vec.json')
    vout = os.path.join(ctx.scratch, 'vecout.json')
    vf.write_graph(vecs, vin)
    drv = ctx.build_driver('fpdriver')
    ctx.run_driver(drv, ['vectors', vin, vout])
    vo = vf.read_json(vout)
    if vo['evaluated'] != len(vecs):
        raise vf.Inconclusive('driver evaluated %d of %d vectors' % (vo['evaluated'], len(vecs)))
    dc_logged = {}
    for m in vo['mismatches'] or []:
        if m.get('dontcare'):
            dc_logged[m['dontcare']] = dc_logged.get(m['dontcare'], 0) + 1
            continue
        h = m['hello']
        icls = 'model_vector'
        if any((v & 0x0f0f) == 0x0a0a and (v >> 8) == (v & 0xff) for v in h['sigalgs']):
            icls = 'grease_in_signature_algorithms'
        ctx.violation({'check': 'C02', 'kind': 'vector_mismatch', 'field': m['field'], 'input_class': icls},
                      'vector %d: %s = %r, specification says %r for hello %s' % (m['id'], m['field'], m['got'], m['want'],
                                                                                  {k: h[k] for k in ('legacy', 'ciphers', 'exts', 'sv', 'alpn', 'sigalgs')}), m)
    st = fc.run_stack(ctx, drv)
    nconn, nreq, samples, rejected = fc.judge_stack(ctx, st, 'ja4')
    cov = {
        'traces_validated_against_impl': len(vecs) + nconn,
        'samples': (vo.get('samples') or [])[:3] + samples[:4],
        'exhaustive': True,
        'model_vectors_through_real_parser': len(vecs),
        'dont_care_vectors_modelled_as_code': ndc, 'dont_care_disagreements_logged': dc_logged,
        'stack_connections_with_completed_handshake': nconn,
        'stack_requests_checked': nreq,
        'stack_hellos_rejected_by_tls_stack': rejected,
        'stack_requests_not_forwarded_(C08_matter)': ctx.coverage_notes['requests_not_forwarded'],
        'rule': 'function level: one vector per distinct hello among the reachable TLC states (domain + one metamorphic move); '
                'stack level: as C01',
    }
    return ctx.finish(cov, assumptions=[
        'SHA-256 (hashlib / crypto/sha256) and the harness ClientHello synthesizer + wire parser are trusted',
        'dont-care classes (first ALPN value of one character; first ALPN byte > 127) are modelled as the code behaves and only logged',
        'hellos without ciphers / whose supported_versions holds only GREASE are not accepted by the TLS stack: function level only'])
