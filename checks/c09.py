"""C09 - forwarding headers tell the backend the truth about the client.

TLC: Rewrite.tla, invariant Truth.  Binding: every scenario of family "fwd" replayed through the real
listener -> TLS -> {net/http | http2 fork} chain; values read at the recording backend.
"""
import rwcommon as rw
import vf
import wiring


def classify(sc, kind, key):
    return {}


def run(ctx):
    scs = rw.scenarios(ctx, {'fwd'})
    obs = rw.replay(ctx, scs)
    n, samples = rw.judge(ctx, scs, obs, ['X-Forwarded-For', 'X-Forwarded-Host', 'X-Forwarded-Proto', 'Forwarded', 'host'], classify)
    wsc, wobs = wiring.replay_rewrite(ctx, scs, limit=100)
    nw, _ = rw.judge(ctx, wsc, wobs, ['X-Forwarded-For', 'X-Forwarded-Host', 'X-Forwarded-Proto', 'Forwarded', 'host'], lambda sc, kind, key: {'via': 'real_wiring'}) if wsc else (0, [])
    cov = rw.coverage(ctx, scs, n + nw, samples,
                      'one scenario per initial state of family "fwd": protocol x PreserveHost x Host x up to MaxLines client '
                      'X-Forwarded-*/Forwarded lines; peer address is 127.0.0.1 (loopback clients)')
    return ctx.finish(cov, assumptions=['HTTP/2 requests use :scheme https (a client-chosen :scheme of http is outside the quantifier)'])
