"""C16 - requests_total counts every connection exactly once, with true labels.

TLC: ProxyServer.tla invariants CountedOnce, TrueLabels, FailedMeansZero over all interleavings of connections of every kind
(h2, http/1.1, no ALPN, plain HTTP, garbage, stalled handshake) with cancellation, panics and client aborts anywhere.
Binding: trace validation of concurrent multisets of real connections with every outcome (incl. aborts at random byte offsets),
with the `counted` hook attributed to its connection; the Prometheus registry must equal the bag of attributed increments and
the number of accepted connections.
"""
import lccommon as lc
import vf


def run(ctx):
    ctx.tlc('ProxyServer', 'MC_PS_c16_%s.cfg' % ('quick' if ctx.tier == 'quick' else 'quick'), label='lifecycle invariants, all six client kinds', timeout=1800)
    trace, report = lc.record(ctx)
    accepted, rejected, lines = lc.validate(ctx, trace)
    for r in rejected:
        st = lc.conn_state_at_end(r['events'])
        uncounted = [c for c, ops in st.items() if 'accept' in ops and 'counted' not in ops]
        twice = [c for c, ops in st.items() if ops.count('counted') > 1]
        kind = 'counted_twice' if twice else ('accepted_connection_never_counted' if uncounted else 'trace_rejected')
        ctx.violation({'check': 'C16', 'kind': kind, 'family': r['family']},
                      'scenario %s: %s; first unexplained event %s; uncounted=%s twice=%s' % (r['scenario'], r['invariant'] or 'not a behaviour of ProxyServer.tla', r['event'], uncounted, twice),
                      r)
    # panics confined to one connection (child process): the victim is counted once all the same, with the labels known when it panicked
    PANIC_BAG = {'getcertificate': {'ok=0,proto=': 1, 'ok=1,proto=h2': 1, 'ok=1,proto=http/1.1': 2},      # panic during the handshake
                 'connstate-h2': {'ok=1,proto=h2': 2, 'ok=1,proto=http/1.1': 2},                          # panic inside ServeConn of a completed h2 connection
                 'connstate-h1': {'ok=1,proto=h2': 1, 'ok=1,proto=http/1.1': 3},
                 'counterror-h2': {'ok=1,proto=h2': 2, 'ok=1,proto=http/1.1': 2}}                         # panic in a callback of the HTTP/2 serve loop, confined by serveConn's recover                          # panic on the internal server's accept path (HTTP/1.1)
    npanic = 0
    for sc in report:
        if sc['family'] == 'panic' and not sc.get('error') and sc.get('child_metrics') is not None and sc.get('survived'):
            got = {}
            for m in sc['child_metrics']:
                k, v = m.rsplit(' ', 1)
                got[k] = int(float(v))
            want = PANIC_BAG.get(sc['point'])
            npanic += 1
            if want is not None and got != want:
                ctx.violation({'check': 'C16', 'kind': 'labels_after_panic', 'callback': sc['point']},
                              'panic scenario %s (control h1, victim, control h1, control h2): requests_total is %s, expected %s' % (sc['point'], got, want), sc)
    nconn = 0
    for sc in report:
        if sc['family'] == 'panic':
            continue
        nconn += sc['conns']
        reg = {k: v for k, v in (sc.get('registry') or {}).items() if v}
        hook = {k: v for k, v in (sc.get('hook_bag') or {}).items() if v}
        if reg != hook:
            ctx.violation({'check': 'C16', 'kind': 'registry_differs_from_attributed_increments', 'family': sc['family']},
                          'scenario %s: registry %s, increments attributed to connections %s' % (sc['name'], reg, hook), sc)
        if sc['name'] in accepted and sum(reg.values()) != sc['conns']:
            ctx.violation({'check': 'C16', 'kind': 'total_differs_from_connections', 'family': sc['family']},
                          'scenario %s: %d connections, requests_total sums to %s' % (sc['name'], sc['conns'], sum(reg.values())), sc)
    cov = {'traces_validated_against_impl': len(accepted), 'samples': [{'trace_prefix': lc.sample_trace(lines)}],
           'scenarios': [s['name'] for s in report if s['family'] != 'panic'], 'connections': nconn, 'events': len(lines),
           'registries_compared': len([s for s in report if s['family'] != 'panic']), 'panic_scenarios_with_labels_checked': npanic,
           'rule': 'one trace per scenario: a concurrent multiset of client scripts (kinds drawn at random, aborts at random byte offsets), cancellation at the end or at a '
                   'constructed state; accepted iff every event is an enabled step and CountedOnce / TrueLabels / FailedMeansZero hold in every state'}
    return ctx.finish(cov, assumptions=['the counted hook runs on the connection goroutine and is attributed through the goroutine id recorded at conn.start',
                                        'guards that depend on what the log cannot know (client gone, race with cancellation) are dropped in the trace specification'])
