"""C15 - probe requests are answered locally; everything else is forwarded.

TLC: Rewrite.tla, invariant ProbeXor.  Binding: every scenario of family "probe" (User-Agent variants x probe text elsewhere x
method x path x protocol x probe support on/off) replayed through the real stack.
"""
import rwcommon as rw
import vf


def classify(sc, kind, key):
    ua = sc['req']['ua']
    return {'ua_lines': len(ua)}


def run(ctx):
    scs = rw.scenarios(ctx, {'probe'})
    # several disagreeing User-Agent lines: the statement speaks of "the" User-Agent -> dont-care, replayed and logged only
    dc = [s for s in scs if len(s['req']['ua']) > 1]
    main = [s for s in scs if len(s['req']['ua']) <= 1]
    obs = rw.replay(ctx, scs)
    n, samples = rw.judge(ctx, main, obs, [], classify)
    dc_local = sum(1 for s in dc if obs[s['id']].get('body') == 'OK')
    cov = rw.coverage(ctx, main, n, samples,
                      'one scenario per initial state of family "probe"; local reply (200 "OK", backend untouched) XOR exactly one forward')
    cov['dont_care_two_user_agent_lines'] = {'replayed': len(dc), 'answered_locally': dc_local}
    return ctx.finish(cov, assumptions=['the flag -> predicate wiring of fingerproxy.go is replicated by the harness (stack.Options.Probe)'])
