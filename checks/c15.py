"""C15 - probe requests are answered locally; everything else is forwarded.

TLC: Rewrite.tla, invariant ProbeXor.  Binding: every scenario of family "probe" (User-Agent variants x probe text elsewhere x
method x path x protocol x probe support on/off) replayed through the real stack.
"""
import rwcommon as rw
import vf
import wiring


def classify(sc, kind, key):
    ua = sc['req']['ua']
    return {'ua_lines': len(ua)}


def run(ctx):
    scs = rw.scenarios(ctx, {'probe'})
    # two User-Agent lines: "the User-Agent" is the first line (net/http's Request.UserAgent) or, read as one list-valued field, the lines
    # joined by ", " - both readings begin with the first line, so the verdict is decided by it (Rewrite.tla: req.ua[1]); a later line
    # that begins with kube-probe/ is "that text elsewhere in the User-Agent"
    dc = [s for s in scs if len(s['req']['ua']) > 1]
    main = scs
    obs = rw.replay(ctx, scs)
    n, samples = rw.judge(ctx, main, obs, [], classify)
    wsc, wobs = wiring.replay_rewrite(ctx, main, limit=200)
    nw, _ = rw.judge(ctx, wsc, wobs, [], lambda sc, kind, key: {'via': 'real_wiring'}) if wsc else (0, [])
    naged = wiring.judge_aged(ctx, 'C15')
    dc_local = sum(1 for s in dc if obs[s['id']].get('body') == 'OK')
    cov = rw.coverage(ctx, main, n, samples,
                      'one scenario per initial state of family "probe"; local reply (200 "OK", backend untouched) XOR exactly one forward')
    cov['scenarios_replayed_through_real_flag_wiring'] = nw
    cov['requests_on_connections_older_than_the_handshake_timeout'] = naged
    cov['traces_validated_against_impl'] = n + nw
    cov['two_user_agent_lines'] = {'replayed_and_judged_by_first_line': len(dc), 'answered_locally': dc_local}
    return ctx.finish(cov, assumptions=['HTTP/1.1 scenarios are additionally replayed through the real wiring (flag.Parse -> defaultReverseProxyHTTPHandler -> defaultProxyServer) by an in-package driver'])
