"""C14 - certificate hot-reload is safe and converges.

TLC: CertReload.tla (two plain files: in-place rewrite incl. truncation/garbage, rename-over; kernel event model; watcher steps interleaved with writer
steps, torn two-file reads included) and CertReloadK8s.tla (symlinked ..data directory swap + removal of the old directory): Converges, KeepsLastGood,
ServedIsValidVersion for all interleavings; the variant without the re-Add after REMOVE violates Converges (non-vacuity).
Binding: histories of the serialized models (writer moves at quiescent points) are replayed with real syscalls on a real directory against the real
certwatcher with real inotify; after every step the served pair (version, key matches certificate) is compared with the specification; a real TLS
handshake at the end of every history; a stress phase flips versions under concurrent handshakes.
"""
import os
import random

import vf

WRITER = {'plain': {'InPlace', 'RenameOver', 'Remove', 'Create'}, 'k8s': {'MkDir', 'Swap', 'RmDir'}}


def quiescent_graph(g, layout):
    """derived graph over quiescent states: node -> [(writer step, next quiescent node, current after drain)]"""
    nodes = g['nodes']
    out = [[] for _ in nodes]
    for e in g['edges']:
        out[e[0]].append(e)

    def quiet(i):
        n = nodes[i]
        return n['queue'] == [] and n['wpc'] == 'idle'

    def drain(i):
        seen = 0
        while not quiet(i):
            nxt = [e for e in out[i] if e[2] not in WRITER[layout] and e[2] != 'WriterStops']
            if len(nxt) != 1:
                raise vf.Inconclusive('serialized model is not deterministic while draining (%d successors)' % len(nxt))
            i = nxt[0][1]
            seen += 1
            if seen > 1000:
                raise vf.Inconclusive('drain does not terminate')
        return i
    der = {}
    for i in range(len(nodes)):
        if not quiet(i):
            continue
        lst = []
        for e in out[i]:
            if e[2] in WRITER[layout]:
                j = drain(e[1])
                lst.append((e[2], e[3], j, nodes[j]['current']))
        der[i] = lst
    return der


def step_of(layout, name, args):
    if layout == 'plain':
        if name == 'Remove':
            return {'op': 'remove', 'f': args[0]}
        return {'op': {'InPlace': 'inplace', 'RenameOver': 'rename', 'Create': 'create'}[name], 'f': args[0], 'c': args[1]}
    if name == 'MkDir':
        return {'op': 'mkdir', 'd': args[0], 'ok': args[1]}
    return {'op': 'swap' if name == 'Swap' else 'rmdir', 'd': args[0]}


def sample_paths(der, init, rng, n, depth):
    paths = []
    seen = set()
    tries = 0
    while len(paths) < n and tries < n * 20:
        tries += 1
        i = init
        p = []
        for _ in range(depth):
            if not der.get(i):
                break
            name, args, j, cur = der[i][rng.randrange(len(der[i]))]
            p.append((name, args, cur))
            i = j
        key = repr(p)
        if p and key not in seen:
            seen.add(key)
            paths.append(p)
    return paths


def enumerate_paths(der, init, depth, pred):
    """every path of exactly `depth` writer steps all of which satisfy pred(name, args)"""
    out = []

    def rec(i, p):
        if len(p) == depth:
            out.append(list(p))
            return
        for name, args, j, cur in der.get(i) or []:
            if pred(name, args):
                p.append((name, args, cur))
                rec(j, p)
                p.pop()
    rec(init, [])
    return out


def run(ctx):
    t = ctx.tier
    ctx.tlc('CertReload', 'MC_C14_plain_full%s.cfg' % ('_thorough' if t == 'thorough' else ''), label='plain files, all interleavings (torn reads included)', timeout=1800)
    ctx.tlc('CertReloadK8s', 'MC_C14_k8s_full.cfg', label='kubernetes layout, all interleavings', timeout=1800)
    ctx.tlc('CertReload', 'MC_C14_plain_rm_full.cfg', label='plain files that may be unlinked and created again, all interleavings', timeout=1800)
    for cfg, what in (('MC_C14_plain_mutant.cfg', 'without re-Add after REMOVE'), ('MC_C14_plain_rm_mutant.cfg', 'a watcher that re-reads only the file named by the event')):
        r = ctx.tlc('CertReload', cfg, label='%s: must violate Converges' % what, expect_ok=False, timeout=900)
        if r['violation'] != 'invariant Converges':
            raise vf.Inconclusive('non-vacuity guard failed for %s (%s)' % (cfg, r['violation']))
    # what a handshake holds (pointer to a pair that must not change under it): pointer swap holds, overwriting in place fails
    ctx.tlc('CertHandout', 'MC_C14_handout.cfg', label='a handshake in progress across reloads keeps one pair (pointer swap)', timeout=300)
    r = ctx.tlc('CertHandout', 'MC_C14_handout_mutant.cfg', label='reload overwrites the struct in place: must violate PairStaysWhole', expect_ok=False, timeout=300)
    if r['violation'] != 'invariant PairStaysWhole':
        raise vf.Inconclusive('non-vacuity guard failed for CertHandout (%s)' % r['violation'])
    rng = random.Random(ctx.seed)
    hist = []
    expect = {}
    for layout, module, cfg, n, depth in (('plain', 'CertReload', 'MC_C14_plain_ser%s.cfg' % ('_thorough' if t == 'thorough' else ''), 320 if t == 'quick' else 3000, 4),
                                          ('rot', 'CertReload', 'MC_C14_plain_rot%s.cfg' % ('_thorough' if t == 'thorough' else ''), 0, 0),
                                          ('rm', 'CertReload', 'MC_C14_plain_rm_ser.cfg', 0, 0),
                                          ('k8s', 'CertReloadK8s', 'MC_C14_k8s_ser.cfg', 120 if t == 'quick' else 600, 7)):
        gpath, g, _ = vf.tlc_graph(ctx, module, cfg, 'c14' + layout, timeout=1800)
        rot = layout == 'rot'
        rm = layout == 'rm'
        if rot or rm:
            layout = 'plain'
        der = quiescent_graph(g, layout)
        if rm:
            # files that go missing and come back (unlink, create at the vacant path): every history of three steps with a removal in it -
            # all of those that re-create the file, a sample of the others in the quick tier
            allp = [p for p in enumerate_paths(der, g['init'][0], 3, lambda nm, a: True) if any(nm == 'Remove' for nm, _, _ in p)]
            back = [p for p in allp if any(nm == 'Create' for nm, _, _ in p)]
            rest = [p for p in allp if not any(nm == 'Create' for nm, _, _ in p)]
            rng.shuffle(rest)
            if t == 'quick':
                rest = rest[:150]
            for p in back + rest:
                hid = len(hist)
                hist.append({'id': hid, 'layout': layout, 'steps': [step_of(layout, nm, a) for nm, a, _ in p], 'removal_family': True})
                expect[hid] = [c for _, _, c in p]
        for p in sample_paths(der, g['init'][0], rng, n, depth):
            hid = len(hist)
            hist.append({'id': hid, 'layout': layout, 'steps': [step_of(layout, nm, a) for nm, a, _ in p]})
            expect[hid] = [c for _, _, c in p]
        if rot:
            # exhaustive for rotations proper (model restricted to renaming valid versions over the files): every history of 4 steps - two
            # complete rotations in every order of files and versions (256) - in the quick tier, of 5 and 6 steps sampled in the thorough tier
            seenp = set()
            depths = [4] if t == 'quick' else [4, 5, 6]
            for dp in depths:
                allp = enumerate_paths(der, g['init'][0], dp, lambda nm, a: True)
                if dp > 4:
                    rng.shuffle(allp)
                    allp = allp[:1500]
                for p in allp:
                    key = repr([(nm, a) for nm, a, _ in p])
                    if key in seenp:
                        continue
                    seenp.add(key)
                    hid = len(hist)
                    hist.append({'id': hid, 'layout': layout, 'steps': [step_of(layout, nm, a) for nm, a, _ in p], 'exhaustive_family': True})
                    expect[hid] = [c for _, _, c in p]
    vin = os.path.join(ctx.scratch, 'c14_in.json')
    vout = os.path.join(ctx.scratch, 'c14_out.json')
    vf.write_graph(hist, vin)
    drv = ctx.build_driver('c14driver')
    ctx.run_driver(drv, ['replay', vin, vout], timeout=2400)
    obs = {o['id']: o for o in vf.read_json(vout)}
    suspects = []
    nerr = 0
    for h in hist:
        o = obs[h['id']]
        if o.get('err'):
            nerr += 1
            continue
        if o['current'] != expect[h['id']] or (o['handshake'] != expect[h['id']][-1]):
            suspects.append(h)
    if nerr > 3:
        raise vf.Inconclusive('%d histories failed in the harness: %s' % (nerr, [o['err'] for o in obs.values() if o.get('err')][:2]))
    # a mismatch becomes a verdict only if it persists when the history is replayed alone (no other load on the machine)
    confirmed = 0
    for h in suspects[:12]:
        again = []
        for k in range(2):
            one = os.path.join(ctx.scratch, 'c14_one.json')
            oneo = os.path.join(ctx.scratch, 'c14_one_out.json')
            vf.write_graph([h], one)
            ctx.run_driver(drv, ['replay', one, oneo], timeout=300)
            again.append(vf.read_json(oneo)[0])
        if all(a.get('current') != expect[h['id']] or a.get('handshake') != expect[h['id']][-1] for a in again):
            confirmed += 1
            a = again[0]
            bad = next((i for i, (x, y) in enumerate(zip(a.get('current') or [], expect[h['id']])) if x != y), len(h['steps']) - 1)
            stepk = h['steps'][bad]
            kind = 'mismatching_key_served' if -2 in (a.get('current') or []) else ('not_converged' if expect[h['id']][bad] not in (a.get('current') or [None])[bad:bad + 1] else 'handshake_differs')
            ctx.violation({'check': 'C14', 'kind': kind, 'layout': h['layout'], 'op': stepk['op']},
                          '%s layout, steps %s: served versions %s (handshake %s), specification says %s' % (h['layout'], h['steps'], a.get('current'), a.get('handshake'), expect[h['id']]),
                          {'history': h, 'observed': a, 'expected': expect[h['id']]})
    sout = os.path.join(ctx.scratch, 'c14_stress.json')
    ctx.run_driver(drv, ['stress', sout], timeout=300)
    st = vf.read_json(sout)
    sfail = st.get('straddling_failures') or []
    if any('not a verdict' in x for x in sfail) and not ctx.violations:
        # (a watcher that does not reload at all has its verdict from the histories above; only without one is this run inconclusive)
        raise vf.Inconclusive('straddling handshakes: %s' % sfail[:2])
    sfail = [x for x in sfail if 'not a verdict' not in x]
    if sfail:
        ctx.violation({'check': 'C14', 'kind': 'handshake_across_reload_fails'}, 'a handshake that was in progress while the pair was rotated and reloaded: %s' % sfail[0], st)
    if st['handshakes_with_mismatching_key'] or st['handshakes_other']:
        ctx.violation({'check': 'C14', 'kind': 'bad_pair_presented_under_stress'}, 'stress: %s' % st, st)
    # the TLS configuration as the program wires it (defaultTLSConfig + initCertWatcher): every kind of client is shown the pair that is
    # current - before a rotation, after a rename-over, after an in-place rewrite
    import wiring
    wired = []
    for wout, how in zip(wiring.run_wiring(ctx, wiring.cert_configs()), ('command line, canonical paths', 'environment, paths with a "." segment', 'command line, paths with a doubled slash', 'command line, relative paths')):
        if wout.get('err'):
            raise vf.Inconclusive('wiring driver: %s' % wout['err'])
        for pi, ph in enumerate(wout.get('certs') or []):
            want = ph['want']
            if ph.get('sni') != want:
                if pi == 0:
                    raise vf.Inconclusive('wiring driver: the first handshake is not shown the start-up pair: %s' % ph)
            for kind, got in sorted(ph.items()):
                if kind == 'want' or got == want:
                    continue
                ctx.violation({'check': 'C14', 'kind': 'stale_or_no_certificate', 'client': kind, 'via': 'real_wiring'},
                              'real wiring (%s), phase %d (0 = start-up pair, 1 = after rename-over, 2 = after in-place rewrite, 3 = after a rewrite to a pair that covers another name only): a client of kind %s is shown serial %s (-1 = handshake failed), current pair has serial %s' % (how, pi, kind, got, want), wout)
            wired.append(ph)
    samples = []
    for h in hist[:400:97]:
        samples.append({'layout': h['layout'], 'steps': h['steps'], 'spec_served_after_each_step': expect[h['id']], 'observed': obs[h['id']].get('current'),
                        'fsnotify_events': (obs[h['id']].get('events') or [])[:8]})
    cov = {'traces_validated_against_impl': len(hist) - nerr, 'samples': samples,
           'histories': {'plain': len([h for h in hist if h['layout'] == 'plain']), 'k8s': len([h for h in hist if h['layout'] == 'k8s'])},
           'real_wiring_phases (serial shown to each kind of client; want = current pair)': wired, 'first_pass_mismatches_rechecked': len(suspects), 'confirmed_mismatches': confirmed, 'stress': st,
           'model_only': 'the strict reading "the served pair was on disk at one instant" is violated in the model by a torn two-file read inside tls.LoadX509KeyPair '
                         '(cert:=v1, read cert, cert:=garbage, key:=v1, read key); it cannot be forced on the code from outside the standard library and is not asserted',
           'rule': 'histories = random walks over the quiescent-state graph derived from the serialized TLC model (2 files x contents {v0,v1,v2,empty,garbage} x {in-place, rename-over}; '
                   'kubernetes: new version dir (good / mismatching) x ..data swap x removal of old dirs)'}
    return ctx.finish(cov, assumptions=['quiescence = certwatcher.event hooks received == handled and stable for 40 ms (verdicts only after a solitary re-run)',
                                        'after a file was unlinked and created again nobody watches it (inodes are watched, not paths): convergence is claimed for histories whose last step the watcher was told about; rename-away, extra hard links and a symlink swap whose old directory is never removed are outside the quantifier'])
