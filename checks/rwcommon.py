"""Shared by C05, C09, C15 (and the header clause of C08): scenarios and expected backend view from the final states of
Rewrite.tla, replayed through the real stack by harness/cmd/rwdriver."""
import os

import tlaval
import vf

FP_KEYS = ['X-Ja3-Fingerprint', 'X-Ja4-Fingerprint', 'X-Http2-Fingerprint', 'X-Custom-Fingerprint']
SYMBOL = {'JA3': 'X-Ja3-Fingerprint', 'JA4': 'X-Ja4-Fingerprint', 'H2FP': 'X-Http2-Fingerprint'}


def scenarios(ctx, families):
    dump = os.path.join(ctx.scratch, 'rwstates')
    ctx.tlc('Rewrite', 'MC_Rewrite_%s.cfg' % ctx.tier, dump=dump, label='Rewrite pipeline, all scenarios')
    states = tlaval.parse_dump(dump + '.dump')
    os.remove(dump + '.dump')
    out = []
    for s in states:
        if s['pc'] != 'done' or s['req']['fam'] not in families:
            continue
        exp = {}
        for line in s['outH']:
            exp.setdefault(line[0], []).append(line[1])
        out.append({'id': len(out), 'req': s['req'],
                    'expect': {'outT': s.get('outT') or [], 'rejected': s['rejected'], 'local': s['local'], 'forwarded': s['forwarded'], 'outHost': s['outHost'], 'out': exp}})
    if not out:
        raise vf.Inconclusive('no scenarios for %s' % families)
    return out


def replay(ctx, scs):
    vin = os.path.join(ctx.scratch, 'rw_in.json')
    vout = os.path.join(ctx.scratch, 'rw_out.json')
    vf.write_graph(scs, vin)
    drv = ctx.build_driver('rwdriver')
    ctx.run_driver(drv, [vin, vout], timeout=1500)
    obs = {o['id']: o for o in vf.read_json(vout)}
    if len(obs) != len(scs):
        raise vf.Inconclusive('driver returned %d observations for %d scenarios' % (len(obs), len(scs)))
    return obs


def subst(v, o):
    if v in SYMBOL:
        b = (o.get('baseline') or {}).get(SYMBOL[v]) or []
        return b[0] if len(b) == 1 else '<no baseline %s>' % v
    if v == 'CUSTOM':
        return 'custom-computed'
    return v.replace('PEER', o.get('peer') or '127.0.0.1')


def brief(req):
    return {k: req[k] for k in ('fam', 'proto', 'kind', 'probe', 'preserveHost', 'host', 'custom', 'ua', 'probeText', 'method', 'path', 'scheme', 'prefix') if k in req} | \
        {'trailer_section': ['%s(%s): %s' % (l['k'], l['sp'], l['v']) for l in req.get('trailers') or []], 'lines': ['%s(%s): %s' % (l['k'], l['sp'], l['v']) for l in req['lines']], 'lines_before_user_agent': ['%s(%s): %s' % (l['k'], l['sp'], l['v']) for l in req.get('pre') or []]}


def judge(ctx, scs, obs, keys_of_interest, classify):
    """classify(sc, kind, key) -> signature dict additions.  Returns (#replayed, samples)."""
    n = 0
    samples = []
    errs = 0
    for sc in scs:
        o = obs[sc['id']]
        e = sc['expect']
        req = sc['req']
        rep = {'scenario': brief(req), 'expected': e, 'observed': {k: o.get(k) for k in ('status', 'body', 'forwarded', 'host', 'headers', 'trailers', 'err', 'wire')}}
        if o.get('err') and (o['err'].startswith('h1: ') or o['err'].startswith('h2: stream reset')) and 'timeout' not in o['err']:
            # the connection was healthy (its baseline request had just been served) and the proxy ended this exchange without a response
            sig = {'check': ctx.prop, 'proto': req['proto'], 'fam': req['fam'], 'kind': 'no_response'}
            sig.update(classify(sc, 'no_response', None) or {})
            ctx.violation(sig, 'the proxy ended the exchange without a response (%s) | scenario %s' % (o['err'], brief(req)), rep)
            n += 1
            continue
        if o.get('err'):
            errs += 1
            if errs > max(3, len(scs) // 50):
                raise vf.Inconclusive('too many harness errors, e.g. %s on %s' % (o['err'], brief(req)))
            continue
        n += 1
        base = {'check': ctx.prop, 'proto': req['proto'], 'fam': req['fam']}

        def viol(kind, what, key=None):
            sig = dict(base)
            sig['kind'] = kind
            if key:
                sig['header'] = key
            sig.update(classify(sc, kind, key) or {})
            ctx.violation(sig, '%s | scenario %s' % (what, brief(req)), rep)

        if e['rejected']:
            if o['forwarded'] != 0:
                viol('forwarded_when_server_must_reject', 'request with connection-specific header on HTTP/2 reached the backend')
            continue
        if e['local']:
            if o['forwarded'] != 0:
                viol('probe_forwarded', 'probe request was forwarded to the backend %d times' % o['forwarded'])
            if o['status'] != 200 or o['body'] != 'OK':
                viol('probe_reply_wrong', 'probe answered with status %s body %r (expected 200 "OK")' % (o['status'], o['body']))
            continue
        # must be forwarded exactly once and not answered locally
        if o['forwarded'] != 1:
            viol('not_forwarded' if o['forwarded'] == 0 else 'forwarded_twice',
                 'request forwarded %d times (status %s, body %r)' % (o['forwarded'], o['status'], o['body'][:40]))
            continue
        if o['body'] != 'backend-ok':
            viol('answered_locally_and_forwarded', 'client got %r although the request was forwarded' % o['body'][:40])
        if 'host' in keys_of_interest:
            want = o['backend_host'] if e['outHost'] == 'BACKEND' else e['outHost']
            if o['host'] != want:
                viol('host_wrong', 'backend saw Host %r, specification says %r' % (o['host'], want), 'Host')
        if 'target' in keys_of_interest:
            want_t = req.get('wantTarget', req['path'])
            if o.get('uri') != want_t or o.get('method') != req['method']:
                viol('request_line_changed', 'backend saw %r %r, client sent %r %r (forward URL path %r)' % (o.get('method'), o.get('uri'), req['method'], req['path'], req.get('prefix', '')), 'request-line')
        for k in keys_of_interest:
            if k in ('host', 'target'):
                continue
            want = [subst(v, o) for v in e['out'].get(k, [])]
            got = o['headers'].get(k, [])
            if k == 'Accept-Encoding' and not want:
                continue    # dont-care: Go's transport asks for gzip (and undoes it) when the client sent no Accept-Encoding
            if got != want and k == 'X-Http2-Fingerprint' and req.get('trailers') and len(want) == 1 and len(got) == 1 and got[0] == want[0].rsplit('|', 1)[0] + '|':
                continue    # the trailer block's HEADERS frame was captured before the handler marshalled: the other instant C03 admits (H2Fingerprint.tla, fpAlt) - still the proxy's value
            if got != want:
                viol('header_mismatch', 'backend saw %s = %r, specification says %r' % (k, got, want), k)
        if req.get('trailers') and any(k in FP_KEYS for k in keys_of_interest):
            # C05: nothing under a configured fingerprint name in the trailer section the backend received (request trailers as such are
            # not promised by C08: whether the other names arrive is recorded, not judged)
            tnames = set()
            for line in e['outT']:
                tnames.add(line[0])
            for k in FP_KEYS:
                got_t = (o.get('trailers') or {}).get(k, [])
                if got_t and k not in tnames:
                    viol('header_mismatch', 'backend found %s = %r in the TRAILER section of the request; the client sent it there' % (k, got_t), k)
        if len(samples) < 6 and (sc['id'] % 37 == 0):
            samples.append({'scenario': brief(req), 'spec_backend_view': {k: [subst(v, o) for v in e['out'].get(k, [])] for k in keys_of_interest if k not in ('host', 'target')},
                            'observed': {k: o['headers'].get(k, []) for k in keys_of_interest if k not in ('host', 'target')}, 'request_line': [o.get('method'), o.get('uri')], 'status': o['status']})
    if n == 0:
        raise vf.Inconclusive('nothing replayed')
    return n, samples


def coverage(ctx, scs, n, samples, rule):
    fams = {}
    for sc in scs:
        key = '%s/%s/%s' % (sc['req']['fam'], sc['req']['proto'], sc['req']['kind'])
        fams[key] = fams.get(key, 0) + 1
    return {'traces_validated_against_impl': n, 'samples': samples or [{'scenario': brief(scs[0]['req'])}], 'exhaustive': True,
            'scenarios_by_family_proto_connkind': fams, 'rule': rule}
