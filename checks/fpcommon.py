"""Shared by C01 (JA3) and C02 (JA4): vectors from TLC state dumps, batch evaluation of the specification on
hellos captured from real runs, comparison with what the backend received."""
import hashlib
import json
import os
import re
import subprocess

import tlaval
import vf


def md5hex(s):
    return hashlib.md5(s.encode('latin-1')).hexdigest()


def sha12(s):
    return hashlib.sha256(s.encode('latin-1')).hexdigest()[:12]


def tla_seq(xs):
    return '<<' + ', '.join(str(x) for x in xs) + '>>'


def tla_str(s):
    return '"' + s.replace('\\', '\\\\').replace('"', '\\"') + '"'


def alpn_tokens(hexname):
    out = []
    for b in bytes.fromhex(hexname):
        if b > 127:
            out.append('HI')
        elif 33 <= b <= 126 and chr(b) not in '"\\':
            out.append(chr(b))
        else:
            out.append('?')
    return out


def alpn_from_tokens(seq):
    """model ALPN (sequence of protocols, each a sequence of 1-char tokens) -> list of hex strings"""
    out = []
    for p in seq:
        b = bytes(0xC3 if t == 'HI' else ord(t) for t in p)
        out.append(b.hex())
    return out


def batch_eval(ctx, hellos3, hellos4, name='Batch', chunk=8000):
    """Evaluate JA3String / JA4a / JA4bPre / JA4cPre with TLC on abstract hellos parsed from real ClientHellos.
    Large batches are cut into chunks that are evaluated by several TLC processes side by side."""
    if len(hellos3) + len(hellos4) > chunk:
        return _batch_eval_chunked(ctx, hellos3, hellos4, name, chunk)
    return _batch_eval_one(ctx, hellos3, hellos4, name)


def _batch_module(name, hellos3, hellos4):
    lines = ['---- MODULE %s ----' % name, 'EXTENDS JA3Ops, JA4Ops']
    h3 = []
    for a in hellos3:
        h3.append('[ver |-> %d, ciphers |-> %s, exts |-> %s, groups |-> %s, points |-> %s]'
                  % (a['legacy'], tla_seq(a['ciphers']), tla_seq(a['exts']), tla_seq(a['groups']), tla_seq(a['points'])))
    h4 = []
    for a in hellos4:
        alpn = '<<' + ', '.join('<<' + ', '.join(tla_str(t) for t in alpn_tokens(p)) + '>>' for p in a['alpn']) + '>>'
        h4.append('[legacy |-> %d, ciphers |-> %s, exts |-> %s, sv |-> %s, alpn |-> %s, sigalgs |-> %s]'
                  % (a['legacy'], tla_seq(a['ciphers']), tla_seq(a['exts']), tla_seq(a['sv']), alpn, tla_seq(a['sigalgs'])))
    lines.append('H3 == <<' + ',\n  '.join(h3) + '>>')
    lines.append('H4 == <<' + ',\n  '.join(h4) + '>>')
    lines.append('ASSUME \\A i \\in 1..Len(H3) : PrintT(<<"JA3", i, JA3String(H3[i])>>)')
    lines.append('ASSUME \\A i \\in 1..Len(H4) : PrintT(<<"JA4", i, JA4a(H4[i]), JA4bPre(H4[i]), JA4cPre(H4[i])>>)')
    lines.append('====')
    return '\n'.join(lines) + '\n'


def _parse_batch(out, n3, n4):
    out3, out4 = {}, {}
    for m in re.finditer(r'<<\s*"JA3",.*?>>', out, re.S):
        v = tlaval.parse_value(m.group(0))
        out3[v[1] - 1] = v[2]
    for m in re.finditer(r'<<\s*"JA4",.*?>>', out, re.S):
        v = tlaval.parse_value(m.group(0))
        out4[v[1] - 1] = (v[2], v[3], v[4])
    if len(out3) != n3 or len(out4) != n4:
        raise vf.Inconclusive('batch evaluation returned %d/%d of %d/%d results' % (len(out3), len(out4), n3, n4))
    return out3, out4


def _batch_eval_one(ctx, hellos3, hellos4, name):
    d = ctx.specdir()
    open(os.path.join(d, name + '.tla'), 'w').write(_batch_module(name, hellos3, hellos4))
    open(os.path.join(d, name + '.cfg'), 'w').write('\n')
    r = ctx.tlc(name, name + '.cfg', workers=1, timeout=300, expect_ok=False, label='batch evaluation of captured hellos')
    if r['errors']:
        raise vf.Inconclusive('batch evaluation failed:\n' + vf.tail(r['out'], 30))
    return _parse_batch(r['out'], len(hellos3), len(hellos4))


def _batch_eval_chunked(ctx, hellos3, hellos4, name, chunk):
    import subprocess
    import time
    from concurrent.futures import ThreadPoolExecutor
    d = ctx.specdir()
    jobs = []
    for kind, lst in (('3', hellos3), ('4', hellos4)):
        for off in range(0, len(lst), chunk):
            jobs.append((kind, off, lst[off:off + chunk]))
    t0 = time.time()

    def one(j):
        k, (kind, off, part) = j
        mod = '%s_%d' % (name, k)
        open(os.path.join(d, mod + '.tla'), 'w').write(_batch_module(mod, part if kind == '3' else [], part if kind == '4' else []))
        open(os.path.join(d, mod + '.cfg'), 'w').write('\n')
        env = dict(os.environ, JAVA_TOOL_OPTIONS='-Xss64m -Xmx4g')
        try:
            p = subprocess.run(['tlc', '-workers', '1', '-metadir', os.path.join(ctx.scratch, 'meta-' + mod), '-config', mod + '.cfg', mod + '.tla'], cwd=d, env=env,
                               stdout=subprocess.PIPE, stderr=subprocess.STDOUT, text=True, timeout=900)
        except subprocess.TimeoutExpired:
            raise vf.Inconclusive('batch evaluation chunk %d timed out' % k)
        if re.search(r'^Error: ', p.stdout, re.M):
            raise vf.Inconclusive('batch evaluation chunk %d failed:\n%s' % (k, vf.tail(p.stdout, 20)))
        o3, o4 = _parse_batch(p.stdout, len(part) if kind == '3' else 0, len(part) if kind == '4' else 0)
        os.remove(os.path.join(d, mod + '.tla'))
        return kind, off, o3, o4
    out3, out4 = {}, {}
    with ThreadPoolExecutor(max_workers=6) as ex:
        for kind, off, o3, o4 in ex.map(one, list(enumerate(jobs))):
            for i, v in o3.items():
                out3[off + i] = v
            for i, v in o4.items():
                out4[off + i] = v
    ctx.tlc_runs.append({'label': 'batch evaluation of %d + %d hellos in %d chunks' % (len(hellos3), len(hellos4), len(jobs)), 'module': name, 'cfg': '-',
                         'wall_s': round(time.time() - t0, 2)})
    return out3, out4


def sni_class(a):
    """D7: tlsx computes the server_name_list length as hi<<8|hi."""
    if not a or not a.get('sni'):
        return None
    ll = len(a.get('sni_name', '')) + 3
    hi, lo = ll >> 8, ll & 255
    return 'sni_list_len_lo_lt_hi' if hi > 0 and lo < hi else None


def run_stack(ctx, binpath):
    out = os.path.join(ctx.scratch, 'stack.json')
    ctx.run_driver(binpath, ['stack', out], timeout=900)
    return vf.read_json(out)


def judge_stack(ctx, st, which):
    """which: 'ja3' | 'ja4'.  Returns (n_handshakes, n_requests_checked, samples, rejected)."""
    cases = [c for c in st['cases']]
    done = [c for c in cases if not c.get('handshake_err') and c.get('abstract')]
    rejected = [c['name'] for c in cases if c.get('handshake_err')]
    e3, e4 = batch_eval(ctx, [c['abstract'] for c in done], [c['abstract'] for c in done])
    nreq = 0
    nfwd = 0
    not_forwarded = []
    samples = []
    for i, c in enumerate(done):
        a = c['abstract']
        if which == 'ja3':
            want = md5hex(e3[i])
            pre = e3[i]
        else:
            aa, b, cc = e4[i]
            want = '%s_%s_%s' % (aa, sha12(b), sha12(cc))
            pre = [aa, b, cc]
        cls = c['class']
        icls = 'normal'
        if c.get('fragmented') or len(c.get('hello_hex') or '') // 2 > 16384:     # more than one record can carry: the TLS stack itself splits it
            icls = 'hello_spans_records'
        elif which == 'ja3' and sni_class(a):
            icls = sni_class(a)
        elif which == 'ja4' and cls == 'd9b':
            icls = 'malformed_body_in_extension_ignored_by_crypto_tls'
        elif which == 'ja4' and cls == 'd12':
            icls = 'first_alpn_value_with_control_bytes'
        if c.get('err') and not c.get('requests'):
            raise vf.Inconclusive('stack case %s failed in the harness: %s' % (c['name'], c['err']))
        for r in c.get('requests') or []:
            nreq += 1
            got = r.get(which) or []
            base = {'check': ctx.prop, 'header': which, 'input_class': icls, 'proto': c['proto'] or 'none'}
            rep = {'case': c['name'], 'hello_hex': c['hello_hex'], 'abstract': a, 'request': r, 'spec_prehash': pre, 'spec_header': want,
                   'segment': c.get('segment'), 'fragmented': c.get('fragmented')}
            if r.get('forwarded', 0) != 1:
                # C01/C02 speak about *forwarded* requests; a request that is not forwarded is C08's business
                not_forwarded.append({'case': c['name'], 'tag': r['tag'], 'status': r.get('status'), 'input_class': icls})
                continue
            nfwd += 1
            if len(got) == 0:
                base['kind'] = 'header_absent'
                ctx.violation(base, '%s: forwarded request %s carries no %s header (spec: %s)' % (c['name'], r['tag'], which, want), rep)
            elif len(got) != 1 or got[0] != want:
                base['kind'] = 'header_wrong'
                ctx.violation(base, '%s: %s header %r, specification says %r (pre-hash %r)' % (c['name'], which, got, want, pre), rep)
        if len(samples) < 5 and i % 7 == 0:
            samples.append({'case': c['name'], 'proto': c['proto'], 'abstract_hello': a, 'spec_prehash': pre, 'spec_header': want,
                            'observed': [r.get(which) for r in c.get('requests') or []]})
    if nfwd < max(4, nreq // 2):
        raise vf.Inconclusive('only %d of %d requests were forwarded at all; the header property was not exercised' % (nfwd, nreq))
    ctx.coverage_notes = {'requests_not_forwarded': not_forwarded}
    return len(done), nfwd, samples, rejected
