"""Shared by C01 (JA3) and C02 (JA4): vectors from TLC state dumps, batch evaluation of the specification on
hellos captured from real runs, comparison with what the backend received."""
import hashlib
import json
import os
import re
import subprocess

import tlaval
import vf


def md5hex(s):
    return hashlib.md5(s.encode('latin-1')).hexdigest()


def sha12(s):
    return hashlib.sha256(s.encode('latin-1')).hexdigest()[:12]


def tla_seq(xs):
    return '<<' + ', '.join(str(x) for x in xs) + '>>'


def tla_str(s):
    return '"' + s.replace('\\', '\\\\').replace('"', '\\"') + '"'


def alpn_tokens(hexname):
    out = []
    for b in bytes.fromhex(hexname):
        if b > 127:
            out.append('HI')
        elif 33 <= b <= 126 and chr(b) not in '"\\':
            out.append(chr(b))
        else:
            out.append('?')
    return out


def alpn_from_tokens(seq):
    """model ALPN (sequence of protocols, each a sequence of 1-char tokens) -> list of hex strings"""
    out = []
    for p in seq:
        b = bytes(0xC3 if t == 'HI' else ord(t) for t in p)
        out.append(b.hex())
    return out


def batch_eval(ctx, hellos3, hellos4, name='Batch'):
    """Evaluate JA3String / JA4a / JA4bPre / JA4cPre with TLC on abstract hellos parsed from real ClientHellos."""
    d = ctx.specdir()
    lines = ['---- MODULE %s ----' % name, 'EXTENDS JA3Ops, JA4Ops']
    h3 = []
    for a in hellos3:
        h3.append('[ver |-> %d, ciphers |-> %s, exts |-> %s, groups |-> %s, points |-> %s]'
                  % (a['legacy'], tla_seq(a['ciphers']), tla_seq(a['exts']), tla_seq(a['groups']), tla_seq(a['points'])))
    h4 = []
    for a in hellos4:
        alpn = '<<' + ', '.join('<<' + ', '.join(tla_str(t) for t in alpn_tokens(p)) + '>>' for p in a['alpn']) + '>>'
        h4.append('[legacy |-> %d, ciphers |-> %s, exts |-> %s, sv |-> %s, alpn |-> %s, sigalgs |-> %s]'
                  % (a['legacy'], tla_seq(a['ciphers']), tla_seq(a['exts']), tla_seq(a['sv']), alpn, tla_seq(a['sigalgs'])))
    lines.append('H3 == <<' + ',\n  '.join(h3) + '>>')
    lines.append('H4 == <<' + ',\n  '.join(h4) + '>>')
    lines.append('ASSUME \\A i \\in 1..Len(H3) : PrintT(<<"JA3", i, JA3String(H3[i])>>)')
    lines.append('ASSUME \\A i \\in 1..Len(H4) : PrintT(<<"JA4", i, JA4a(H4[i]), JA4bPre(H4[i]), JA4cPre(H4[i])>>)')
    lines.append('====')
    open(os.path.join(d, name + '.tla'), 'w').write('\n'.join(lines) + '\n')
    open(os.path.join(d, name + '.cfg'), 'w').write('\n')
    r = ctx.tlc(name, name + '.cfg', workers=1, timeout=300, expect_ok=False, label='batch evaluation of captured hellos')
    if r['errors']:
        raise vf.Inconclusive('batch evaluation failed:\n' + vf.tail(r['out'], 30))
    out3, out4 = {}, {}
    for m in re.finditer(r'<<\s*"JA3",.*?>>', r['out'], re.S):
        v = tlaval.parse_value(m.group(0))
        out3[v[1] - 1] = v[2]
    for m in re.finditer(r'<<\s*"JA4",.*?>>', r['out'], re.S):
        v = tlaval.parse_value(m.group(0))
        out4[v[1] - 1] = (v[2], v[3], v[4])
    if len(out3) != len(hellos3) or len(out4) != len(hellos4):
        raise vf.Inconclusive('batch evaluation returned %d/%d of %d/%d results' % (len(out3), len(out4), len(hellos3), len(hellos4)))
    return out3, out4


def sni_class(a):
    """D7: tlsx computes the server_name_list length as hi<<8|hi."""
    if not a or not a.get('sni'):
        return None
    ll = len(a.get('sni_name', '')) + 3
    hi, lo = ll >> 8, ll & 255
    return 'sni_list_len_lo_lt_hi' if hi > 0 and lo < hi else None


def run_stack(ctx, binpath):
    out = os.path.join(ctx.scratch, 'stack.json')
    ctx.run_driver(binpath, ['stack', out], timeout=900)
    return vf.read_json(out)


def judge_stack(ctx, st, which):
    """which: 'ja3' | 'ja4'.  Returns (n_handshakes, n_requests_checked, samples, rejected)."""
    cases = [c for c in st['cases']]
    done = [c for c in cases if not c.get('handshake_err') and c.get('abstract')]
    rejected = [c['name'] for c in cases if c.get('handshake_err')]
    e3, e4 = batch_eval(ctx, [c['abstract'] for c in done], [c['abstract'] for c in done])
    nreq = 0
    nfwd = 0
    not_forwarded = []
    samples = []
    for i, c in enumerate(done):
        a = c['abstract']
        if which == 'ja3':
            want = md5hex(e3[i])
            pre = e3[i]
        else:
            aa, b, cc = e4[i]
            want = '%s_%s_%s' % (aa, sha12(b), sha12(cc))
            pre = [aa, b, cc]
        cls = c['class']
        icls = 'normal'
        if c.get('fragmented'):
            icls = 'hello_spans_records'
        elif which == 'ja3' and sni_class(a):
            icls = sni_class(a)
        elif which == 'ja4' and cls == 'd9b':
            icls = 'malformed_body_in_extension_ignored_by_crypto_tls'
        elif which == 'ja4' and cls == 'd12':
            icls = 'first_alpn_value_with_control_bytes'
        if c.get('err') and not c.get('requests'):
            raise vf.Inconclusive('stack case %s failed in the harness: %s' % (c['name'], c['err']))
        for r in c.get('requests') or []:
            nreq += 1
            got = r.get(which) or []
            base = {'check': ctx.prop, 'header': which, 'input_class': icls, 'proto': c['proto'] or 'none'}
            rep = {'case': c['name'], 'hello_hex': c['hello_hex'], 'abstract': a, 'request': r, 'spec_prehash': pre, 'spec_header': want,
                   'segment': c.get('segment'), 'fragmented': c.get('fragmented')}
            if r.get('forwarded', 0) != 1:
                # C01/C02 speak about *forwarded* requests; a request that is not forwarded is C08's business
                not_forwarded.append({'case': c['name'], 'tag': r['tag'], 'status': r.get('status'), 'input_class': icls})
                continue
            nfwd += 1
            if len(got) == 0:
                base['kind'] = 'header_absent'
                ctx.violation(base, '%s: forwarded request %s carries no %s header (spec: %s)' % (c['name'], r['tag'], which, want), rep)
            elif len(got) != 1 or got[0] != want:
                base['kind'] = 'header_wrong'
                ctx.violation(base, '%s: %s header %r, specification says %r (pre-hash %r)' % (c['name'], which, got, want, pre), rep)
        if len(samples) < 5 and i % 7 == 0:
            samples.append({'case': c['name'], 'proto': c['proto'], 'abstract_hello': a, 'spec_prehash': pre, 'spec_header': want,
                            'observed': [r.get(which) for r in c.get('requests') or []]})
    if nfwd < max(4, nreq // 2):
        raise vf.Inconclusive('only %d of %d requests were forwarded at all; the header property was not exercised' % (nfwd, nreq))
    ctx.coverage_notes = {'requests_not_forwarded': not_forwarded}
    return len(done), nfwd, samples, rejected
