"""C07 - concurrent streams on one connection see consistent fingerprint data.

TLC: H2FPConc.tla - writer (capture, HEADERS-with-priority = two writes) and reader (Marshal = four reads) under one lock: Consistent and
Exclusion hold for all interleavings; the same model without the lock violates Consistent (run as a non-vacuity guard).
Binding: TLC's interleavings forced on the real code with blocking hooks: the handler of request 1 parked at each point of Marshal while later
SETTINGS / WINDOW_UPDATE / PRIORITY / HEADERS(+priority) frames arrive; the serve goroutine parked between the two capture writes of a HEADERS
frame while the reader is released; the fingerprint each request was forwarded with must be Marshal of ONE snapshot (set computed by TLC).
Corroboration: the stress run built with -race must not report a data race.
"""
import itertools
import os
import subprocess

import tlaval
import vf


def own_headers(ctx, drv):
    """the instant a request's fingerprint is taken at lies after the arrival of its own HEADERS frame: the serve goroutine is held at the
    capture of each request's HEADERS until some handler has computed that request's fingerprint (or 300 ms); expected strings by TLC"""
    import c06
    orders = ['masp', 'mpas', 'mspa', 'pmsa', 'samp', 'amps']
    scs, pres, key = [], [], []
    for i in range(6):
        settings = [[[3, 100], [4, 65536]], [[1, 4096], [2, 0], [4, 131072]], [], [[4, 6291456], [6, 262144]]][i % 4]
        wu = [0, 15663105, 12517377][i % 3]
        reqs, prios = [], []
        for k in range(3):
            sid = 1 + 2 * k
            pre = [[11 + 2 * k, 0, 0, 40 + k]] if (i + k) % 3 == 0 else []
            hp = [k % 2, 0 if k == 0 else sid - 2, 100 + 7 * i + k] if (i + k) % 2 == 0 else []
            for q in pre:
                prios.append([q[0], q[1], q[2], q[3]])
            if hp:
                prios.append([sid, hp[0], hp[1], hp[2]])
            order = orders[(i + 2 * k) % len(orders)]
            reqs.append({'order': order, 'prio': hp, 'prio_pre': pre})
            pres.append({'settings': settings, 'wu': wu, 'prios': [list(x) for x in prios], 'order': list(order)})
            key.append((i, k))
        scs.append({'id': i, 'settings': settings, 'wu': wu, 'reqs': reqs})
    want = c06.h2_batch(ctx, pres)
    vin = os.path.join(ctx.scratch, 'c07_own_in.json')
    vout = os.path.join(ctx.scratch, 'c07_own_out.json')
    vf.write_graph(scs, vin)
    ctx.run_driver(drv, ['own', vin, vout], timeout=300)
    obs = {o['id']: o for o in vf.read_json(vout)}
    n = 0
    for j, (i, k) in enumerate(key):
        o = obs[i]
        if o.get('err'):
            raise vf.Inconclusive('own-headers scenario %d: %s' % (i, o['err']))
        got = o['fp'][k] if k < len(o['fp']) else None
        n += 1
        if got != want[j]:
            ctx.violation({'check': 'C07', 'kind': 'fingerprint_before_own_headers', 'request': k + 1},
                          'connection %d, request %d (pseudo-header order %s, priority %s): the serve goroutine was held for %s ms before recording the request\'s HEADERS frame%s; '
                          'the request was given %r, the history including its own HEADERS frame is %r'
                          % (i, k + 1, scs[i]['reqs'][k]['order'], scs[i]['reqs'][k]['prio'], o['held_ms'][k], ' and a handler finished its fingerprint meanwhile' if o['early'][k] else '', got, want[j]),
                          {'scenario': scs[i], 'observed': o, 'expected': want[j]})
    return n


def run(ctx):
    dump = os.path.join(ctx.scratch, 'c07states')
    ctx.tlc('H2FPConc', 'MC_C07_locked.cfg', dump=dump, label='locked: Consistent + Exclusion, all interleavings')
    r = ctx.tlc('H2FPConc', 'MC_C07_unlocked.cfg', label='unlocked (pinned code): must violate Consistent', expect_ok=False)
    if r['violation'] != 'invariant Consistent':
        raise vf.Inconclusive('non-vacuity guard failed: the model without the lock does not violate Consistent (%s)' % r['violation'])
    states = tlaval.parse_dump(dump + '.dump')
    os.remove(dump + '.dump')
    snaps = {}
    for s in states:
        if s['n'] == len(s['later']) and s['wpc'] == 'idle':
            snaps[tuple(s['later'])] = s['snaps']
    parks = ['begin', 'after_settings', 'after_window_update', 'after_priorities']
    laters = [l for l in snaps if 1 <= len(l) <= (2 if ctx.tier == 'quick' else 3)]
    scheds = []
    for l in sorted(laters):
        for p in parks:
            scheds.append({'id': len(scheds), 'park': p, 'later': list(l), 'writer_gate': False})
        if 'H2' in l:
            for p in ('begin', 'after_settings'):
                scheds.append({'id': len(scheds), 'park': p, 'later': list(l), 'writer_gate': True})
        # the client resets request 1 while its handler sits inside Marshal: the handler goroutine outlives its stream (no stream is open
        # any more), and the frames that follow are captured for the connection all the same - under the same lock
        for p in ('begin', 'after_settings'):
            scheds.append({'id': len(scheds), 'park': p, 'later': list(l), 'writer_gate': False, 'reset_first': True})
    vin = os.path.join(ctx.scratch, 'c07_in.json')
    vout = os.path.join(ctx.scratch, 'c07_out.json')
    vf.write_graph(scheds, vin)
    drv = ctx.build_driver('c07driver')
    ctx.run_driver(drv, ['gated', vin, vout], timeout=1500)
    obs = vf.read_json(vout)
    n = 0
    errs = 0
    mutual = 0
    samples = []
    for sc, o in zip(scheds, obs):
        l = tuple(sc['later'])
        allowed1 = snaps[l]
        if o.get('err'):
            errs += 1
            if errs > 3:
                raise vf.Inconclusive('gated schedules fail in the harness: %s' % o['err'])
            continue
        n += 1
        if not o['capture_while_reading']:
            mutual += 1
        else:
            # a capture site ran while a reader sat inside Marshal (it holds the read lock from marshal.begin to marshal.end):
            # unsynchronised concurrent access, whether or not the value came out torn this time
            ctx.violation({'check': 'C07', 'kind': 'capture_during_marshal', 'park': sc['park']},
                          'request 1 parked at marshal.%s: the serve goroutine captured %s while the reader was inside Marshal' % (sc['park'], sc['later']),
                          {'schedule': sc, 'observed': o})
        rep = {'schedule': sc, 'observed': o, 'snapshots': allowed1}
        fp1 = o.get('fp1') or []
        if sc.get('reset_first'):
            pass    # request 1 was given up by its client: there is no forwarded request to look at
        elif len(fp1) != 1 or fp1[0] not in allowed1:
            ctx.violation({'check': 'C07', 'kind': 'torn_fingerprint', 'park': sc['park'], 'writer_gate': sc['writer_gate']},
                          'request 1 parked at marshal.%s while %s arrived%s: forwarded with %r, which is the fingerprint of no instant; snapshots: %r'
                          % (sc['park'], sc['later'], ' (serve goroutine parked between its two writes)' if sc['writer_gate'] else '', fp1, allowed1), rep)
        if 'H2' in l:
            k = l.index('H2') + 2          # snapshot index (1-based) right after request 2's HEADERS
            allowed2 = allowed1[k - 1:]
            fp2 = o.get('fp2') or []
            if len(fp2) != 1 or fp2[0] not in allowed2:
                ctx.violation({'check': 'C07', 'kind': 'torn_fingerprint', 'park': sc['park'], 'writer_gate': sc['writer_gate'], 'request': 2},
                              'request 2 (%s, parked request 1 at marshal.%s): forwarded with %r; snapshots from its own HEADERS on: %r' % (sc['later'], sc['park'], fp2, allowed2), rep)
        if len(samples) < 4 and sc['id'] % 9 == 0:
            samples.append({'schedule': sc, 'request1_forwarded_with': fp1, 'snapshots_by_TLC': allowed1})
    own_n = own_headers(ctx, drv)
    # corroboration with the race detector
    race = ctx.build_driver('c07driver', race=True)
    sout = os.path.join(ctx.scratch, 'c07_stress.json')
    p = subprocess.run([race, 'stress', sout], cwd=ctx.scratch, env=dict(ctx.goenv(), GORACE='halt_on_error=0'), stdout=subprocess.PIPE, stderr=subprocess.PIPE, text=True, timeout=600)
    reports = p.stderr.split('WARNING: DATA RACE')[1:]
    mine = [r for r in reports if 'fingerproxy/pkg/metadata' in r.split('==================')[0]]
    races = len(mine)
    other_races = len(reports) - races
    if races:
        first = mine[0][:1800]
        ctx.violation({'check': 'C07', 'kind': 'data_race', 'capture_vs_marshal': True},
                      'the race detector reports %d data race(s) on the captured fingerprint data while serving multiplexed streams; first report:\n%s' % (races, first), {'stderr_head': first})
    elif not os.path.exists(sout):
        raise vf.Inconclusive('stress run failed: %s' % vf.tail(p.stderr, 20))
    cov = {'traces_validated_against_impl': n, 'samples': samples or [{'schedule': scheds[0]}],
           'gated_schedules': len(scheds), 'own_headers_requests': own_n, 'schedules_with_mutual_exclusion_observed': mutual,
           'race_detector_reports_on_captured_data': races, 'race_detector_reports_elsewhere (not this property)': other_races, 'stress_requests': vf.read_json(sout).get('requests') if os.path.exists(sout) else 0,
           'rule': 'one schedule per (park point of the reader in Marshal) x (later frame sequence) [x serve goroutine parked between the two writes of a HEADERS frame]; '
                   'the forwarded fingerprint must be in the set of snapshots TLC computed for that frame sequence'}
    return ctx.finish(cov, assumptions=['hooks sit inside the critical sections (after the lock is taken), so a parked goroutine keeps its lock',
                                        'the race detector run is corroboration, not part of the TLA+ argument'])
