"""C06 - fingerprints are attributed to the right connection under concurrency.

TLC: Attribution.tla - metadata is built per connection (h2: in serveConn; h1: from the wrapper that travels through the channel listener), slots
(peer address:port) are reused; RightConnection for all interleavings of connect / handshake / hand-off / request / disconnect.
Binding: waves of concurrent utls clients with pairwise different hellos and HTTP/2 preambles against the real stack, several requests each; the
expected JA3 / JA4 / HTTP/2 fingerprint of *each connection* is evaluated by TLC (JA3Ops, JA4Ops, H2FpOps) from what that client really sent, and every
request must carry exactly its own connection's values.
"""
import os
import re

import fpcommon as fc
import tlaval
import vf


def h2_batch(ctx, pres):
    d = ctx.specdir()
    rows = []
    for p in pres:
        s = '<<' + ', '.join('<<%d, %d>>' % (a, b) for a, b in p['settings']) + '>>'
        pr = '<<' + ', '.join('<<%d, %d, %d, %d>>' % tuple(x) for x in (p.get('prios') or [])) + '>>'
        h = '<<' + ', '.join('"%s"' % c for c in p['order']) + '>>'
        rows.append('Marshal(%s, %d, %s, %s, %d)' % (s, p['wu'], pr, h, p.get('n', 1000000)))
    open(os.path.join(d, 'BatchH2.tla'), 'w').write('---- MODULE BatchH2 ----\nEXTENDS H2FpOps\nR == <<' + ',\n  '.join(rows) + '>>\n'
                                                     'ASSUME \\A i \\in 1..Len(R) : PrintT(<<"H2", i, R[i]>>)\n====\n')
    open(os.path.join(d, 'BatchH2.cfg'), 'w').write('\n')
    r = ctx.tlc('BatchH2', 'BatchH2.cfg', workers=1, timeout=300, expect_ok=False, label='batch evaluation of HTTP/2 preambles')
    out = {}
    for m in re.finditer(r'<<\s*"H2",.*?>>', r['out'], re.S):
        v = tlaval.parse_value(m.group(0))
        out[v[1] - 1] = v[2]
    if len(out) != len(pres):
        raise vf.Inconclusive('H2 batch evaluation failed:\n' + vf.tail(r['out'], 20))
    return out


def run(ctx):
    ctx.tlc('Attribution', 'MC_C06.cfg', label='per-connection metadata, slot reuse, all interleavings')
    drv = ctx.build_driver('c06driver')
    out = os.path.join(ctx.scratch, 'c06.json')
    ctx.run_driver(drv, [out], timeout=1500)
    conns = [c for c in vf.read_json(out) if c.get('abstract') and not c.get('err')]
    failed = [c for c in vf.read_json(out) if c.get('err')]
    if len(conns) < 10:
        raise vf.Inconclusive('only %d connections completed (%s)' % (len(conns), failed[:2]))
    e3, e4 = fc.batch_eval(ctx, [c['abstract'] for c in conns], [c['abstract'] for c in conns], name='BatchC06')
    h2c = [c for c in conns if c['proto'] == 'h2' and c.get('preamble')]
    eh2 = h2_batch(ctx, [c['preamble'] for c in h2c])
    exp = {}
    for i, c in enumerate(conns):
        a, b, cc = e4[i]
        exp[c['id']] = {'ja3': fc.md5hex(e3[i]), 'ja4': '%s_%s_%s' % (a, fc.sha12(b), fc.sha12(cc)), 'h2': None}
    for i, c in enumerate(h2c):
        exp[c['id']]['h2'] = eh2[i]
    owners = {}
    for cid, e in exp.items():
        for k in ('ja3', 'ja4', 'h2'):
            if e[k]:
                owners.setdefault((k, e[k]), []).append(cid)
    distinct = {k: len({e[k] for e in exp.values() if e[k]}) for k in ('ja3', 'ja4', 'h2')}
    nreq = 0
    samples = []
    for c in conns:
        e = exp[c['id']]
        for r in c['reqs']:
            if r['fwd'] != 1:
                continue
            nreq += 1
            for k in ('ja3', 'ja4', 'h2'):
                got = r.get(k) or []
                want = [e[k]] if e[k] else []
                if got != want:
                    other = [o for v in got for o in owners.get((k, v), []) if o != c['id']]
                    ctx.violation({'check': 'C06', 'kind': 'foreign_fingerprint' if other else 'wrong_fingerprint', 'header': k, 'proto': c['proto']},
                                  'connection %d (%s, wave %d) request %s carries %s=%r, its own connection\'s value is %r%s'
                                  % (c['id'], c['proto'], c['wave'], r['tag'], k, got, want, (' - that value belongs to connection(s) %s' % other) if other else ''),
                                  {'conn': {x: c.get(x) for x in ('id', 'wave', 'proto', 'abstract', 'preamble')}, 'request': r, 'expected': e})
        if len(samples) < 4 and c['id'] % 11 == 0:
            samples.append({'conn': c['id'], 'proto': c['proto'], 'expected_by_TLC': e, 'requests': c['reqs']})
    cov = {'traces_validated_against_impl': len(conns), 'samples': samples or [{'conn': conns[0]['id'], 'expected_by_TLC': exp[conns[0]['id']]}],
           'connections': len(conns), 'connections_failed_in_harness': len(failed), 'requests_checked': nreq,
           'distinct_expected_values': distinct,
           'rule': 'waves of concurrent clients from one peer address (ports reused across waves), pairwise distinct cipher multisets / extension sets / SETTINGS / '
                   'WINDOW_UPDATE / PRIORITY sets; keep-alive reuse on HTTP/1.1, multiplexed requests on HTTP/2'}
    return ctx.finish(cov, assumptions=['expected values come from the bytes each client really wrote (independent parse) evaluated by the C01-C03 operators',
                                        'all clients share the loopback address: the same-peer clause; other peers are not available in the sandbox'])
