"""C03 - X-HTTP2-Fingerprint reflects the frames the client sent.

TLC: H2Fingerprint.tla - (a) refinement of the capture state machine + Marshal against the ideal FP(history, N) over all frame
histories up to MaxHist; (b) the state graph without history, whose edges are covered by paths replayed on the real stack
(raw-frame client over TLS) for every configured limit N in {0,1,2,3,unlimited}.
"""
import os
import random

import vf
import wiring


def wired_limit(ctx):
    """the limit as wired from the command line: flag -> GetHeaderInjectors()[2] -> Marshal, expected strings evaluated by TLC (H2FpOps.Marshal)"""
    cfgs, limits = wiring.prio_limit_configs()
    outs = wiring.run_wiring(ctx, cfgs)
    import c06
    pres, key = [], []
    for n, out in zip(limits, outs):
        for k in range(5):
            pres.append({'settings': [[3, 100]], 'wu': 12, 'prios': [[3 + 2 * i, 0, 0, 200 + i] for i in range(k)], 'order': 'mp', 'n': n})
            key.append((n, k, out['prio_fp'][k]))
    want = c06.h2_batch(ctx, pres)
    bad = 0
    for i, (n, k, got) in enumerate(key):
        if got != want[i]:
            bad += 1
            ctx.violation({'check': 'C03', 'kind': 'flag_wiring', 'limit': n}, 'with -max-h2-priority-frames=%s (10000 = default) a connection with %d priorities is printed as %r, specification says %r' % (n, k, got, want[i]), {'limit': n, 'priorities': k, 'got': got, 'want': want[i]})
    return len(key)


def run(ctx):
    t = ctx.tier
    ctx.tlc('H2Fingerprint', 'MC_C03_refine%s.cfg' % ('_thorough' if t == 'thorough' else ''), label='refinement: Marshal(state) = FP(history, N)',
            timeout=1500)
    gpath, g, r = vf.tlc_graph(ctx, 'H2Fingerprint', 'MC_C03_%s.cfg' % t, 'c03graph', timeout=1500)
    rng = random.Random(ctx.seed)
    sample = 0.07 if t == 'quick' else 0.4
    is_req = lambda e: e[2] in ('OnHeaders', 'OnRequestWithTrailers')
    epaths, total = vf.edge_cover_paths(g, rng, sample=sample, max_len=10, end_pred=is_req)
    paths = []
    nreq_edges = set()
    covered = set()
    for pi, ep in enumerate(epaths):
        steps = []
        for ei in ep:
            e = g['edges'][ei]
            covered.add(ei)
            name, args = e[2], e[3]
            f = args[0] if args else {'OnSettingsAck': 'SA', 'OnPing': 'PING'}[name]
            st = {'f': f}
            if name in ('OnHeaders', 'OnRequestWithTrailers'):
                st['expect'] = g['nodes'][e[1]]['fp']
                st['alt'] = g['nodes'][e[1]]['fpAlt']
                nreq_edges.add(ei)
            steps.append(st)
        # drop a trailing tail without a request (nothing observes it)
        while steps and 'expect' not in steps[-1]:
            steps.pop()
        if steps:
            paths.append({'id': pi, 'n': pi % 5, 'steps': steps})
    vin = os.path.join(ctx.scratch, 'c03_in.json')
    vout = os.path.join(ctx.scratch, 'c03_out.json')
    vf.write_graph(paths, vin)
    drv = ctx.build_driver('h2fpdriver')
    ctx.run_driver(drv, [vin, vout], timeout=1500)
    o = vf.read_json(vout)
    if o['errors'] and len(o['errors']) > max(3, len(paths) // 100):
        raise vf.Inconclusive('harness errors: %s' % o['errors'][:3])
    if o['paths'] < len(paths) * 0.95:
        raise vf.Inconclusive('only %d of %d paths completed: %s' % (o['paths'], len(paths), o['errors'][:3]))
    for m in o['mismatches'] or []:
        ctx.violation({'check': 'C03', 'kind': m['kind'], 'limit': m['n']},
                      'frames %s with limit %s: backend saw %r, specification says %r (%s)' % (m.get('frames'), m.get('n'), m.get('got'), m.get('want'), m.get('err')), m)
    nwired = wired_limit(ctx)
    cov = {
        'traces_validated_against_impl': o['paths'] + nwired,
        'flag_wiring_cases (max-h2-priority-frames x captured priorities, through GetHeaderInjectors)': nwired,
        'samples': o['samples'] or [{'frames': [s['f'] for s in paths[0]['steps']], 'spec': paths[0]['steps'][-1].get('expect')}],
        'requests_checked': o['requests'], 'frames_sent': o['frames'],
        'graph_edges_total': len(g['edges']), 'graph_edges_on_replayed_paths': len(covered), 'edge_sample_fraction': sample,
        'request_edges_checked': len(nreq_edges),
        'limits': [0, 1, 2, 3, 1000000],
        'h1_requests_without_h2_fingerprint': o['h1_requests_without_h2_fingerprint'],
        'exhaustive': False,
        'rule': 'TLC explores all frame histories (refinement) and the history-free state graph; a seeded sample of graph edges is covered by '
                'paths from the initial state, each replayed on a fresh TLS connection against one of five stacks (one per limit); every '
                'request on a path is an observation',
    }
    return ctx.finish(cov, assumptions=['the scripted client waits for each response before sending the next frame (sequential semantics; C07 covers concurrency)',
                                        'WINDOW_UPDATE increments are >= 10 (increments 1..9 print zero-padded: dont-care class, not generated)',
                                        'harness frame/HPACK serializer (h2raw) is trusted'])
