"""C08 - requests and responses pass through the proxy unchanged.

TLC: Rewrite.tla (HeadersKept, HostRule, request-target family) and Relay.tla (two FIFO directions per request with free re-framing: Conservation, InOrder,
EndAfterBody, ResponseAfterRequest, AllDelivered under fairness).
Binding: (a) every scenario of the Rewrite families "keep" and "target" replayed through the real stack (raw HTTP/1.1 and HTTP/2 clients); (b) trace validation of
real end-to-end runs: bodies whose bytes are a function of (request, offset) sent in scheduled pieces (Content-Length / chunked / DATA with padding, header blocks
over CONTINUATION), concurrent keep-alive and multiplexed requests, streamed responses with trailers, PreserveHost on and off; every received piece must be the next
contiguous range and both directions must complete (Trace_Relay.tla).
"""
import json
import os

import rwcommon as rw
import vf
import wiring


def split(lines):
    out = []
    for i, ln in enumerate(lines):
        if '"op":"reset"' in ln:
            out.append([json.loads(ln).get('class', 'normal'), i, i])
        elif out:
            out[-1][2] = i
    return out


def run(ctx):
    t = ctx.tier
    ctx.tlc('Relay', 'MC_C08_relay.cfg', label='relay: FIFO conservation + liveness', timeout=1800)
    scs = rw.scenarios(ctx, {'keep', 'target'})
    obs = rw.replay(ctx, scs)
    keys = ['X-Keep', 'X-Multi', 'X-Empty', 'Connection', 'X-Hop', 'Te', 'Keep-Alive', 'Upgrade', 'Accept-Encoding', 'host', 'target']
    n, samples = rw.judge(ctx, scs, obs, keys, lambda sc, kind, key: {'query_has_semicolon': ';' in sc['req']['path']})
    wsc, wobs = wiring.replay_rewrite(ctx, scs, limit=120)
    nw, _ = rw.judge(ctx, wsc, wobs, keys, lambda sc, kind, key: {'via': 'real_wiring', 'query_has_semicolon': ';' in sc['req']['path']}) if wsc else (0, [])
    n += nw
    drv = ctx.build_driver('c08driver')
    trace = os.path.join(ctx.scratch, 'c08.ndjson')
    rep = os.path.join(ctx.scratch, 'c08_report.json')
    ctx.run_driver(drv, [trace, rep], timeout=2400)
    report = vf.read_json(rep)
    plans = {p['id']: p for p in report['plans']}
    lines = open(trace).read().splitlines()
    parts = split(lines)
    accepted = 0
    start = 0
    rounds = 0
    while start < len(parts) and rounds < 10:
        rounds += 1
        part = os.path.join(ctx.scratch, 'c08_part%d.ndjson' % rounds)
        open(part, 'w').write('\n'.join(lines[parts[start][1]:]) + '\n')
        tv = vf.validate_trace(ctx, 'Trace_Relay', 'Trace_C08.cfg', part, 'trace_c08.ndjson', label='trace validation (relay), round %d' % rounds)
        if not tv['invariant'] and tv['matched'] >= tv['total']:
            accepted += len(parts) - start
            break
        bad = parts[start][1] + tv['matched']
        k = max(i for i in range(start, len(parts)) if parts[i][1] <= min(bad, len(lines) - 1))
        accepted += k - start
        cls, a, b = parts[k]
        e = json.loads(lines[min(bad, len(lines) - 1)])
        events = [json.loads(x) for x in lines[a:b + 1]]
        plan = plans.get(e.get('r'))
        if e.get('op') in ('up', 'down') and not e.get('ok'):
            kind = 'body_bytes_altered'
        elif e.get('op') in ('up', 'down'):
            kind = 'body_out_of_order_or_beyond_length'
        elif e.get('op') == 'up_end':
            kind = 'request_altered' if e.get('total') == (plan or {}).get('up') else 'request_body_truncated'
        elif e.get('op') == 'down_end':
            kind = 'request_not_forwarded' if not any(x['op'] == 'up_end' and x.get('r') == e.get('r') for x in events) else \
                ('response_altered' if e.get('total') == (plan or {}).get('down') else 'response_body_truncated')
        elif e.get('op') in ('end', 'reset', 'client_error'):
            kind = 'request_not_forwarded' if not any(x['op'] == 'up_end' for x in events) else 'exchange_incomplete'
        else:
            kind = 'trace_rejected'
        ctx.violation({'check': 'C08', 'kind': kind, 'conn_class': cls, 'proto': (plan or {}).get('proto')},
                      'relay scenario (%s connection): first unexplained event %s; plan %s' % (cls, e, plan), {'events': events[:200], 'plan': plan})
        start = k + 1
    if report.get('notes') and not ctx.violations:
        # a client-side I/O error that the recorded events do not explain: no verdict
        raise vf.Inconclusive('relay driver: %s' % report['notes'][:3])
    nreq = len(plans)
    cov = {'traces_validated_against_impl': n + accepted, 'samples': samples[:3] + [{'relay_trace_prefix': [json.loads(x) for x in lines[:12]]}],
           'rewrite_scenarios_replayed': n, 'relay_scenarios_accepted': accepted, 'relay_requests': nreq, 'relay_events': len(lines),
           'bytes_up': sum(p['up'] for p in plans.values()), 'bytes_down': sum(p['down'] for p in plans.values()),
           'request_trailers': 'logged only (the statement promises trailers for responses; httputil.ReverseProxy does not forward request trailers)',
           'rule': 'Rewrite families keep/target: one scenario per initial state; relay: one trace per stack (PreserveHost off/on), 4+ concurrent connections alternating '
                   'HTTP/1.1 keep-alive and HTTP/2 multiplexing, 3-5 requests each, body sizes 0 / 1 / 1000 / 70000 / 300000 (thorough: up to 5 MiB), pieces 1..70000, '
                   'plus two connections with unusual ClientHellos'}
    cov['requests_on_connections_older_than_the_handshake_timeout (real wiring)'] = wiring.judge_aged(ctx, 'C08')
    return ctx.finish(cov, assumptions=['body bytes are a keyed function of (request, offset): any loss, duplication, reordering or cross-request mix-up changes them',
                                        'header name case on the wire, User-Agent defaulting, Cookie merging on HTTP/2, Expect: 100-continue and Content-Length <-> chunked '
                                        're-framing are dont-care classes'])
