"""C05 - fingerprint headers cannot be supplied or spoofed by the client.

TLC: Rewrite.tla, invariant NoSpoof over every (protocol x connection kind x injector outcome vector x client lines) scenario.
Binding: every scenario replayed through the real stack with raw HTTP/1.1 (exact spelling, repeated lines) and raw HTTP/2 clients;
injector outcomes are real (JA3/JA4 errors via a 253-byte SNI and a ClientHello spanning two records, HTTP/2 fingerprint empty
on HTTP/1.1, a user injector returning value / "" / error).
"""
import rwcommon as rw
import vf
import wiring


def classify(sc, kind, key):
    req = sc['req']
    out = {}
    if key in rw.FP_KEYS:
        client = [l['v'] for l in req['lines'] if l['k'] == key]
        out['client_supplied'] = bool(client)
    return out


def run(ctx):
    scs = rw.scenarios(ctx, {'spoof'})
    obs = rw.replay(ctx, scs)
    n, samples = rw.judge(ctx, scs, obs, rw.FP_KEYS, classify)
    wsc, wobs = wiring.replay_rewrite(ctx, scs, limit=100)
    nw, _ = rw.judge(ctx, wsc, wobs, rw.FP_KEYS, lambda sc, kind, key: dict(classify(sc, kind, key), via='real_wiring')) if wsc else (0, [])
    cov = rw.coverage(ctx, scs, n + nw, samples,
                      'one scenario per initial state of Rewrite.tla in family "spoof"; the backend must see, under each configured '
                      'fingerprint name, exactly the value the same connection yields on a clean request, or nothing')
    return ctx.finish(cov, assumptions=['"computed by the proxy" is taken from a baseline request on the same connection; its correctness is C01-C03',
                                        'the recording backend (net/http) reports every value under a name'])
