"""C04 - ClientHello capture is exact, transparent and segmentation-independent.

TLC: ClientHelloCapture.tla (byte-granular, all streams/truncations/segmentations in the bound) and
ClientHelloCaptureLen.tla (landmark schedules at real record sizes).
Binding: every path of both state graphs is replayed through the real hack.HijackClientHelloConn
(in-package overlay test), state projected and compared after every Read.
"""
import vf


def run(ctx):
    t = ctx.tier
    g1, graph1, r1 = vf.tlc_graph(ctx, 'ClientHelloCapture', 'MC_C04_%s.cfg' % t, 'c04bytes')
    g2, graph2, r2 = vf.tlc_graph(ctx, 'ClientHelloCaptureLen', 'MC_C04len_%s.cfg' % t, 'c04len')
    r = vf.run_overlay_driver(ctx, 'pkg/hack', ['common/graph_test.go', 'hack/c04_test.go'], '^TestVFC04$',
                              env={'VF_GRAPH': g1, 'VF_GRAPH2': g2}, timeout=1500)
    vf.absorb(ctx, r)
    if r['paths'] == 0 or r['edges_seen'] == 0:
        raise vf.Inconclusive('C04 driver replayed nothing')
    complete = r['edges_seen'] == r['edges_total'] and not ctx.violations
    cov = {
        'traces_validated_against_impl': r['paths'],
        'samples': r['samples'],
        'exhaustive': complete,
        'impl_steps': r['steps'],
        'graph_edges_total': r['edges_total'], 'graph_edges_replayed': r['edges_seen'],
        'graph_nodes_reached': r['nodes_seen'],
        'actions_replayed': r['actions'],
        'paths_by_model': r.get('extra'),
        'constants': {'bytes': open(ctx.specdir() + '/MC_C04_%s.cfg' % t).read().split('INVARIANTS')[0].split('CONSTANTS')[1].split(),
                      'landmarks': open(ctx.specdir() + '/MC_C04len_%s.cfg' % t).read().split('INVARIANTS')[0].split('CONSTANTS')[1].strip().splitlines()},
        'invariants': ['GetVar', 'Transparent', 'Exact', 'BufIsPrefix', 'NeverOverlong', 'Stable (action property)'],
        'rule': 'a behaviour = one stream (header variant x body x trailing) cut at one length and segmented one way; '
                'all paths of the TLC graph are walked, each step compares bytes handed up, (buf, expectedLen) and GetClientHello',
    }
    if not complete and not ctx.violations:
        raise vf.Inconclusive('replay covered %d of %d graph edges' % (r['edges_seen'], r['edges_total']))
    return ctx.finish(cov, assumptions=[
        'TLC 1.8.0 explores the bounded model completely',
        'scripted net.Conn returns exactly the scheduled segment; real TCP never returns n>0 together with an error',
        'declared record lengths > 2^14+2048 are outside the quantifier (crypto/tls rejects them; uint16 sum wraps at >= 65531)',
        'GetClientHello observed on a clone of (buf, expectedLen) so that observing does not disturb the object under replay'])
