"""C01 - X-JA3-Fingerprint equals the JA3 of the ClientHello the client sent.

TLC: JA3.tla - implementation-shaped token machine of ja3.Bare refines the ideal JA3String on every hello of the
bounded domain (all list shapes up to N, GREASE first/last/only/all, empty lists, no extensions).
Binding: (a) every final state is a vector run through the real tlsx parser + ja3.Bare + fingerprint.JA3Fingerprint;
(b) utls clients with perturbed hellos through the real stack, both protocols, two requests per connection,
concurrent connections, re-segmented delivery; the hello really sent is parsed by the harness and the expected
string is evaluated by TLC (JA3Ops) - MD5 by hashlib.
"""
import os

import fpcommon as fc
import tlaval
import vf


def run(ctx):
    t = ctx.tier
    dump = os.path.join(ctx.scratch, 'c01states')
    r = ctx.tlc('JA3', 'MC_C01_%s.cfg' % t, dump=dump, label='JA3 exhaustive')
    states = tlaval.parse_dump(dump + '.dump')
    os.remove(dump + '.dump')
    vecs = []
    for s in states:
        if s['phase'] != 5:
            continue
        h = s['h']
        vecs.append({'id': len(vecs), 'kind': 'ja3',
                     'hello': {'legacy': h['ver'], 'ciphers': h['ciphers'], 'exts': h['exts'], 'groups': h['groups'], 'points': h['points'],
                               'sni': 0 in h['exts'], 'alpn': [], 'sigalgs': [], 'sv': []},
                     'expect': {'bare': s['out'], 'md5': fc.md5hex(s['out'])}})
    if not vecs:
        raise vf.Inconclusive('no vectors from TLC dump')
    vin = os.path.join(ctx.scratch, 'vec.json')
    vout = os.path.join(ctx.scratch, 'vecout.json')
    vf.write_graph(vecs, vin)
    drv = ctx.build_driver('fpdriver')
    ctx.run_driver(drv, ['vectors', vin, vout])
    vo = vf.read_json(vout)
    if vo['evaluated'] != len(vecs):
        raise vf.Inconclusive('driver evaluated %d of %d vectors' % (vo['evaluated'], len(vecs)))
    for m in vo['mismatches'] or []:
        ctx.violation({'check': 'C01', 'kind': 'vector_mismatch', 'field': m['field'], 'input_class': 'model_vector'},
                      'vector %d: %s = %r, specification says %r for hello %s' % (m['id'], m['field'], m['got'], m['want'], m['hello']), m)
    st = fc.run_stack(ctx, drv)
    nconn, nreq, samples, rejected = fc.judge_stack(ctx, st, 'ja3')
    cov = {
        'traces_validated_against_impl': len(vecs) + nconn,
        'samples': (vo.get('samples') or [])[:3] + samples[:4],
        'exhaustive': True,
        'model_vectors_through_real_parser': len(vecs),
        'stack_connections_with_completed_handshake': nconn,
        'stack_requests_checked': nreq,
        'stack_hellos_rejected_by_tls_stack': rejected,
        'stack_requests_not_forwarded_(C08_matter)': ctx.coverage_notes['requests_not_forwarded'],
        'rule': 'function level: one vector per final TLC state (distinct abstract hello); stack level: one connection per '
                'perturbation of a viable utls hello, two requests each, expected value evaluated by TLC on the independently parsed hello',
    }
    return ctx.finish(cov, assumptions=[
        'MD5 (hashlib / crypto/md5) and the harness ClientHello synthesizer + wire parser are trusted',
        'utls re-draws GREASE values; the expected value is computed from the bytes actually written by the client',
        'exhaustive refers to the bounded TLC domain; stack-level hellos are a sample (constants in spec/MC_C01_*.cfg, cases in harness/cmd/fpdriver/stack.go)'])
