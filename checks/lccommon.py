"""Shared by C10, C11, C16, C17: lifecycle traces of the real proxyserver recorded by harness/cmd/lcdriver, validated by TLC
against ProxyServer.tla (Trace_ProxyServer.tla), plus the scenario report (latencies, registry contents, panic children)."""
import json
import os

import vf


def record(ctx, census=False):
    """census: keep the end-of-run goroutine census entry (family leakcheck) in the report and let the driver wait for it (C11)"""
    drv = ctx.build_driver('lcdriver')
    trace = os.path.join(ctx.scratch, 'lc_trace.ndjson')
    report = os.path.join(ctx.scratch, 'lc_report.json')
    ctx.run_driver(drv, ['run', trace, report], timeout=1500, env={'VF_CENSUS': '1' if census else '0'})
    rep = vf.read_json(report)
    return trace, [s for s in rep if census or s.get('family') != 'leakcheck']


def scenarios_of(lines):
    """[(name, family, first_line_index, last_line_index)]"""
    out = []
    cur = None
    for i, ln in enumerate(lines):
        if '"op":"reset"' in ln:
            e = json.loads(ln)
            cur = [e.get('scenario'), e.get('family'), i, i]
            out.append(cur)
        elif cur is not None:
            cur[3] = i
    return out


def validate(ctx, trace):
    """Validate the whole trace; on a rejection record it and continue with the scenarios after the rejected one.
    Returns (accepted scenario names, rejected [(scenario, family, matched_in_scenario, event, invariant, events)])."""
    lines = open(trace).read().splitlines()
    scs = scenarios_of(lines)
    accepted, rejected = [], []
    start = 0
    rounds = 0
    while start < len(scs) and rounds < 8:
        rounds += 1
        part = lines[scs[start][2]:]
        p = os.path.join(ctx.scratch, 'lc_part_%d.ndjson' % rounds)
        open(p, 'w').write('\n'.join(part) + '\n')
        tv = vf.validate_trace(ctx, 'Trace_ProxyServer', 'Trace_PS.cfg', p, 'trace_ps.ndjson',
                               label='trace validation (lifecycle), round %d' % rounds, timeout=900)
        if not tv['invariant'] and tv['matched'] >= tv['total']:
            accepted += [s[0] for s in scs[start:]]
            break
        bad_line = scs[start][2] + tv['matched']            # index into lines of the first unexplained event
        k = max(i for i in range(start, len(scs)) if scs[i][2] <= min(bad_line, len(lines) - 1))
        accepted += [s[0] for s in scs[start:k]]
        name, fam, a, b = scs[k]
        ev = json.loads(lines[bad_line]) if bad_line < len(lines) else None
        rejected.append({'scenario': name, 'family': fam, 'event': ev, 'invariant': tv['invariant'],
                         'events': [json.loads(x) for x in lines[a:b + 1]][:400]})
        start = k + 1
    return accepted, rejected, lines


def conn_state_at_end(events):
    """What the log says about every connection of a rejected scenario (for signatures)."""
    st = {}
    for e in events:
        c = e.get('c')
        if c:
            st.setdefault(c, []).append(e['op'])
    return st


def sample_trace(lines, n=14):
    return [json.loads(x) for x in lines[:n]]
