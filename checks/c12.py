"""C12 - HTTP/2 flow control is never violated and never leaks window.

TLC: Flow.tla - the endpoint's internal model of flow.go/server.go, receive side (conservation law, batching bound, peer-ledger agreement, honest peer never
errs) and send side (SendSafe with SETTINGS-driven negative windows, overflow errors), exhaustive with scaled-down constants.
Binding: trace validation from the wire - a raw-frame client drives the real server (through the proxy stack for the sending side, pkg/http2.Server directly
for the receiving side) with seeded random window schedules; its own log of credits sent and DATA / WINDOW_UPDATE / RST_STREAM / GOAWAY received must be a
behaviour of FlowLedger.tla (every DATA within stream window, connection window and max frame size; all queued data delivered once window is available;
overflow / overrun answered with FLOW_CONTROL_ERROR, none for an honest peer; returned credit <= bytes received and un-returned credit < 4096 at quiescence).
"""
import json
import os

import vf


def split(lines):
    out = []
    for i, ln in enumerate(lines):
        if '"op":"reset"' in ln:
            out.append([json.loads(ln).get('scenario'), i, i])
        elif out:
            out[-1][2] = i
    return out


MUTANTS = [
    ('FlowIndRecv', 'batching threshold off by one', 'IF u < MinRefresh /\\ u < avail THEN', 'IF u <= MinRefresh /\\ u < avail THEN'),
    ('FlowIndRecv', 'unread bytes of a closed stream not refunded', 'LET rc == Add(cAvail, cUnsent, buf[s]) IN', 'LET rc == Add(cAvail, cUnsent, 0) IN'),
    ('FlowIndSend', 'overflow test off by one', 'IF sum > MaxWin THEN "overflow"', 'IF sum > MaxWin + 1 THEN "overflow"'),
    ('FlowIndSend', 'DATA not limited by the connection window', 'Min2(Min2(oSt[s], oConn), MaxFrame)', 'Min2(oSt[s], MaxFrame)'),
]


def apalache_mutants(ctx):
    import shutil
    for i, (mod, what, old, new) in enumerate(MUTANTS):
        d = os.path.join(ctx.scratch, 'apamut%d' % i)
        os.makedirs(d)
        src = open(os.path.join(vf.VERIF, 'spec', 'Flow.tla')).read()
        if src.count(old) != 1:
            raise vf.Inconclusive('model mutant %r does not apply to Flow.tla' % what)
        open(os.path.join(d, 'Flow.tla'), 'w').write(src.replace(old, new))
        shutil.copy(os.path.join(vf.VERIF, 'spec', mod + '.tla'), d)
        r = ctx.apalache_induction(mod, label='broken model (%s) must be rejected' % what, expect_ok=False, subdir=d)
        if r['ok']:
            raise vf.Inconclusive('Apalache accepts the broken model %r: the inductive invariant is vacuous' % what)


def run(ctx):
    t = ctx.tier
    ctx.tlc('Flow', 'MC_C12_recv.cfg', label='receive side: conservation, batching bound, ledger agreement', timeout=1800)
    ctx.tlc('Flow', 'MC_C12_send_%s.cfg' % t, label='send side: SendSafe, overflow errors', timeout=2400)
    # the transport's body writers and the one condition variable they sleep on: nobody with window stays asleep (Broadcast); with Signal
    # for stream-level credit the model loses wake-ups (non-vacuity).  Bound to the code by the 'drained' rule of the transport recordings.
    ctx.tlc('TransportWake', 'MC_C12_wake.cfg', label='transport body writers: no lost wake-up, whoever has window sends (liveness under weak fairness)', timeout=900)
    r = ctx.tlc('TransportWake', 'MC_C12_wake_mutant.cfg', label='cond.Signal for stream-level credit: must violate NoLostWakeup', expect_ok=False, timeout=900)
    if r['violation'] != 'invariant NoLostWakeup':
        raise vf.Inconclusive('non-vacuity guard failed for TransportWake (%s)' % r['violation'])
    # unbounded in the numbers: Apalache discharges the same invariants as an inductive invariant for arbitrary window sizes, batching
    # threshold, increments, SETTINGS values and frame sizes (two streams), and rejects three deliberately broken models (non-vacuity)
    ctx.apalache_induction('FlowIndRecv', label='receive side, inductive for all window sizes / thresholds / frame sizes (Apalache)')
    ctx.apalache_induction('FlowIndSend', label='send side, inductive for all maximal windows / increments / SETTINGS values (Apalache)')
    if t == 'thorough':
        apalache_mutants(ctx)
    drv = ctx.build_driver('c12driver')
    trace = os.path.join(ctx.scratch, 'c12.ndjson')
    rep = os.path.join(ctx.scratch, 'c12_report.json')
    ctx.run_driver(drv, [trace, rep], timeout=1500)
    report = vf.read_json(rep)
    lines = open(trace).read().splitlines()
    scs = split(lines)
    accepted = 0
    start = 0
    rounds = 0
    while start < len(scs) and rounds < 12:
        rounds += 1
        part = os.path.join(ctx.scratch, 'c12_part%d.ndjson' % rounds)
        open(part, 'w').write('\n'.join(lines[scs[start][1]:]) + '\n')
        tv = vf.validate_trace(ctx, 'FlowLedger', 'Trace_C12.cfg', part, 'trace_c12.ndjson', label='trace validation (flow ledger), round %d' % rounds)
        if not tv['invariant'] and tv['matched'] >= tv['total']:
            accepted += len(scs) - start
            break
        bad = scs[start][1] + tv['matched']
        k = max(i for i in range(start, len(scs)) if scs[i][1] <= min(bad, len(lines) - 1))
        accepted += k - start
        name, a, b = scs[k]
        ev = json.loads(lines[min(bad, len(lines) - 1)])
        events = [json.loads(x) for x in lines[a:b + 1]]
        had_rst = any(e['op'] == 'client_rst' for e in events)
        if tv['invariant'] and 'NoOverReturn' in tv['invariant']:
            kind = 'conn_credit_over_returned'
        elif tv['invariant'] and 'ReturnedAtQuiescence' in tv['invariant']:
            kind = 'credit_not_returned'
        elif ev.get('op') == 'data':
            kind = 'data_exceeds_window'
        elif ev.get('op') == 'drained':
            kind = 'queued_data_not_delivered'
        elif ev.get('op') in ('rst', 'goaway', 'err_deadline'):
            kind = 'flow_control_error_wrong_or_missing'
        else:
            kind = 'trace_rejected'
        up = sum(e['n'] for e in events if e['op'] == 'up_data')
        ret = sum(e['n'] for e in events if e['op'] == 'srv_wu' and e['s'] == 0)
        ctx.violation({'check': 'C12', 'kind': kind, 'trigger': 'client_rst_mid_body' if had_rst else 'none', 'side': 'receive' if name.startswith('recv') else 'send'},
                      'scenario %s: %s; first unexplained event %s (bytes sent up %d, connection credit received incl. initial grant %d)'
                      % (name, tv['invariant'] or 'not a behaviour of FlowLedger.tla', ev, up, ret), {'events': events[:300]})
        start = k + 1
    for n in report.get('notes') or []:
        if not ctx.violations:       # a note next to a rejected trace is usually the same thing seen from the driver (e.g. the wait for undelivered data timing out)
            raise vf.Inconclusive('driver note: %s' % n)
    # the client transport as sender: the fork's Transport uploads to a raw-frame server of the harness (same ledger, roles swapped).
    # A rejection has to repeat in a second recording before it is a verdict (the schedule is seeded, the timing is not).
    taccepted, tscen, tev = 0, 0, 0
    first_bad = None
    for attempt in range(3):
        ttrace = os.path.join(ctx.scratch, 'c12t_%d.ndjson' % attempt)
        trep = os.path.join(ctx.scratch, 'c12t_%d.json' % attempt)
        try:
            ctx.run_driver(drv, [ttrace, trep], timeout=600, env={'VF_C12_MODE': 'transport'})
            tr = vf.read_json(trep)
            if tr.get('notes'):
                raise vf.Inconclusive('transport driver note: %s' % tr['notes'][:2])
        except vf.Inconclusive:
            if ctx.violations:
                break      # the server-side part already has a verdict; what breaks it may well make the transport unusable too
            raise
        tlines = open(ttrace).read().splitlines()
        tv = vf.validate_trace(ctx, 'FlowLedger', 'Trace_C12.cfg', ttrace, 'trace_c12.ndjson', label='trace validation (flow ledger, client transport), recording %d' % (attempt + 1))
        tscen, tev = len(split(tlines)), len(tlines)
        if not tv['invariant'] and tv['matched'] >= tv['total']:
            taccepted = tscen
            if first_bad is None:
                break
            first_bad = None   # did not repeat
            break
        tsc = split(tlines)
        bad = min(tv['matched'], len(tlines) - 1)
        k = max(i for i in range(len(tsc)) if tsc[i][1] <= bad)
        name, a, b = tsc[k]
        info = {'scenario': name, 'event': json.loads(tlines[bad]), 'invariant': tv['invariant'], 'events': [json.loads(x) for x in tlines[a:b + 1]][:300]}
        if first_bad is not None:
            e = info['event']
            kind = 'data_exceeds_window' if e.get('op') == 'data' else 'queued_data_not_delivered' if e.get('op') == 'drained' else 'trace_rejected'
            ctx.violation({'check': 'C12', 'kind': kind, 'trigger': 'none', 'side': 'transport'},
                          'client transport, scenario %s (and %s in the previous recording): %s; first unexplained event %s'
                          % (name, first_bad['scenario'], tv['invariant'] or 'not a behaviour of FlowLedger.tla', e), info)
            break
        first_bad = info
    cov = {'traces_validated_against_impl': accepted + taccepted, 'client_transport': {'scenarios': tscen, 'events': tev, 'accepted': taccepted},
           'samples': [{'trace_prefix': [json.loads(x) for x in lines[:16]]}],
           'scenarios': len(scs), 'events': len(lines), 'driver_report': report,
           'rule': 'one trace per connection: sender scenarios (1-3 streams, response bodies 0..70000, initial windows 0..70000 incl. mid-stream SETTINGS changes that drive windows '
                   'negative, WINDOW_UPDATE schedules, two-step overflow attempts per stream and per connection, final drain); receiver scenarios (uploads to 200000 bytes with '
                   'padding, small and default buffers, certain overrun against a handler that reads nothing, client RST mid-body kept in separate scenarios)'}
    return ctx.finish(cov, assumptions=['the client ledger counts window increases when sent and decreases when acknowledged: an upper bound of what the server may use',
                                        'the client transport is driven as a sender of request bodies (windows, SETTINGS changes incl. the maximum frame size); and as a receiver of response bodies (consumed or closed early: connection-level credit returned, never over-returned, within the batching bound at quiescence)',
                                        'Flow.tla uses scaled-down constants (windows 8/6, batching threshold 4); the trace uses the real 65535 / 1 MiB / 4096 / 2^31-1'])
