"""C17 - shutdown stops service and returns once HTTP/1.1 exchanges have drained.

TLC: ProxyServer.tla, ShutdownCompletes under fairness, NotServedAfterCancel, ServeReturnsClosed, ReturnedMeansDrained.
Binding: state construction + replay: for each constructed state at the instant of cancel (nothing / before the first accept / idle h1+h2+no-ALPN /
stalled handshakes / mixed / repeated cancel / the gated hand-off race / an HTTP/1.1 exchange in flight with late clients of every protocol during the drain) the real server is cancelled; return value, listener state, fate of a late
connection and latency class are compared with the specification; the hook trace is validated as well.
"""
import lccommon as lc
import vf

PROMPT_S = 2.0      # "within seconds when there is none"; measured < 10 ms on the unchanged tree


def run(ctx):
    ctx.tlc('ProxyServer', 'MC_PS_c17_quick.cfg', label='ShutdownCompletes (liveness under fairness)', timeout=1800)
    trace, report = lc.record(ctx)
    accepted, rejected, lines = lc.validate(ctx, trace)
    for r in rejected:
        ctx.violation({'check': 'C17', 'kind': 'trace_rejected', 'family': r['family'], 'event': (r['event'] or {}).get('op')},
                      'scenario %s: %s; first unexplained event %s' % (r['scenario'], r['invariant'] or 'not a behaviour of ProxyServer.tla', r['event']), r)
    nshut = 0
    for sc in report:
        if sc['family'] == 'twolisten':
            # one Server, two listeners, an HTTP/1.1 exchange in flight at cancel: neither Serve call may return before it has drained
            if sc.get('error'):
                raise vf.Inconclusive('two-listeners scenario: %s' % sc['error'])
            for which in sc.get('returned_before_drain_list') or []:
                ctx.violation({'check': 'C17', 'kind': 'returned_before_drain', 'variant': 'two_listeners'},
                              'scenario %s: Serve on %s returned while an HTTP/1.1 exchange was still in flight' % (sc['name'], which), sc)
            if sc.get('not_returned_10s_after_drain'):
                ctx.violation({'check': 'C17', 'kind': 'serve_did_not_return', 'variant': 'two_listeners'}, 'scenario %s: %s' % (sc['name'], sc['not_returned_10s_after_drain']), sc)
            continue
        if sc['family'] != 'shutdown':
            if sc['family'] != 'panic' and sc.get('serve_err') not in (None, 'ErrServerClosed'):
                ctx.violation({'check': 'C17', 'kind': 'serve_return_value'}, 'scenario %s: Serve returned %s' % (sc['name'], sc.get('serve_err')), sc)
            continue
        nshut += 1
        lat = (sc.get('latency') or {}).get('serve_return_s')
        if lat is None:
            ctx.violation({'check': 'C17', 'kind': 'serve_did_not_return', 'variant': sc.get('variant')}, 'scenario %s: %s' % (sc['name'], sc.get('notes')), sc)
        elif lat > PROMPT_S:
            ctx.violation({'check': 'C17', 'kind': 'serve_returned_late', 'variant': sc.get('variant')},
                          'scenario %s: Serve returned %.2fs after cancel with no HTTP/1.1 exchange in flight' % (sc['name'], lat), sc)
        if sc.get('variant') == 'active':
            if sc.get('returned_before_drain'):
                ctx.violation({'check': 'C17', 'kind': 'returned_before_drain', 'variant': 'active'}, 'scenario %s: Serve returned while an HTTP/1.1 exchange was still in flight' % sc['name'], sc)
        if sc.get('late_connection_served'):
            ctx.violation({'check': 'C17', 'kind': 'served_after_cancel', 'variant': sc.get('variant')}, 'scenario %s: a connection attempted after shutdown was served' % sc['name'], sc)
        if not sc.get('late_dial_refused'):
            ctx.violation({'check': 'C17', 'kind': 'listener_still_open', 'variant': sc.get('variant')}, 'scenario %s: dial succeeded after Serve returned' % sc['name'], sc)
    # the program as shipped: SIGTERM, and once more while an HTTP/1.1 exchange is still in flight (ProxyServer.tla: Cancel is idempotent; Serve returns
    # only after the drain) - the process must survive the second signal and end by itself, normally, once the exchange is over
    import realbin
    ts = realbin.two_signal_shutdown(ctx, realbin.build(ctx))
    if not ts.get('alive_after_first_signal'):
        ctx.violation({'check': 'C17', 'kind': 'returned_before_drain', 'variant': 'real_binary'}, 'real binary: the process ended within 0.4 s of SIGTERM although an HTTP/1.1 exchange was in flight: %s' % ts, ts)
    elif not ts.get('alive_after_second_signal'):
        ctx.violation({'check': 'C17', 'kind': 'killed_by_repeated_signal', 'variant': 'real_binary'}, 'real binary: a second SIGTERM during the drain ended the process (exit status %s) while an HTTP/1.1 exchange was in flight' % ts.get('exit_status'), ts)
    elif ts.get('exit_status') != 0 or not ts.get('log_says_server_closed'):
        ctx.violation({'check': 'C17', 'kind': 'serve_did_not_return', 'variant': 'real_binary'}, 'real binary: after the last exchange ended the process did not end normally with "Server closed": %s' % ts, ts)
    cov = {'real_binary_two_signal_shutdown': {k: v for k, v in ts.items() if k != 'log_tail'}, 'traces_validated_against_impl': len(accepted), 'samples': [{'trace_prefix': lc.sample_trace(lines)}],
           'shutdown_states_constructed': nshut,
           'two_listeners_scenario': [{k: s.get(k) for k in ('name', 'slow_exchange', 'returned_before_drain_list')} for s in report if s.get('variant') == 'two_listeners'], 'active_exchange_scenario': [{k: s.get(k) for k in ('name', 'slow_exchange', 'late_during_drain', 'returned_before_drain')} for s in report if s.get('variant') == 'active'],
           'latencies_s': {s['name']: (s.get('latency') or {}).get('serve_return_s') for s in report if s['family'] == 'shutdown'},
           'rule': 'one scenario per constructed state at cancel; plus every other scenario ends with a cancellation whose return value is checked'}
    return ctx.finish(cov, assumptions=['latency class "prompt" = 2 s (measured: < 10 ms)', 'variant active: one HTTP/1.1 exchange held open across cancel by a gated backend; late h2 / http/1.1 / no-ALPN clients during the drain'])
