"""C13 - the HTTP/2 server obeys the stream state machine for any frame sequence.

TLC: H2Conn.tla - the reaction table of processFrame and callees in code order; invariants: handlers only for complete well-formed blocks on new odd
increasing ids within the advertised limit, none after a connection error, GOAWAY covers every started stream, stream accounting.
Binding: a seeded sample of the graph's edges is covered by paths replayed with a raw-frame client over TLS against the real proxy (MaxConcurrentStreams=2, gated
backend as the handler-completion environment action); after every frame (PING/ACK barrier) RST_STREAM / GOAWAY / SETTINGS-ack / response / handler start are
compared with the specification's reaction, modulo the latitude RFC 9113 gives (escalation of a stream error to a connection error of the same code;
REFUSED_STREAM or PROTOCOL_ERROR over the stream limit).
"""
import json
import os
import random

import vf


def norm(out):
    """multiset of reactions, GOAWAY reduced to its code"""
    res = []
    for x in out:
        if x[0] == 'C':
            res.append(('C', x[1]))
        elif x[0] == 'S':
            res.append(('S', int(x[1]), x[2]))
        elif x[0] in ('START', 'RESP', 'RESP431'):
            res.append((x[0], int(x[1])))
        else:
            res.append(tuple(x))
    return sorted(res, key=repr)


def acceptable(expect, got):
    """got equals expect, or differs only by RFC latitude"""
    e, g = norm(expect), norm(got)
    if e == g:
        return True
    # escalation: every expected ('S', s, code) may appear as ('C', code) - after which nothing else needs to follow
    conn = [x for x in g if x[0] == 'C']
    if conn:
        codes = {x[2] for x in e if x[0] == 'S'} | {x[1] for x in e if x[0] == 'C'}
        if all(c[1] in codes or ('RS' in codes and c[1] == 'PE') for c in conn):
            return True
    # REFUSED_STREAM <-> PROTOCOL_ERROR over the limit
    swap = lambda l: sorted([('S', x[1], 'PE') if x[0] == 'S' and x[2] == 'RS' else x for x in l], key=repr)
    return swap(e) == swap(g)


def handlers_layer(ctx, drv):
    """H2Handlers.tla: when the handler of an accepted request starts (scheduleHandler / handlerDone / the early-reset backlog).
    TLC: invariants, action properties and liveness on the model; the flood must be inside the bound (NotDead violated).
    Binding: paths covering the edges of the state graph replayed against the real stack with handlers that ignore their context."""
    t = ctx.tier
    ctx.tlc('H2Handlers', 'MC_C13_handlers1.cfg', label='handler scheduling, one slot: invariants, action properties, NoStarvation under fairness', timeout=900)
    ctx.tlc('H2Handlers', 'MC_C13_handlers2.cfg' if t == 'quick' else 'MC_C13_handlers2_thorough.cfg',
            label='handler scheduling, two slots: invariants, action properties, NoStarvation under fairness', timeout=3000)
    r = ctx.tlc('H2Handlers', 'MC_C13_handlers_reach.cfg', label='the ENHANCE_YOUR_CALM flood is reachable inside the bound (NotDead must be violated)', timeout=900, expect_ok=False)
    if not r.get('violation'):
        raise vf.Inconclusive('H2Handlers: the flood is not reachable in the bounded model (vacuous)')
    rng = random.Random(ctx.seed + 77)
    res = {'paths': 0, 'steps': 0, 'floods': 0, 'queued_then_started': 0, 'dropped_after_reset': 0}
    for adv, cfg, sample in ((1, 'MC_C13_handlers1_graph.cfg', 1.0), (2, 'MC_C13_handlers2_graph.cfg', 0.012 if t == 'quick' else 0.2)):
        gpath, g, _ = vf.tlc_graph(ctx, 'H2Handlers', cfg, 'c13hgraph%d' % adv, timeout=1800)
        epaths, total = vf.edge_cover_paths(g, rng, sample=sample, max_len=34)
        paths = []
        for pi, ep in enumerate(epaths):
            steps = []
            for ei in ep:
                e = g['edges'][ei]
                dst = g['nodes'][e[1]]
                op = {'Open': 'open', 'Rst': 'rst', 'Finish': 'finish'}[e[2]]
                k = int(e[3][0]) if e[3] else int(g['nodes'][e[0]]['next'])
                steps.append({'op': op, 's': k, 'expect': dst['out']})
            paths.append({'id': pi, 'steps': steps})
        pending = paths
        settle = 30
        verdicts = {}
        for attempt in range(3):
            vin = os.path.join(ctx.scratch, 'c13h%d_in_%d.json' % (adv, attempt))
            vout = os.path.join(ctx.scratch, 'c13h%d_out_%d.json' % (adv, attempt))
            vf.write_graph(pending, vin)
            ctx.run_driver(drv, [vin, vout], timeout=3000, env={'VF_MODE': 'handlers', 'VF_ADVMAX': str(adv), 'VF_SETTLE_MS': str(settle),
                                                                'VF_PAR': '32' if attempt == 0 else '4'})
            obs = vf.read_json(vout)
            again = []
            nerr = 0
            for p, o in zip(pending, obs):
                if o.get('err'):
                    nerr += 1
                    continue
                bad = None
                trail = []
                for st, so in zip(p['steps'], o['steps']):
                    trail.append([st['op'], st['s']])
                    if so.get('err') and not any(x[0] == 'C' for x in st['expect']):
                        bad = ('connection_lost', 'after %s the connection failed (%s); specification expects %s' % (trail, so['err'], st['expect']), so)
                        break
                    if not acceptable(st['expect'], so.get('got') or []):
                        got = so.get('got') or []
                        kind = 'handler_started_illegally' if [x for x in got if x[0] == 'START' and x not in [list(y) for y in st['expect']]] else \
                            'handler_not_started' if any(x[0] == 'START' for x in st['expect']) else 'wrong_reaction'
                        bad = (kind, 'steps %s (stream k has wire id 2k-1, limit %d): server reacted %s, H2Handlers.tla says %s' % (trail, adv, got, st['expect']), so)
                        break
                if bad is None and o.get('late_starts'):
                    bad = ('handler_started_illegally', 'steps %s (limit %d): %s reached the handler although no step expected a start' % (trail, adv, o['late_starts']), None)
                if bad is None:
                    verdicts.pop(p['id'], None)
                    if attempt == 0:
                        res['paths'] += 1
                        res['steps'] += len(p['steps'])
                        res['floods'] += sum(1 for st in p['steps'] if any(x[0] == 'C' for x in st['expect']))
                        res['queued_then_started'] += sum(1 for st in p['steps'] if st['op'] == 'finish' and any(x[0] == 'START' for x in st['expect']))
                else:
                    # a mismatch is a verdict only if the same path fails again, alone and with a longer settle time
                    verdicts[p['id']] = (bad, trail)
                    again.append(p)
            if nerr > max(3, len(pending) // 20):
                raise vf.Inconclusive('handlers layer: %d of %d paths failed in the harness' % (nerr, len(pending)))
            if not again:
                break
            pending = again
            settle *= 6
        for pid, (bad, trail) in sorted(verdicts.items())[:20]:
            ctx.violation({'check': 'C13', 'kind': bad[0], 'frame': 'handlers'}, bad[1], {'path': trail, 'observed': bad[2], 'limit': adv})
        res['graph_edges_%d' % adv] = len(g['edges'])
        res['edges_sampled_%d' % adv] = total
    return res


def loop_layer(ctx):
    """ServeLoop.tla: the serve loop's select between the result of the asynchronous write that ends a stream and the client's next HEADERS
    frame.  TLC: with the drain rule a legal request is never refused, without it (model mutant) it is; the state the replay constructs
    (both pending) is reachable.  Binding: that state is built on the real serverConn in-package (fake network, serve loop held through
    serveMsgCh), many fresh connections per limit because the select is a coin flip."""
    ctx.tlc('ServeLoop', 'MC_C13_loop_ok.cfg', label='serve loop: wrote/read both pending, drain rule in force - a legal request is never refused')
    r = ctx.tlc('ServeLoop', 'MC_C13_loop_nodrain.cfg', label='serve loop without the drain rule: must violate LegalNeverRefused (model mutant)', expect_ok=False)
    if not r.get('violation'):
        raise vf.Inconclusive('ServeLoop.tla: the mutant without the drain rule is not rejected')
    r = ctx.tlc('ServeLoop', 'MC_C13_loop_both.cfg', label='serve loop: the both-pending state is reachable (NeverBothPending must be violated)', expect_ok=False)
    if not r.get('violation'):
        raise vf.Inconclusive('ServeLoop.tla: both-pending state unreachable')
    r = ctx.tlc('ServeLoop', 'MC_C13_loop_residual.cfg', label='serve loop, writer goroutine descheduled between conn.Write and the channel send: refusal remains (model-only)', expect_ok=False)
    residual = bool(r.get('violation'))
    out = os.path.join(ctx.scratch, 'c13loop.json')
    p = ctx.overlay_test('pkg/http2', ['common/graph_test.go', 'http2/c13loop_test.go'], '^TestVFC13Loop$', timeout=900,
                         env={'VF_LOOP_OUT': out, 'VF_LOOP_CONNS': '40' if ctx.tier == 'quick' else '400'}, pkgname='http2')
    if not os.path.exists(out):
        raise vf.Inconclusive('serve-loop driver wrote no result (go test rc=%d):\n%s' % (p.returncode, vf.tail(p.stdout, 40)))
    o = vf.read_json(out)
    for f in o.get('failures') or []:
        if f.startswith('setup:') or 'panic' in f:
            raise vf.Inconclusive('serve-loop driver: %s' % f)
        ctx.violation({'check': 'C13', 'kind': 'legal_request_refused', 'frame': 'serve_loop_order'}, f, o)
    if not o.get('failures') and p.returncode != 0:
        raise vf.Inconclusive('serve-loop driver failed:\n%s' % vf.tail(p.stdout, 40))
    return {'connections_with_both_events_pending_at_the_select': o['connections'], 'served': o['served'],
            'model_only_residual_refusal (writer goroutine descheduled before the channel send)': residual}


def stream_layer(ctx):
    """H2Stream.tla: what the serve loop MAY do, over the events of its hook points (frame taken from the reader or the reader's error, frame
    write started, handler started / pushed / returned).  TLC: the clauses of C13 as invariants and action properties of every behaviour the
    guards admit, against an unconstrained client.  Binding (code -> spec): the repository's OWN pkg/http2 tests are re-run with recording on
    (in-package recorder, one history per serverConn, order of the serve goroutine) and every connection must be a behaviour of the module;
    a rejected connection is reported and validation continues with the connections after it."""
    ctx.tlc('H2Stream', 'MC_C13_stream.cfg', label='serve-loop monitor: handlers only for new odd increasing request streams within the limit, GOAWAY covers and shrinks, nothing started after a connection error (arbitrary client)', timeout=900)
    rec = os.path.join(ctx.scratch, 'h2rec.ndjson')
    for f in (rec, rec + '.rc'):
        if os.path.exists(f):
            os.remove(f)
    p = ctx.overlay_test('pkg/http2', ['http2/h2rec_test.go'], '.', timeout=900, env={'VF_H2REC': rec}, pkgname='http2')
    if not os.path.exists(rec) or not os.path.exists(rec + '.rc'):
        raise vf.Inconclusive("the repository's pkg/http2 tests did not run to the end with recording on (go test rc=%d):\n%s" % (p.returncode, vf.tail(p.stdout, 40)))
    lines = open(rec).read().splitlines()
    starts = [i for i, x in enumerate(lines) if '"e":"reset"' in x]
    res = {'repo_tests_exit_code': int(open(rec + '.rc').read().strip() or 0), 'connections': len(starts), 'events': len(lines) - len(starts),
           'connections_accepted': 0, 'connections_rejected': 0}
    kinds = {}
    for x in lines:
        e = json.loads(x)
        k = e['e'] + (':' + e['t'] if e['e'] in ('read', 'write') else '')
        kinds[k] = kinds.get(k, 0) + 1
    res['events_by_kind'] = kinds
    if len(starts) < 50 or kinds.get('start', 0) < 100 or kinds.get('write:GOAWAY', 0) < 5 or kinds.get('write:RST_STREAM', 0) < 20:
        raise vf.Inconclusive('recording of the repository tests is too thin to mean anything: %s' % kinds)
    at, rounds = 0, 0
    while at < len(starts) and rounds < 12:
        rounds += 1
        part = os.path.join(ctx.scratch, 'h2rec_part%d.ndjson' % rounds)
        base = starts[at]
        open(part, 'w').write('\n'.join(lines[base:]) + '\n')
        tv = vf.validate_trace(ctx, 'Trace_H2Stream', 'Trace_C13_stream.cfg', part, 'trace_h2stream.ndjson',
                               label='trace validation (serve-loop monitor), repository tests, round %d' % rounds, timeout=1200)
        if not tv['invariant'] and tv['matched'] >= tv['total']:
            res['connections_accepted'] += len(starts) - at
            break
        bad = min(base + tv['matched'], len(lines) - 1)
        k = max(i for i in range(at, len(starts)) if starts[i] <= bad)
        res['connections_accepted'] += k - at
        res['connections_rejected'] += 1
        end = starts[k + 1] if k + 1 < len(starts) else len(lines)
        events = [json.loads(x) for x in lines[starts[k]:end]]
        ev = json.loads(lines[bad])
        what = {'start': 'handler_started_illegally', 'push': 'handler_started_illegally', 'done': 'handler_accounting'}.get(ev['e'])
        if ev['e'] == 'write':
            what = {'GOAWAY': 'goaway_last_stream', 'RST_STREAM': 'reset_not_permitted', 'HEADERS': 'frame_on_ended_stream', 'DATA': 'frame_on_ended_stream'}.get(ev['t'], 'write_not_permitted')
        ctx.violation({'check': 'C13', 'kind': what or 'trace_rejected', 'frame': 'serve_loop_monitor'},
                      'connection %d of the repository\'s pkg/http2 tests is not a behaviour of H2Stream.tla: %s; first unexplained event %s'
                      % (ev['c'], tv['invariant'] or 'guard of the action false', {a: b for a, b in ev.items() if b != -1}),
                      {'events_up_to_the_rejected_one': events[:bad - starts[k] + 1][-60:]})
        at = k + 1
    return res


def run(ctx):
    t = ctx.tier
    if t == 'thorough':
        # depth 7 exhaustively for the invariants (28 M transitions: no graph dump), depth 5 on the larger stream set for the replay graph
        ctx.tlc('H2Conn', 'MC_C13_thorough.cfg', label='exhaustive to depth 7 (invariants and action properties only)', timeout=3000)
    gpath, g, r = vf.tlc_graph(ctx, 'H2Conn', 'MC_C13_quick.cfg' if t == 'quick' else 'MC_C13_thorough_graph.cfg', 'c13graph', timeout=1800)
    rng = random.Random(ctx.seed)
    sample = 0.012 if t == 'quick' else 0.03
    # only edges taken from a live connection are informative (after a connection error everything is discarded)
    live = lambda e: g['nodes'][e[0]]['ga'] != 'error'
    epaths, total = vf.edge_cover_paths(g, rng, want_edge=live, sample=sample, max_len=9)
    # targeted paths next to the sampled cover: a request that declares the length of its body and then sends exactly that much, the last DATA
    # frame plain / padded / (after a plain one) padding only - on a fresh connection and behind one earlier request
    out_edges = {}
    for ei, e in enumerate(g['edges']):
        out_edges.setdefault(e[0], []).append(ei)
    def step_to(node, pred):
        for ei in out_edges.get(node, []):
            e = g['edges'][ei]
            if e[2] == 'ClientFrame' and pred(e[3]):
                return ei
        return None
    forced = {}     # index in epaths -> {step index: form}
    for init in g['init'][:1]:
        e0 = step_to(init, lambda f: f[0] == 'SETTINGS' and f[4] == 'ok')
        if e0 is None:
            continue
        n0 = g['edges'][e0][1]
        for sid in (1, 3):
            eh_ = step_to(n0, lambda f: f[0] == 'HEADERS' and f[1] == sid and f[2] is False and f[3] is True and f[4] == 'ok')
            if eh_ is None:
                continue
            n1 = g['edges'][eh_][1]
            ed_end = step_to(n1, lambda f: f[0] == 'DATA' and f[1] == sid and f[2] is True)
            ed_mid = step_to(n1, lambda f: f[0] == 'DATA' and f[1] == sid and f[2] is False)
            if ed_end is not None:
                for form in (0, 1):
                    forced[len(epaths)] = {2: form}
                    epaths.append([e0, eh_, ed_end])
            if ed_mid is not None:
                n2 = g['edges'][ed_mid][1]
                ed_end2 = step_to(n2, lambda f: f[0] == 'DATA' and f[1] == sid and f[2] is True)
                if ed_end2 is not None:
                    for forms in ((0, 1), (1, 2), (1, 0), (0, 2)):
                        forced[len(epaths)] = {2: forms[0], 3: forms[1]}
                        epaths.append([e0, eh_, ed_mid, ed_end2])
    paths = []
    unobservable = [0]
    for pi, ep in enumerate(epaths):
        steps = []
        for ei in ep:
            e = g['edges'][ei]
            src, dst = g['nodes'][e[0]], g['nodes'][e[1]]
            # inside an open header block no PING barrier is possible; steps whose reaction is not a GOAWAY cannot be
            # observed deterministically there (handler completion, zero WINDOW_UPDATE -> RST_STREAM): the path ends before them
            if src['hdr'] != 0 and (e[2] == 'HandlerFinish' or (e[3][0] == 'WU' and e[3][4] == 'zero')):
                unobservable[0] += 1
                break
            # in graceful state a connection error writes no second GOAWAY: the connection just ends (shutdown timer)
            st = {'expect': dst['out'], 'dead': src['ga'] == 'error', 'silent': src['ga'] == 'graceful' and dst['ga'] == 'error'}
            if e[2] == 'ClientFrame':
                st['f'] = list(e[3])
                sid = e[3][1]
                im = src['inMap']   # a function on 1..n is printed as a sequence by TLC
                if e[3][0] == 'DATA':
                    # the form of the frame is the harness's choice (the model is indifferent to padding): plain, padded, padding only.
                    # A stream that declared content-length 1 keeps its three data octets (that is what its reaction is about).
                    msv = src['ms']
                    flav = (msv[sid - 1] if isinstance(msv, list) else msv.get(str(sid))) if sid >= 1 else '-'
                    form = (pi * 7 + len(steps)) % 3
                    if pi in forced and len(steps) in forced[pi]:
                        form = forced[pi][len(steps)]
                    if form == 2 and flav in ('opensmall', 'hcrsmall'):
                        form = 1
                    st['f'].append(form)
                st['trailer'] = bool(sid in (1, 2, 3, 5) and (im[sid - 1] if isinstance(im, list) else im.get(str(sid))))
            else:
                st['finish'] = e[3][0]
            steps.append(st)
        if steps:
            paths.append({'id': pi, 'steps': steps, 'declare': pi in forced})
    vin = os.path.join(ctx.scratch, 'c13_in.json')
    vout = os.path.join(ctx.scratch, 'c13_out.json')
    vf.write_graph(paths, vin)
    drv = ctx.build_driver('c13driver')
    ctx.run_driver(drv, [vin, vout], timeout=3000, env={'VF_ADVMAX': '1' if t == 'quick' else '2'})
    obs = vf.read_json(vout)
    nsteps = 0
    hkinds = {}
    nerr = 0
    diverge = 0
    samples = []
    for p, o in zip(paths, obs):
        if o.get('err'):
            nerr += 1
            continue
        trail = []
        for st, so in zip(p['steps'], o['steps']):
            what = st.get('f') or ['HandlerFinish', st.get('finish')]
            trail.append(what)
            if st.get('silent'):
                # nothing but the end of the connection may follow
                if [x for x in (so.get('got') or []) if x[0] in ('START', 'RESP', 'PONG', 'ACK')]:
                    ctx.violation({'check': 'C13', 'kind': 'served_after_connection_error', 'frame': what[0]},
                                  'frames %s: connection error after the graceful GOAWAY, yet the server went on: %s' % (trail, so.get('got')), {'path': trail, 'observed': so})
                nsteps += 1
                break
            if so.get('err') and not any(x[0] == 'C' for x in st['expect']):
                # the connection died although the specification expects it to live
                ctx.violation({'check': 'C13', 'kind': 'connection_lost', 'frame': what[0]},
                              'after %s the connection failed (%s); specification expects %s' % (trail, so['err'], st['expect']), {'path': trail, 'observed': so})
                break
            nsteps += 1
            if st.get('f') and st['f'][0] == 'HEADERS':
                hkinds[st['f'][4]] = hkinds.get(st['f'][4], 0) + 1
                if any(x[0] == 'RESP431' for x in st['expect']):
                    hkinds['answered_431_by_the_server'] = hkinds.get('answered_431_by_the_server', 0) + 1
            if not acceptable(st['expect'], so.get('got') or []):
                kinds = {x[0] for x in (so.get('got') or [])} | {x[0] for x in st['expect']}
                kind = 'handler_started_illegally' if any(x[0] == 'START' for x in so.get('got') or []) and not any(x[0] == 'START' for x in st['expect']) else \
                    'handler_not_started' if any(x[0] == 'START' for x in st['expect']) else 'wrong_reaction'
                ctx.violation({'check': 'C13', 'kind': kind, 'frame': what[0]},
                              'frames %s: server reacted %s, specification (RFC latitude applied) says %s' % (trail, so.get('got'), st['expect']),
                              {'path': trail, 'observed': so, 'expected': st['expect']})
                break
            if norm(st['expect']) != norm(so.get('got') or []):
                diverge += 1
        for late in o.get('late_starts') or []:
            ctx.violation({'check': 'C13', 'kind': 'handler_started_illegally', 'frame': 'late'},
                          'frames %s: request %s reached the handler although no step expected a handler start' % (trail, late), {'path': trail})
        if len(samples) < 4 and p['id'] % 211 == 0:
            samples.append({'frames': trail, 'reactions': [s.get('got') for s in o['steps']]})
    hres = handlers_layer(ctx, drv)
    lres = loop_layer(ctx)
    sres = stream_layer(ctx)
    if nerr > max(3, len(paths) // 50):
        raise vf.Inconclusive('%d of %d paths failed in the harness, e.g. %s' % (nerr, len(paths), [o['err'] for o in obs if o.get('err')][:2]))
    cov = {'traces_validated_against_impl': len(paths) - nerr + hres['paths'] + sres['connections_accepted'], 'handler_scheduling_layer': hres, 'serve_loop_event_order': lres, 'serve_loop_monitor_over_the_repository_tests': sres, 'samples': samples or [{'frames': [s.get('f') for s in paths[0]['steps']]}],
           'steps_compared': nsteps, 'header_blocks_replayed_by_kind': hkinds, 'graph_edges_total': len(g['edges']), 'live_edges_sampled': total, 'edge_sample_fraction': sample,
           'reactions_accepted_by_rfc_latitude_only': diverge, 'paths_cut_at_unobservable_step_inside_open_header_block': unobservable[0],
           'rule': 'paths from the initial state covering a seeded sample of the live edges of the TLC graph (frame alphabet: SETTINGS ok/ack/bad, HEADERS/CONTINUATION with '
                   'END_STREAM/END_HEADERS variants, malformed block, self-dependency, DATA, RST_STREAM, WINDOW_UPDATE ok/zero/overflow, PRIORITY ok/self, PUSH_PROMISE, PING ok/ack/wrong size/on a stream, GOAWAY from the client (graceful state: newer streams discarded, no second GOAWAY on a later connection error), unknown; '
                   'streams 0,1,2,3 with a concurrency limit of 1 in the quick tier, 0,1,2,3,5 with a limit of 2 in the thorough tier; handler completion as an environment action)'}
    return ctx.finish(cov, assumptions=['handler scheduling (H2Handlers.tla): handlers that ignore their context; a step whose only effect nothing on the wire acknowledges (a handler of a reset stream returns) is followed by a settle time, and a mismatch is a verdict only when the path fails three times, alone, with settle times up to 1 s',
                                        'the RFC-permitted set is derived from the tabulated reaction plus the two latitude rules (not an independent transcription of RFC 9113)',
                                        'the scripted client waits for a PING acknowledgement after every frame: reset-in-flight states are not reached',
                                        '"handler started" is observed as arrival at the gated backend behind the real reverse-proxy handler'])
