"""C10 - no client behaviour or per-connection failure takes the proxy down.

TLC: ProxyServer.tla with the fault layer: PanicConfined, plus the invariants under client aborts anywhere.
Binding: (a) panics injected in user callbacks reachable from the connection goroutine (GetCertificate, ConnState hook on h2 and on h1) against the
real server in a child process: the child must survive and serve control requests on both protocols; (b) the mixed-abuse scenarios (garbage, plain
HTTP, aborts at random byte offsets of TLS / HTTP/1.1 / HTTP/2 sessions, stalls) run in-process - any escaped panic would kill the driver - and their
traces are validated; (c) the frame space of H2Frame.tla (every abstract frame x open-header-block state of the TLC graph, serialized by the C19 driver, plus cuts) sent to the
real stack in a child process, one connection each, on a fresh connection and with a stream open; control requests on both protocols between batches;
a child that dies or stops serving is bisected to the single connection that did it (harness/cmd/abusedriver).
"""
import os

import lccommon as lc
import vf


def run(ctx):
    ctx.tlc('ProxyServer', 'MC_PS_c10_quick.cfg', label='PanicConfined (liveness under fairness)', timeout=1800)
    trace, report = lc.record(ctx, census=True)
    accepted, rejected, lines = lc.validate(ctx, trace)
    for sc in report:
        if sc['family'] == 'leakcheck':
            # a client that leaves goroutines (and what they hold) behind for good can repeat that at will: the proxy does not survive it
            for g in sc.get('leaked') or []:
                ctx.violation({'check': 'C10', 'kind': 'goroutine_never_ended'},
                              'after every scenario ended and every server was stopped a goroutine is still inside the proxy: %s' % g, sc)
    for sc in report:
        if sc['family'] == 'iofault':
            for n in sc.get('notes') or []:
                if n.startswith('control'):
                    ctx.violation({'check': 'C10', 'kind': 'stopped_serving_after_io_fault'}, 'scenario %s: %s' % (sc['name'], n), sc)
    for r in rejected:
        if r['family'] in ('mix', 'iofault', 'leave'):
            ctx.violation({'check': 'C10', 'kind': 'trace_rejected', 'family': r['family']},
                          'scenario %s: %s; first unexplained event %s' % (r['scenario'], r['invariant'] or 'not a behaviour of ProxyServer.tla', r['event']), r)
    npanic = 0
    for sc in report:
        if sc['family'] != 'panic':
            continue
        npanic += 1
        if sc.get('error'):
            raise vf.Inconclusive('panic scenario %s could not run: %s' % (sc['name'], sc['error']))
        if not sc.get('survived'):
            ctx.violation({'check': 'C10', 'kind': 'process_died_or_stopped_serving', 'callback': sc['point']},
                          'a panic in the user callback %s on one connection: control requests afterwards h1=%s h2=%s, child exit %s'
                          % (sc['point'], sc.get('control_after_h1'), sc.get('control_after_h2'), sc.get('child_exit')), sc)
    # (c) every abstract frame of H2Frame.tla x open-header-block state, serialized by the C19 driver, thrown at the live stack in a child process
    gpath, g, r = vf.tlc_graph(ctx, 'H2Frame', 'MC_C19_read.cfg', 'c10frames')
    vecs = os.path.join(ctx.scratch, 'c10_vectors.ndjson')
    vf.run_overlay_driver(ctx, 'pkg/http2', ['common/graph_test.go', 'http2/c19_test.go'], '^TestVFC19Read$',
                          env={'VF_GRAPH': gpath, 'VF_MAXREAD': '16384', 'VF_MUTATIONS': '0', 'VF_DUMPBYTES': vecs}, out_name='c10_c19r.json')
    drv = ctx.build_driver('abusedriver')
    rep = os.path.join(ctx.scratch, 'c10_abuse.json')
    ctx.run_driver(drv, ['run', vecs, rep], timeout=3000, env={'VF_ABUSE_LIMIT': '500' if ctx.tier == 'quick' else '0'})
    abuse = vf.read_json(rep)
    if abuse.get('error'):
        raise vf.Inconclusive('abuse driver: %s' % abuse['error'][:600])
    for k in abuse.get('killers') or []:
        ctx.violation({'check': 'C10', 'kind': 'process_died_or_stopped_serving', 'frame_type': k['frame_type']},
                      ('one stalled client (script %s, read timeout 400ms): %s' % (k['mode'], k['effect'])) if k['frame_type'] == 'STALL' else ('one client sending %s: %s' % (k['mode'], k['effect'])) if k['frame_type'] == 'SHOT' else ('ordinary clients only (%s): %s' % (k['mode'], k['effect'])) if k['frame_type'] == 'ORDINARY' else
                      'one HTTP/2 connection sending a %s frame (%d bytes, %s, open header block on %s): %s' % (k['frame_type'], k['len'], k['mode'], k['open_header_block_on'], k['effect']), k)
    # the program as shipped (cmd/main.go -> Run()) as a child process: clients that go away before they read their answer
    import realbin
    rb = realbin.clients_going_away(ctx, realbin.build(ctx))
    if rb['died']:
        ctx.violation({'check': 'C10', 'kind': 'process_died_or_stopped_serving', 'via': 'real_binary'}, 'real binary: %s; log: %s' % (rb['died'], rb['log_tail'][-300:]), rb)
    cov = {'real_binary_clients_going_away_rounds (FIN / RST / HTTP/2, answer never read)': rb['rounds'], 'traces_validated_against_impl': len([a for a in accepted if a.split('-')[0] in ('mix', 'iofault', 'leave')]) + npanic + abuse['connections'],
           'h2_frame_abuse': {k: abuse[k] for k in ('vectors_in_graph', 'connections', 'by_type', 'strata', 'outcomes', 'control_rounds', 'stall_scripts', 'one_shot_scripts', 'floods') if k in abuse},
           'samples': [{'panic_scenario': {k: v for k, v in s.items() if k != 'child_stderr_head'}} for s in report if s['family'] == 'panic'][:2] + [{'trace_prefix': lc.sample_trace(lines, 10)}],
           'panic_callbacks': [s['point'] for s in report if s['family'] == 'panic'],
           'abuse_scenarios': [s['name'] for s in report if s['family'] in ('mix', 'iofault', 'leave')],
           'rule': 'fault enumeration over user callbacks x protocols in a child process; abusive client scripts in-process with trace validation; H2Frame.tla frame space against a child process (quick: sample covering every frame type, thorough: all)'}
    return ctx.finish(cov, assumptions=['handler and header-injector panics are recovered by net/http and the HTTP/2 server themselves (per request)',
                                        'server-side I/O errors are injected at the k-th Read / k-th Write of the accepted connection (k = 1..10 quick, 1..40 thorough) on every connection kind; errors of the backend connection are not injected'])
