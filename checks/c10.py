"""C10 - no client behaviour or per-connection failure takes the proxy down.

TLC: ProxyServer.tla with the fault layer: PanicConfined, plus the invariants under client aborts anywhere.
Binding: (a) panics injected in user callbacks reachable from the connection goroutine (GetCertificate, ConnState hook on h2 and on h1) against the
real server in a child process: the child must survive and serve control requests on both protocols; (b) the mixed-abuse scenarios (garbage, plain
HTTP, aborts at random byte offsets of TLS / HTTP/1.1 / HTTP/2 sessions, stalls) run in-process - any escaped panic would kill the driver - and their
traces are validated; (c) mutated and truncated HTTP/2 transcripts against the stack (see harness/cmd/abusedriver in the thorough tier).
"""
import lccommon as lc
import vf


def run(ctx):
    ctx.tlc('ProxyServer', 'MC_PS_c10_quick.cfg', label='PanicConfined (liveness under fairness)', timeout=1800)
    trace, report = lc.record(ctx)
    accepted, rejected, lines = lc.validate(ctx, trace)
    for r in rejected:
        if r['family'] == 'mix':
            ctx.violation({'check': 'C10', 'kind': 'trace_rejected', 'family': r['family']},
                          'scenario %s: %s; first unexplained event %s' % (r['scenario'], r['invariant'] or 'not a behaviour of ProxyServer.tla', r['event']), r)
    npanic = 0
    for sc in report:
        if sc['family'] != 'panic':
            continue
        npanic += 1
        if sc.get('error'):
            raise vf.Inconclusive('panic scenario %s could not run: %s' % (sc['name'], sc['error']))
        if not sc.get('survived'):
            ctx.violation({'check': 'C10', 'kind': 'process_died_or_stopped_serving', 'callback': sc['point']},
                          'a panic in the user callback %s on one connection: control requests afterwards h1=%s h2=%s, child exit %s'
                          % (sc['point'], sc.get('control_after_h1'), sc.get('control_after_h2'), sc.get('child_exit')), sc)
    cov = {'traces_validated_against_impl': len([a for a in accepted if a.startswith('mix')]) + npanic,
           'samples': [{'panic_scenario': {k: v for k, v in s.items() if k != 'child_stderr_head'}} for s in report if s['family'] == 'panic'][:2] + [{'trace_prefix': lc.sample_trace(lines, 10)}],
           'panic_callbacks': [s['point'] for s in report if s['family'] == 'panic'],
           'abuse_scenarios': [s['name'] for s in report if s['family'] == 'mix'],
           'rule': 'fault enumeration over user callbacks x protocols in a child process; abusive client scripts in-process with trace validation'}
    return ctx.finish(cov, assumptions=['handler and header-injector panics are recovered by net/http and the HTTP/2 server themselves (per request)',
                                        'I/O error injection at every operation index is not built yet; client-side aborts at random byte offsets stand in for it'])
