"""Replay of Rewrite.tla scenarios (HTTP/1.1 clients) and of configuration clauses through the *real wiring* of fingerproxy.go / flags.go
(overlay/fingerproxy/wiring_test.go compiled into the root package).  Used by C03 C05 C08 C09 C11 C15."""
import json
import os

import vf


def run_wiring(ctx, configs):
    vin = os.path.join(ctx.scratch, 'wiring_in.json')
    vout = os.path.join(ctx.scratch, 'wiring_out.json')
    vf.write_graph(configs, vin)
    if os.path.exists(vout):
        os.remove(vout)
    p = ctx.overlay_test('.', ['fingerproxy/wiring_test.go'], '^TestVFWiring$', env={'VF_WIRING_IN': vin, 'VF_WIRING_OUT': vout}, pkgname='fingerproxy', timeout=600)
    if not os.path.exists(vout):
        raise vf.Inconclusive('wiring driver wrote no result:\n' + vf.tail(p.stdout, 40))
    outs = vf.read_json(vout)
    for o in outs:
        if o.get('err'):
            raise vf.Inconclusive('wiring driver: %s (args %s)' % (o['err'], o['args']))
    return outs


def rewrite_configs(scs, limit=120):
    """group HTTP/1.1 scenarios with ordinary connections and no custom injector by (probe, preserveHost)"""
    groups = {}
    for sc in scs:
        r = sc['req']
        if r['kind'] != 'normal' or r['custom'] != 'absent' or r.get('pre'):
            continue
        if r['proto'] == 'h2':
            # through the fork's own Transport: what Go's client cannot put on the wire is left to the raw-frame drivers
            hop = {'Connection', 'Keep-Alive', 'Upgrade', 'Te', 'Transfer-Encoding', 'Proxy-Connection', 'Host'}
            if len(r['ua']) > 1 or r['ua'] == [''] or r['fam'] == 'target' or r.get('scheme', 'https') != 'https' or any(l['k'] in hop for l in r['lines']):
                continue
        groups.setdefault((r['probe'], r['preserveHost'], r.get('prefix', '')), []).append(sc)
    cfgs, index = [], []
    for gi, ((probe, ph, prefix), lst) in enumerate(sorted(groups.items())):
        # both protocols within the limit: alternate
        a = [x for x in lst if x['req']['proto'] == 'h1']
        b = [x for x in lst if x['req']['proto'] == 'h2']
        lst = [x for pair in zip(a, b) for x in pair] + a[len(b):] + b[len(a):]
        lst = lst[:limit]
        # every configuration is given twice: on the command line and through the environment variables; the requests are shared out between the two
        # (pairs stay together so that both protocols meet both)
        for via_env in (False, True):
            part = [x for j, x in enumerate(lst) if (j // 2) % 2 == int(via_env)]
            if not part:
                continue
            cfgs.append({'args': ['-enable-kubernetes-probe=%s' % str(probe).lower(), '-preserve-host=%s' % str(ph).lower()], 'forward_path': prefix, 'via_env': via_env,
                         'requests': [{'proto': sc['req']['proto'], 'id': sc['id'], 'method': sc['req']['method'], 'path': sc['req']['path'], 'host': sc['req']['host'], 'ua': sc['req']['ua'],
                                       'probeText': sc['req']['probeText'], 'lines': sc['req']['lines']} for sc in part]})
            index.append(part)
    return cfgs, index


def replay_rewrite(ctx, scs, limit=120):
    """returns (scenarios replayed, observations by scenario id) in the format rwcommon.judge expects"""
    cfgs, index = rewrite_configs(scs, limit)
    if not cfgs:
        return [], {}
    outs = run_wiring(ctx, cfgs)
    obs = {}
    used = []
    for lst, out in zip(index, outs):
        byid = {o['id']: o for o in out['obs']}
        for sc in lst:
            if sc['id'] in byid:
                o = byid[sc['id']]
                o.setdefault('err', None)
                obs[sc['id']] = o
                used.append(sc)
    return used, obs


def prio_limit_configs():
    """the -max-h2-priority-frames flag (and its default) against connections that captured 0..4 priorities"""
    lims = (0, 1, 2, 3, None, 0, 2)
    return [{'args': (['-max-h2-priority-frames=%d' % n] if n is not None else []), 'prio': [{'n': k} for k in range(5)], 'via_env': i >= 5}
            for i, n in enumerate(lims)], [0, 1, 2, 3, 10000, 0, 2]


def timeout_configs():
    """the timeout flags, on the command line and through the environment: read back from the wired servers and observed on real connections"""
    args = ['-timeout-tls-handshake=250ms', '-timeout-http-idle=300ms', '-timeout-http-read=7s', '-timeout-http-write=9s']
    return [{'args': args, 'timeouts': True}, {'args': args, 'timeouts': True, 'via_env': True}]


def cert_configs():
    """the TLS configuration as wired (defaultTLSConfig + certwatcher): what clients of several kinds are shown before and after rotations"""
    # (the paths as an operator may legally spell them: canonical, with a "." segment, with a doubled slash, relative)
    return [{'args': [], 'certs': True}, {'args': [], 'certs': True, 'via_env': True, 'cert_spelling': 'dot'},
            {'args': [], 'certs': True, 'cert_spelling': 'dslash'}, {'args': [], 'certs': True, 'cert_spelling': 'rel'}]


def aged_configs():
    """requests on connections older than the handshake timeout (250 ms): served like the first one"""
    args = ['-timeout-tls-handshake=250ms']
    return [{'args': args, 'aged': True}, {'args': args + ['-enable-kubernetes-probe=false'], 'aged': True, 'via_env': True}]


def judge_aged(ctx, check):
    n = 0
    for wout in run_wiring(ctx, aged_configs()):
        if wout.get('err'):
            raise vf.Inconclusive('wiring driver: %s' % wout['err'])
        a = wout.get('aged') or {}
        if a.get('h2_first') != '200/1' or a.get('h1_first', '200/1') != '200/1':
            raise vf.Inconclusive('wiring driver: the first request on a fresh connection is not served: %s' % a)
        for k, v in sorted(a.items()):
            n += 1
            if v != '200/1':
                ctx.violation({'check': check, 'kind': 'not_forwarded', 'via': 'real_wiring', 'request': k},
                              'real wiring, handshake timeout 250 ms: request %s on a connection older than that came back as status/forwarded = %s (all: %s)' % (k, v, a), wout)
    return n
