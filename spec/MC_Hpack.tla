------------------------------- MODULE MC_Hpack -------------------------------
(* Bounded instances of Hpack.tla. *)
EXTENDS Hpack

F(n, v, s, sz) == [n |-> n, v |-> v, s |-> s, sz |-> sz]
\* sizes are len(name)+len(value)+32
MCFields == { F(":method", "GET", FALSE, 42),                \* static exact match (index 2)
              F("accept-charset", "x", FALSE, 47),           \* static name match (index 15)
              F("vf-a", "1", FALSE, 37), F("vf-a", "2", FALSE, 37),   \* new name, two values
              F("vf-b", "0123456789012345678901234567890123456789012345678901234567890123", FALSE, 100),  \* larger than a 70-byte table
              F("vf-s", "k", TRUE, 37) }                     \* sensitive: never indexed
MCLimits == {0, 70, 100, 4096}

R(k, i, n, v, sz) == [k |-> k, i |-> i, n |-> n, v |-> v, sz |-> sz]
MCFeed == { [k |-> "size", max |-> 0], [k |-> "size", max |-> 70], [k |-> "size", max |-> 4096], [k |-> "size", max |-> 4097],
            [k |-> "indexed", i |-> 0], [k |-> "indexed", i |-> 2], [k |-> "indexed", i |-> 61], [k |-> "indexed", i |-> 62],
            [k |-> "indexed", i |-> 63], [k |-> "indexed", i |-> 200],
            [k |-> "indexed", i |-> 2000000000], R("noidx", 2000000000, "", "k", 37),   \* 2000000000 stands for 2^63 (see the harness): beyond any table, and beyond int64
            R("incr", 0, "vf-a", "1", 37), R("incr", 15, "", "x", 47), R("incr", 62, "", "2", 37), R("incr", 99, "", "2", 37),
            R("incr", 0, "vf-b", "0123456789012345678901234567890123456789012345678901234567890123", 100),
            R("noidx", 0, "vf-a", "3", 37), R("never", 62, "", "k", 37), R("noidx", 70, "", "k", 37) }
=============================================================================
