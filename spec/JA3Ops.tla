-------------------------------- MODULE JA3Ops --------------------------------
(* The ideal JA3 string of an abstract hello [ver, ciphers, exts, groups, points], straight from the   *)
(* statement of C01.  No variables: also used for batch evaluation of hellos captured from real runs.  *)
EXTENDS FpUtil

JA3String(x) == JoinStr(<< ToString(x.ver),
                           JoinStr(Dec(NoGrease(x.ciphers)), "-"),
                           JoinStr(Dec(NoGrease(x.exts)), "-"),
                           JoinStr(Dec(NoGrease(x.groups)), "-"),
                           JoinStr(Dec(x.points), "-") >>, ",")

=============================================================================
