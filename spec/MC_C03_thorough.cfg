SPECIFICATION Spec
CONSTANTS
  MaxReq = 3
  MaxPrio = 4
  TrackHist = FALSE
  MaxHist = 0
INVARIANTS PrioCut
CHECK_DEADLOCK FALSE
