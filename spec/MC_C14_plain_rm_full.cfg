SPECIFICATION Spec
CONSTANTS Versions = {1}
  MaxSteps = 4
  ReAddOnRemove = TRUE
  CachePerFile = FALSE
  WithRemoval = TRUE
  OnlyRotations = FALSE
  Serialized = FALSE
INVARIANTS Converges ServedIsValidVersion
PROPERTIES KeepsLastGood
CHECK_DEADLOCK FALSE
