--------------------------------- MODULE H2FPConc ---------------------------------
(***************************************************************************)
(* C07.  One HTTP/2 connection: the serve goroutine keeps capturing frames *)
(* into md.HTTP2Frames (serverConn.processFrame) while the handler of an    *)
(* earlier request marshals the fingerprint (HTTP2FingerprintingFrames      *)
(* .Marshal, four reads in order: Settings, WindowUpdateIncrement,          *)
(* Priorities, Headers).                                                    *)
(*                                                                         *)
(* Writer: per frame  WBegin (take the lock) ; W1 ; [W2 for HEADERS with    *)
(* priority: Headers = ..., then Priorities = append(...)] ; WEnd.          *)
(* Reader: RBegin (take the read lock) ; RS ; RWU ; RP ; RH ; REnd.         *)
(* Locked = TRUE is the code with the mutex; Locked = FALSE is the pinned   *)
(* code (D4) and is run to show that the property is not vacuous.           *)
(*                                                                         *)
(* Consistent: the string the reader assembles equals Marshal of ONE        *)
(* snapshot of the connection's frame history, taken between the arrival of *)
(* the request's own HEADERS and the end of Marshal.                        *)
(***************************************************************************)
(* The reader is a handler goroutine, and a handler outlives its stream: the client may reset the request while its handler sits       *)
(* inside Marshal.  Nothing in this module depends on whether a stream is open - Exclusion is between the serve loop's capture sites  *)
(* and ANY reader; the gated replay therefore also runs every schedule with an RST_STREAM for request 1 in front of the later frames. *)
EXTENDS H2FpOps

CONSTANTS Locked, MaxLater

LaterFrames == {"S2", "W0a", "P1", "H2"}
Laters == { s \in Seqs(LaterFrames, MaxLater) : \A i, j \in 1..Len(s) : (i # j /\ s[i] = "H2") => s[j] # "H2" }   \* at most one further request

VARIABLES later,               \* frames that arrive after request 1's HEADERS (scenario)
          S, WU, P, H,         \* md.HTTP2Frames
          snaps,               \* Marshal of the state after request 1's HEADERS and after every later frame
          n,                   \* later frames completely processed
          wpc,                 \* writer: "idle" "w1" "w2" "end"
          rpc,                 \* reader of request 1: "start" "rS" "rWU" "rP" "rH" "done"
          gS, gWU, gP, gH,     \* what the reader got
          lock,                \* 0 free, 1 writer, 2 reader
          lo                   \* snapshots that existed when the reader started are all eligible: index of the first one
vars == <<later, S, WU, P, H, snaps, n, wpc, rpc, gS, gWU, gP, gH, lock, lo>>

M(s, w, p, h) == Marshal(s, w, p, h, 1000000)

\* state after the preamble  S1 ; H1 (request 1 on stream 1, no priority)
S0 == SettingsOf("S1")
H0 == OrderOf("H1")

Init == /\ later \in Laters
        /\ S = S0 /\ WU = 0 /\ P = <<>> /\ H = H0
        /\ snaps = << M(S0, 0, <<>>, H0) >>
        /\ n = 0 /\ wpc = "idle" /\ rpc = "start"
        /\ gS = <<>> /\ gWU = 0 /\ gP = <<>> /\ gH = <<>> /\ lock = 0 /\ lo = 1

Frame == later[n + 1]
Free == ~Locked \/ lock = 0

WBegin == /\ wpc = "idle" /\ n < Len(later) /\ Free
          /\ lock' = IF Locked THEN 1 ELSE lock
          /\ wpc' = "w1"
          /\ UNCHANGED <<later, S, WU, P, H, snaps, n, rpc, gS, gWU, gP, gH, lo>>
W1 == /\ wpc = "w1"
      /\ CASE Frame = "S2"  -> S' = SettingsOf("S2") /\ UNCHANGED <<WU, P, H>>
           [] Frame = "W0a" -> WU' = (IF WU = 0 THEN IncrOf("W0a") ELSE WU) /\ UNCHANGED <<S, P, H>>
           [] Frame = "P1"  -> P' = Append(P, PrioOf("P1")) /\ UNCHANGED <<S, WU, H>>
           [] Frame = "H2"  -> H' = OrderOf("H2") /\ UNCHANGED <<S, WU, P>>         \* md.HTTP2Frames.Headers = headers
      /\ wpc' = IF Frame = "H2" THEN "w2" ELSE "end"
      /\ UNCHANGED <<later, snaps, n, rpc, gS, gWU, gP, gH, lock, lo>>
W2 == /\ wpc = "w2" /\ P' = Append(P, <<3, 1, 0, 255>>) /\ wpc' = "end"         \* ... Priorities = append(Priorities, ...)
      /\ UNCHANGED <<later, S, WU, H, snaps, n, rpc, gS, gWU, gP, gH, lock, lo>>
WEnd == /\ wpc = "end"
        /\ snaps' = Append(snaps, M(S, WU, P, H))
        /\ n' = n + 1 /\ wpc' = "idle"
        /\ lock' = IF Locked THEN 0 ELSE lock
        /\ UNCHANGED <<later, S, WU, P, H, rpc, gS, gWU, gP, gH, lo>>

RBegin == /\ rpc = "start" /\ Free
          /\ lock' = IF Locked THEN 2 ELSE lock
          /\ rpc' = "rS"
          /\ UNCHANGED <<later, S, WU, P, H, snaps, n, wpc, gS, gWU, gP, gH, lo>>
RS  == rpc = "rS"  /\ gS' = S   /\ rpc' = "rWU" /\ UNCHANGED <<later, S, WU, P, H, snaps, n, wpc, gWU, gP, gH, lock, lo>>
RWU == rpc = "rWU" /\ gWU' = WU /\ rpc' = "rP"  /\ UNCHANGED <<later, S, WU, P, H, snaps, n, wpc, gS, gP, gH, lock, lo>>
RP  == rpc = "rP"  /\ gP' = P   /\ rpc' = "rH"  /\ UNCHANGED <<later, S, WU, P, H, snaps, n, wpc, gS, gWU, gH, lock, lo>>
RH  == /\ rpc = "rH" /\ gH' = H /\ rpc' = "done"
       /\ lock' = IF Locked THEN 0 ELSE lock
       /\ UNCHANGED <<later, S, WU, P, H, snaps, n, wpc, gS, gWU, gP, lo>>

Next == WBegin \/ W1 \/ W2 \/ WEnd \/ RBegin \/ RS \/ RWU \/ RP \/ RH
Spec == Init /\ [][Next]_vars

Result == M(gS, gWU, gP, gH)
\* when a frame is half processed the snapshot list does not yet hold the state the lock protects; with the lock the
\* reader can only run when wpc = "idle", so the snapshots are exactly the instants between frames
Consistent == rpc = "done" => \E k \in lo..Len(snaps) : snaps[k] = Result
\* with the lock, reader and writer are never inside their critical sections together
Exclusion == Locked => ~(wpc \in {"w1", "w2", "end"} /\ rpc \in {"rS", "rWU", "rP", "rH"})
=============================================================================
