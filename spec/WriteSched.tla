------------------------------- MODULE WriteSched -------------------------------
(***************************************************************************)
(* C20.  The three HTTP/2 write schedulers of pkg/http2                    *)
(* (writesched_roundrobin.go, writesched_random.go, writesched_priority.go) *)
(* behind the WriteScheduler interface, together with                       *)
(* FrameWriteRequest.Consume / writeQueue.consume (writesched.go), which is *)
(* where DATA is cut to the stream window, the connection window and the    *)
(* maximum frame size.                                                      *)
(*                                                                         *)
(* Reference layer: one FIFO per open stream (q) and one control FIFO (ctl);*)
(* acct keeps, per pushed frame, how many bytes/instances were handed out.  *)
(* Implementation-shaped layer: the round-robin ring with its head cursor   *)
(* (deterministic Pop), and the RFC 7540 5.3 dependency tree of the         *)
(* priority scheduler (parent, node state, retention lists for closed and   *)
(* idle nodes with their caps, exclusive re-parenting, cycle breaking).     *)
(* For the random and the priority scheduler the *order among ready         *)
(* streams* is not part of the property: PopFrom(s) is enabled for every    *)
(* stream whose head frame is sendable.                                     *)
(*                                                                         *)
(* Interface legality (comment on WriteScheduler): streams are opened once, *)
(* closed only when open, frames that name a stream are pushed only while   *)
(* that stream is open (RST_STREAM for other streams travels as a control   *)
(* frame in this server).                                                   *)
(***************************************************************************)
EXTENDS Integers, Sequences, FiniteSets, TLC

CONSTANTS Kind,        \* "rr" | "random" | "prio"
          Ids,         \* stream ids
          MaxFrames,   \* total number of Push operations
          Sizes,       \* DATA payload sizes
          WinVals,     \* values the environment may set a stream window to
          CWinVals,    \* ... the connection window
          MFVals,      \* ... the peer's MAX_FRAME_SIZE
          MaxClosed, MaxIdle,   \* priority scheduler configuration
          Weights      \* weights used by Adjust

VARIABLES open, closedEver,      \* interface-level stream state
          q, ctl,                \* reference queues: sequences of frames
          win, cwin, maxFrame,   \* send windows / frame size limit
          ring,                  \* rr: stream ids in ring order starting at the head cursor
          nodes, parent, weight, nstate, idleL, closedL, maxID,   \* prio: dependency tree
          nframes,               \* frames pushed so far (also the next frame id)
          acct,                  \* frame id -> [len, sent, st]   st in {"queued","done","dropped"}
          out                    \* observation of the last Pop
vars == <<open, closedEver, q, ctl, win, cwin, maxFrame, ring, nodes, parent, weight, nstate, idleL, closedL, maxID, nframes, acct, out>>

Frame(id, k, s, len) == [id |-> id, k |-> k, s |-> s, len |-> len]      \* k: "C" control, "H" headers-like, "D" data
NoOut == [ok |-> FALSE, id |-> 0, s |-> 0, k |-> "-", len |-> 0, whole |-> FALSE]
Min2(a, b) == IF a < b THEN a ELSE b
Max2(a, b) == IF a > b THEN a ELSE b
Remove(seq, x) == SelectSeq(seq, LAMBDA y : y # x)
IndexOf(seq, x) == CHOOSE i \in 1..Len(seq) : seq[i] = x

Init == /\ open = {} /\ closedEver = {}
        /\ q = [s \in Ids |-> <<>>] /\ ctl = <<>>
        /\ win = [s \in Ids |-> 3] /\ cwin = 10 /\ maxFrame = 2
        /\ ring = <<>>
        /\ nodes = {} /\ parent = [s \in Ids |-> 0] /\ weight = [s \in Ids |-> 15] /\ nstate = [s \in Ids |-> "none"]
        /\ idleL = <<>> /\ closedL = <<>> /\ maxID = 0
        /\ nframes = 0 /\ acct = <<>> /\ out = NoOut

\* ------------------------------------------------------------ priority tree (RFC 7540 5.3, as coded)
Kids(p, par, ns) == { k \in ns : par[k] = p }
RECURSIVE Anc(_, _, _)
Anc(n, par, fuel) == IF n = 0 \/ fuel = 0 THEN {} ELSE {par[n]} \cup Anc(par[n], par, fuel - 1)
Fuel == Cardinality(Ids) + 1

\* removeNode: the kids move to n's parent, n leaves the tree
RemoveNode(n, ns, par) == [nodes |-> ns \ {n},
                           parent |-> [k \in Ids |-> IF k \in ns /\ k # n /\ par[k] = n THEN par[n] ELSE par[k]]]

\* addClosedOrIdleNode
AddRetained(list, max, n, ns, par) ==
  IF max = 0 THEN [list |-> list, nodes |-> ns, parent |-> par]
  ELSE IF Len(list) = max
       THEN LET t == RemoveNode(Head(list), ns, par)
            IN [list |-> Append(Tail(list), n), nodes |-> t.nodes, parent |-> t.parent]
       ELSE [list |-> Append(list, n), nodes |-> ns, parent |-> par]

TreeUnchanged == UNCHANGED <<nodes, parent, weight, nstate, idleL, closedL, maxID>>

PrioOpen(s) ==
  IF s \in nodes
  THEN /\ nstate' = [nstate EXCEPT ![s] = "open"]
       /\ idleL' = Remove(idleL, s)               \* an opened stream is no longer an idle node
       /\ UNCHANGED <<nodes, parent, weight, closedL, maxID>>
  ELSE /\ nodes' = nodes \cup {s}
       /\ parent' = [parent EXCEPT ![s] = 0]
       /\ weight' = [weight EXCEPT ![s] = 15]
       /\ nstate' = [nstate EXCEPT ![s] = "open"]
       /\ maxID' = Max2(maxID, s)
       /\ UNCHANGED <<idleL, closedL>>

PrioClose(s) ==
  /\ nstate' = [nstate EXCEPT ![s] = "closed"]
  /\ IF MaxClosed > 0
     THEN LET r == AddRetained(closedL, MaxClosed, s, nodes, parent)
          IN  closedL' = r.list /\ nodes' = r.nodes /\ parent' = r.parent
     ELSE LET t == RemoveNode(s, nodes, parent)
          IN  nodes' = t.nodes /\ parent' = t.parent /\ UNCHANGED closedL
  /\ UNCHANGED <<weight, idleL, maxID>>

PrioAdjust(s, dep, excl, w) ==
  IF s \notin nodes /\ (s <= maxID \/ MaxIdle = 0)
  THEN TreeUnchanged
  ELSE LET created == s \notin nodes
           r  == IF created THEN AddRetained(idleL, MaxIdle, s, nodes \cup {s}, [parent EXCEPT ![s] = 0])
                            ELSE [list |-> idleL, nodes |-> nodes, parent |-> parent]
           ns == r.nodes
           p0 == r.parent
           w0 == IF created THEN [weight EXCEPT ![s] = 15] ELSE weight
       IN  /\ idleL' = r.list
           /\ maxID' = IF created THEN s ELSE maxID
           /\ nstate' = IF created THEN [nstate EXCEPT ![s] = "idle"] ELSE nstate
           /\ nodes' = ns
           /\ UNCHANGED closedL
           /\ IF dep # 0 /\ dep \notin ns                     \* unknown parent: default priority under the root
              THEN parent' = [p0 EXCEPT ![s] = 0] /\ weight' = [w0 EXCEPT ![s] = 15]
              ELSE IF dep = s THEN parent' = p0 /\ weight' = w0   \* self-dependency is ignored
              ELSE LET p1 == IF dep # 0 /\ s \in Anc(dep, p0, Fuel)
                             THEN [p0 EXCEPT ![dep] = p0[s]] ELSE p0        \* break the cycle: dep moves up first
                       p2 == IF excl THEN [k \in Ids |-> IF k \in ns /\ k # s /\ p1[k] = dep THEN s ELSE p1[k]] ELSE p1
                   IN  parent' = [p2 EXCEPT ![s] = dep] /\ weight' = [w0 EXCEPT ![s] = w]

\* ------------------------------------------------------------ interface actions
Open(s) == /\ s \notin open /\ s \notin closedEver
           /\ open' = open \cup {s}
           /\ ring' = IF Kind = "rr" THEN Append(ring, s) ELSE ring
           /\ IF Kind = "prio" THEN PrioOpen(s) ELSE TreeUnchanged
           /\ out' = NoOut
           /\ UNCHANGED <<closedEver, q, ctl, win, cwin, maxFrame, nframes, acct>>

Drop(a, frames) == [i \in 1..Len(a) |-> IF \E j \in 1..Len(frames) : frames[j].id = i
                                       THEN [a[i] EXCEPT !.st = "dropped"] ELSE a[i]]

Close(s) == /\ s \in open
            /\ open' = open \ {s} /\ closedEver' = closedEver \cup {s}
            /\ acct' = Drop(acct, q[s])
            /\ q' = [q EXCEPT ![s] = <<>>]
            /\ ring' = IF Kind = "rr" THEN Remove(ring, s) ELSE ring   \* closing the head moves the cursor to its successor
            /\ IF Kind = "prio" THEN PrioClose(s) ELSE TreeUnchanged
            /\ out' = NoOut
            /\ UNCHANGED <<ctl, win, cwin, maxFrame, nframes>>

Adjust(s, dep, excl, w) == /\ Kind = "prio"
                           /\ PrioAdjust(s, dep, excl, w)
                           /\ out' = NoOut
                           /\ UNCHANGED <<open, closedEver, q, ctl, win, cwin, maxFrame, ring, nframes, acct>>

Push(k, s, len) ==
  /\ nframes < MaxFrames
  /\ (k = "C" => s = 0 /\ len = 0)
  /\ (k # "C" => s \in open)
  /\ (k = "H" => len = 0)
  /\ LET f == Frame(nframes + 1, k, s, len) IN
     /\ IF k = "C" THEN ctl' = Append(ctl, f) /\ UNCHANGED q
                   ELSE q' = [q EXCEPT ![s] = Append(@, f)] /\ UNCHANGED ctl
     /\ acct' = Append(acct, [len |-> len, sent |-> 0, st |-> "queued"])
  /\ nframes' = nframes + 1
  /\ out' = NoOut
  /\ UNCHANGED <<open, closedEver, win, cwin, maxFrame, ring>> /\ TreeUnchanged

\* environment: WINDOW_UPDATE / SETTINGS change what may be sent
SetWin(s, v) == /\ s \in open /\ win[s] # v /\ win' = [win EXCEPT ![s] = v]
                /\ out' = NoOut
                /\ UNCHANGED <<open, closedEver, q, ctl, cwin, maxFrame, ring, nframes, acct>> /\ TreeUnchanged
SetCWin(v) == /\ cwin # v /\ cwin' = v
              /\ out' = NoOut
              /\ UNCHANGED <<open, closedEver, q, ctl, win, maxFrame, ring, nframes, acct>> /\ TreeUnchanged
SetMaxFrame(v) == /\ maxFrame # v /\ maxFrame' = v
                  /\ out' = NoOut
                  /\ UNCHANGED <<open, closedEver, q, ctl, win, cwin, ring, nframes, acct>> /\ TreeUnchanged

\* ------------------------------------------------------------ Pop
Allowed(s) == Min2(Min2(win[s], cwin), maxFrame)
Sendable(s) == /\ q[s] # <<>>
               /\ LET f == Head(q[s]) IN f.k # "D" \/ f.len = 0 \/ Allowed(s) > 0

PopCtl == /\ ctl # <<>>
          /\ LET f == Head(ctl) IN
             /\ out' = [ok |-> TRUE, id |-> f.id, s |-> 0, k |-> "C", len |-> 0, whole |-> TRUE]
             /\ acct' = [acct EXCEPT ![f.id].st = "done", ![f.id].sent = @ + 1]
          /\ ctl' = Tail(ctl)
          /\ UNCHANGED <<open, closedEver, q, win, cwin, maxFrame, ring, nframes>> /\ TreeUnchanged

\* consume the head of stream s (writeQueue.consume / FrameWriteRequest.Consume)
\* cap: an additional byte budget of the caller (ThrottleOutOfOrderWrites of the priority scheduler hands one down); without it NoCap
NoCap == 1073741824
ConsumeCap(s, cap) ==
  LET f == Head(q[s]) IN
  IF f.k # "D" \/ f.len = 0
  THEN /\ out' = [ok |-> TRUE, id |-> f.id, s |-> s, k |-> f.k, len |-> 0, whole |-> TRUE]
       /\ q' = [q EXCEPT ![s] = Tail(@)]
       /\ acct' = [acct EXCEPT ![f.id].st = "done", ![f.id].sent = @ + 1]
       /\ UNCHANGED <<win, cwin>>
  ELSE LET a == Min2(Allowed(s), cap) IN
       IF f.len > a
       THEN /\ out' = [ok |-> TRUE, id |-> f.id, s |-> s, k |-> "D", len |-> a, whole |-> FALSE]
            /\ q' = [q EXCEPT ![s] = <<[f EXCEPT !.len = @ - a]>> \o Tail(@)]
            /\ acct' = [acct EXCEPT ![f.id].sent = @ + a]
            /\ win' = [win EXCEPT ![s] = @ - a] /\ cwin' = cwin - a
       ELSE /\ out' = [ok |-> TRUE, id |-> f.id, s |-> s, k |-> "D", len |-> f.len, whole |-> TRUE]
            /\ q' = [q EXCEPT ![s] = Tail(@)]
            /\ acct' = [acct EXCEPT ![f.id].st = "done", ![f.id].sent = @ + f.len]
            /\ win' = [win EXCEPT ![s] = @ - f.len] /\ cwin' = cwin - f.len

\* round robin: the first sendable stream from the cursor; the cursor moves past it
RRPick == LET idx == { i \in 1..Len(ring) : Sendable(ring[i]) } IN
          IF idx = {} THEN 0 ELSE CHOOSE i \in idx : \A j \in idx : i <= j

Consume(s) == ConsumeCap(s, NoCap)

PopFromCap(s, cap) ==
              /\ ctl = <<>> /\ s \in open /\ Sendable(s)
              /\ IF Kind = "rr"
                 THEN /\ RRPick # 0 /\ ring[RRPick] = s
                      /\ ring' = SubSeq(ring, RRPick + 1, Len(ring)) \o SubSeq(ring, 1, RRPick)
                 ELSE ring' = ring
              /\ (Kind = "prio" => s \in nodes /\ 0 \in Anc(s, parent, Fuel))   \* only nodes still hanging in the tree are visited
              /\ ConsumeCap(s, cap)
              /\ UNCHANGED <<open, closedEver, ctl, maxFrame, nframes>> /\ TreeUnchanged
PopFrom(s) == PopFromCap(s, NoCap)

PopNone == /\ ctl = <<>> /\ \A s \in open : ~Sendable(s)
           /\ out' = NoOut
           /\ UNCHANGED <<open, closedEver, q, ctl, win, cwin, maxFrame, ring, nframes, acct>> /\ TreeUnchanged

Next == \/ \E s \in Ids : Open(s) \/ Close(s) \/ PopFrom(s)
        \/ \E s \in Ids, dep \in Ids \cup {0}, excl \in BOOLEAN, w \in Weights : Adjust(s, dep, excl, w)
        \/ Push("C", 0, 0)
        \/ \E s \in Ids : Push("H", s, 0)
        \/ \E s \in Ids, n \in Sizes : Push("D", s, n)
        \/ \E s \in Ids, v \in WinVals : SetWin(s, v)
        \/ \E v \in CWinVals : SetCWin(v)
        \/ \E v \in MFVals : SetMaxFrame(v)
        \/ PopCtl \/ PopNone
Spec == Init /\ [][Next]_vars

\* ------------------------------------------------------------ properties
AllQueued == UNION { { q[s][i].id : i \in 1..Len(q[s]) } : s \in Ids } \cup { ctl[i].id : i \in 1..Len(ctl) }

\* every queued frame is handed out exactly once unless its stream was closed first
ExactlyOnce == \A id \in 1..Len(acct) :
                 CASE acct[id].st = "queued"  -> id \in AllQueued /\ acct[id].sent < Max2(acct[id].len, 1)
                   [] acct[id].st = "done"    -> id \notin AllQueued /\ acct[id].sent = Max2(acct[id].len, 1)
                   [] acct[id].st = "dropped" -> id \notin AllQueued
\* order within a stream (frame ids are issued in push order)
InOrder == \A s \in Ids : \A i, j \in 1..Len(q[s]) : i < j => q[s][i].id < q[s][j].id
\* DATA never exceeds what the windows and the frame size allow: windows stay non-negative when the environment
\* only sets non-negative values
WithinWindows == cwin >= 0 /\ \A s \in Ids : win[s] >= 0
PieceBounded == out.ok /\ out.k = "D" => out.len <= maxFrame \/ out.len = 0
\* control frames first
ControlFirst == [][ctl # <<>> /\ out'.ok => out'.k = "C"]_vars
\* "nothing to write" only when nothing is sendable: PopNone's guard; the conformance replay checks the code agrees
\* priority scheduler: the dependency structure is a tree rooted at 0 over exactly the retained nodes
IsTree == Kind = "prio" => \A k \in nodes : /\ parent[k] \in nodes \cup {0} /\ parent[k] # k
                                           /\ 0 \in Anc(k, parent, Fuel)
OpenHaveNodes == Kind = "prio" => open \subseteq nodes
RetentionBounded == Len(closedL) <= MaxClosed /\ Len(idleL) <= MaxIdle
=============================================================================
