SPECIFICATION Spec
CONSTANTS
  MaxBody = 4
  MaxTrail = 4
INVARIANTS GetVar Transparent Exact BufIsPrefix NeverOverlong
PROPERTIES Stable
CHECK_DEADLOCK FALSE
