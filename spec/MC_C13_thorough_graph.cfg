SPECIFICATION Spec
CONSTANTS Ids = {1, 2, 3, 5}
  AdvMax = 2
  MaxSteps = 5
INVARIANTS CurMatches WithinLimit StartedAreOddAndCovered GoAwayCovers
PROPERTIES NoStartAfterConnError StartOnlyNewIncreasing NoStartAfterGoAway
CHECK_DEADLOCK FALSE
