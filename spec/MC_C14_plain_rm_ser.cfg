SPECIFICATION Spec
CONSTANTS Versions = {1}
  MaxSteps = 3
  ReAddOnRemove = TRUE
  CachePerFile = FALSE
  WithRemoval = TRUE
  OnlyRotations = FALSE
  Serialized = TRUE
INVARIANTS Converges ServedIsValidVersion
CHECK_DEADLOCK FALSE
