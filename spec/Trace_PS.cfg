SPECIFICATION TraceSpec
CONSTANTS
  Conns = {"k1", "k2", "k3", "k4", "k5", "k6", "k7", "k8", "k9", "k10", "k11", "k12", "k13", "k14", "k15", "k16", "k17", "k18", "k19", "k20", "k21", "k22", "k23", "k24", "k25", "k26", "k27", "k28", "k29", "k30", "k31", "k32", "k33", "k34", "k35", "k36", "k37", "k38", "k39", "k40"}
  Kinds = {"h2", "h1", "noalpn", "plainhttp", "garbage", "stall"}
  HandshakeTimeout = TRUE
  IdleTimeout = TRUE
  PanicPoints = {"handshake", "h2"}
INVARIANTS CountedOnce TrueLabels FailedMeansZero ReleasedWhenExited NotServedAfterCancel ServeReturnsClosed TraceDrained
CONSTRAINT HW
POSTCONDITION TraceAccepted
CHECK_DEADLOCK FALSE
