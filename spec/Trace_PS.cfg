SPECIFICATION TraceSpec
CONSTANTS
  Conns = {"k1", "k2", "k3", "k4", "k5", "k6", "k7", "k8", "k9", "k10", "k11", "k12", "k13", "k14", "k15", "k16", "k17", "k18", "k19", "k20", "k21", "k22", "k23", "k24", "k25", "k26", "k27", "k28", "k29", "k30", "k31", "k32", "k33", "k34", "k35", "k36", "k37", "k38", "k39", "k40", "k41", "k42", "k43", "k44", "k45", "k46", "k47", "k48", "k49", "k50", "k51", "k52", "k53", "k54", "k55", "k56", "k57", "k58", "k59", "k60", "k61", "k62", "k63", "k64", "k65", "k66", "k67", "k68", "k69", "k70", "k71", "k72", "k73", "k74", "k75", "k76", "k77", "k78", "k79", "k80", "k81", "k82", "k83", "k84", "k85", "k86", "k87", "k88", "k89", "k90", "k91", "k92", "k93", "k94", "k95", "k96", "k97", "k98", "k99", "k100", "k101", "k102", "k103", "k104", "k105", "k106", "k107", "k108", "k109", "k110", "k111", "k112", "k113", "k114", "k115", "k116", "k117", "k118", "k119", "k120"}
  Kinds = {"h2", "h1", "noalpn", "plainhttp", "garbage", "stall"}
  HandshakeTimeout = TRUE
  IdleTimeout = TRUE
  PanicPoints = {"handshake", "h2"}
INVARIANTS CountedOnce TrueLabels FailedMeansZero ReleasedWhenExited NotServedAfterCancel ServeReturnsClosed TraceDrained
CONSTRAINT HW
POSTCONDITION TraceAccepted
CHECK_DEADLOCK FALSE
