SPECIFICATION Spec
CONSTANTS Versions = {1, 2}
  MaxSteps = 3
  ReAddOnRemove = FALSE
  CachePerFile = FALSE
  WithRemoval = FALSE
  OnlyRotations = FALSE
  Serialized = FALSE
INVARIANTS Converges
CHECK_DEADLOCK FALSE
