----------------------------------- MODULE Relay -----------------------------------
(***************************************************************************)
(* C08, body / status / trailer clause.  Every request r has an upstream    *)
(* body (client -> backend) and a downstream body (backend -> client).     *)
(* A body is the sequence of byte offsets 0..len-1 (the harness makes the   *)
(* byte at offset i of request r a function of (r, i), so loss,             *)
(* duplication, reordering and cross-request mix-ups all show).  Between    *)
(* the ends the bytes are re-framed freely (HTTP/1.1 chunks, DATA frames,   *)
(* flow-control splits) - Split/Merge - but stay in order.                  *)
(*                                                                         *)
(*   Send(r, d, n)      the producer hands the next n bytes to the proxy    *)
(*   Split / Merge      re-framing inside the proxy (pipe, databuffer,      *)
(*                      transport buffers)                                  *)
(*   Deliver(r, d)      the consumer receives the chunk at the head         *)
(*   EndUp / EndDown    end of body: trailers / status arrive once, after   *)
(*                      the last byte                                       *)
(* Conservation: delivered + in flight + unsent = len, in offset order.     *)
(* The same Deliver/End actions, bound to logged values, validate traces    *)
(* of real end-to-end runs (Trace_Relay.tla).                               *)
(***************************************************************************)
EXTENDS Integers, Sequences, FiniteSets, TLC

CONSTANTS Reqs,      \* request ids
          Lens,      \* body lengths to choose from
          MaxChunk   \* producer chunk sizes 1..MaxChunk

Dirs == {"up", "down"}
VARIABLES len,        \* [Reqs -> [Dirs -> length]]
          unsent,     \* next offset the producer will send
          flight,     \* sequence of <<offset, n>> chunks inside the proxy
          got,        \* bytes delivered to the consumer
          ended       \* end-of-body (with trailers / status) delivered
vars == <<len, unsent, flight, got, ended>>

Init == /\ len \in [Reqs -> [Dirs -> Lens]]
        /\ unsent = [r \in Reqs |-> [d \in Dirs |-> 0]]
        /\ flight = [r \in Reqs |-> [d \in Dirs |-> <<>>]]
        /\ got = [r \in Reqs |-> [d \in Dirs |-> 0]]
        /\ ended = [r \in Reqs |-> [d \in Dirs |-> FALSE]]

\* the response is produced only after the backend has seen the request body's end (the recording backend reads it all first)
MayProduce(r, d) == d = "up" \/ ended[r]["up"]

Send(r, d, n) == /\ MayProduce(r, d) /\ n >= 1 /\ unsent[r][d] + n <= len[r][d]
                 /\ flight' = [flight EXCEPT ![r][d] = Append(@, <<unsent[r][d], n>>)]
                 /\ unsent' = [unsent EXCEPT ![r][d] = @ + n]
                 /\ UNCHANGED <<len, got, ended>>
Split(r, d, i, k) == /\ i \in 1..Len(flight[r][d]) /\ k >= 1 /\ k < flight[r][d][i][2]
                     /\ LET c == flight[r][d][i] IN
                        flight' = [flight EXCEPT ![r][d] = SubSeq(@, 1, i - 1) \o << <<c[1], k>>, <<c[1] + k, c[2] - k>> >> \o SubSeq(@, i + 1, Len(@))]
                     /\ UNCHANGED <<len, unsent, got, ended>>
Merge(r, d, i) == /\ i \in 1..(Len(flight[r][d]) - 1)
                  /\ LET a == flight[r][d][i] b == flight[r][d][i + 1] IN
                     flight' = [flight EXCEPT ![r][d] = SubSeq(@, 1, i - 1) \o << <<a[1], a[2] + b[2]>> >> \o SubSeq(@, i + 2, Len(@))]
                  /\ UNCHANGED <<len, unsent, got, ended>>
Deliver(r, d) == /\ flight[r][d] # <<>> /\ ~ended[r][d]
                 /\ Head(flight[r][d])[1] = got[r][d]                      \* the next contiguous range, nothing else
                 /\ got' = [got EXCEPT ![r][d] = @ + Head(flight[r][d])[2]]
                 /\ flight' = [flight EXCEPT ![r][d] = Tail(@)]
                 /\ UNCHANGED <<len, unsent, ended>>
End(r, d) == /\ ~ended[r][d] /\ unsent[r][d] = len[r][d] /\ flight[r][d] = <<>> /\ got[r][d] = len[r][d]
             /\ MayProduce(r, d)
             /\ ended' = [ended EXCEPT ![r][d] = TRUE]
             /\ UNCHANGED <<len, unsent, flight, got>>

Next == \E r \in Reqs, d \in Dirs :
          \/ \E n \in 1..MaxChunk : Send(r, d, n)
          \/ \E i \in 1..3, k \in 1..MaxChunk : Split(r, d, i, k)
          \/ \E i \in 1..3 : Merge(r, d, i)
          \/ Deliver(r, d) \/ End(r, d)
Spec == Init /\ [][Next]_vars /\ WF_vars(\E r \in Reqs, d \in Dirs : (\E n \in 1..MaxChunk : Send(r, d, n)) \/ Deliver(r, d) \/ End(r, d))

RECURSIVE Sum(_)
Sum(s) == IF s = <<>> THEN 0 ELSE Head(s)[2] + Sum(Tail(s))
Conservation == \A r \in Reqs, d \in Dirs : got[r][d] + Sum(flight[r][d]) + (len[r][d] - unsent[r][d]) = len[r][d]
InOrder == \A r \in Reqs, d \in Dirs : \A i \in 1..Len(flight[r][d]) :
             flight[r][d][i][1] = got[r][d] + Sum(SubSeq(flight[r][d], 1, i - 1))
EndAfterBody == \A r \in Reqs, d \in Dirs : ended[r][d] => got[r][d] = len[r][d]
ResponseAfterRequest == \A r \in Reqs : got[r]["down"] > 0 => ended[r]["up"]
\* everything produced is eventually delivered
AllDelivered == <>(\A r \in Reqs, d \in Dirs : ended[r][d])
=============================================================================
