SPECIFICATION TraceSpec
CONSTANTS
  Fields = {}
  Limits = {}
  FeedAlphabet = {}
  MaxWrites = 0
  DecoderOnly = FALSE
INVARIANTS RoundTrip TablesAgree Bounded
CONSTRAINT HW
POSTCONDITION TraceAccepted
CHECK_DEADLOCK FALSE
