-------------------------------- MODULE H2FpOps --------------------------------
(* Frame alphabet of the HTTP/2 fingerprint specifications and Marshal as the code prints it               *)
(* (metadata.HTTP2FingerprintingFrames.Marshal).  No variables: shared by H2Fingerprint.tla and H2FPConc.tla. *)
(* The header part of the fingerprint is a function of the decoded header LIST of the request block (the order of its pseudo-header   *)
(* fields).  How a field was represented on the wire - indexed, literal with / without indexing, literal never indexed, Huffman or    *)
(* raw - is below this module's alphabet: the replay varies it per connection (h2raw.Enc, h2raw.BlockRep) and expects the same text.  *)
EXTENDS FpUtil

\* ---- the frame alphabet; concrete wire values live in the harness under the same names
SettingsFrames == {"S0", "S1", "S2"}
SettingsOf(f) == CASE f = "S0" -> <<>>                                           \* empty SETTINGS
                   [] f = "S1" -> << <<1, 65536>>, <<4, 131072>> >>              \* HEADER_TABLE_SIZE, INITIAL_WINDOW_SIZE
                   [] f = "S2" -> << <<3, 100>>, <<2, 0>>, <<153, 7>> >>         \* order kept; 0x99 is an unknown id

WUFrames == {"W0a", "W0b", "Ws"}
IncrOf(f) == CASE f = "W0a" -> 15663105 [] f = "W0b" -> 12 [] f = "Ws" -> 5000    \* Ws: on the most recent (closed) stream

PrioFrames == {"P1", "P2", "P3"}
\* <<stream, exclusive, dependency, weight byte>>
PrioOf(f) == CASE f = "P1" -> <<3, 0, 0, 200>> [] f = "P2" -> <<5, 1, 3, 100>> [] f = "P3" -> <<7, 0, 0, 0>>

HeaderFrames == {"H1", "H2", "H3"}
\* pseudo-header order of the block; H2 carries a priority (exclusive, dep 0, weight byte 255); H3 is split over CONTINUATION
\* and has the PRIORITY flag set with all-zero priority fields (not exclusive, dep 0, weight byte 0): flagged is what counts,
\* not the values
OrderOf(f) == CASE f = "H1" -> <<"m", "a", "s", "p">> [] f = "H2" -> <<"m", "p", "a", "s">> [] f = "H3" -> <<"m", "s", "p", "a">>
HasPrio(f) == f \in {"H2", "H3"}
HdrPrio(f, sid) == IF f = "H2" THEN <<sid, 1, 0, 255>> ELSE <<sid, 0, 0, 0>>

\* a request whose HEADERS frame (block of H1) leaves the stream open and whose body ends with a trailer block: a second HEADERS
\* frame on the same stream, without pseudo-header fields; T1's carries the PRIORITY flag (not exclusive, dep 5, weight byte 9)
TrailerKinds == {"T0", "T1"}
TrPrio(sid) == <<sid, 0, 5, 9>>


\* ---------------------------------------------------------------- Marshal, as the code prints it
SettingStr(s) == ToString(s[1]) \o ":" \o ToString(s[2])
SPart(s) == JoinStr([k \in 1..Len(s) |-> SettingStr(s[k])], ";")
WUPart(w) == Pad2(w)                                                           \* fmt "%02d"
PrioStr(p) == ToString(p[1]) \o ":" \o ToString(p[2]) \o ":" \o ToString(p[3]) \o ":" \o ToString(p[4] + 1)
PPart(p, n) == LET m == Min(Len(p), n) IN
               IF m = 0 THEN "0" ELSE JoinStr([k \in 1..m |-> PrioStr(p[k])], ",")
HPart(h) == JoinStr(h, ",")
Marshal(s, w, p, h, n) == SPart(s) \o "|" \o WUPart(w) \o "|" \o PPart(p, n) \o "|" \o HPart(h)

=============================================================================
