------------------------------- MODULE H2Handlers -------------------------------
(***************************************************************************)
(* C13, handler scheduling layer of the forked HTTP/2 server                *)
(* (pkg/http2/server.go: processHeaders -> scheduleHandler, handlerDone,     *)
(* runHandler, closeStream).  H2Conn.tla says when a request is *accepted*;  *)
(* this module says when its handler *starts*: a handler goroutine runs on   *)
(* after its stream was reset, so "open streams <= limit" alone does not     *)
(* bound the handlers.  The code keeps curHandlers <= advMaxStreams by       *)
(* queueing accepted requests (unstartedHandlers), drops queued requests     *)
(* whose stream has been reset meanwhile, and ends the connection with       *)
(* ENHANCE_YOUR_CALM when the backlog exceeds 4 x advMaxStreams.             *)
(*                                                                         *)
(* Streams are numbered 1..MaxStreams in the order the client opens them     *)
(* (wire id 2k-1).  Handlers do not look at their context: when one ends is  *)
(* the environment's (the driver's) choice - Finish(s).                      *)
(*                                                                         *)
(* out: reactions to the last step                                          *)
(*   <<"START", s>> | <<"S", s, "RS">> | <<"C", "EYC">> | <<"RESP", s>>       *)
(***************************************************************************)
EXTENDS Naturals, Sequences, FiniteSets, TLC
CONSTANTS AdvMax,       \* advertised MAX_CONCURRENT_STREAMS (= handler limit)
          Mult,         \* backlog factor (4 in the code)
          MaxStreams    \* how many streams the client opens at most

VARIABLES next, open, running, queue, started, dead, out
vars == <<next, open, running, queue, started, dead, out>>

Init == /\ next = 1 /\ open = {} /\ running = {} /\ queue = <<>> /\ started = <<>> /\ dead = FALSE /\ out = <<>>

\* handlerDone(): walk the backlog from its head; entries whose stream is gone are dropped, live ones are started while a slot is free;
\* the walk stops at the first live entry that finds no slot.  Returns <<started now, remaining backlog>>.
RECURSIVE Drain(_, _, _)
Drain(q, free, op) ==
  IF q = <<>> THEN <<<<>>, <<>>>>
  ELSE IF Head(q) \notin op THEN Drain(Tail(q), free, op)
  ELSE IF free = 0 THEN <<<<>>, q>>
  ELSE LET r == Drain(Tail(q), free - 1, op) IN <<<<Head(q)>> \o r[1], r[2]>>

Starts(seq) == [i \in 1..Len(seq) |-> <<"START", seq[i]>>]
SeqSet(seq) == {seq[i] : i \in 1..Len(seq)}

\* HEADERS (complete, well-formed, END_STREAM) on the next new stream id
Open ==
  /\ ~dead /\ next <= MaxStreams
  /\ next' = next + 1
  /\ IF Cardinality(open) + 1 > AdvMax
     THEN /\ out' = <<<<"S", next, "RS">>>>                                     \* refused: no stream, no handler
          /\ UNCHANGED <<open, running, queue, started, dead>>
     ELSE /\ open' = open \cup {next}
          /\ IF Cardinality(running) < AdvMax
             THEN /\ running' = running \cup {next} /\ started' = Append(started, next)
                  /\ out' = <<<<"START", next>>>> /\ UNCHANGED <<queue, dead>>
             ELSE IF Len(queue) > Mult * AdvMax
             THEN /\ dead' = TRUE /\ out' = <<<<"C", "EYC">>>> /\ UNCHANGED <<running, queue, started>>
             ELSE /\ queue' = Append(queue, next) /\ out' = <<>> /\ UNCHANGED <<running, started, dead>>

\* RST_STREAM from the client on a stream it opened earlier: a known one, or - as the representative of streams already gone,
\* for which the frame changes nothing - the one opened last
Rst(s) ==
  /\ ~dead /\ s < next /\ (s \in open \/ s = next - 1)
  /\ open' = open \ {s} /\ out' = <<>>
  /\ UNCHANGED <<next, running, queue, started, dead>>

\* the handler of s returns: its response closes the stream if the stream still exists, then handlerDone() runs
Finish(s) ==
  /\ ~dead /\ s \in running
  /\ LET op == open \ {s}
         d == Drain(queue, AdvMax - (Cardinality(running) - 1), op)
     IN /\ open' = op
        /\ running' = (running \ {s}) \cup SeqSet(d[1])
        /\ started' = started \o d[1]
        /\ queue' = d[2]
        /\ out' = (IF s \in open THEN <<<<"RESP", s>>>> ELSE <<>>) \o Starts(d[1])
  /\ UNCHANGED <<next, dead>>

Next == Open \/ (\E s \in 1..MaxStreams : Rst(s) \/ Finish(s))
Spec == Init /\ [][Next]_vars
FairSpec == Spec /\ \A s \in 1..MaxStreams : WF_vars(Finish(s))

\* ---- properties ----
TypeOK == /\ next \in 1..MaxStreams + 1 /\ open \subseteq 1..MaxStreams /\ running \subseteq 1..MaxStreams /\ dead \in BOOLEAN
\* C13: "within the advertised concurrency limit" - for handlers, not only for streams
HandlersWithinLimit == Cardinality(running) <= AdvMax
StreamsWithinLimit == Cardinality(open) <= AdvMax
\* a handler is never started for a stream that was reset while it waited
StartOnlyLive == [][\A s \in running' \ running : s \in open']_vars
\* at most one start per stream, in the order the client opened them
StartsOrdered == \A i, j \in 1..Len(started) : i < j => started[i] < started[j]
\* the backlog is bounded, and it holds live requests only while every slot is taken
BacklogBounded == Len(queue) <= Mult * AdvMax + 1
LiveBacklogMeansFull == (\E i \in 1..Len(queue) : queue[i] \in open) => Cardinality(running) = AdvMax
\* the connection error is drawn only by a full backlog
CalmOnlyWhenFlooded == [][dead' /\ ~dead => Len(queue) > Mult * AdvMax /\ Cardinality(running) = AdvMax]_vars
\* no accepted request is forgotten: a live request in the backlog is started once handlers end (or the client gives it up, or the connection is ended)
NoStarvation == \A s \in 1..MaxStreams : ((s \in open /\ s \in SeqSet(queue)) ~> (s \in running \/ s \notin open \/ dead))
\* ---- for the configurations ----
NotDead == ~dead                       \* must be violated: the flood is inside the bound
FewStarts == Len(started) <= 3         \* CONSTRAINT of the replay graph with two slots: behaviours with little handler turnover
=============================================================================
