SPECIFICATION Spec
INVARIANTS Shape
CHECK_DEADLOCK FALSE
