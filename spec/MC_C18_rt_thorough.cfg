SPECIFICATION Spec
CONSTANTS
  Fields <- MCFields
  Limits <- MCLimits
  FeedAlphabet <- MCFeed
  MaxWrites = 5
  DecoderOnly = FALSE
INVARIANTS RoundTrip TablesAgree Bounded
CHECK_DEADLOCK FALSE
