SPECIFICATION Spec
CONSTANTS AdvMax = 2
  Mult = 4
  MaxStreams = 12
INVARIANTS TypeOK HandlersWithinLimit StreamsWithinLimit StartsOrdered BacklogBounded LiveBacklogMeansFull
CONSTRAINT FewStarts
CHECK_DEADLOCK FALSE
