--------------------------------- MODULE H2Conn ---------------------------------
(***************************************************************************)
(* C13.  Stream layer of the forked HTTP/2 server (pkg/http2/server.go:     *)
(* processFrame, processHeaders, processData, processResetStream,           *)
(* processWindowUpdate, processPriority, processSettings and the framer's   *)
(* HEADERS/CONTINUATION ordering), implementation-shaped: one branch per    *)
(* check in the order the code performs them (DESIGN.md Appendix A).        *)
(* Writes complete within a step (the scripted client waits for a PING      *)
(* acknowledgement after every frame), so reset-in-flight states collapse.  *)
(*                                                                         *)
(* out is the multiset of reactions to the last client frame:               *)
(*   <<"START", s>>   the request on stream s reached the handler           *)
(*   <<"S", s, code>> RST_STREAM                                            *)
(*   <<"C", code>>    GOAWAY with that error code (connection error)        *)
(*   <<"ACK">>        SETTINGS acknowledgement                              *)
(*   <<"RESP", s>>    response (HEADERS [+DATA] with END_STREAM)            *)
(*   <<"PONG">>       PING acknowledgement (to a PING of the alphabet)      *)
(*   <<"RESP431", s>> the server's own 431 (header list too long)           *)
(* ga: "none" | "graceful" (the client sent GOAWAY: the server answered     *)
(* GOAWAY(NO_ERROR), serves what is open, discards frames of newer streams) *)
(* | "error" (everything is discarded; in graceful state a connection error *)
(* writes no second GOAWAY - goAway() only records the code - and the       *)
(* connection is closed by the shutdown timer).                             *)
(* Codes: PE PROTOCOL_ERROR, SC STREAM_CLOSED, RS REFUSED_STREAM,           *)
(* FC FLOW_CONTROL_ERROR, NO NO_ERROR.                                      *)
(*                                                                         *)
(* RFC latitude used by the oracle (harness side): a stream error may be    *)
(* escalated to a connection error of the same code (RFC 9113 5.4.2); over  *)
(* the stream limit both REFUSED_STREAM and PROTOCOL_ERROR are permitted.   *)
(***************************************************************************)
EXTENDS Naturals, Sequences, FiniteSets, TLC
CONSTANTS Ids,          \* stream ids a client may name, e.g. {1,2,3,5}
          AdvMax,       \* advertised MAX_CONCURRENT_STREAMS
          MaxSteps

VARIABLES saw, maxID, cur, unacked, ga, hdr, inMap, ms, trailer, handler, out, started, steps, pendingES
vars == <<saw, maxID, cur, unacked, ga, hdr, inMap, ms, trailer, handler, out, started, steps, pendingES>>

Init == /\ saw = FALSE /\ maxID = 0 /\ cur = 0 /\ unacked = 1 /\ ga = "none" /\ hdr = 0
        /\ inMap = [s \in Ids |-> FALSE] /\ ms = [s \in Ids |-> "-"] /\ trailer = [s \in Ids |-> FALSE]
        /\ handler = [s \in Ids |-> "none"] /\ out = <<>> /\ started = {} /\ steps = 0
        /\ pendingES = [s \in Ids |-> FALSE]

\* ms: "open" | "hcr" (half-closed remote), each also in a "...big" flavour for a stream whose request declared a content-length that the
\* body cannot reach (kind clbig): the flavour changes nothing in the reactions, it keeps the histories apart in the state graph
IsOpen(s) == ms[s] \in {"open", "openbig", "opensmall"}
IsHcr(s) == ms[s] \in {"hcr", "hcrbig", "hcrsmall"}
HcrOf(s) == IF ms[s] = "openbig" THEN "hcrbig" ELSE IF ms[s] = "opensmall" THEN "hcrsmall" ELSE "hcr"
State(s) == IF inMap[s] THEN (IF IsOpen(s) THEN "open" ELSE "hcr") ELSE IF s % 2 = 1 /\ s <= maxID THEN "closed" ELSE IF s % 2 = 0 THEN "idle" ELSE "idle"

ConnErr(code) == /\ out' = (IF ga = "graceful" THEN <<>> ELSE <<<<"C", code>>>>) /\ ga' = "error"
Nop == out' = <<>>
Ignore == UNCHANGED <<saw, maxID, cur, unacked, ga, hdr, inMap, ms, trailer, handler, started, pendingES>> /\ Nop

CloseS(s) == /\ inMap' = [inMap EXCEPT ![s] = FALSE] /\ ms' = [ms EXCEPT ![s] = "-"] /\ cur' = cur - 1

\* ---- the framer's HEADERS/CONTINUATION ordering runs before everything else
FrameOrderOK(type, s) == IF hdr # 0 THEN type = "CONT" /\ s = hdr ELSE type # "CONT"

Dead == ga = "error"
\* RFC 9113 6.8 / processFrame: after our own GOAWAY frames of streams above the announced last stream id are discarded
Discard(s) == ga = "graceful" /\ s > maxID

\* first frame must be SETTINGS
Preface(type) == saw \/ type = "SETTINGS"

Settings(kind) ==
  /\ IF kind = "ack" THEN IF unacked = 0 THEN ConnErr("PE") /\ UNCHANGED unacked ELSE unacked' = unacked - 1 /\ Nop /\ UNCHANGED ga
     ELSE IF kind = "bad" THEN ConnErr("PE") /\ UNCHANGED unacked
     ELSE out' = <<<<"ACK">>>> /\ UNCHANGED <<unacked, ga>>
  /\ saw' = TRUE
  /\ UNCHANGED <<maxID, cur, hdr, inMap, ms, trailer, handler, started, pendingES>>

\* HEADERS with END_HEADERS (a complete block) or the last CONTINUATION of one
HeadersComplete(s, es, kind) ==
  IF kind = "malformed" THEN  \* readMetaFrame: stream error before the serve loop sees the frame (even for an even stream id)
       /\ out' = <<<<"S", s, "PE">>>>
       /\ (IF inMap[s] THEN CloseS(s) ELSE UNCHANGED <<inMap, ms, cur>>)       \* resetStream closes a known stream
       /\ UNCHANGED <<saw, maxID, unacked, ga, trailer, handler, started>>
  ELSE IF Discard(s) THEN Nop /\ UNCHANGED <<saw, maxID, cur, unacked, ga, inMap, ms, trailer, handler, started>>     \* processFrame: stream initiated after our GOAWAY
  ELSE IF s % 2 = 0 THEN ConnErr("PE") /\ UNCHANGED <<saw, maxID, cur, unacked, inMap, ms, trailer, handler, started>>
  ELSE IF inMap[s] THEN
       IF IsHcr(s) THEN out' = <<<<"S", s, "SC">>>> /\ CloseS(s) /\ UNCHANGED <<saw, maxID, unacked, ga, trailer, handler, started>>
       ELSE IF trailer[s] THEN ConnErr("PE") /\ UNCHANGED <<saw, maxID, cur, unacked, inMap, ms, trailer, handler, started>>
       ELSE IF ~es THEN /\ out' = <<<<"S", s, "PE">>>> /\ CloseS(s) /\ trailer' = [trailer EXCEPT ![s] = TRUE]
                        /\ UNCHANGED <<saw, maxID, unacked, ga, handler, started>>
       ELSE /\ trailer' = [trailer EXCEPT ![s] = TRUE] /\ ms' = [ms EXCEPT ![s] = HcrOf(s)] /\ Nop
            /\ UNCHANGED <<saw, maxID, cur, unacked, ga, inMap, handler, started>>
  ELSE IF s <= maxID THEN ConnErr("PE") /\ UNCHANGED <<saw, maxID, cur, unacked, inMap, ms, trailer, handler, started>>
  ELSE IF cur + 1 > AdvMax THEN
       /\ maxID' = s
       /\ out' = <<<<"S", s, IF unacked = 0 THEN "PE" ELSE "RS">>>>
       /\ UNCHANGED <<saw, cur, unacked, ga, inMap, ms, trailer, handler, started>>
  ELSE IF kind = "toolong" THEN   \* header list above the limit (MetaHeadersFrame.Truncated): the stream is created and answered with 431 by the
       \* server itself - the request never reaches the handler; a stream the client left open is reset (NO_ERROR) behind the response
       /\ maxID' = s /\ out' = (IF es THEN <<<<"RESP431", s>>>> ELSE <<<<"RESP431", s>>, <<"S", s, "NO">>>>)
       /\ UNCHANGED <<saw, cur, unacked, ga, inMap, ms, trailer, handler, started>>
  ELSE IF kind = "selfdep" THEN   \* stream is created, then RST written -> closed again
       /\ maxID' = s /\ out' = <<<<"S", s, "PE">>>>
       /\ UNCHANGED <<saw, cur, unacked, ga, inMap, ms, trailer, handler, started>>
  ELSE /\ maxID' = s /\ cur' = cur + 1
       /\ inMap' = [inMap EXCEPT ![s] = TRUE] /\ ms' = [ms EXCEPT ![s] = IF kind = "clbig" THEN (IF es THEN "hcrbig" ELSE "openbig")
                                      ELSE IF kind = "clsmall" THEN (IF es THEN "hcrsmall" ELSE "opensmall")
                                      ELSE (IF es THEN "hcr" ELSE "open")]
       /\ handler' = [handler EXCEPT ![s] = "running"] /\ started' = started \cup {s}
       /\ out' = <<<<"START", s>>>>
       /\ UNCHANGED <<saw, unacked, ga, trailer>>

Headers(s, es, eh, kind) ==
  IF s = 0 THEN ConnErr("PE") /\ UNCHANGED <<saw, maxID, cur, unacked, hdr, inMap, ms, trailer, handler, started, pendingES>>
  ELSE IF eh THEN HeadersComplete(s, es, kind) /\ UNCHANGED <<hdr, pendingES>>
  ELSE /\ hdr' = s /\ pendingES' = [pendingES EXCEPT ![s] = es] /\ Nop
       /\ UNCHANGED <<saw, maxID, cur, unacked, ga, inMap, ms, trailer, handler, started>>

Cont(s, eh, kind) ==
  IF eh THEN HeadersComplete(s, pendingES[s], kind) /\ hdr' = 0 /\ UNCHANGED pendingES
  ELSE Ignore /\ UNCHANGED hdr

Data(s, es) ==
  IF State(s) = "idle" THEN ConnErr("PE") /\ UNCHANGED <<saw, maxID, cur, unacked, inMap, ms, trailer, handler, started>>
  ELSE IF ~inMap[s] \/ ~IsOpen(s) \/ trailer[s] THEN
       /\ out' = <<<<"S", s, "SC">>>>
       /\ IF inMap[s] THEN CloseS(s) ELSE UNCHANGED <<inMap, ms, cur>>
       /\ UNCHANGED <<saw, maxID, unacked, ga, trailer, handler, started>>
  ELSE IF ms[s] = "opensmall" THEN       \* the request declared content-length 1, every DATA frame of the alphabet carries 3 octets
       /\ out' = <<<<"S", s, "PE">>>> /\ CloseS(s)
       /\ UNCHANGED <<saw, maxID, unacked, ga, trailer, handler, started>>
  ELSE /\ ms' = [ms EXCEPT ![s] = IF es THEN HcrOf(s) ELSE @] /\ Nop
       /\ UNCHANGED <<saw, maxID, cur, unacked, ga, inMap, trailer, handler, started>>

Rst(s) ==
  IF State(s) = "idle" THEN ConnErr("PE") /\ UNCHANGED <<saw, maxID, cur, unacked, inMap, ms, trailer, handler, started>>
  ELSE IF inMap[s] THEN CloseS(s) /\ Nop /\ UNCHANGED <<saw, maxID, unacked, ga, trailer, handler, started>>
  ELSE Nop /\ UNCHANGED <<saw, maxID, cur, unacked, ga, inMap, ms, trailer, handler, started>>

WU(s, kind) ==
  IF kind = "zero" THEN (IF s = 0 THEN ConnErr("PE") /\ UNCHANGED <<inMap, ms, cur>>
                         ELSE out' = <<<<"S", s, "PE">>>> /\ (IF inMap[s] THEN CloseS(s) ELSE UNCHANGED <<inMap, ms, cur>>) /\ UNCHANGED ga)
                        /\ UNCHANGED <<saw, maxID, unacked, trailer, handler, started>>
  ELSE IF s = 0 THEN (IF kind = "overflow" THEN ConnErr("FC") ELSE Nop /\ UNCHANGED ga)
                     /\ UNCHANGED <<saw, maxID, cur, unacked, inMap, ms, trailer, handler, started>>
  ELSE IF State(s) = "idle" THEN ConnErr("PE") /\ UNCHANGED <<saw, maxID, cur, unacked, inMap, ms, trailer, handler, started>>
  ELSE IF ~inMap[s] THEN Nop /\ UNCHANGED <<saw, maxID, cur, unacked, ga, inMap, ms, trailer, handler, started>>
  ELSE IF kind = "overflow" THEN out' = <<<<"S", s, "FC">>>> /\ CloseS(s) /\ UNCHANGED <<saw, maxID, unacked, ga, trailer, handler, started>>
  ELSE Nop /\ UNCHANGED <<saw, maxID, cur, unacked, ga, inMap, ms, trailer, handler, started>>

Priority(s, kind) ==
  IF s = 0 THEN ConnErr("PE") /\ UNCHANGED <<saw, maxID, cur, unacked, inMap, ms, trailer, handler, started>>
  ELSE IF kind = "selfdep" THEN out' = <<<<"S", s, "PE">>>> /\ (IF inMap[s] THEN CloseS(s) ELSE UNCHANGED <<inMap, ms, cur>>)
                                /\ UNCHANGED <<saw, maxID, unacked, ga, trailer, handler, started>>
  ELSE Nop /\ UNCHANGED <<saw, maxID, cur, unacked, ga, inMap, ms, trailer, handler, started>>

Ping(kind) ==
  /\ out' = (IF kind = "ack" THEN <<>> ELSE <<<<"PONG">>>>)
  /\ UNCHANGED <<saw, maxID, cur, unacked, ga, inMap, ms, trailer, handler, started>>

\* processGoAway: whatever the client's code, start the graceful shutdown - GOAWAY(NO_ERROR) once
ClientGoAway ==
  /\ IF ga = "none" THEN out' = <<<<"C", "NO">>>> /\ ga' = "graceful" ELSE Nop /\ UNCHANGED ga
  /\ UNCHANGED <<saw, maxID, cur, unacked, inMap, ms, trailer, handler, started>>

KeepAll == UNCHANGED <<saw, maxID, cur, unacked, hdr, inMap, ms, trailer, handler, started, pendingES>>

Frame(type, s, es, eh, kind) ==
  /\ steps < MaxSteps /\ steps' = steps + 1
  /\ IF Dead THEN Ignore /\ UNCHANGED hdr     \* after an error GOAWAY everything is discarded (the framer still runs; abstracted)
     \* a zero WINDOW_UPDATE increment is rejected by the frame parser, before the HEADERS/CONTINUATION order is looked at
     ELSE IF type = "WU" /\ kind = "zero" THEN WU(s, kind) /\ UNCHANGED <<hdr, pendingES>>
     \* frame-parser checks of PING and GOAWAY come first as well: size, then stream id
     ELSE IF type = "SETTINGS" /\ kind = "badwin" THEN ConnErr("FC") /\ KeepAll      \* parseSettingsFrame: INITIAL_WINDOW_SIZE above 2^31-1
     ELSE IF type = "PING" /\ kind = "bad" THEN ConnErr("FS") /\ KeepAll
     ELSE IF type \in {"PING", "GOAWAY"} /\ s # 0 THEN ConnErr("PE") /\ KeepAll
     ELSE IF ~FrameOrderOK(type, s) THEN ConnErr("PE") /\ UNCHANGED <<saw, maxID, cur, unacked, hdr, inMap, ms, trailer, handler, started, pendingES>>
     \* "first frame must be SETTINGS" is checked when a frame reaches processFrame; a header block is delivered as one
     \* frame by its last fragment
     ELSE IF ~Preface(type) /\ ~(type \in {"HEADERS", "CONT"} /\ ~eh) THEN ConnErr("PE") /\ UNCHANGED <<saw, maxID, cur, unacked, hdr, inMap, ms, trailer, handler, started, pendingES>>
     \* frames of streams above the last stream id of our GOAWAY are discarded (header blocks: when delivered, see HeadersComplete)
     ELSE IF Discard(s) /\ type \notin {"HEADERS", "CONT"} THEN Ignore
     ELSE CASE type = "SETTINGS" -> Settings(kind) /\ UNCHANGED <<hdr, pendingES>>
            [] type = "PING"     -> Ping(kind) /\ UNCHANGED <<hdr, pendingES>>
            [] type = "GOAWAY"   -> ClientGoAway /\ UNCHANGED <<hdr, pendingES>>
            [] type = "HEADERS"  -> Headers(s, es, eh, kind)
            [] type = "CONT"     -> Cont(s, eh, kind)
            [] type = "DATA"     -> (IF s = 0 THEN ConnErr("PE") /\ UNCHANGED <<saw, maxID, cur, unacked, inMap, ms, trailer, handler, started>> ELSE Data(s, es)) /\ UNCHANGED <<hdr, pendingES>>
            [] type = "RST"      -> (IF s = 0 THEN ConnErr("PE") /\ UNCHANGED <<saw, maxID, cur, unacked, inMap, ms, trailer, handler, started>> ELSE Rst(s)) /\ UNCHANGED <<hdr, pendingES>>
            [] type = "WU"       -> WU(s, kind) /\ UNCHANGED <<hdr, pendingES>>
            [] type = "PRIORITY" -> Priority(s, kind) /\ UNCHANGED <<hdr, pendingES>>
            [] type = "PUSH"     -> ConnErr("PE") /\ UNCHANGED <<saw, maxID, cur, unacked, hdr, inMap, ms, trailer, handler, started, pendingES>>
            [] type = "UNKNOWN"  -> Ignore /\ UNCHANGED hdr

\* handler writes the response with END_STREAM
HandlerFinish(s) ==
  /\ steps < MaxSteps /\ steps' = steps + 1
  /\ handler[s] = "running" /\ handler' = [handler EXCEPT ![s] = "done"]
  /\ IF inMap[s] THEN CloseS(s) /\ out' = (IF IsOpen(s) THEN <<<<"RESP", s>>, <<"S", s, "NO">>>> ELSE <<<<"RESP", s>>>>)
     ELSE out' = <<>> /\ UNCHANGED <<inMap, ms, cur>>
  /\ UNCHANGED <<saw, maxID, unacked, ga, hdr, trailer, started, pendingES>>

\* which (type, stream, flags, kind) combinations are frames of the alphabet
InAlphabet(type, s, es, eh, kind) ==
              /\ (type = "SETTINGS" => s = 0 /\ kind \in {"ok", "ack", "bad", "badwin"} /\ es = FALSE /\ eh = FALSE)
              /\ (type = "HEADERS" => kind \in {"ok", "malformed", "selfdep", "clbig", "clsmall", "toolong"} /\ (kind # "ok" => eh))     \* defective blocks are single-frame blocks
              \* clbig: a well-formed block that declares a content-length larger than any body this alphabet sends (DATA carries 3 octets):
              \* END_STREAM then comes "short" - the request body fails for the handler, the stream state machine is the same
              /\ (type = "CONT" => kind = "ok" /\ es = FALSE)      \* malformed blocks are exercised as single-frame blocks
              /\ (type \in {"DATA"} => kind = "ok" /\ eh = FALSE)
              /\ (type \in {"RST", "PUSH", "UNKNOWN"} => kind = "ok" /\ eh = FALSE /\ es = FALSE)
              /\ (type = "WU" => kind \in {"ok", "zero", "overflow"} /\ eh = FALSE /\ es = FALSE)
              /\ (type = "PRIORITY" => kind \in {"ok", "selfdep"} /\ eh = FALSE /\ es = FALSE)
              /\ (type = "PING" => kind \in {"ok", "ack", "bad"} /\ eh = FALSE /\ es = FALSE)
              /\ (type = "GOAWAY" => kind = "ok" /\ eh = FALSE /\ es = FALSE)
ClientFrame(type, s, es, eh, kind) == InAlphabet(type, s, es, eh, kind) /\ Frame(type, s, es, eh, kind)

Next == \/ \E type \in {"SETTINGS", "HEADERS", "CONT", "DATA", "RST", "WU", "PRIORITY", "PUSH", "UNKNOWN", "PING", "GOAWAY"},
              s \in Ids \cup {0}, es \in BOOLEAN, eh \in BOOLEAN, kind \in {"ok", "ack", "bad", "badwin", "malformed", "selfdep", "clbig", "clsmall", "toolong", "zero", "overflow"} :
              ClientFrame(type, s, es, eh, kind)
        \/ \E s \in Ids : HandlerFinish(s)
Spec == Init /\ [][Next]_vars

\* ---- C13 invariants on the implementation-shaped model ----
CurMatches == cur = Cardinality({s \in Ids : inMap[s]})
WithinLimit == cur <= AdvMax
StartedAreOddAndCovered == \A s \in started : s % 2 = 1 /\ s <= maxID
NoStartAfterConnError == [][ga = "error" => started' = started]_vars
StartOnlyNewIncreasing == [][\A s \in started' \ started : s > maxID /\ cur < AdvMax /\ ga = "none" /\ saw]_vars
\* a GOAWAY covers every request the server acted on: the last-stream-id it carries is maxID (raised to the offending
\* frame's stream first), and every started stream is <= maxID
GoAwayCovers == \A s \in started : s <= maxID
\* after the graceful GOAWAY no new request is started either
NoStartAfterGoAway == [][ga # "none" => started' = started]_vars
=============================================================================
