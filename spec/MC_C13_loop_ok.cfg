SPECIFICATION Spec
CONSTANTS DrainRule = TRUE
  AtomicPost = TRUE
INVARIANTS LegalNeverRefused
CHECK_DEADLOCK FALSE
