SPECIFICATION Spec
CONSTANTS
  Conns = {c1, c2}
  Kinds = {"h2", "h1", "garbage"}
  HandshakeTimeout = TRUE
  IdleTimeout = FALSE
  PanicPoints = {}
INVARIANTS CountedOnce TrueLabels FailedMeansZero ReleasedWhenExited NotServedAfterCancel ServeReturnsClosed ReturnedMeansDrained
CHECK_DEADLOCK FALSE
