SPECIFICATION Spec
CONSTANTS
  N = 4
  BigN = {98, 99, 100, 101, 150}
INVARIANTS TypeOK CountsCapped NoGreaseHashed SortedB SortedC
PROPERTIES Invariance
CHECK_DEADLOCK FALSE
