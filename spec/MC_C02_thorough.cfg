SPECIFICATION Spec
CONSTANTS
  N = 4
  BigN = {98, 99, 100, 101, 150, 255, 256, 257, 300, 355, 512}
INVARIANTS TypeOK CountsCapped NoGreaseHashed SortedB SortedC
PROPERTIES Invariance
CHECK_DEADLOCK FALSE
