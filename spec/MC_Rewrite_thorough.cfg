SPECIFICATION Spec
CONSTANTS MaxLines = 6
INVARIANTS NoSpoof Truth ProbeXor HeadersKept HostRule
CHECK_DEADLOCK FALSE
