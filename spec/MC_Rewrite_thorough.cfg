SPECIFICATION Spec
CONSTANTS MaxLines = 3
INVARIANTS NoSpoof Truth ProbeXor HeadersKept HostRule
CHECK_DEADLOCK FALSE
