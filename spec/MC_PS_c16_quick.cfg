SPECIFICATION Spec
CONSTANTS
  Conns = {c1, c2}
  Kinds = {"h2", "h1", "noalpn", "plainhttp", "garbage", "stall"}
  HandshakeTimeout = TRUE
  IdleTimeout = FALSE
  PanicPoints = {"handshake", "h2"}
INVARIANTS CountedOnce TrueLabels FailedMeansZero ReleasedWhenExited NotServedAfterCancel ServeReturnsClosed ReturnedMeansDrained
CHECK_DEADLOCK FALSE
