---- MODULE WriteSched_TTrace_1790668142 ----
EXTENDS Sequences, TLCExt, Toolbox, Naturals, TLC, WriteSched

_expression ==
    LET WriteSched_TEExpression == INSTANCE WriteSched_TEExpression
    IN WriteSched_TEExpression!expression
----

_trace ==
    LET WriteSched_TETrace == INSTANCE WriteSched_TETrace
    IN WriteSched_TETrace!trace
----

_inv ==
    ~(
        TLCGet("level") = Len(_TETrace)
        /\
        parent = ()
        /\
        ring = (<<5>>)
        /\
        closedL = ()
        /\
        weight = ()
        /\
        idleL = ()
        /\
        out = ()
        /\
        q = ()
        /\
        maxID = ()
        /\
        nodes = ()
        /\
        cwin = ()
        /\
        maxFrame = ()
        /\
        ctl = ()
        /\
        closedEver = ()
        /\
        nframes = ()
        /\
        nstate = ()
        /\
        win = ()
        /\
        open = ()
        /\
        acct = ()
    )
----

_init ==
    /\ maxFrame = _TETrace[1].maxFrame
    /\ ctl = _TETrace[1].ctl
    /\ weight = _TETrace[1].weight
    /\ nframes = _TETrace[1].nframes
    /\ out = _TETrace[1].out
    /\ q = _TETrace[1].q
    /\ idleL = _TETrace[1].idleL
    /\ nodes = _TETrace[1].nodes
    /\ win = _TETrace[1].win
    /\ parent = _TETrace[1].parent
    /\ open = _TETrace[1].open
    /\ closedL = _TETrace[1].closedL
    /\ acct = _TETrace[1].acct
    /\ maxID = _TETrace[1].maxID
    /\ cwin = _TETrace[1].cwin
    /\ ring = _TETrace[1].ring
    /\ nstate = _TETrace[1].nstate
    /\ closedEver = _TETrace[1].closedEver
----

_next ==
    /\ \E i,j \in DOMAIN _TETrace:
        /\ \/ /\ j = i + 1
              /\ i = TLCGet("level")
        /\ maxFrame  = _TETrace[i].maxFrame
        /\ maxFrame' = _TETrace[j].maxFrame
        /\ ctl  = _TETrace[i].ctl
        /\ ctl' = _TETrace[j].ctl
        /\ weight  = _TETrace[i].weight
        /\ weight' = _TETrace[j].weight
        /\ nframes  = _TETrace[i].nframes
        /\ nframes' = _TETrace[j].nframes
        /\ out  = _TETrace[i].out
        /\ out' = _TETrace[j].out
        /\ q  = _TETrace[i].q
        /\ q' = _TETrace[j].q
        /\ idleL  = _TETrace[i].idleL
        /\ idleL' = _TETrace[j].idleL
        /\ nodes  = _TETrace[i].nodes
        /\ nodes' = _TETrace[j].nodes
        /\ win  = _TETrace[i].win
        /\ win' = _TETrace[j].win
        /\ parent  = _TETrace[i].parent
        /\ parent' = _TETrace[j].parent
        /\ open  = _TETrace[i].open
        /\ open' = _TETrace[j].open
        /\ closedL  = _TETrace[i].closedL
        /\ closedL' = _TETrace[j].closedL
        /\ acct  = _TETrace[i].acct
        /\ acct' = _TETrace[j].acct
        /\ maxID  = _TETrace[i].maxID
        /\ maxID' = _TETrace[j].maxID
        /\ cwin  = _TETrace[i].cwin
        /\ cwin' = _TETrace[j].cwin
        /\ ring  = _TETrace[i].ring
        /\ ring' = _TETrace[j].ring
        /\ nstate  = _TETrace[i].nstate
        /\ nstate' = _TETrace[j].nstate
        /\ closedEver  = _TETrace[i].closedEver
        /\ closedEver' = _TETrace[j].closedEver

\* Uncomment the ASSUME below to write the states of the error trace
\* to the given file in Json format. Note that you can pass any tuple
\* to `JsonSerialize`. For example, a sub-sequence of _TETrace.
    \* ASSUME
    \*     LET J == INSTANCE Json
    \*         IN J!JsonSerialize("WriteSched_TTrace_1790668142.json", _TETrace)

=============================================================================

 Note that you can extract this module `WriteSched_TEExpression`
  to a dedicated file to reuse `expression` (the module in the 
  dedicated `WriteSched_TEExpression.tla` file takes precedence 
  over the module `WriteSched_TEExpression` below).

---- MODULE WriteSched_TEExpression ----
EXTENDS Sequences, TLCExt, Toolbox, Naturals, TLC, WriteSched

expression == 
    [
        \* To hide variables of the `WriteSched` spec from the error trace,
        \* remove the variables below.  The trace will be written in the order
        \* of the fields of this record.
        maxFrame |-> maxFrame
        ,ctl |-> ctl
        ,weight |-> weight
        ,nframes |-> nframes
        ,out |-> out
        ,q |-> q
        ,idleL |-> idleL
        ,nodes |-> nodes
        ,win |-> win
        ,parent |-> parent
        ,open |-> open
        ,closedL |-> closedL
        ,acct |-> acct
        ,maxID |-> maxID
        ,cwin |-> cwin
        ,ring |-> ring
        ,nstate |-> nstate
        ,closedEver |-> closedEver
        
        \* Put additional constant-, state-, and action-level expressions here:
        \* ,_stateNumber |-> _TEPosition
        \* ,_maxFrameUnchanged |-> maxFrame = maxFrame'
        
        \* Format the `maxFrame` variable as Json value.
        \* ,_maxFrameJson |->
        \*     LET J == INSTANCE Json
        \*     IN J!ToJson(maxFrame)
        
        \* Lastly, you may build expressions over arbitrary sets of states by
        \* leveraging the _TETrace operator.  For example, this is how to
        \* count the number of times a spec variable changed up to the current
        \* state in the trace.
        \* ,_maxFrameModCount |->
        \*     LET F[s \in DOMAIN _TETrace] ==
        \*         IF s = 1 THEN 0
        \*         ELSE IF _TETrace[s].maxFrame # _TETrace[s-1].maxFrame
        \*             THEN 1 + F[s-1] ELSE F[s-1]
        \*     IN F[_TEPosition - 1]
    ]

=============================================================================



Parsing and semantic processing can take forever if the trace below is long.
 In this case, it is advised to uncomment the module below to deserialize the
 trace from a generated binary file.

\*
\*---- MODULE WriteSched_TETrace ----
\*EXTENDS IOUtils, TLC, WriteSched
\*
\*trace == IODeserialize("WriteSched_TTrace_1790668142.bin", TRUE)
\*
\*=============================================================================
\*

---- MODULE WriteSched_TETrace ----
EXTENDS TLC, WriteSched

trace == 
    <<
    ([parent |-> (1 :> 0 @@ 3 :> 0 @@ 5 :> 0),ring |-> <<>>,closedL |-> <<>>,weight |-> (1 :> 15 @@ 3 :> 15 @@ 5 :> 15),idleL |-> <<>>,out |-> [id |-> 0, k |-> "-", s |-> 0, len |-> 0, ok |-> FALSE, whole |-> FALSE],q |-> (1 :> <<>> @@ 3 :> <<>> @@ 5 :> <<>>),maxID |-> 0,nodes |-> {},cwin |-> 10,maxFrame |-> 2,ctl |-> <<>>,closedEver |-> {},nframes |-> 0,nstate |-> (1 :> "none" @@ 3 :> "none" @@ 5 :> "none"),win |-> (1 :> 3 @@ 3 :> 3 @@ 5 :> 3),open |-> {},acct |-> <<>>]),
    ([parent |-> (1 :> 0 @@ 3 :> 0 @@ 5 :> 0),ring |-> <<5>>,closedL |-> <<>>,weight |-> (1 :> 15 @@ 3 :> 15 @@ 5 :> 15),idleL |-> <<>>,out |-> [id |-> 0, k |-> "-", s |-> 0, len |-> 0, ok |-> FALSE, whole |-> FALSE],q |-> (1 :> <<>> @@ 3 :> <<>> @@ 5 :> <<>>),maxID |-> 0,nodes |-> {},cwin |-> 10,maxFrame |-> 2,ctl |-> <<>>,closedEver |-> {},nframes |-> 0,nstate |-> (1 :> "none" @@ 3 :> "none" @@ 5 :> "none"),win |-> (1 :> 3 @@ 3 :> 3 @@ 5 :> 3),open |-> {5},acct |-> <<>>]),
    ([parent |-> (1 :> 0 @@ 3 :> 0 @@ 5 :> 0),ring |-> <<5>>,closedL |-> <<>>,weight |-> (1 :> 15 @@ 3 :> 15 @@ 5 :> 15),idleL |-> <<>>,out |-> [id |-> 0, k |-> "-", s |-> 0, len |-> 0, ok |-> FALSE, whole |-> FALSE],q |-> (1 :> <<>> @@ 3 :> <<>> @@ 5 :> <<[id |-> 1, k |-> "H", s |-> 5, len |-> 0]>>),maxID |-> 0,nodes |-> {},cwin |-> 10,maxFrame |-> 2,ctl |-> <<>>,closedEver |-> {},nframes |-> 1,nstate |-> (1 :> "none" @@ 3 :> "none" @@ 5 :> "none"),win |-> (1 :> 3 @@ 3 :> 3 @@ 5 :> 3),open |-> {5},acct |-> <<[len |-> 0, st |-> "queued", sent |-> 0]>>]),
    ([parent |-> ,ring |-> <<5>>,closedL |-> ,weight |-> ,idleL |-> ,out |-> ,q |-> ,maxID |-> ,nodes |-> ,cwin |-> ,maxFrame |-> ,ctl |-> ,closedEver |-> ,nframes |-> ,nstate |-> ,win |-> ,open |-> ,acct |-> ])
    >>
----


=============================================================================

---- CONFIG WriteSched_TTrace_1790668142 ----
CONSTANTS
    Kind = "rr"
    Ids = { 1 , 3 , 5 }
    MaxFrames = 2
    Sizes = { 0 , 5 }
    WinVals = { 3 }
    CWinVals = { }
    MFVals = { }
    MaxClosed = 0
    MaxIdle = 0
    Weights = { 15 }

INVARIANT
    _inv

CHECK_DEADLOCK
    \* CHECK_DEADLOCK off because of PROPERTY or INVARIANT above.
    FALSE

INIT
    _init

NEXT
    _next

CONSTANT
    _TETrace <- _trace

ALIAS
    _expression
=============================================================================
\* Generated on Tue Sep 29 07:49:03 UTC 2026