SPECIFICATION Spec
CONSTANTS DrainRule = TRUE
  AtomicPost = FALSE
INVARIANTS LegalNeverRefused
CHECK_DEADLOCK FALSE
