---------------------------------- MODULE JA3 ----------------------------------
(***************************************************************************)
(* C01.  The JA3 string of a ClientHello.                                  *)
(*                                                                         *)
(* Ideal layer: JA3String(h), straight from the statement - version,       *)
(* ciphers, extension types, groups, point formats as decimals in wire     *)
(* order, GREASE removed from the first three lists, '-' between values,   *)
(* ',' between fields.                                                     *)
(*                                                                         *)
(* Implementation-shaped layer: ja3.Bare (pkg/ja3/ja3.go) as a step        *)
(* machine over a token buffer, one action per field: per list a loop over *)
(* [:last] appending value and '-', a separate branch for the last         *)
(* element, bytes.TrimSuffix(buffer, "-"), then ','; the points list has   *)
(* neither a GREASE filter nor a trim.  Tokens (decimal number, "-", ",")  *)
(* make "trim one trailing separator" exact.                               *)
(*                                                                         *)
(* Each reachable final state is also a test vector (h, out) that the      *)
(* harness runs through the real tlsx parser + ja3.Bare + MD5.             *)
(***************************************************************************)
EXTENDS JA3Ops

CONSTANTS N          \* length bound of the list in focus

\* 6698 = 0x1a2a and 2586 = 0x0a1a look like GREASE nibble-wise (0x?a?a) but are not: they must be kept
CipherSyms == {2570, 64250, 4865, 49199, 6698}
ExtSyms    == {2570, 64250, 0, 10, 11, 23, 2586}
GroupSyms  == {2570, 64250, 29, 23, 6698}
PointSyms  == {0, 1, 2}
Versions   == {769, 771}

Hello(v, c, e, g, p) == [ver |-> v, ciphers |-> c, exts |-> e, groups |-> g, points |-> p]

\* representative shapes of the lists that are not in focus: <<exts, groups, points>>
RestReps == { << <<>>, <<>>, <<>> >>,
              << <<10, 11>>, <<29, 23>>, <<0>> >>,
              << <<2570, 0, 10, 11, 64250>>, <<2570, 29>>, <<0, 1, 2>> >> }
CipherReps == { <<4865>>, <<2570, 4865, 49199>>, <<49199, 64250>> }

Domain ==
  \* ciphers in focus: every sequence incl. empty, GREASE first/last/only/all
  { Hello(v, c, r[1], r[2], r[3]) : v \in Versions, c \in Seqs(CipherSyms, N), r \in RestReps }
  \cup
  \* extensions in focus (types are distinct: crypto/tls rejects duplicates)
  { Hello(771, c, e, IF Contains(e, 10) THEN <<2570, 29, 23>> ELSE <<>>, IF Contains(e, 11) THEN <<0, 1>> ELSE <<>>) :
      c \in {<<4865>>, <<2570, 4865>>}, e \in InjSeqs(ExtSyms, N) }
  \cup
  \* groups in focus
  { Hello(771, <<4865, 49199>>, e, g, <<>>) : e \in { <<10>>, <<2570, 10, 23>> }, g \in Seqs(GroupSyms, N) }
  \cup
  \* point formats in focus (uint8, no GREASE notion)
  { Hello(v, <<4865>>, <<11, 10>>, <<29>>, p) : v \in Versions, p \in Seqs(PointSyms, N) }

VARIABLES h, phase, buf, out
vars == <<h, phase, buf, out>>

-----------------------------------------------------------------------------
\* ja3.Bare, field by field
RECURSIVE LoopBody(_, _)           \* for _, e := range list[:lastElem] { if !grease { append e; append '-' } }
LoopBody(lst, filter) ==
  IF lst = <<>> THEN <<>>
  ELSE (IF filter /\ IsGrease(lst[1]) THEN <<>> ELSE <<ToString(lst[1]), "-">>) \o LoopBody(Tail(lst), filter)

TrimDash(b) == IF b # <<>> /\ b[Len(b)] = "-" THEN SubSeq(b, 1, Len(b) - 1) ELSE b

AppendList(b, lst, filter) ==
  LET n  == Len(lst)
      b1 == IF n > 1 THEN b \o LoopBody(SubSeq(lst, 1, n - 1), filter) ELSE b
      b2 == IF n >= 1 /\ ~(filter /\ IsGrease(lst[n])) THEN b1 \o <<ToString(lst[n])>> ELSE b1
  IN  b2

Init == h \in Domain /\ phase = 0 /\ buf = <<>> /\ out = ""

Version == /\ phase = 0 /\ buf' = <<ToString(h.ver), ",">> /\ phase' = 1 /\ UNCHANGED <<h, out>>
Ciphers == /\ phase = 1 /\ buf' = TrimDash(AppendList(buf, h.ciphers, TRUE)) \o <<",">> /\ phase' = 2 /\ UNCHANGED <<h, out>>
Exts    == /\ phase = 2 /\ buf' = TrimDash(AppendList(buf, h.exts, TRUE)) \o <<",">> /\ phase' = 3 /\ UNCHANGED <<h, out>>
Groups  == /\ phase = 3 /\ buf' = TrimDash(AppendList(buf, h.groups, TRUE)) \o <<",">> /\ phase' = 4 /\ UNCHANGED <<h, out>>
Points  == /\ phase = 4 /\ buf' = AppendList(buf, h.points, FALSE) /\ phase' = 5 /\ out' = Concat(buf') /\ UNCHANGED h

Next == Version \/ Ciphers \/ Exts \/ Groups \/ Points
Spec == Init /\ [][Next]_vars

-----------------------------------------------------------------------------
Refines == phase = 5 => out = JA3String(h)
\* the string has exactly five ','-separated fields: no token ever contains ','
FiveFields == phase = 5 => Cardinality({ i \in 1..Len(buf) : buf[i] = "," }) = 4
\* GREASE never appears in the first three lists of the output
NoGreaseToken == \A i \in 1..Len(buf) : \A g \in GREASE : buf[i] # ToString(g)
=============================================================================
