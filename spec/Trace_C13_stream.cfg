SPECIFICATION TraceSpec
CONSTANTS
  ReadKinds = {}
  WriteKinds = {}
  StreamIds = {}
  Codes = {}
  MaxAdv = 0
INVARIANTS HandlersOnlyForRequests HandlersIncreasing GoAwayCovers ResponsesOnlyFromHandlers EndedIsFinal
CONSTRAINT HW
POSTCONDITION TraceAccepted
CHECK_DEADLOCK FALSE
