SPECIFICATION Spec
INVARIANTS NeverBeyond
CONSTRAINT HW
POSTCONDITION TraceAccepted
CHECK_DEADLOCK FALSE
