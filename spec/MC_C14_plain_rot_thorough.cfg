SPECIFICATION Spec
CONSTANTS Versions = {1, 2}
  MaxSteps = 6
  ReAddOnRemove = TRUE
  OnlyRotations = TRUE
  Serialized = TRUE
INVARIANTS Converges ServedIsValidVersion
CHECK_DEADLOCK FALSE
