SPECIFICATION Spec
CONSTANTS Versions = {1, 2}
  MaxSteps = 6
  ReAddOnRemove = TRUE
  CachePerFile = FALSE
  WithRemoval = FALSE
  OnlyRotations = TRUE
  Serialized = TRUE
INVARIANTS Converges ServedIsValidVersion
CHECK_DEADLOCK FALSE
