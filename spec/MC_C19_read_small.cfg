SPECIFICATION Spec
CONSTANTS MaxRead = 20
INVARIANTS Refines LegalAccepted InAllowed
CHECK_DEADLOCK FALSE
