----------------------------- MODULE FlowIndSend -----------------------------
(* Inductive invariant of the send side of Flow.tla for ARBITRARY maximal window, increments, SETTINGS_INITIAL_WINDOW_SIZE
   values, frame size and write sizes (two streams). *)
EXTENDS Flow

ConstInit ==
  /\ Mode = "send" /\ Streams = {1, 3}
  /\ MaxWin \in Nat /\ MaxWin >= 3 /\ MaxFrame \in Nat /\ MaxFrame > 0 /\ MaxQueued \in Nat /\ Budget \in Nat
  /\ WConn = 0 /\ WStream = 0 /\ MinRefresh = 1 /\ Incs = {1} /\ Sizes = {1} /\ InitWins = {3}

Zero == [s \in Streams |-> 0]
TypeOK ==
  /\ cAvail = WConn /\ cUnsent = 0 /\ peerC = WConn
  /\ sAvail \in [Streams -> {0}] /\ sUnsent = Zero /\ buf = Zero /\ peerS \in [Streams -> {0}]
  /\ bodyClosed = [s \in Streams |-> FALSE]
  /\ st \in [Streams -> {"idle", "open", "hcr", "closed"}]
  /\ oConn \in Int /\ initWin \in Int /\ oSt \in [Streams -> Int] /\ queued \in [Streams -> Int]
  /\ sentTotal \in [Streams -> Int] /\ wroteTotal \in [Streams -> Int]
  /\ err \in {"none", "S(FC)", "GOAWAY(FC)", "C(FC)"}

Strengthening ==
  /\ initWin >= 0 /\ initWin <= MaxWin
  /\ \A s \in Streams : /\ queued[s] >= 0 /\ sentTotal[s] >= 0
                        /\ (st[s] \in {"open", "hcr"} => queued[s] = wroteTotal[s] - sentTotal[s])
                        /\ (st[s] = "idle" => (oSt[s] = 0 /\ queued[s] = 0 /\ sentTotal[s] = 0 /\ wroteTotal[s] = 0))

IndInv == TypeOK /\ Strengthening /\ SendSafe /\ NoOverflowAccepted
IndInit == IndInv

IndNext == \/ \E s \in Streams :
                \/ Open(s) \/ CloseStream(s) \/ SendData(s)
                \/ \E n \in Nat : n > 0 /\ AppWrite(s, n)
                \/ \E n \in Nat : n > 0 /\ PeerWU(s, n)
           \/ \E n \in Nat : n > 0 /\ PeerWUConn(n)
           \/ \E v \in Nat : v <= MaxWin /\ PeerInitWin(v)     \* larger values are refused when the SETTINGS frame is validated (Setting.Valid)
=============================================================================
