---------------------------------- MODULE JA4 ----------------------------------
(***************************************************************************)
(* C02.  JA4 of a ClientHello (FoxIO), as the statement defines it:        *)
(*   a = 't' ver sni nn(ciphers) nn(exts) alpn2                             *)
(*   b = sha256-12( sorted non-GREASE ciphers as %04x joined by ',' )       *)
(*   c = sha256-12( sorted non-GREASE extensions without SNI/ALPN           *)
(*                  [ '_' signature algorithms in original order ] )        *)
(* TLC cannot hash: the specification produces a and the *pre-hash*         *)
(* strings of b and c; the harness applies crypto/sha256 (trusted base).    *)
(*                                                                         *)
(* State = one abstract hello.  Transitions are the metamorphic moves of    *)
(* the statement's invariance clause (swap neighbours in the cipher or      *)
(* extension list; insert / delete / alter a GREASE value in the cipher,    *)
(* extension, supported_versions or signature_algorithms list); the         *)
(* action property Invariance says none of them changes the fingerprint.    *)
(* Every reachable state is a test vector for pkg/ja4 through the real      *)
(* utls parser.                                                             *)
(*                                                                         *)
(* Deviations of the code from the letter of the statement that the         *)
(* statement leaves open are modelled as the code behaves and named:        *)
(*   AlpnOneChar   first ALPN value of length 1 -> that one character       *)
(*   AlpnHighByte  first byte > 127 -> "99"                                 *)
(*   NoExtHash     no extensions / no ciphers -> hash of the empty string   *)
(***************************************************************************)
EXTENDS JA4Ops

CONSTANTS N,      \* length bound of the list in focus
          BigN    \* sizes for the ">99" clause

\* 6698 = 0x1a2a and 2586 = 0x0a1a look like GREASE nibble-wise (0x?a?a) but are not: they count and are hashed
CipherSyms == {2570, 64250, 4865, 4866, 49199, 6698}
\* 50 = signature_algorithms_cert: an ordinary extension for JA4 (counted, hashed by type); its scheme list is NOT the signature algorithm list
ExtSyms    == {2570, 64250, 0, 16, 10, 13, 43, 21, 65281, 39321, 50}
SigSyms    == {2570, 1027, 2052, 1025, 2586}
SVSyms     == {2570, 772, 771, 770, 6698}
G1 == 2570
G2 == 64250

\* ALPN protocol names as sequences of one-character tokens; "HI" stands for a byte > 127
H2    == <<"h", "2">>
HTTP1 == <<"h", "t", "t", "p", "/", "1", ".", "1">>
AlpnReps == { <<H2, HTTP1>>, <<HTTP1>>, << <<"z", "9">> >>, << <<"a", "b", "c">>, H2 >>,
              << <<"x">> >>, << <<"HI", "q", "r">> >> }

Hello(l, c, e, sv, alpn, sa) == [legacy |-> l, ciphers |-> c, exts |-> e, sv |-> sv, alpn |-> alpn, sigalgs |-> sa]

\* attach representative bodies to the extension types that carry lists
Attach(l, c, e) == Hello(l, c, e,
                         IF Contains(e, 43) THEN <<G1, 772, 771>> ELSE <<>>,
                         IF Contains(e, 16) THEN <<H2, HTTP1>> ELSE <<>>,
                         IF Contains(e, 13) THEN <<1027, 2052, 1025>> ELSE <<>>)

Domain ==
  { Attach(771, c, e) : c \in Seqs(CipherSyms, N), e \in { <<>>, <<0, 16, 43, 10>>, <<G1, 10, 13, G2>> } }
  \cup { Attach(771, c, e) : c \in { <<4865>>, <<G1, 4866, 4865>> }, e \in InjSeqs(ExtSyms, N) }
  \cup { Hello(771, <<4865, 4866>>, <<13, 10>>, <<>>, <<>>, sa) : sa \in Seqs(SigSyms, N) \ {<<>>} }   \* an empty list is malformed (rejected by the TLS stack)
  \cup { Hello(l, <<4865>>, <<43, 10>>, sv, <<>>, <<>>) : l \in {771, 769}, sv \in Seqs(SVSyms, 3) \ {<<>>} }
  \cup { Hello(771, <<4865>>, e, <<>>, al, <<>>) : e \in { <<16>>, <<0, 16, 10>> }, al \in AlpnReps }
  \cup { Hello(l, <<49199, 4865>>, <<>>, <<>>, <<>>, <<>>) : l \in {768, 769, 770, 771, 772} }
  \cup { Hello(771, [i \in 1..n |-> 1000 + i], <<10>>, <<>>, <<>>, <<>>) : n \in BigN }
  \cup { Hello(771, <<4865>>, [i \in 1..n |-> 30000 + i], <<>>, <<>>, <<>>) : n \in BigN }

VARIABLES h, moved      \* moved: a metamorphic move has been applied (moves are explored one step deep from
                         \* every hello of Domain; Domain itself holds all orders and GREASE placements)
vars == <<h, moved>>

-----------------------------------------------------------------------------
Swap(s, i) == [k \in 1..Len(s) |-> IF k = i THEN s[i + 1] ELSE IF k = i + 1 THEN s[i] ELSE s[k]]
InsertAt(s, i, v) == SubSeq(s, 1, i - 1) \o <<v>> \o SubSeq(s, i, Len(s))
DeleteAt(s, i) == SubSeq(s, 1, i - 1) \o SubSeq(s, i + 1, Len(s))
Small(s) == Len(s) <= N + 2

Init == h \in Domain /\ moved = FALSE

SwapCiphers(i) == i < Len(h.ciphers) /\ h' = [h EXCEPT !.ciphers = Swap(@, i)]
SwapExts(i)    == i < Len(h.exts) /\ h' = [h EXCEPT !.exts = Swap(@, i)]
InsGreaseCipher(i, g) == /\ Small(h.ciphers) /\ i <= Len(h.ciphers) + 1
                         /\ h' = [h EXCEPT !.ciphers = InsertAt(@, i, g)]
DelGreaseCipher(i) == /\ i <= Len(h.ciphers) /\ IsGrease(h.ciphers[i])
                      /\ h' = [h EXCEPT !.ciphers = DeleteAt(@, i)]
InsGreaseExt(i, g) == /\ Small(h.exts) /\ i <= Len(h.exts) + 1 /\ ~Contains(h.exts, g)
                      /\ h' = [h EXCEPT !.exts = InsertAt(@, i, g)]
DelGreaseExt(i) == /\ i <= Len(h.exts) /\ IsGrease(h.exts[i])
                   /\ h' = [h EXCEPT !.exts = DeleteAt(@, i)]
AlterGreaseExt(i, g) == /\ i <= Len(h.exts) /\ IsGrease(h.exts[i]) /\ ~Contains(h.exts, g)
                        /\ h' = [h EXCEPT !.exts[i] = g]
InsGreaseSig(i, g) == /\ Contains(h.exts, 13) /\ Small(h.sigalgs) /\ i <= Len(h.sigalgs) + 1
                      /\ h' = [h EXCEPT !.sigalgs = InsertAt(@, i, g)]
InsGreaseSV(i, g) == /\ Contains(h.exts, 43) /\ Len(h.sv) <= 3 /\ i <= Len(h.sv) + 1
                     /\ h' = [h EXCEPT !.sv = InsertAt(@, i, g)]

Idx == 1..(N + 3)
Next == ~moved /\ moved' = TRUE /\ \E i \in Idx :
          \/ SwapCiphers(i) \/ SwapExts(i) \/ DelGreaseCipher(i) \/ DelGreaseExt(i)
          \/ \E g \in {G1, G2} : InsGreaseCipher(i, g) \/ InsGreaseExt(i, g) \/ AlterGreaseExt(i, g)
                                   \/ InsGreaseSig(i, g) \/ InsGreaseSV(i, g)
Spec == Init /\ [][Next]_vars

-----------------------------------------------------------------------------
\* the invariance clause of the statement
Invariance == [][FP(h') = FP(h)]_vars
\* part a has the fixed layout t vv s nn nn aa
TypeOK == /\ Len(h.ciphers) >= 0
          /\ (Contains(h.exts, 16) <=> h.alpn # <<>>)
CountsCapped == /\ Min(Len(NoGrease(h.ciphers)), 99) <= 99
                /\ Min(Len(NoGrease(h.exts)), 99) <= 99
\* GREASE never reaches a hashed string
NoGreaseHashed == \A g \in GREASE : ~Contains(SortAsc(NoGrease(h.ciphers)), g) /\ ~Contains(ExtsForHash(h), g)
                                     /\ ~Contains(NoGrease(h.sigalgs), g)
SortedB == IsSortedAsc(SortAsc(NoGrease(h.ciphers)))
SortedC == IsSortedAsc(ExtsForHash(h))
=============================================================================
