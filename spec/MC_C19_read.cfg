SPECIFICATION Spec
CONSTANTS MaxRead = 16384
INVARIANTS Refines LegalAccepted InAllowed
CHECK_DEADLOCK FALSE
