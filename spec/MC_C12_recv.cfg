SPECIFICATION Spec
CONSTANTS Mode = "recv"
  Budget = 6
  Streams = {1, 3}
  WConn = 8
  WStream = 6
  MinRefresh = 4
  MaxWin = 12
  Incs = {1, 9}
  Sizes = {1, 2, 5}
  InitWins = {0, 3, 10}
  MaxFrame = 2
  MaxQueued = 5
INVARIANTS Conservation StreamConservation BatchBound PeerLedgerAgrees HonestPeerNeverErrs NonNegativeRecv SendSafe NoOverflowAccepted
CHECK_DEADLOCK FALSE
