SPECIFICATION Spec
CONSTANTS
  Kind = "random"
  Ids = {1, 3}
  MaxFrames = 3
  Sizes = {0, 5}
  WinVals = {3}
  CWinVals = {}
  MFVals = {}
  MaxClosed = 0
  MaxIdle = 0
  Weights = {15}
INVARIANTS ExactlyOnce InOrder WithinWindows PieceBounded IsTree OpenHaveNodes RetentionBounded
PROPERTIES ControlFirst
CHECK_DEADLOCK FALSE
