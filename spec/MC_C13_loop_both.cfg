SPECIFICATION Spec
CONSTANTS DrainRule = TRUE
  AtomicPost = TRUE
INVARIANTS NeverBothPending
CHECK_DEADLOCK FALSE
