------------------------------- MODULE CertHandout -------------------------------
(***************************************************************************)
(* C14, what a handshake holds.  GetCertificate hands crypto/tls a pointer  *)
(* to a tls.Certificate; the handshake reads the chain from it when it      *)
(* sends the Certificate message and the private key when it signs or       *)
(* decrypts - later, and without the watcher's lock.  ReadCertificate        *)
(* publishes a reload by swapping the pointer to a NEW struct (InPlace =     *)
(* FALSE, as in the code), so what a handshake holds never changes.          *)
(* InPlace = TRUE overwrites the struct the pointer refers to (model         *)
(* mutant: a handshake that straddles a reload sends one pair's certificate  *)
(* and uses the other pair's key - PairStaysWhole must fail).                *)
(* Bound to the code by the straddling-handshake scenario of c14driver.      *)
(***************************************************************************)
EXTENDS Naturals, FiniteSets

CONSTANTS Versions, InPlace, Handshakes

VARIABLES heap,      \* struct id -> <<cert version, key version>>
          cur,       \* the watcher's pointer
          nextId,
          hs         \* handshake -> [pc, ptr, sent, used]
vars == <<heap, cur, nextId, hs>>

Init == /\ heap = [i \in {1} |-> <<0, 0>>] /\ cur = 1 /\ nextId = 2
        /\ hs = [h \in Handshakes |-> [pc |-> "idle", ptr |-> 0, sent |-> 0, used |-> 0]]

\* a successful reload of version v (LoadX509KeyPair validated the pair)
Reload(v) == /\ v \in Versions /\ nextId <= Cardinality(Versions) + 2
             /\ IF InPlace
                  THEN /\ heap' = [heap EXCEPT ![cur] = <<v, v>>] /\ UNCHANGED <<cur, nextId>>
                  ELSE /\ heap' = [i \in DOMAIN heap \cup {nextId} |-> IF i = nextId THEN <<v, v>> ELSE heap[i]]
                       /\ cur' = nextId /\ nextId' = nextId + 1
             /\ UNCHANGED hs

Begin(h) == /\ hs[h].pc = "idle"
            /\ hs' = [hs EXCEPT ![h] = [pc |-> "got", ptr |-> cur, sent |-> 0, used |-> 0]]    \* GetCertificate under RLock
            /\ UNCHANGED <<heap, cur, nextId>>
SendCert(h) == /\ hs[h].pc = "got"
               /\ hs' = [hs EXCEPT ![h].pc = "sent", ![h].sent = heap[hs[h].ptr][1]]
               /\ UNCHANGED <<heap, cur, nextId>>
UseKey(h) == /\ hs[h].pc = "sent"
             /\ hs' = [hs EXCEPT ![h].pc = "done", ![h].used = heap[hs[h].ptr][2]]
             /\ UNCHANGED <<heap, cur, nextId>>

Next == \/ \E v \in Versions : Reload(v)
        \/ \E h \in Handshakes : Begin(h) \/ SendCert(h) \/ UseKey(h)
Spec == Init /\ [][Next]_vars

\* the certificate a handshake sent and the key it used are one pair, and it is the pair that was current when the handshake began
PairStaysWhole == \A h \in Handshakes : hs[h].pc = "done" => hs[h].sent = hs[h].used
=============================================================================
