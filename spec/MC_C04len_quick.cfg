SPECIFICATION Spec
CONSTANTS
  Bodies = {0, 1, 255, 256, 16384, 18432}
  Trails = {0, 1, 300}
INVARIANTS GetVar Exact Bounded
CHECK_DEADLOCK FALSE
