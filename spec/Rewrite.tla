-------------------------------- MODULE Rewrite --------------------------------
(***************************************************************************)
(* C05, C09, C15 and the header/URL/Host clause of C08.                    *)
(*                                                                         *)
(* One request travelling through                                          *)
(*   reverseproxy.HTTPHandler.ServeHTTP      (probe check)                 *)
(*   httputil.ReverseProxy.ServeHTTP         (clone, hop-by-hop removal,   *)
(*                                            Forwarded/X-Forwarded-* strip *)
(*                                            because Rewrite is set)       *)
(*   HTTPHandler.rewriteFunc                 (SetURL, re-attach client XFF, *)
(*                                            SetXForwarded, PreserveHost,  *)
(*                                            one step per header injector) *)
(*   transport                               (Send)                         *)
(* as a pipeline of actions over header lists.  A header list is a sequence *)
(* of <<canonical key, value>> lines in wire order; net/http canonicalises *)
(* every spelling of a name to one key, which is why the spelling the       *)
(* client used is only carried in the scenario (variable req) and replayed *)
(* on the wire by the harness.                                             *)
(*                                                                         *)
(* Every initial state is a scenario (configuration x connection kind x    *)
(* request); the final state is what the backend must see.  The harness    *)
(* replays every scenario through the real stack and compares.             *)
(***************************************************************************)
EXTENDS FpUtil

CONSTANTS MaxLines          \* at most this many client-chosen header lines per family

\* ---------------------------------------------------------------- names
JA3K == "X-Ja3-Fingerprint"
JA4K == "X-Ja4-Fingerprint"
H2K  == "X-Http2-Fingerprint"
CUSK == "X-Custom-Fingerprint"
XFF  == "X-Forwarded-For"
XFH  == "X-Forwarded-Host"
XFP  == "X-Forwarded-Proto"
FWD  == "Forwarded"

DefaultInjectors == <<JA3K, JA4K, H2K>>
HopByHop == {"Connection", "Keep-Alive", "Proxy-Connection", "Te", "Trailer", "Transfer-Encoding", "Upgrade",
             "Proxy-Authenticate", "Proxy-Authorization"}

\* a client header line: key, value, spelling of the name on the wire
L(k, v, sp) == [k |-> k, v |-> v, sp |-> sp]

\* (an empty first value makes Header.Get return "" although the name is present - and a later line may carry the payload)
\* (a client may also name a fingerprint header in Connection, which makes it hop-by-hop for that request: the proxy drops the client's
\* line - and still sends its own value, which it computes after the hop-by-hop removal)
SpoofLines == << L("Connection", "x-ja3-fingerprint", "canon"), L("Connection", "keep-alive, X-JA4-Fingerprint", "lower"), L(JA3K, "", "canon"), L(JA3K, "evil3", "canon"), L(JA3K, "evil3b", "lower"), L(JA3K, "evil3c", "upper"),
                 L(JA4K, "evil4", "canon"), L(H2K, "", "canon"), L(H2K, "evilh2", "lower"), L(CUSK, "evilc", "canon") >>
\* (an address with an IPv6 zone, and a list element that is no address at all: the client's list is opaque text for the proxy)
FwdLines   == << L(XFF, "9.9.9.9", "canon"), L(XFF, "8.8.8.8, 7.7.7.7", "lower"), L(XFF, "fe80::1%eth0, 10.0.0.1%", "canon"), L(XFP, "gopher", "canon"),
                 L(XFH, "evil.example", "canon"), L(FWD, "for=1.2.3.4;proto=gopher", "canon") >>
KeepLines  == << L("X-Keep", "1", "canon"), L("X-Multi", "a", "canon"), L("X-Multi", "b", "lower"),
                 L("X-Empty", "", "canon"), L("Connection", "x-hop", "canon"), L("X-Hop", "1", "canon"),
                 L("Te", "trailers", "canon"), L("Accept-Encoding", "br", "canon") >>

\* all subsequences (order kept) with at most n lines
SubSeqs(s, n) == LET idx == { S \in SUBSET (1..Len(s)) : Cardinality(S) <= n }
                     Pick(S) == SelectSeq([i \in 1..Len(s) |-> IF i \in S THEN s[i] ELSE L("", "", "")],
                                          LAMBDA x : x.k # "")
                 IN  { Pick(S) : S \in idx }

\* request-target classes: plain, escapes that must not be decoded or re-encoded, dot and empty segments, empty query,
\* '+' and %20, repeated keys in client order, ';' inside a query (RFC 3986 allows it), long path
Targets == { "/", "/a/b", "/a%2Fb", "/a%20b+c", "//double//slash", "/a/../b/./c", "/p?", "/p?x=1&x=2&a=3", "/p?q=a+b%20c", "/p?a=1;b=2",
             "/p?k=%E4%BD%A0&empty=", "/p?a=1&", "/p?&a=1", "/p?&", "/caf%C3%A9", "/p?url=http%3A%2F%2Fx%2F%3Fy%3D1", "/*", "/p/~user/!$&'()*+,=:@" }

UAs == { <<>>,                                   \* no User-Agent header
         <<"">>, <<"kube-probe/">>, <<"kube-probe/1.26">>, <<"kube-probe">>, <<"Kube-Probe/1.26">>,
         <<" kube-probe/1.26">>, <<"curl/8 kube-probe/1.26">>, <<"kube-probe/1.26 suffix">>,
         <<"kube-probe/1.0", "curl/8">>, <<"curl/8", "kube-probe/1.0">> }   \* two User-Agent lines: decided by the first

Protos    == {"h1", "h2"}
ConnKinds == {"normal", "sni253", "tworec", "tworeccs"}     \* tworec: ClientHello spanning two TLS records (JA3 and JA4 fail), cut inside
                                                             \* the random; tworeccs: cut one octet before the end of the cipher suite list
CustomOutcomes == {"absent", "value", "empty", "error"}   \* absent = no custom injector configured

Scenario(fam, proto, kind, probe, ph, host, custom, ua, probeText, method, path, lines) ==
  [fam |-> fam, proto |-> proto, kind |-> kind, probe |-> probe, preserveHost |-> ph, host |-> host,
   custom |-> custom, ua |-> ua, probeText |-> probeText, method |-> method, path |-> path, lines |-> lines,
   pre |-> <<>>,            \* client lines that travel in front of the User-Agent line(s)
   trailers |-> <<>>,       \* client lines of the trailer section (after a one-octet body; each name announced in Trailer)
   scheme |-> "https",      \* HTTP/2 only: the :scheme pseudo-header the client chose (the connection is TLS whatever it says)
   prefix |-> "",           \* path of the configured forward URL (a backend mounted under a prefix)
   wantTarget |-> path]     \* request-target the backend must see: forward prefix, then the client's target octet for octet

\* forward URLs with a path: plain, and with an escape of its own that must survive as configured
Prefixes == {"/api", "/v1%2Fbeta"}
\* forward URL http://backend/api?k=v: <<client target, what the backend must see>>
FwdQueryCases == { <<"/p", "/api/p?k=v">>, <<"/p?a=1", "/api/p?k=v&a=1">>, <<"/p?", "/api/p?k=v">>, <<"/p?a=1&", "/api/p?k=v&a=1&">>,
                   <<"/p?&a=1", "/api/p?k=v&&a=1">>, <<"/p?a=1;b=2", "/api/p?k=v&a=1;b=2">>, <<"/p?k=v", "/api/p?k=v&k=v">> }

Scenarios ==
  \* C05: client-supplied fingerprint headers against every injector outcome
  { Scenario("spoof", p, k, TRUE, FALSE, "vf.test", c, <<"curl/8">>, FALSE, "GET", "/a", ls) :
      p \in Protos, k \in ConnKinds, c \in CustomOutcomes, ls \in SubSeqs(SpoofLines, MaxLines) }
  \cup
  \* C05: a protocol upgrade request (HTTP/1.1) that names fingerprint headers in Connection next to the Upgrade token and supplies values for them
  { Scenario("spoof", "h1", k, TRUE, FALSE, "vf.test", c, <<"curl/8">>, FALSE, "GET", "/a", ls) :
      k \in {"normal", "tworec"}, c \in {"absent", "value"},
      ls \in { << L("Connection", "Upgrade, X-JA3-Fingerprint", "canon"), L("Upgrade", "websocket", "canon"), L(JA3K, "evil3", "canon") >>,
               << L(JA3K, "evil3", "lower"), L(H2K, "evilh2", "canon"), L(JA4K, "evil4", "canon"), L("Upgrade", "websocket", "canon"), L("Connection", "x-http2-fingerprint, upgrade, x-ja4-fingerprint", "lower") >>,
               << L("Connection", "Upgrade, X-JA3-Fingerprint", "canon"), L("Upgrade", "websocket", "canon") >> } }
  \cup
  \* C05: the trailer section is the other place where a client can put a field under a fingerprint name
  { [Scenario("spoof", p, k, TRUE, FALSE, "vf.test", c, <<"curl/8">>, FALSE, "POST", "/a", ls) EXCEPT !.trailers = tr] :
      p \in Protos, k \in {"normal", "tworec"}, c \in {"absent", "value", "error"},
      ls \in { <<>>, << L(JA3K, "evil3", "lower") >> },
      tr \in { << L(JA3K, "evilT3", "canon") >>, << L(JA4K, "evilT4", "lower"), L(H2K, "evilTh2", "canon") >>,
               << L("X-Checksum", "abc", "canon"), L(CUSK, "evilTc", "canon"), L(JA3K, "evilT3b", "upper") >> } }
  \cup
  \* C09: forwarding headers
  { Scenario("fwd", p, "normal", TRUE, ph, h, "absent", <<"curl/8">>, FALSE, "GET", "/a", ls) :
      p \in Protos, ph \in BOOLEAN, h \in {"vf.test", "other.example:8443", "default.example:443", "[2001:db8::1]:443"}, ls \in SubSeqs(FwdLines, MaxLines) }
  \cup
  \* C09: ... on connections whose ClientHello the fingerprint parsers cannot use (the connection is TLS all the same)
  { Scenario("fwd", p, k, TRUE, FALSE, "vf.test", "absent", <<"curl/8">>, FALSE, "GET", "/a", ls) :
      p \in Protos, k \in ConnKinds \ {"normal"}, ls \in SubSeqs(FwdLines, 1) }
  \cup
  \* C09: an HTTP/2 client may write ":scheme: http" on its TLS connection; the connection is TLS all the same
  { [Scenario("fwd", "h2", "normal", TRUE, ph, "vf.test", "absent", <<"curl/8">>, FALSE, "GET", "/a", ls) EXCEPT !.scheme = "http"] :
      ph \in BOOLEAN, ls \in SubSeqs(FwdLines, 1) }
  \cup
  \* C09: an HTTP/2 request may carry a host header field next to :authority; "the Host the client addressed" is :authority (RFC 9113 8.3.1)
  { Scenario("fwd", "h2", "normal", TRUE, ph, "vf.test", "absent", <<"curl/8">>, FALSE, "GET", "/a", <<L("Host", "elsewhere.example", "lower")>> \o ls) :
      ph \in BOOLEAN, ls \in SubSeqs(FwdLines, 1) }
  \cup
  \* C15: probe predicate
  { Scenario("probe", p, "normal", pr, FALSE, "vf.test", "absent", ua, pt, m, pa, <<>>) :
      p \in Protos, pr \in BOOLEAN, ua \in UAs, pt \in BOOLEAN, m \in {"GET", "POST"}, pa \in {"/healthz", "/a?x=kube-probe/1", "//healthz/./x", "/healthz%FF"} }   \* ... and one whose decoded form is not valid UTF-8   \* the last one: a path that is legal but not in canonical form
  \cup
  \* C15: a field name repeated around the User-Agent line (the decision is the first User-Agent line's, whatever stands before and after it)
  { [Scenario("probe", p, "normal", pr, FALSE, "vf.test", "absent", c[2], FALSE, "GET", "/healthz", c[3]) EXCEPT !.pre = c[1]] :
      p \in Protos, pr \in BOOLEAN,
      c \in { << <<L("X-Multi", "t1", "lower")>>, <<"curl/8">>, <<L("X-Multi", "kube-probe/1.29", "lower")>> >>,
              << <<L("X-Multi", "text/html", "lower")>>, <<"kube-probe/1.26">>, <<L("X-Multi", "x/y", "lower")>> >>,
              << <<L("X-Multi", "kube-probe/1.0", "lower"), L("X-Keep", "k", "canon")>>, <<"curl/8">>, <<L("X-Multi", "b", "canon"), L("X-Multi", "kube-probe/1.1", "lower")>> >>,
              << <<L("X-Multi", "a", "lower"), L("X-Multi", "b", "lower")>>, <<"kube-probe/1.26">>, <<L("X-Keep", "k", "canon"), L("X-Multi", "c", "lower")>> >> } }
  \cup
  \* C08 request-target clause: method, path and query are opaque to the proxy and must arrive as sent
  { Scenario("target", p, "normal", FALSE, FALSE, "vf.test", "absent", <<"curl/8">>, FALSE, m, pa, <<>>) :
      p \in Protos, m \in {"GET", "POST", "DELETE", "OPTIONS", "PATCH"}, pa \in Targets }
  \cup
  \* ... also behind a forward URL that has a path of its own
  { [Scenario("target", p, "normal", FALSE, FALSE, "vf.test", "absent", <<"curl/8">>, FALSE, "GET", pa, <<>>) EXCEPT !.prefix = pf, !.wantTarget = pf \o pa] :
      p \in Protos, pf \in Prefixes, pa \in Targets }
  \cup
  \* ... and behind a forward URL that has a query of its own: the configured query, then the client's, octet for octet
  { [Scenario("target", p, "normal", FALSE, FALSE, "vf.test", "absent", <<"curl/8">>, FALSE, "GET", c[1], <<>>) EXCEPT !.prefix = "/api?k=v", !.wantTarget = c[2]] :
      p \in Protos, c \in FwdQueryCases }
  \cup
  \* C08 header clause: end-to-end headers kept, hop-by-hop removed, Host
  { Scenario("keep", p, "normal", FALSE, ph, "vf.test", "absent", <<"curl/8">>, FALSE, "GET", "/a", ls) :
      p \in Protos, ph \in BOOLEAN, ls \in SubSeqs(KeepLines, MaxLines) }

VARIABLES req,        \* the scenario (constant during a behaviour)
          pc,         \* pipeline position
          outH,       \* outbound header list
          outT,       \* outbound trailer section
          outHost,    \* "BACKEND" | client host
          local,      \* answered by the proxy itself (200 "OK")
          forwarded,  \* reached the transport
          rejected,   \* HTTP/2 server refused the request before the handler (connection-specific header)
          i           \* index of the next injector
vars == <<req, pc, outH, outT, outHost, local, forwarded, rejected, i>>

\* ---------------------------------------------------------------- helpers
Keys(h) == { h[n][1] : n \in 1..Len(h) }
Del(h, k) == SelectSeq(h, LAMBDA l : l[1] # k)
Values(h, k) == LET s == SelectSeq(h, LAMBDA l : l[1] = k) IN [n \in 1..Len(s) |-> s[n][2]]
Set(h, k, v) == Del(h, k) \o << <<k, v>> >>

InLines == [n \in 1..Len(req.lines) |-> <<req.lines[n].k, req.lines[n].v>>]
UALines == [n \in 1..Len(req.ua) |-> <<"User-Agent", req.ua[n]>>]
ProbeTextLine == IF req.probeText THEN << <<"X-Note", "kube-probe/1.26">> >> ELSE <<>>
PreLines == [n \in 1..Len(req.pre) |-> <<req.pre[n].k, req.pre[n].v>>]
TrailerAnnounce == IF req.trailers = <<>> THEN <<>> ELSE << <<"Trailer", "ANNOUNCED">> >>
InH == PreLines \o UALines \o ProbeTextLine \o InLines \o TrailerAnnounce     \* what the handler sees (canonical keys)

Injectors == IF req.custom = "absent" THEN DefaultInjectors ELSE DefaultInjectors \o <<CUSK>>

\* outcome of injector k for this connection: "value" | "empty" | "error"
Outcome(k) == CASE k = JA3K -> IF req.kind \in {"sni253", "tworec", "tworeccs"} THEN "error" ELSE "value"
                []  k = JA4K -> IF req.kind \in {"tworec", "tworeccs"} THEN "error" ELSE "value"
                []  k = H2K  -> IF req.proto = "h2" THEN "value" ELSE "empty"
                []  k = CUSK -> req.custom
Computed(k) == CASE k = JA3K -> "JA3" [] k = JA4K -> "JA4" [] k = H2K -> "H2FP" [] k = CUSK -> "CUSTOM"

\* strings.HasPrefix(r.UserAgent(), "kube-probe/") - UserAgent() is the first User-Agent line.
\* H1OWS: on HTTP/1.1 optional whitespace around a field value is not part of the value (RFC 9110 5.5), so the
\* wire text " kube-probe/1.26" *is* the value "kube-probe/1.26"; on HTTP/2 the octets are the value.
ProbeUAs == {"kube-probe/", "kube-probe/1.26", "kube-probe/1.0", "kube-probe/1.26 suffix"}
IsProbe == /\ Len(req.ua) > 0
           /\ \/ req.ua[1] \in ProbeUAs
              \/ req.proto = "h1" /\ req.ua[1] = " kube-probe/1.26"

\* names listed in Connection are hop-by-hop for this request
ConnTokens(v) == CASE v = "x-hop" -> {"X-Hop"}
                   [] v = "Upgrade, X-JA3-Fingerprint" -> {"Upgrade", JA3K}
                   [] v = "x-http2-fingerprint, upgrade, x-ja4-fingerprint" -> {"Upgrade", H2K, JA4K}
                   [] v = "x-ja3-fingerprint" -> {JA3K}
                   [] v = "keep-alive, X-JA4-Fingerprint" -> {"Keep-Alive", JA4K}
                   [] OTHER -> {}
ConnListed == UNION { ConnTokens(InH[n][2]) : n \in { m \in 1..Len(InH) : InH[m][1] = "Connection" } }

\* upgradeType(): the Upgrade field's value if Connection names the token Upgrade
UpgradeType == IF "Upgrade" \in ConnListed /\ Values(InH, "Upgrade") # <<>> THEN Values(InH, "Upgrade")[1] ELSE ""

\* ---------------------------------------------------------------- pipeline
Init == /\ req \in Scenarios
        /\ pc = "server" /\ outH = <<>> /\ outT = <<>> /\ outHost = "" /\ local = FALSE /\ forwarded = FALSE
        /\ rejected = FALSE /\ i = 1

\* the HTTP/2 server answers 400 itself when a request carries connection-specific headers (RFC 9113 8.2.2)
ServerAdmit == /\ pc = "server"
               /\ IF req.proto = "h2" /\ \E n \in 1..Len(InH) : InH[n][1] \in {"Connection", "Keep-Alive", "Upgrade", "Transfer-Encoding", "Proxy-Connection"}
                  THEN rejected' = TRUE /\ pc' = "done"
                  ELSE rejected' = FALSE /\ pc' = "probe"
               /\ UNCHANGED <<req, outH, outT, outHost, local, forwarded, i>>

ProbeCheck == /\ pc = "probe"
              /\ IF req.probe /\ IsProbe THEN local' = TRUE /\ pc' = "done"
                                         ELSE local' = FALSE /\ pc' = "clone"
              /\ UNCHANGED <<req, outH, outT, outHost, forwarded, rejected, i>>

\* the outbound request is a deep copy made before the body is read: its Trailer map has the announced names and never receives the
\* values the client sends after the body, so the outbound trailer section stays empty (request trailers are not promised by C08)
CloneOut == /\ pc = "clone" /\ outH' = InH /\ outHost' = req.host /\ pc' = "hop" /\ outT' = <<>>
            /\ UNCHANGED <<req, local, forwarded, rejected, i>>

\* removeHopByHopHeaders: names listed in Connection, then the fixed set; "Te: trailers" is put back
DropHopByHop == /\ pc = "hop"
                /\ LET keepTe == \E n \in 1..Len(outH) : outH[n] = <<"Te", "trailers">>
                       h1 == SelectSeq(outH, LAMBDA l : l[1] \notin ConnListed /\ l[1] \notin HopByHop)
                       h2 == IF keepTe THEN h1 \o << <<"Te", "trailers">> >> ELSE h1
                   IN  \* a protocol upgrade the client asks for is passed on: Connection: Upgrade and the Upgrade field are put back
                       outH' = IF UpgradeType # "" THEN h2 \o << <<"Connection", "Upgrade">>, <<"Upgrade", UpgradeType>> >> ELSE h2
                /\ pc' = "strip"
                /\ UNCHANGED <<req, outT, outHost, local, forwarded, rejected, i>>

\* ReverseProxy with Rewrite set removes these before calling Rewrite
StripForwarded == /\ pc = "strip"
                  /\ outH' = Del(Del(Del(Del(outH, FWD), XFF), XFH), XFP)
                  /\ pc' = "seturl"
                  /\ UNCHANGED <<req, outT, outHost, local, forwarded, rejected, i>>

SetURL == /\ pc = "seturl" /\ outHost' = "BACKEND" /\ pc' = "xfwd"       \* r.SetURL(f.To) also rewrites Host
          /\ UNCHANGED <<req, outH, outT, local, forwarded, rejected, i>>

\* r.Out.Header["X-Forwarded-For"] = r.In.Header["X-Forwarded-For"]; r.SetXForwarded()
SetXForwarded == /\ pc = "xfwd"
                 /\ LET prior == Values(InH, XFF)
                        h1 == Set(outH, XFF, JoinStr(prior \o <<"PEER">>, ", "))
                        h2 == Set(h1, XFH, req.host)
                        h3 == Set(h2, XFP, "https")                         \* every client connection is TLS
                    IN  outH' = h3
                 /\ pc' = "host"
                 /\ UNCHANGED <<req, outT, outHost, local, forwarded, rejected, i>>

PreserveHost == /\ pc = "host"
                /\ outHost' = IF req.preserveHost THEN req.host ELSE outHost
                /\ pc' = "inject"
                /\ UNCHANGED <<req, outH, outT, local, forwarded, rejected, i>>

\* one step per configured injector: the name is removed, then set iff the injector produced a value
Inject == /\ pc = "inject" /\ i <= Len(Injectors)
          /\ LET k == Injectors[i]
                 base == Del(outH, k)
             IN  outH' = IF Outcome(k) = "value" THEN base \o << <<k, Computed(k)>> >> ELSE base
          /\ i' = i + 1
          /\ pc' = IF i = Len(Injectors) THEN "send" ELSE "inject"
          /\ UNCHANGED <<req, outT, outHost, local, forwarded, rejected>>

Send == /\ pc = "send" /\ forwarded' = TRUE /\ pc' = "done"
        /\ UNCHANGED <<req, outH, outT, outHost, local, rejected, i>>

Next == ServerAdmit \/ ProbeCheck \/ CloneOut \/ DropHopByHop \/ StripForwarded \/ SetURL \/ SetXForwarded
        \/ PreserveHost \/ Inject \/ Send
Spec == Init /\ [][Next]_vars

\* ---------------------------------------------------------------- properties
Done == pc = "done"
Fwd  == Done /\ forwarded

\* C05: per configured name exactly the computed value, or nothing
NoSpoof == Fwd => \A n \in 1..Len(Injectors) :
              LET k == Injectors[n] IN
              /\ Values(outH, k) = IF Outcome(k) = "value" THEN <<Computed(k)>> ELSE <<>>
              /\ Values(outT, k) = <<>>            \* nor in the trailer section
\* ... and a name that is not configured is an ordinary end-to-end header (not the proxy's business)

\* C09
Truth == Fwd => /\ Values(outH, XFF) = << JoinStr(Values(InH, XFF) \o <<"PEER">>, ", ") >>
                /\ Values(outH, XFH) = <<req.host>>
                /\ Values(outH, XFP) = <<"https">>
                /\ Values(outH, FWD) = <<>>

\* C15
ProbeXor == (Done /\ ~rejected) => /\ local # forwarded
                                   /\ local <=> (req.probe /\ IsProbe)

\* C08, header clause
EndToEnd == { k \in Keys(InH) : k \notin HopByHop /\ k \notin ConnListed /\ k \notin {XFF, XFH, XFP, FWD}
                                 /\ k \notin { Injectors[n] : n \in 1..Len(Injectors) } }
HeadersKept == Fwd => /\ \A k \in EndToEnd : Values(outH, k) = Values(InH, k)
                      /\ \A k \in ((HopByHop \ {"Te"}) \cup ConnListed) \ ({ Injectors[n] : n \in 1..Len(Injectors) } \cup (IF UpgradeType # "" THEN {"Connection", "Upgrade"} ELSE {})) :
                            Values(outH, k) = <<>>
                      /\ UpgradeType # "" => Values(outH, "Connection") = <<"Upgrade">> /\ Values(outH, "Upgrade") = <<UpgradeType>>
HostRule == Fwd => outHost = IF req.preserveHost THEN req.host ELSE "BACKEND"
=============================================================================
