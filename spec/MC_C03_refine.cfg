SPECIFICATION Spec
CONSTANTS
  MaxReq = 3
  MaxPrio = 4
  TrackHist = TRUE
  MaxHist = 4
INVARIANTS Refines PrioCut
CHECK_DEADLOCK FALSE
