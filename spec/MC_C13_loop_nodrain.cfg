SPECIFICATION Spec
CONSTANTS DrainRule = FALSE
  AtomicPost = TRUE
INVARIANTS LegalNeverRefused
CHECK_DEADLOCK FALSE
