SPECIFICATION Spec
CONSTANTS
  Reqs = {1, 2}
  Lens = {0, 3}
  MaxChunk = 2
INVARIANTS Conservation InOrder EndAfterBody ResponseAfterRequest
PROPERTIES AllDelivered
CHECK_DEADLOCK FALSE
