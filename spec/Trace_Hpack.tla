------------------------------ MODULE Trace_Hpack ------------------------------
(***************************************************************************)
(* Trace validation for C18: histories recorded from the real Encoder and  *)
(* Decoder (overlay/hpack/c18_test.go, TestVFC18Trace) must be behaviours   *)
(* of Hpack.tla.  A "write" event carries the field, the representations    *)
(* parsed from the encoder's bytes, what the decoder emitted, its error     *)
(* class and the projected dynamic tables of both sides; all of them are    *)
(* bound to the primed variables, so a wrong value - not only a wrong       *)
(* order - is rejected.                                                     *)
(***************************************************************************)
EXTENDS Hpack, Json, TLCExt

TraceLog == ndJsonDeserialize("trace_c18.ndjson")
VARIABLE l
tvars == <<vars, l>>
Ev == TraceLog[l]

Reset == /\ etab' = <<>> /\ emax' = InitialSize /\ eminSize' = UINT32MAX /\ eupdate' = FALSE
         /\ dtab' = <<>> /\ dmax' = InitialSize /\ dallowed' = InitialSize /\ dfirst' = TRUE /\ derr' = "none"
         /\ wire' = <<>> /\ emitted' = <<>> /\ lastf' = <<>> /\ nwrites' = 0

TraceInit == Init /\ l = 1
TraceNext ==
  /\ l <= Len(TraceLog) /\ l' = l + 1
  /\ CASE Ev.op = "write"    -> /\ WriteField(Ev.f)
                                /\ wire' = Ev.wire /\ emitted' = Ev.emitted /\ derr' = Ev.derr
                                /\ etab' = Ev.etab /\ emax' = Ev.emax /\ dtab' = Ev.dtab /\ dmax' = Ev.dmax
       [] Ev.op = "setmax"   -> SetMax(Ev.v) /\ etab' = Ev.etab /\ emax' = Ev.emax
       [] Ev.op = "endblock" -> EndBlock /\ Ev.err = "none"
       [] Ev.op = "reset"    -> Reset
       [] OTHER -> FALSE
TraceSpec == TraceInit /\ [][TraceNext]_tvars

HW == TLCSet(1, IF TLCGet(1) < l THEN l ELSE TLCGet(1))
TraceAccepted == /\ PrintT(<<"TRACE_MATCHED", TLCGet(1) - 1, Len(TraceLog)>>)
                 /\ TLCGet(1) - 1 = Len(TraceLog)
ASSUME TLCSet(1, 0)
=============================================================================
