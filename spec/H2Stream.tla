------------------------------ MODULE H2Stream ------------------------------
(***************************************************************************)
(* C13, observed at the serve loop of pkg/http2's serverConn.              *)
(*                                                                         *)
(* H2Conn.tla is the precise reaction table (what the server MUST answer   *)
(* to each frame); it is bound to the code by replaying its graph.  This   *)
(* module is the other direction: a specification of what the serve loop   *)
(* MAY do, step by step, written over the events its hook points report -  *)
(*   Read   a frame (or a reader error) taken from the frame reader,       *)
(*   Write  a frame the loop starts to write,                              *)
(*   Start / Push / Done  handler goroutines started and finished -        *)
(* so that ANY execution of the real server (the repository's own tests,   *)
(* every connection of the drivers) can be checked against it.  The guards *)
(* of Write and Start are the clauses of the property: a handler only for  *)
(* a request block on a new, odd, strictly increasing identifier, within   *)
(* the advertised limit, never for a stream above a GOAWAY's last id and   *)
(* never for a request that arrived after a connection error was sent;     *)
(* GOAWAY covers every started request and never grows; nothing but        *)
(* RST_STREAM on a stream the server has ended or reset; REFUSED_STREAM    *)
(* only for requests no handler saw; NO_ERROR resets only after a complete *)
(* response.                                                               *)
(*                                                                         *)
(* The client is unconstrained: Read is enabled for every frame.           *)
(***************************************************************************)
EXTENDS Integers, FiniteSets, Sequences, TLC

CONSTANTS ReadKinds, WriteKinds, StreamIds, Codes, MaxAdv

VARIABLES
  st,         \* stream -> "open" | "hcr" | "hcl" | "closed"   (absent: idle, or closed implicitly below maxClient)
  maxClient,  \* highest client-initiated stream on which a request block was accepted by the monitor
  maxRead,    \* highest stream named by anything the reader delivered (frames and stream errors)
  reqHdr,     \* streams opened by a request block
  started,    \* streams for which a handler was started, in order
  pushed,     \* streams promised by the server
  respHdr,    \* streams on which response HEADERS were written
  ended,      \* streams on which the server wrote END_STREAM
  running,    \* handler goroutines
  ga          \* [sent, err, last]: GOAWAY frames written so far

vars == <<st, maxClient, maxRead, reqHdr, started, pushed, respHdr, ended, running, ga>>

StateOf(s) == IF s \in DOMAIN st THEN st[s] ELSE "idle"
SetState(s, v) == IF s \in DOMAIN st THEN [st EXCEPT ![s] = v] ELSE st @@ (s :> v)
Odd(s) == s % 2 = 1
LastStarted == IF started = <<>> THEN 0 ELSE started[Len(started)]
StartedSet == {started[i] : i \in DOMAIN started}
Max(a, b) == IF a > b THEN a ELSE b

Init == /\ st = <<>> /\ maxClient = 0 /\ maxRead = 0 /\ reqHdr = {} /\ started = <<>> /\ pushed = {}
        /\ respHdr = {} /\ ended = {} /\ running = 0
        /\ ga = [sent |-> FALSE, err |-> FALSE, last |-> 0]

(* ---- what the reader delivers -------------------------------------------------------------------------------------- *)
\* after a connection error was sent every frame is discarded (processFrame: inGoAway with a code other than NO_ERROR), and so
\* is a frame for a stream above the last id of a graceful GOAWAY
Discarded(sid) == ga.sent /\ (ga.err \/ sid > ga.last)

Read(t, sid, es) ==
  /\ maxRead' = IF sid > maxRead THEN sid ELSE maxRead
  /\ UNCHANGED <<started, pushed, respHdr, ended, running, ga>>
  /\ CASE t = "HEADERS" /\ ~Discarded(sid) /\ Odd(sid) /\ sid > maxClient ->
            /\ st' = SetState(sid, IF es = 1 THEN "hcr" ELSE "open")
            /\ maxClient' = sid /\ reqHdr' = reqHdr \cup {sid}
       [] t = "HEADERS" /\ ~Discarded(sid) /\ StateOf(sid) = "open" /\ es = 1 ->      \* trailer block
            /\ st' = SetState(sid, "hcr") /\ UNCHANGED <<maxClient, reqHdr>>
       [] t = "DATA" /\ ~Discarded(sid) /\ StateOf(sid) = "open" /\ es = 1 ->
            /\ st' = SetState(sid, "hcr") /\ UNCHANGED <<maxClient, reqHdr>>
       [] t = "DATA" /\ ~Discarded(sid) /\ StateOf(sid) = "hcl" /\ es = 1 ->
            /\ st' = SetState(sid, "closed") /\ UNCHANGED <<maxClient, reqHdr>>
       [] t = "RST_STREAM" /\ ~Discarded(sid) /\ StateOf(sid) \in {"open", "hcr", "hcl"} ->
            /\ st' = SetState(sid, "closed") /\ UNCHANGED <<maxClient, reqHdr>>
       [] OTHER -> UNCHANGED <<st, maxClient, reqHdr>>

(* ---- what the serve loop may write ----------------------------------------------------------------------------------- *)
Live(sid) == StateOf(sid) \in {"open", "hcr"}          \* the server may still send HEADERS / DATA on it
AfterEnd(sid) == IF StateOf(sid) = "open" THEN "hcl" ELSE "closed"

WriteHeaders(sid, es) ==
  /\ Live(sid) /\ sid \in StartedSet \cup pushed /\ sid \notin ended
  /\ respHdr' = respHdr \cup {sid}
  /\ IF es = 1 THEN st' = SetState(sid, AfterEnd(sid)) /\ ended' = ended \cup {sid} ELSE UNCHANGED <<st, ended>>
  /\ UNCHANGED <<maxClient, maxRead, reqHdr, started, pushed, running, ga>>

WriteData(sid, es) ==
  /\ Live(sid) /\ sid \in respHdr /\ sid \notin ended
  /\ IF es = 1 THEN st' = SetState(sid, AfterEnd(sid)) /\ ended' = ended \cup {sid} ELSE UNCHANGED <<st, ended>>
  /\ UNCHANGED <<maxClient, maxRead, reqHdr, started, pushed, respHdr, running, ga>>

Write100(sid) ==
  /\ StateOf(sid) = "open" /\ sid \in StartedSet /\ sid \notin respHdr
  /\ UNCHANGED vars

\* RST_STREAM: never on stream 0, never on an idle stream; REFUSED_STREAM promises that no handler saw the request;
\* NO_ERROR is the "stop sending the request body" of a server that has completed its response
WriteRst(sid, code) ==
  /\ sid # 0
  /\ sid <= maxRead \/ sid \in pushed
  /\ code = 7 => sid \notin StartedSet
  /\ code = 0 => sid \in ended
  /\ st' = IF sid \in DOMAIN st THEN [st EXCEPT ![sid] = "closed"] ELSE st
  /\ UNCHANGED <<maxClient, maxRead, reqHdr, started, pushed, respHdr, ended, running, ga>>

\* GOAWAY: covers every request a handler was started for, names nothing the client never sent, never grows
WriteGoAway(last, code) ==
  /\ last >= LastStarted
  /\ last <= maxRead
  /\ ga.sent => last <= ga.last
  /\ ga' = [sent |-> TRUE, err |-> ga.err \/ code # 0, last |-> last]
  /\ UNCHANGED <<st, maxClient, maxRead, reqHdr, started, pushed, respHdr, ended, running>>

WriteWindowUpdate(sid) ==
  \* a stream-level credit may be queued while the client still sends and written after its END_STREAM or reset (harmless,
  \* RFC 9113 5.1 "half-closed (remote)" / "closed"); what is never legal is credit for a stream the client has not opened
  /\ sid # 0 => sid <= maxRead \/ sid \in pushed
  /\ UNCHANGED vars

WritePushPromise(sid) ==
  /\ Live(sid) /\ sid \in StartedSet
  /\ UNCHANGED vars

WriteOther == UNCHANGED vars     \* SETTINGS, acks, PING, flush

(* ---- handlers -------------------------------------------------------------------------------------------------------- *)
\* a cleartext upgrade starts the handler of stream 1 before anything is read
Start(sid, cur, adv) ==
  /\ cur = running + 1 /\ cur <= adv
  /\ \/ /\ Odd(sid) /\ sid > LastStarted /\ sid \in reqHdr /\ Live(sid)
        /\ ga.sent => sid <= ga.last
        /\ UNCHANGED <<st, maxClient, reqHdr>>
     \/ /\ sid = 1 /\ started = <<>> /\ maxClient = 0 /\ maxRead = 0 /\ ~ga.sent   \* h2c upgrade
        /\ st' = SetState(1, "hcr") /\ maxClient' = 1 /\ reqHdr' = {1}
  /\ started' = Append(started, sid) /\ running' = cur
  /\ UNCHANGED <<maxRead, pushed, respHdr, ended, ga>>

Push(sid, cur) ==
  /\ ~Odd(sid) /\ sid # 0 /\ sid \notin pushed /\ \A p \in pushed : p < sid
  /\ cur = running + 1
  /\ pushed' = pushed \cup {sid} /\ st' = SetState(sid, "hcr") /\ running' = cur
  /\ UNCHANGED <<maxClient, maxRead, reqHdr, started, respHdr, ended, ga>>

Done(cur) ==
  /\ running > 0 /\ cur = running - 1
  /\ running' = cur
  /\ UNCHANGED <<st, maxClient, maxRead, reqHdr, started, pushed, respHdr, ended, ga>>

(* ---- the bounded model: an arbitrary client, a server that does whatever the guards allow ----------------------------- *)
Next ==
  \/ \E t \in ReadKinds, s \in StreamIds, es \in {0, 1} : Read(t, s, es)
  \/ \E s \in StreamIds, es \in {0, 1} : WriteHeaders(s, es) \/ WriteData(s, es)
  \/ \E s \in StreamIds : Write100(s) \/ WriteWindowUpdate(s) \/ WritePushPromise(s)
  \/ \E s \in StreamIds, c \in Codes : WriteRst(s, c)
  \/ \E s \in StreamIds, c \in Codes : WriteGoAway(s, c)
  \/ \E s \in StreamIds : Start(s, running + 1, MaxAdv)
  \/ \E s \in StreamIds : Push(s, running + 1)
  \/ Done(running - 1)

Spec == Init /\ [][Next]_vars

(* ---- the clauses of C13, as invariants / action properties of every behaviour the guards admit ----------------------- *)
TypeOK == /\ \A s \in DOMAIN st : st[s] \in {"open", "hcr", "hcl", "closed"}
          /\ running \in 0..MaxAdv + Cardinality(pushed)
HandlersOnlyForRequests == \A i \in DOMAIN started : Odd(started[i]) /\ started[i] \in reqHdr
HandlersIncreasing == \A i, j \in DOMAIN started : i < j => started[i] < started[j]
GoAwayCovers == ga.sent => \A i \in DOMAIN started : started[i] <= ga.last
ResponsesOnlyFromHandlers == respHdr \subseteq StartedSet \cup pushed
EndedIsFinal == \A s \in ended : StateOf(s) \in {"hcl", "closed"}
NothingStartedAfterConnError == [][ga.err => started' = started \/ LastStarted' <= ga.last]_vars
GoAwayShrinks == [][ga.sent => ga'.last <= ga.last]_vars
WithinLimit == running - Cardinality(pushed) <= MaxAdv
=============================================================================
