SPECIFICATION Spec
CONSTANTS N = 3
INVARIANTS Refines FiveFields NoGreaseToken
CHECK_DEADLOCK FALSE
