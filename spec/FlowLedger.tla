-------------------------------- MODULE FlowLedger --------------------------------
(***************************************************************************)
(* C12, the peer's view.  What a client can conclude from the wire alone   *)
(* about the HTTP/2 server's flow control, as a ledger (st):               *)
(*                                                                         *)
(* server as sender    sw[s], cw : how much DATA the server may still send  *)
(*   on stream s / on the connection = credits the client has *sent*        *)
(*   (initial window, WINDOW_UPDATE, SETTINGS_INITIAL_WINDOW_SIZE deltas -  *)
(*   increases count when sent, decreases when the SETTINGS is acked) minus *)
(*   DATA received.  Every DATA frame must fit sw[s], cw and maxFrame, and  *)
(*   a stream's DATA adds up to exactly what was queued once window is      *)
(*   available again ("drained").                                           *)
(* server as receiver  bytes the client sent up vs. credit the server       *)
(*   returned: never more credit than bytes, and at a quiescent point       *)
(*   (handler consumed everything, PING barrier) the un-returned connection *)
(*   credit is below the batching bound.                                    *)
(* errors              the second of two maximal WINDOW_UPDATE increments    *)
(*   certainly overflows 2^31-1, DATA beyond the advertised window (with a  *)
(*   handler that reads nothing) certainly overruns: both must be answered  *)
(*   with FLOW_CONTROL_ERROR; an honest peer never draws one.               *)
(*                                                                         *)
(* The same ledger serves both roles of the implementation: the server     *)
(* (peer = the raw-frame client of the harness) and the client transport    *)
(* (peer = a raw-frame server of the harness; "open" is logged when the     *)
(* transport's HEADERS arrive, "data" is request body).                     *)
(* Used for trace validation only: events are the client script's own log   *)
(* in its own program order.  Flow.tla is the endpoint's internal model;    *)
(* its invariant PeerLedgerAgrees is the bridge between the two views.      *)
(***************************************************************************)
EXTENDS Integers, Sequences, FiniteSets, TLC, Json, TLCExt

CONSTANTS Streams, Bound, MaxWin

TraceLog == ndJsonDeserialize("trace_c12.ndjson")

VARIABLES l, st
vars == <<l, st>>

Ev == TraceLog[l]
Zero == [s \in Streams |-> 0]
No == [s \in Streams |-> FALSE]

Fresh == [sw |-> Zero, cw |-> 65535, maxFrame |-> 16384, pendingMF |-> -1, initw |-> 65535, pendingInit |-> -1,
          body |-> Zero, got |-> Zero, ended |-> No, reset |-> No,
          opened |-> {}, mustErr |-> {}, mayErr |-> {}, fcDone |-> {},
          upSent |-> 0, creditC |-> 0, grant |-> 0, advC |-> 65535, advS |-> Zero, dead |-> FALSE, lastOp |-> "reset"]
Init == l = 1 /\ st = Fresh

OpenStreams == { x \in st.opened : ~st.ended[x] /\ ~st.reset[x] }

Step(op, r) == st' = [r EXCEPT !.lastOp = op]

\* ---------------------------------------------------------------- client -> server (the client's own sends)
DoOpen == Step("open", [st EXCEPT !.sw[Ev.s] = st.initw, !.body[Ev.s] = Ev.body, !.advS[Ev.s] = Ev.adv, !.opened = @ \cup {Ev.s}])

DoWU ==
  IF Ev.s = 0
  THEN IF Ev.sure THEN Step("wu", [st EXCEPT !.mustErr = @ \cup {0}])
       ELSE IF st.cw > 0 /\ Ev.n > MaxWin - st.cw THEN Step("wu", [st EXCEPT !.mayErr = @ \cup {0}, !.cw = MaxWin])
       ELSE Step("wu", [st EXCEPT !.cw = @ + Ev.n])
  ELSE IF st.ended[Ev.s] \/ st.reset[Ev.s] THEN Step("wu", st)               \* ignored by the server
  ELSE IF Ev.sure THEN Step("wu", [st EXCEPT !.mustErr = @ \cup {Ev.s}])      \* second maximal increment: overflows whatever the window was
  ELSE IF st.sw[Ev.s] > 0 /\ Ev.n > MaxWin - st.sw[Ev.s]
       THEN Step("wu", [st EXCEPT !.mayErr = @ \cup {Ev.s}, !.sw[Ev.s] = MaxWin])  \* the server's window may be lower than this bound: it may accept (up to the maximum) or reset
  ELSE Step("wu", [st EXCEPT !.sw[Ev.s] = @ + Ev.n])

Adjust(delta) == [s \in Streams |-> IF s \in OpenStreams THEN st.sw[s] + delta ELSE st.sw[s]]
DoInitSend == IF Ev.v >= st.initw
              THEN Step("initwin_send", [st EXCEPT !.sw = Adjust(Ev.v - st.initw), !.initw = Ev.v, !.pendingInit = -1])
              ELSE Step("initwin_send", [st EXCEPT !.pendingInit = Ev.v])
\* a SETTINGS acknowledgement: reductions the peer announced (window, maximum frame size) bind from here on
DoInitAck == LET mf == IF st.pendingMF >= 0 THEN st.pendingMF ELSE st.maxFrame IN
             IF st.pendingInit >= 0
             THEN Step("initwin_ack", [st EXCEPT !.sw = Adjust(st.pendingInit - st.initw), !.initw = st.pendingInit, !.pendingInit = -1,
                                                 !.maxFrame = mf, !.pendingMF = -1])
             ELSE Step("initwin_ack", [st EXCEPT !.maxFrame = mf, !.pendingMF = -1])
\* SETTINGS_MAX_FRAME_SIZE announced by the peer: a larger value may be used as soon as it is seen, a smaller one binds once acknowledged
DoMFSend == IF Ev.v >= st.maxFrame
            THEN Step("mf_send", [st EXCEPT !.maxFrame = Ev.v, !.pendingMF = -1])
            ELSE Step("mf_send", [st EXCEPT !.pendingMF = Ev.v])

DoUpData == IF Ev.overrun
            THEN Step("up_data", [st EXCEPT !.mustErr = @ \cup {Ev.s}, !.upSent = @ + Ev.n])
            ELSE Step("up_data", [st EXCEPT !.advC = @ - Ev.n, !.advS[Ev.s] = @ - Ev.n, !.upSent = @ + Ev.n])

\* ---------------------------------------------------------------- server -> client
DoData == /\ ~st.dead /\ ~st.reset[Ev.s] /\ ~st.ended[Ev.s]
          /\ Ev.len <= st.maxFrame
          /\ (Ev.len > 0 => (Ev.len <= st.cw /\ Ev.len <= st.sw[Ev.s]))      \* an empty DATA frame (END_STREAM) needs no window
          /\ st.got[Ev.s] + Ev.len <= st.body[Ev.s]
          /\ Step("data", [st EXCEPT !.sw[Ev.s] = @ - Ev.len, !.cw = @ - Ev.len, !.got[Ev.s] = @ + Ev.len, !.ended[Ev.s] = Ev.end])
DoRst == /\ (Ev.s \in st.mustErr => Ev.code = "FC")                                  \* the provoked error carries FLOW_CONTROL_ERROR
         /\ (Ev.code = "FC" => Ev.s \in st.mustErr \cup st.mayErr \cup st.fcDone)     \* an honest peer never draws one (each offending frame may draw its own)
         /\ Step("rst", [st EXCEPT !.reset[Ev.s] = TRUE, !.mustErr = @ \ {Ev.s}, !.mayErr = @ \ {Ev.s},
                                   !.fcDone = IF Ev.code = "FC" THEN @ \cup {Ev.s} ELSE @])
\* GOAWAY(NO_ERROR) is the graceful kind: open streams are served to the end under the same rules, the ledger goes on
DoGoAway == /\ (Ev.code = "FC" => (st.mustErr \cup st.mayErr) # {})
            /\ (0 \in st.mustErr => Ev.code = "FC")
            /\ IF Ev.code = "NO" /\ 0 \notin st.mustErr THEN Step("goaway", st)
               ELSE Step("goaway", [st EXCEPT !.dead = TRUE, !.mustErr = {}, !.mayErr = {}])
\* the client granted ample window and waited: everything queued must have been delivered
DoDrained == /\ (~st.reset[Ev.s] /\ ~st.dead) => (st.got[Ev.s] = st.body[Ev.s] /\ (st.ended[Ev.s] \/ st.body[Ev.s] = 0))    \* an empty response ends with its HEADERS frame
             /\ Step("drained", st)
\* the first connection-level WINDOW_UPDATE, before anything was sent up, is the server raising its connection window
\* to the configured size (a grant, not a refund)
DoSrvWU == IF Ev.s = 0
           THEN IF st.upSent = 0 /\ st.grant = 0 THEN Step("srv_wu", [st EXCEPT !.grant = Ev.n, !.advC = @ + Ev.n])
                ELSE Step("srv_wu", [st EXCEPT !.creditC = @ + Ev.n, !.advC = @ + Ev.n])
           ELSE Step("srv_wu", [st EXCEPT !.advS[Ev.s] = @ + Ev.n])
\* a provoked error must have been answered by the time the client reaches a barrier after it
DoErrDeadline == /\ st.mustErr = {}
                 /\ Step("err_deadline", st)

Next == /\ l <= Len(TraceLog) /\ l' = l + 1
        /\ CASE Ev.op = "open" -> DoOpen
             [] Ev.op = "wu" -> DoWU
             [] Ev.op = "initwin_send" -> DoInitSend
             [] Ev.op = "initwin_ack" -> DoInitAck
             [] Ev.op = "mf_send" -> DoMFSend
             [] Ev.op = "data" -> DoData
             [] Ev.op = "rst" -> DoRst
             [] Ev.op = "goaway" -> DoGoAway
             [] Ev.op = "drained" -> DoDrained
             [] Ev.op = "up_data" -> DoUpData
             [] Ev.op = "srv_wu" -> DoSrvWU
             [] Ev.op = "up_quiesce" -> Step("up_quiesce", st)
             [] Ev.op = "err_deadline" -> DoErrDeadline
             [] Ev.op = "client_rst" -> Step("client_rst", [st EXCEPT !.reset[Ev.s] = TRUE])
             [] Ev.op = "reset" -> Step("reset", Fresh)
             [] OTHER -> FALSE
Spec == Init /\ [][Next]_vars

\* the server never returns more connection credit than it was sent
NoOverReturn == st.creditC <= st.upSent
\* at a quiescent point un-returned connection credit is below the batching bound
ReturnedAtQuiescence == st.lastOp = "up_quiesce" => st.upSent - st.creditC < Bound
LedgerNonNegative == st.cw >= 0 /\ \A s \in Streams : st.got[s] <= st.body[s]

HW == TLCSet(1, IF TLCGet(1) < l THEN l ELSE TLCGet(1))
TraceAccepted == /\ PrintT(<<"TRACE_MATCHED", TLCGet(1) - 1, Len(TraceLog)>>)
                 /\ TLCGet(1) - 1 = Len(TraceLog)
ASSUME TLCSet(1, 0)
=============================================================================
