--------------------------------- MODULE H2Frame ---------------------------------
(***************************************************************************)
(* C19.  The HTTP/2 framer (pkg/http2/frame.go), reading side:             *)
(*   Framer.ReadFrame = size limit, per-type parser, checkFrameOrder.      *)
(*                                                                         *)
(* An abstract frame says which *classes* its wire image falls into (type, *)
(* stream id class, flags, payload-length class, padding class, ...); the  *)
(* harness's own serializer turns it into bytes.                            *)
(*                                                                         *)
(* Implementation-shaped layer: Outcome(f, cont) transcribes the checks in *)
(* the order the code performs them (parser first, frame order second).    *)
(* Ideal layer: Allowed(f, cont) is the set of reactions RFC 7540 permits  *)
(* for the defects present in f: the code the RFC section names, as a      *)
(* stream error where the RFC says "stream error" - or escalated to a      *)
(* connection error of the same code (sections 4.2 / 5.4) - and any of the *)
(* named codes when several defects coincide.  Refines: Outcome \in        *)
(* Allowed, for every frame in every HEADERS/CONTINUATION state.           *)
(*                                                                         *)
(* ShortPrefix (named deviation, not asserted as RFC-mandated): a PADDED   *)
(* or PRIORITY flag whose fixed-size prefix does not fit in the payload    *)
(* makes the framer return io.ErrUnexpectedEOF.                            *)
(***************************************************************************)
EXTENDS Integers, Sequences, FiniteSets, TLC

CONSTANTS MaxRead         \* Framer.SetMaxReadFrameSize

PE == "PROTOCOL_ERROR"
FS == "FRAME_SIZE_ERROR"
FC == "FLOW_CONTROL_ERROR"

Sids == {0, 1, 3}
Pads == {"none", "pad0", "pad3", "toobig", "edge", "full", "nopayload"}     \* PADDED flag classes; edge: pad length one more than what is left after the
                                                                             \* fixed prefix (priority fields / promised id), full: exactly what is left (empty body, legal)
\* payload length of the padding construction around n body bytes
PadLen(p, n) == CASE p = "none" -> n [] p = "pad0" -> n + 1 [] p = "pad3" -> n + 4 [] p = "toobig" -> 3 [] p = "edge" -> n + 1 [] p = "full" -> n + 1 [] p = "nopayload" -> 0

F(t, sid, x) == [t |-> t, sid |-> sid, rbit |-> FALSE] @@ x

Frames ==
  { F("DATA", s, [pad |-> p, body |-> b, es |-> e]) : s \in Sids, p \in Pads, b \in {0, 5}, e \in BOOLEAN }
  \cup { F("HEADERS", s, [pad |-> p, prio |-> pr, eh |-> eh, es |-> FALSE]) :
           s \in Sids, p \in Pads, pr \in {"none", "ok", "short"}, eh \in BOOLEAN }
  \cup { F("PRIORITY", s, [len |-> l]) : s \in Sids, l \in {5, 4, 6} }
  \cup { F("RST_STREAM", s, [len |-> l]) : s \in Sids, l \in {4, 3, 8} }
  \cup { F("SETTINGS", s, [ack |-> a, len |-> l, bigwin |-> bw]) : s \in {0, 1}, a \in BOOLEAN, l \in {0, 6, 12, 7}, bw \in BOOLEAN }
  \cup { F("PUSH_PROMISE", s, [pad |-> p, short |-> sh, eh |-> TRUE]) : s \in Sids, p \in Pads, sh \in BOOLEAN }
  \cup { F("PING", s, [ack |-> a, len |-> l]) : s \in {0, 1}, a \in BOOLEAN, l \in {8, 7, 9} }
  \cup { F("GOAWAY", s, [len |-> l]) : s \in {0, 1}, l \in {8, 7, 12} }
  \* rinc: the reserved bit in front of the 31-bit increment is set on the wire; it must be ignored (RFC 7540 6.9), so the outcome is that of incr
  \cup { F("WINDOW_UPDATE", s, [len |-> l, incr |-> i, rinc |-> r]) : s \in Sids, l \in {4, 3, 5}, i \in {0, 1, 2147483647}, r \in BOOLEAN }
  \cup { F("CONTINUATION", s, [eh |-> eh]) : s \in Sids, eh \in BOOLEAN }
  \cup { F("UNKNOWN", s, [len |-> l]) : s \in {0, 1}, l \in {0, 3} }
  \cup { [F("PING", 0, [ack |-> FALSE, len |-> 8]) EXCEPT !.rbit = TRUE],          \* reserved bit set: must be ignored
         [F("DATA", 1, [pad |-> "none", body |-> 5, es |-> TRUE]) EXCEPT !.rbit = TRUE] }
  \cup { F("DATA", 1, [pad |-> "none", body |-> b, es |-> FALSE]) : b \in {MaxRead - 1, MaxRead, MaxRead + 1} }   \* around the read limit
  \cup { F("UNKNOWN", 1, [len |-> MaxRead + 1]) }

PayloadLen(f) ==
  CASE f.t = "DATA" -> PadLen(f.pad, f.body)
    [] f.t = "HEADERS" -> (IF f.pad = "nopayload" THEN 0
                           ELSE PadLen(f.pad, 4) + (CASE f.prio = "ok" -> 5 [] f.prio = "short" -> 2 [] OTHER -> 0))
    [] f.t = "PUSH_PROMISE" -> (IF f.pad = "nopayload" THEN 0 ELSE PadLen(f.pad, 4) + (IF f.short THEN 2 ELSE 4))
    [] f.t = "CONTINUATION" -> 4
    [] OTHER -> f.len

VARIABLES cont,     \* Framer.lastHeaderStream: stream whose header block is still open (0 = none)
          last,     \* observation: outcome of the last ReadFrame as the code produces it
          lastAllowed   \* observation: the outcomes RFC 7540 permits for that frame in that state
vars == <<cont, last, lastAllowed>>

Ok(f) == [r |-> "ok", t |-> f.t, sid |-> f.sid, code |-> "-"]       \* the frame is delivered with its type and (masked) stream id
ConnErr(c) == [r |-> "conn", t |-> "-", sid |-> 0, code |-> c]
StreamErr(s, c) == [r |-> "stream", t |-> "-", sid |-> s, code |-> c]
TooLarge == [r |-> "toolarge", t |-> "-", sid |-> 0, code |-> "-"]
ShortPrefix == [r |-> "eof", t |-> "-", sid |-> 0, code |-> "-"]

\* ---------------------------------------------------------------- the parsers, in the order of the code
Parse(f) ==
  CASE f.t = "DATA" ->
         IF f.sid = 0 THEN ConnErr(PE)
         ELSE IF f.pad = "nopayload" THEN ShortPrefix
         ELSE IF f.pad \in {"toobig", "edge"} THEN ConnErr(PE) ELSE Ok(f)
    [] f.t = "HEADERS" ->
         IF f.sid = 0 THEN ConnErr(PE)
         ELSE IF f.pad = "nopayload" THEN ShortPrefix
         ELSE IF f.prio = "short" THEN ShortPrefix
         ELSE IF f.pad \in {"toobig", "edge"} THEN StreamErr(f.sid, PE) ELSE Ok(f)
    [] f.t = "PRIORITY" ->
         IF f.sid = 0 THEN ConnErr(PE) ELSE IF f.len # 5 THEN ConnErr(FS) ELSE Ok(f)
    [] f.t = "RST_STREAM" ->
         IF f.len # 4 THEN ConnErr(FS) ELSE IF f.sid = 0 THEN ConnErr(PE) ELSE Ok(f)
    [] f.t = "SETTINGS" ->
         IF f.ack /\ f.len > 0 THEN ConnErr(FS)
         ELSE IF f.sid # 0 THEN ConnErr(PE)
         ELSE IF f.len % 6 # 0 THEN ConnErr(FS)
         ELSE IF f.bigwin /\ f.len >= 6 THEN ConnErr(FC) ELSE Ok(f)
    [] f.t = "PUSH_PROMISE" ->
         IF f.sid = 0 THEN ConnErr(PE)
         ELSE IF f.pad = "nopayload" THEN ShortPrefix
         ELSE IF f.short THEN ShortPrefix
         ELSE IF f.pad \in {"toobig", "edge"} THEN ConnErr(PE) ELSE Ok(f)
    [] f.t = "PING" ->
         IF f.len # 8 THEN ConnErr(FS) ELSE IF f.sid # 0 THEN ConnErr(PE) ELSE Ok(f)
    [] f.t = "GOAWAY" ->
         IF f.sid # 0 THEN ConnErr(PE) ELSE IF f.len < 8 THEN ConnErr(FS) ELSE Ok(f)
    [] f.t = "WINDOW_UPDATE" ->
         IF f.len # 4 THEN ConnErr(FS)
         ELSE IF f.incr = 0 THEN (IF f.sid = 0 THEN ConnErr(PE) ELSE StreamErr(f.sid, PE)) ELSE Ok(f)
    [] f.t = "CONTINUATION" ->
         IF f.sid = 0 THEN ConnErr(PE) ELSE Ok(f)
    [] f.t = "UNKNOWN" -> Ok(f)

\* checkFrameOrder
Order(f, c) == IF c # 0 THEN (IF f.t # "CONTINUATION" \/ f.sid # c THEN ConnErr(PE) ELSE Ok(f))
               ELSE IF f.t = "CONTINUATION" THEN ConnErr(PE) ELSE Ok(f)

Outcome(f, c) == IF PayloadLen(f) > MaxRead THEN TooLarge
                 ELSE LET p == Parse(f) IN IF p.r # "ok" THEN p ELSE Order(f, c)

NextCont(f, c) == IF Outcome(f, c).r = "ok" /\ f.t \in {"HEADERS", "CONTINUATION"}
                  THEN (IF f.eh THEN 0 ELSE f.sid) ELSE c

\* ---------------------------------------------------------------- what RFC 7540 permits
\* the set of <<scope, code>> defects present in f (scope "stream" may be escalated to "conn")
Defects(f, c) ==
  (IF f.t \in {"DATA", "HEADERS", "PRIORITY", "RST_STREAM", "PUSH_PROMISE", "CONTINUATION"} /\ f.sid = 0 THEN {<<"conn", PE>>} ELSE {})
  \cup (IF f.t \in {"SETTINGS", "PING", "GOAWAY"} /\ f.sid # 0 THEN {<<"conn", PE>>} ELSE {})
  \cup (IF f.t \in {"DATA", "PUSH_PROMISE"} /\ f.pad \in {"toobig", "edge"} THEN {<<"conn", PE>>} ELSE {})              \* 6.1, 6.6
  \cup (IF f.t = "HEADERS" /\ f.pad \in {"toobig", "edge"} THEN {<<"stream", PE>>} ELSE {})                               \* 6.2 (PROTOCOL_ERROR, scope open)
  \cup (IF f.t = "PRIORITY" /\ f.len # 5 THEN {<<"stream", FS>>} ELSE {})                                     \* 6.3
  \cup (IF f.t = "RST_STREAM" /\ f.len # 4 THEN {<<"conn", FS>>} ELSE {})                                     \* 6.4
  \cup (IF f.t = "SETTINGS" /\ ((f.ack /\ f.len > 0) \/ f.len % 6 # 0) THEN {<<"conn", FS>>} ELSE {})         \* 6.5
  \cup (IF f.t = "SETTINGS" /\ f.bigwin /\ f.len >= 6 /\ f.len % 6 = 0 /\ ~f.ack THEN {<<"conn", FC>>} ELSE {}) \* 6.5.2
  \cup (IF f.t = "PING" /\ f.len # 8 THEN {<<"conn", FS>>} ELSE {})                                           \* 6.7
  \cup (IF f.t = "GOAWAY" /\ f.len < 8 THEN {<<"conn", FS>>} ELSE {})                                         \* 4.2
  \cup (IF f.t = "WINDOW_UPDATE" /\ f.len # 4 THEN {<<"conn", FS>>} ELSE {})                                  \* 6.9
  \cup (IF f.t = "WINDOW_UPDATE" /\ f.len = 4 /\ f.incr = 0
        THEN {IF f.sid = 0 THEN <<"conn", PE>> ELSE <<"stream", PE>>} ELSE {})                                \* 6.9
  \cup (IF c # 0 /\ (f.t # "CONTINUATION" \/ f.sid # c) THEN {<<"conn", PE>>} ELSE {})                        \* 6.2 / 6.10
  \cup (IF c = 0 /\ f.t = "CONTINUATION" THEN {<<"conn", PE>>} ELSE {})                                       \* 6.10

HasShortPrefix(f) == \/ f.t \in {"DATA", "HEADERS", "PUSH_PROMISE"} /\ f.pad = "nopayload"
                     \/ f.t = "HEADERS" /\ f.prio = "short"
                     \/ f.t = "PUSH_PROMISE" /\ f.short

Allowed(f, c) ==
  IF PayloadLen(f) > MaxRead THEN {TooLarge}                                   \* 4.2: FRAME_SIZE_ERROR, raised by the caller
  ELSE LET ds == Defects(f, c) IN
       (IF ds = {} /\ ~HasShortPrefix(f) THEN {Ok(f)} ELSE {})
       \cup { ConnErr(d[2]) : d \in ds }
       \cup { StreamErr(f.sid, d[2]) : d \in { x \in ds : x[1] = "stream" } }
       \cup (IF HasShortPrefix(f) THEN {ShortPrefix} ELSE {})                    \* named deviation

\* ---------------------------------------------------------------- behaviour
Init == cont = 0 /\ last = [r |-> "none", t |-> "-", sid |-> 0, code |-> "-"] /\ lastAllowed = {}
Read(f) == /\ last' = Outcome(f, cont)
           /\ lastAllowed' = Allowed(f, cont)
           /\ cont' = NextCont(f, cont)
Next == \E f \in Frames : Read(f)
Spec == Init /\ [][Next]_vars

Refines == \A f \in Frames : \A c \in {0, 1, 3} : Outcome(f, c) \in Allowed(f, c)
\* a frame without any defect is never rejected
LegalAccepted == \A f \in Frames : \A c \in {0, 1, 3} :
                    (Defects(f, c) = {} /\ ~HasShortPrefix(f) /\ PayloadLen(f) <= MaxRead) => Outcome(f, c).r = "ok"
\* no frame larger than the read limit is ever delivered
InAllowed == lastAllowed # {} => last \in lastAllowed
=============================================================================
