------------------------------ MODULE TransportWake ------------------------------
(***************************************************************************)
(* C12, the client transport's body writers.  Every request with a body    *)
(* has a writer goroutine that, when neither its stream window nor the     *)
(* connection window lets it send, sleeps on the ONE condition variable of  *)
(* the connection (clientStream.awaitFlowControl -> cc.cond.Wait; requests  *)
(* queued behind MAX_CONCURRENT_STREAMS sleep on the same variable).       *)
(* The read loop credits windows (processWindowUpdate, processSettings)    *)
(* and wakes the sleepers.                                                  *)
(*                                                                         *)
(* Wake = "all": cc.cond.Broadcast(), as in the code.                       *)
(* Wake = "one": cc.cond.Signal() for stream-level updates - the sleeper    *)
(* that has waited longest is woken, whichever stream the credit was for    *)
(* (model mutant: NoLostWakeup and Delivers must fail).                     *)
(*                                                                         *)
(* A writer is awake (it will look at its windows) or asleep in the FIFO    *)
(* queue of the condition variable.                                         *)
(***************************************************************************)
EXTENDS Naturals, Sequences, FiniteSets

CONSTANTS Streams,    \* uploads on the connection
          Body,       \* octets each has to send
          Wake,       \* "all" | "one"
          MaxCredit   \* bound on the credit handed out per window (keeps the model finite)

VARIABLES left,       \* octets still to send per stream
          sw, cw,     \* stream windows, connection window
          awake,      \* set of writers that are running (will re-check their windows)
          q,          \* sleepers, longest waiting first
          granted     \* total credit handed out per stream / connection (bound)
vars == <<left, sw, cw, awake, q, granted>>

Init == /\ left = [s \in Streams |-> Body] /\ sw = [s \in Streams |-> 0] /\ cw = 0
        /\ awake = Streams /\ q = <<>> /\ granted = [s \in Streams \cup {0} |-> 0]

InQ(s) == \E i \in 1..Len(q) : q[i] = s
CanSend(s) == left[s] > 0 /\ sw[s] > 0 /\ cw > 0

\* a running writer sends what its windows allow, or goes to sleep at the tail of the queue
Send(s) == /\ s \in awake /\ CanSend(s)
           /\ LET k == IF sw[s] < cw THEN (IF sw[s] < left[s] THEN sw[s] ELSE left[s]) ELSE (IF cw < left[s] THEN cw ELSE left[s]) IN
                /\ left' = [left EXCEPT ![s] = @ - k] /\ sw' = [sw EXCEPT ![s] = @ - k] /\ cw' = cw - k
           /\ awake' = IF left'[s] = 0 THEN awake \ {s} ELSE awake
           /\ UNCHANGED <<q, granted>>
Sleep(s) == /\ s \in awake /\ left[s] > 0 /\ ~CanSend(s)
            /\ awake' = awake \ {s} /\ q' = Append(q, s)
            /\ UNCHANGED <<left, sw, cw, granted>>

WakeAll == /\ awake' = awake \cup {q[i] : i \in 1..Len(q)} /\ q' = <<>>
WakeOne == IF q = <<>> THEN UNCHANGED <<awake, q>> ELSE awake' = awake \cup {Head(q)} /\ q' = Tail(q)

\* the read loop: WINDOW_UPDATE for a stream / for the connection
CreditStream(s, n) == /\ granted[s] + n <= MaxCredit
                      /\ sw' = [sw EXCEPT ![s] = @ + n] /\ granted' = [granted EXCEPT ![s] = @ + n]
                      /\ (IF Wake = "all" THEN WakeAll ELSE WakeOne)
                      /\ UNCHANGED <<left, cw>>
CreditConn(n) == /\ granted[0] + n <= MaxCredit
                 /\ cw' = cw + n /\ granted' = [granted EXCEPT ![0] = @ + n]
                 /\ WakeAll                                  \* connection-level updates broadcast in both variants
                 /\ UNCHANGED <<left, sw>>

Next == \/ \E s \in Streams : Send(s) \/ Sleep(s)
        \/ \E s \in Streams, n \in 1..MaxCredit : CreditStream(s, n)
        \/ \E n \in 1..MaxCredit : CreditConn(n)
Spec == Init /\ [][Next]_vars /\ \A s \in Streams : WF_vars(Send(s)) /\ WF_vars(Sleep(s))

TypeOK == /\ awake \subseteq Streams /\ \A s \in Streams : ~(s \in awake /\ InQ(s))
          /\ \A s \in Streams : left[s] <= Body
\* nobody sleeps while both of its windows are open: the wake-up that came with the credit reached it
NoLostWakeup == \A s \in Streams : InQ(s) => ~CanSend(s)
\* whoever has window sends: an upload with credit on both levels does not stay where it is
Delivers == \A s \in Streams : [](CanSend(s) => <>(~CanSend(s)))
=============================================================================
