-------------------------------- MODULE Trace_Relay --------------------------------
(***************************************************************************)
(* Trace validation for C08: the recording backend and the scripted        *)
(* clients (same process, one sequence) log every piece of body they        *)
(* receive with its offset as computed from the content, and the end of     *)
(* each direction with what arrived besides the body (method, target,       *)
(* headers verdict, status, trailers).  A trace is accepted iff every       *)
(* piece is the next contiguous range of its request's body, ends come      *)
(* after the last byte with the announced values, and at the end of a       *)
(* scenario every request has completed both directions.                    *)
(***************************************************************************)
EXTENDS Integers, Sequences, FiniteSets, TLC, Json, TLCExt

TraceLog == ndJsonDeserialize("trace_c08.ndjson")
VARIABLES l, st       \* st: request id -> [upLen, downLen, up, down, upEnd, downEnd]
vars == <<l, st>>
Ev == TraceLog[l]

Init == l = 1 /\ st = <<>>
K == ToString(Ev.r)
Known == K \in DOMAIN st

Begin == /\ ~Known
         /\ st' = (K :> [upLen |-> Ev.up, downLen |-> Ev.down, up |-> 0, down |-> 0, upEnd |-> FALSE, downEnd |-> FALSE]) @@ st
Up == /\ Known /\ ~st[K].upEnd
      /\ Ev.ok                                   \* content matches (r, offset .. offset+n)
      /\ Ev.off = st[K].up                       \* the next contiguous range
      /\ Ev.off + Ev.n <= st[K].upLen
      /\ st' = [st EXCEPT ![K].up = @ + Ev.n]
UpEnd == /\ Known /\ ~st[K].upEnd
         /\ st[K].up = st[K].upLen
         /\ Ev.method_ok /\ Ev.target_ok /\ Ev.headers_ok /\ Ev.trailers_ok
         /\ st' = [st EXCEPT ![K].upEnd = TRUE]
Down == /\ Known /\ st[K].upEnd /\ ~st[K].downEnd
        /\ Ev.ok /\ Ev.off = st[K].down /\ Ev.off + Ev.n <= st[K].downLen
        /\ st' = [st EXCEPT ![K].down = @ + Ev.n]
DownEnd == /\ Known /\ st[K].upEnd /\ ~st[K].downEnd
           /\ st[K].down = st[K].downLen
           /\ Ev.status_ok /\ Ev.headers_ok /\ Ev.trailers_ok
           /\ st' = [st EXCEPT ![K].downEnd = TRUE]
Done == \A k \in DOMAIN st : st[k].upEnd /\ st[k].downEnd
Next == /\ l <= Len(TraceLog) /\ l' = l + 1
        /\ CASE Ev.op = "begin" -> Begin
             [] Ev.op = "up" -> Up
             [] Ev.op = "up_end" -> UpEnd
             [] Ev.op = "down" -> Down
             [] Ev.op = "down_end" -> DownEnd
             [] Ev.op = "reset" -> Done /\ st' = <<>>
             [] Ev.op = "end" -> Done /\ st' = st
             [] OTHER -> FALSE
Spec == Init /\ [][Next]_vars

NeverBeyond == \A k \in DOMAIN st : st[k].up <= st[k].upLen /\ st[k].down <= st[k].downLen
HW == TLCSet(1, IF TLCGet(1) < l THEN l ELSE TLCGet(1))
TraceAccepted == /\ PrintT(<<"TRACE_MATCHED", TLCGet(1) - 1, Len(TraceLog)>>)
                 /\ TLCGet(1) - 1 = Len(TraceLog)
ASSUME TLCSet(1, 0)
=============================================================================
