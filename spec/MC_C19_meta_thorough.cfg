SPECIFICATION Spec
CONSTANTS MaxBlocks = 5
INVARIANTS OwnJudgement TableGrowsWithEveryBlock
CHECK_DEADLOCK FALSE
