SPECIFICATION FairSpec
CONSTANTS AdvMax = 1
  Mult = 4
  MaxStreams = 9
INVARIANTS TypeOK HandlersWithinLimit StreamsWithinLimit StartsOrdered BacklogBounded LiveBacklogMeansFull
PROPERTIES StartOnlyLive CalmOnlyWhenFlooded NoStarvation
CHECK_DEADLOCK FALSE
