-------------------------------- MODULE CertReload --------------------------------
(***************************************************************************)
(* C14, plain-file layout.  pkg/certwatcher watches the two *files*         *)
(* (fsnotify.Add on tls.crt and tls.key = inotify watches on their inodes). *)
(* Writer (environment): in-place rewrite (truncate / partial / garbage /    *)
(* full content) and rename of a new file over the path.  Kernel: which     *)
(* fsnotify events each step produces for a watched inode (measured on this *)
(* kernel: WRITE per write, REMOVE when the inode loses its last link -     *)
(* the watch is dropped then).  Watcher: Dequeue ; ReAdd (on REMOVE) ;       *)
(* ReadCert ; ReadKey ; Swap - separate steps, so writer steps interleave   *)
(* between the two file reads of tls.LoadX509KeyPair.                       *)
(* Serialized = TRUE lets the writer move only when the watcher is idle     *)
(* with an empty queue: the deterministic histories that are replayed on a  *)
(* real directory.                                                          *)
(***************************************************************************)
EXTENDS Naturals, Sequences, FiniteSets, TLC
CONSTANTS Versions,      \* e.g. {1, 2}; version 0 is the initial pair
          MaxSteps,      \* writer steps
          ReAddOnRemove, \* TRUE as in handleEvent; FALSE = seeded mutant (non-vacuity)
          Serialized,    \* writer steps only at quiescent points
          OnlyRotations  \* TRUE: the writer does nothing but rename valid versions over the files (rotations proper; deeper bound)
Files == {"crt", "key"}
Content == Versions \cup {0, 98, 99}   \* 98 = empty/truncated, 99 = garbage or mismatching

VARIABLES ino,        \* path -> inode currently linked at that path
          content,    \* inode -> content (function on 1..nextIno-1)
          nextIno,
          watch,      \* path -> watched inode, 0 = none (kernel drops the watch on IN_DELETE_SELF)
          queue,      \* fsnotify events: <<op, path>>
          steps, writerDone,
          wpc, wev, rc, rk, current,
          together    \* history: <<certVersion, keyVersion>> pairs that coexisted on disk
vars == <<ino, content, nextIno, watch, queue, steps, writerDone, wpc, wev, rc, rk, current, together>>

Ver(c) == IF c \in {98, 99} THEN 99 ELSE c
DiskPair(i, c) == <<Ver(c[i["crt"]]), Ver(c[i["key"]])>>

Init == /\ ino = [f \in Files |-> IF f = "crt" THEN 1 ELSE 2]
        /\ content = (1 :> 0) @@ (2 :> 0)
        /\ nextIno = 3
        /\ watch = [f \in Files |-> IF f = "crt" THEN 1 ELSE 2]
        /\ queue = <<>> /\ steps = 0 /\ writerDone = FALSE
        /\ wpc = "idle" /\ wev = <<"-", "-">> /\ rc = 98 /\ rk = 98 /\ current = 0
        /\ together = {<<0, 0>>}

Emit(f, op) == IF watch[f] = ino[f] THEN Append(queue, <<op, f>>) ELSE queue

\* ---- writer (environment) ----
Calm == ~Serialized \/ (queue = <<>> /\ wpc = "idle")
InPlace(f, c) ==  \* truncate / partial / full write on the inode at the path
  /\ ~OnlyRotations
  /\ ~writerDone /\ steps < MaxSteps /\ Calm
  /\ content' = [content EXCEPT ![ino[f]] = c]
  /\ queue' = Emit(f, "WRITE")
  /\ together' = together \cup {DiskPair(ino, content')}
  /\ steps' = steps + 1
  /\ UNCHANGED <<ino, nextIno, watch, writerDone, wpc, wev, rc, rk, current>>

RenameOver(f, c) ==  \* new inode prepared elsewhere, renamed over the path; old inode freed
  /\ (OnlyRotations => c \in Versions)
  /\ ~writerDone /\ steps < MaxSteps /\ Calm
  /\ content' = content @@ (nextIno :> c)
  /\ ino' = [ino EXCEPT ![f] = nextIno]
  /\ nextIno' = nextIno + 1
  /\ queue' = (IF watch[f] = ino[f] THEN Append(queue, <<"REMOVE", f>>) ELSE queue)   \* CHMOD is filtered out by handleEvent
  /\ watch' = [watch EXCEPT ![f] = IF watch[f] = ino[f] THEN 0 ELSE @]
  /\ together' = together \cup {DiskPair(ino', content')}
  /\ steps' = steps + 1
  /\ UNCHANGED <<writerDone, wpc, wev, rc, rk, current>>

WriterStops == ~writerDone /\ writerDone' = TRUE
               /\ UNCHANGED <<ino, content, nextIno, watch, queue, steps, wpc, wev, rc, rk, current, together>>

\* ---- certwatcher (system) ----
Dequeue == /\ wpc = "idle" /\ queue # <<>>
           /\ wev' = Head(queue) /\ queue' = Tail(queue)
           /\ wpc' = (IF Head(queue)[1] = "REMOVE" THEN "readd" ELSE "readCert")
           /\ UNCHANGED <<ino, content, nextIno, watch, steps, writerDone, rc, rk, current, together>>
ReAdd == /\ wpc = "readd"
         /\ watch' = (IF ReAddOnRemove THEN [watch EXCEPT ![wev[2]] = ino[wev[2]]] ELSE watch)
         /\ wpc' = "readCert"
         /\ UNCHANGED <<ino, content, nextIno, queue, steps, writerDone, wev, rc, rk, current, together>>
ReadCert == /\ wpc = "readCert" /\ rc' = content[ino["crt"]] /\ wpc' = "readKey"
            /\ UNCHANGED <<ino, content, nextIno, watch, queue, steps, writerDone, wev, rk, current, together>>
ReadKey == /\ wpc = "readKey" /\ rk' = content[ino["key"]] /\ wpc' = "swap"
           /\ UNCHANGED <<ino, content, nextIno, watch, queue, steps, writerDone, wev, rc, current, together>>
Swap == /\ wpc = "swap"
        /\ current' = (IF Ver(rc) # 99 /\ Ver(rc) = Ver(rk) THEN Ver(rc) ELSE current)   \* LoadX509KeyPair validates, else keep last good
        /\ wpc' = "idle"
        /\ UNCHANGED <<ino, content, nextIno, watch, queue, steps, writerDone, wev, rc, rk, together>>

Next == WriterStops \/ Dequeue \/ ReAdd \/ ReadCert \/ ReadKey \/ Swap
        \/ \E f \in Files : \E c \in Content : InPlace(f, c) \/ RenameOver(f, c)
Spec == Init /\ [][Next]_vars

\* ---- properties ----
Quiescent == writerDone /\ queue = <<>> /\ wpc = "idle"
Converges == Quiescent => LET p == DiskPair(ino, content) IN (p[1] # 99 /\ p[1] = p[2]) => current = p[1]
ServedExistedStrict == <<current, current>> \in together       \* strict reading of "existed together on disk"
ServedIsValidVersion == current \in Versions \cup {0}
\* the pair that is served only ever changes to a pair that was read as a valid matching pair (keeps the last good one)
KeepsLastGood == [][current' # current => (Ver(rc) # 99 /\ Ver(rc) = Ver(rk) /\ current' = Ver(rc))]_vars
=============================================================================
