-------------------------------- MODULE CertReload --------------------------------
(***************************************************************************)
(* C14, plain-file layout.  pkg/certwatcher watches the two *files*         *)
(* (fsnotify.Add on tls.crt and tls.key = inotify watches on their inodes). *)
(* Writer (environment): in-place rewrite (truncate / partial / garbage /    *)
(* full content) and rename of a new file over the path.  Kernel: which     *)
(* fsnotify events each step produces for a watched inode (measured on this *)
(* kernel: WRITE per write, REMOVE when the inode loses its last link -     *)
(* the watch is dropped then).  Watcher: Dequeue ; ReAdd (on REMOVE) ;       *)
(* ReadCert ; ReadKey ; Swap - separate steps, so writer steps interleave   *)
(* between the two file reads of tls.LoadX509KeyPair.                       *)
(* Serialized = TRUE lets the writer move only when the watcher is idle     *)
(* with an empty queue: the deterministic histories that are replayed on a  *)
(* real directory.                                                          *)
(***************************************************************************)
EXTENDS Naturals, Sequences, FiniteSets, TLC
CONSTANTS Versions,      \* e.g. {1, 2}; version 0 is the initial pair
          MaxSteps,      \* writer steps
          ReAddOnRemove, \* TRUE as in handleEvent; FALSE = seeded mutant (non-vacuity)
          Serialized,    \* writer steps only at quiescent points
          OnlyRotations, \* TRUE: the writer does nothing but rename valid versions over the files (rotations proper; deeper bound)
          WithRemoval,   \* TRUE: the writer may also unlink a file and create it again ("while the files are missing")
          CachePerFile   \* FALSE as in ReadCertificate (both files are read on every event); TRUE = a design that re-reads only the file the event
                         \* names and pairs it with what it remembers of the other (second non-vacuity mutant: must violate Converges)
Files == {"crt", "key"}
Content == Versions \cup {0, 98, 99}   \* 98 = empty/truncated, 99 = garbage or mismatching

VARIABLES ino,        \* path -> inode currently linked at that path
          content,    \* inode -> content (function on 1..nextIno-1)
          nextIno,
          watch,      \* path -> watched inode, 0 = none (kernel drops the watch on IN_DELETE_SELF)
          queue,      \* fsnotify events: <<op, path>>
          steps, writerDone,
          wpc, wev, rc, rk, current,
          together,   \* history: <<certVersion, keyVersion>> pairs that coexisted on disk
          notified    \* the last writer step produced an event (it touched a watched inode)
vars == <<ino, content, nextIno, watch, queue, steps, writerDone, wpc, wev, rc, rk, current, together, notified>>

Ver(c) == IF c \in {98, 99} THEN 99 ELSE c
\* what a read of the path yields: inode 0 = nothing linked at the path (the read fails like an empty file does)
At(c, i) == IF i = 0 THEN 98 ELSE c[i]
DiskPair(i, c) == <<Ver(At(c, i["crt"])), Ver(At(c, i["key"]))>>
Watched(f) == watch[f] # 0 /\ watch[f] = ino[f]

Init == /\ ino = [f \in Files |-> IF f = "crt" THEN 1 ELSE 2]
        /\ content = (1 :> 0) @@ (2 :> 0)
        /\ nextIno = 3
        /\ watch = [f \in Files |-> IF f = "crt" THEN 1 ELSE 2]
        /\ queue = <<>> /\ steps = 0 /\ writerDone = FALSE
        /\ wpc = "idle" /\ wev = <<"-", "-">> /\ rc = (IF CachePerFile THEN 0 ELSE 98) /\ rk = (IF CachePerFile THEN 0 ELSE 98) /\ current = 0
        /\ together = {<<0, 0>>} /\ notified = TRUE

Emit(f, op) == IF Watched(f) THEN Append(queue, <<op, f>>) ELSE queue

\* ---- writer (environment) ----
Calm == ~Serialized \/ (queue = <<>> /\ wpc = "idle")
InPlace(f, c) ==  \* truncate / partial / full write on the inode at the path
  /\ ~OnlyRotations /\ ino[f] # 0
  /\ ~writerDone /\ steps < MaxSteps /\ Calm
  /\ content' = [content EXCEPT ![ino[f]] = c]
  /\ queue' = Emit(f, "WRITE") /\ notified' = Watched(f)
  /\ together' = together \cup {DiskPair(ino, content')}
  /\ steps' = steps + 1
  /\ UNCHANGED <<ino, nextIno, watch, writerDone, wpc, wev, rc, rk, current>>

RenameOver(f, c) ==  \* new inode prepared elsewhere, renamed over the path; old inode freed
  /\ (OnlyRotations => c \in Versions)
  /\ ~writerDone /\ steps < MaxSteps /\ Calm
  /\ content' = content @@ (nextIno :> c)
  /\ ino' = [ino EXCEPT ![f] = nextIno]
  /\ nextIno' = nextIno + 1
  /\ queue' = Emit(f, "REMOVE") /\ notified' = Watched(f)   \* CHMOD is filtered out by handleEvent
  /\ watch' = [watch EXCEPT ![f] = IF Watched(f) THEN 0 ELSE @]
  /\ together' = together \cup {DiskPair(ino', content')}
  /\ steps' = steps + 1
  /\ UNCHANGED <<writerDone, wpc, wev, rc, rk, current>>

Remove(f) ==  \* unlink: the inode loses its last link (REMOVE if it was watched, and the kernel drops the watch); nothing is at the path afterwards
  /\ WithRemoval /\ ino[f] # 0
  /\ ~writerDone /\ steps < MaxSteps /\ Calm
  /\ ino' = [ino EXCEPT ![f] = 0]
  /\ queue' = Emit(f, "REMOVE") /\ notified' = Watched(f)
  /\ watch' = [watch EXCEPT ![f] = IF Watched(f) THEN 0 ELSE @]
  /\ together' = together \cup {DiskPair(ino', content)}
  /\ steps' = steps + 1
  /\ UNCHANGED <<content, nextIno, writerDone, wpc, wev, rc, rk, current>>

Create(f, c) ==  \* a new file at a vacant path: nobody watches a path, only inodes - no event
  /\ WithRemoval /\ ino[f] = 0
  /\ ~writerDone /\ steps < MaxSteps /\ Calm
  /\ content' = content @@ (nextIno :> c)
  /\ ino' = [ino EXCEPT ![f] = nextIno]
  /\ nextIno' = nextIno + 1
  /\ notified' = FALSE
  /\ together' = together \cup {DiskPair(ino', content')}
  /\ steps' = steps + 1
  /\ UNCHANGED <<watch, queue, writerDone, wpc, wev, rc, rk, current>>

WriterStops == ~writerDone /\ writerDone' = TRUE
               /\ UNCHANGED <<ino, content, nextIno, watch, queue, steps, wpc, wev, rc, rk, current, together, notified>>

\* ---- certwatcher (system) ----
Dequeue == /\ wpc = "idle" /\ queue # <<>>
           /\ wev' = Head(queue) /\ queue' = Tail(queue)
           /\ wpc' = (IF Head(queue)[1] = "REMOVE" THEN "readd" ELSE "readCert")
           /\ UNCHANGED <<ino, content, nextIno, watch, steps, writerDone, rc, rk, current, together, notified>>
ReAdd == /\ wpc = "readd"
         /\ watch' = (IF ReAddOnRemove /\ ino[wev[2]] # 0 THEN [watch EXCEPT ![wev[2]] = ino[wev[2]]] ELSE watch)   \* Add fails while nothing is at the path
         /\ wpc' = "readCert"
         /\ UNCHANGED <<ino, content, nextIno, queue, steps, writerDone, wev, rc, rk, current, together, notified>>
ReadCert == /\ wpc = "readCert" /\ rc' = (IF CachePerFile /\ wev[2] # "crt" THEN rc ELSE At(content, ino["crt"])) /\ wpc' = "readKey"
            /\ UNCHANGED <<ino, content, nextIno, watch, queue, steps, writerDone, wev, rk, current, together, notified>>
ReadKey == /\ wpc = "readKey" /\ rk' = (IF CachePerFile /\ wev[2] # "key" THEN rk ELSE At(content, ino["key"])) /\ wpc' = "swap"
           /\ UNCHANGED <<ino, content, nextIno, watch, queue, steps, writerDone, wev, rc, current, together, notified>>
Swap == /\ wpc = "swap"
        /\ current' = (IF Ver(rc) # 99 /\ Ver(rc) = Ver(rk) THEN Ver(rc) ELSE current)   \* LoadX509KeyPair validates, else keep last good
        /\ wpc' = "idle"
        /\ UNCHANGED <<ino, content, nextIno, watch, queue, steps, writerDone, wev, rc, rk, together, notified>>

Next == WriterStops \/ Dequeue \/ ReAdd \/ ReadCert \/ ReadKey \/ Swap
        \/ \E f \in Files : \/ \E c \in Content : InPlace(f, c) \/ RenameOver(f, c) \/ Create(f, c)
                             \/ Remove(f)
Spec == Init /\ [][Next]_vars

\* ---- properties ----
Quiescent == writerDone /\ queue = <<>> /\ wpc = "idle"
\* With removals in play a file created at a vacant path is watched by nobody: the claim is made for the histories whose last step the watcher
\* was told about (it then reads both files, whatever happened to the other one meanwhile).  Without removals every history is covered.
Converges == (Quiescent /\ (notified \/ ~WithRemoval)) => LET p == DiskPair(ino, content) IN (p[1] # 99 /\ p[1] = p[2]) => current = p[1]
ServedExistedStrict == <<current, current>> \in together       \* strict reading of "existed together on disk"
ServedIsValidVersion == current \in Versions \cup {0}
\* the pair that is served only ever changes to a pair that was read as a valid matching pair (keeps the last good one)
KeepsLastGood == [][current' # current => (Ver(rc) # 99 /\ Ver(rc) = Ver(rk) /\ current' = Ver(rc))]_vars
=============================================================================
