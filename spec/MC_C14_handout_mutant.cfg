SPECIFICATION Spec
CONSTANTS Versions = {1, 2}
  InPlace = TRUE
  Handshakes = {"a", "b"}
INVARIANTS PairStaysWhole
CHECK_DEADLOCK FALSE
