SPECIFICATION Spec
CONSTANTS
  MaxBody = 6
  MaxTrail = 5
INVARIANTS GetVar Transparent Exact BufIsPrefix NeverOverlong
PROPERTIES Stable
CHECK_DEADLOCK FALSE
