SPECIFICATION Spec
CONSTANTS
  N = 2
  BigN = {99, 100, 101, 256, 300}
INVARIANTS TypeOK CountsCapped NoGreaseHashed SortedB SortedC
PROPERTIES Invariance
CHECK_DEADLOCK FALSE
