-------------------------------- MODULE JA4Ops --------------------------------
(* JA4 part a and the pre-hash strings of parts b and c of an abstract hello                           *)
(* [legacy, ciphers, exts, sv, alpn, sigalgs], straight from the statement of C02 (see JA4.tla for the *)
(* named deviations).  No variables: also used for batch evaluation of hellos captured from real runs. *)
EXTENDS FpUtil

VersionString(v) == CASE v = 769 -> "10" [] v = 770 -> "11" [] v = 771 -> "12" [] v = 772 -> "13" [] OTHER -> "00"

RECURSIVE MaxOf(_)
MaxOf(s) == IF s = <<>> THEN 0 ELSE LET m == MaxOf(Tail(s)) IN IF s[1] > m THEN s[1] ELSE m

\* highest non-GREASE supported_versions entry if the extension is present, else the legacy version
Version(x) == IF Contains(x.exts, 43) THEN MaxOf(NoGrease(x.sv)) ELSE x.legacy

AlpnChar(t) == IF t = "HI" THEN "?" ELSE t
Alpn2(x) ==
  IF ~Contains(x.exts, 16) \/ x.alpn = <<>> THEN "00"
  ELSE LET p == x.alpn[1] IN
       IF p[1] = "HI" THEN "99"                                     \* AlpnHighByte
       ELSE IF Len(p) = 1 THEN p[1]                                  \* AlpnOneChar
       ELSE p[1] \o AlpnChar(p[Len(p)])

JA4a(x) == "t" \o VersionString(Version(x))
               \o (IF Contains(x.exts, 0) THEN "d" ELSE "i")
               \o Pad2(Min(Len(NoGrease(x.ciphers)), 99))
               \o Pad2(Min(Len(NoGrease(x.exts)), 99))
               \o Alpn2(x)

JA4bPre(x) == JoinStr(Hex4s(SortAsc(NoGrease(x.ciphers))), ",")

ExtsForHash(x) == SortAsc(SelectSeq(NoGrease(x.exts), LAMBDA t : t # 0 /\ t # 16))
JA4cPre(x) == LET e == JoinStr(Hex4s(ExtsForHash(x)), ",")
                  s == NoGrease(x.sigalgs)
              IN  IF s = <<>> THEN e ELSE e \o "_" \o JoinStr(Hex4s(s), ",")

FP(x) == <<JA4a(x), JA4bPre(x), JA4cPre(x)>>

=============================================================================
