SPECIFICATION Spec
CONSTANTS Versions = {1, 2}
  MaxSteps = 4
  ReAddOnRemove = TRUE
  CachePerFile = FALSE
  WithRemoval = FALSE
  OnlyRotations = FALSE
  Serialized = FALSE
INVARIANTS Converges ServedIsValidVersion
PROPERTIES KeepsLastGood
CHECK_DEADLOCK FALSE
