SPECIFICATION Spec
CONSTANTS Versions = {1, 2}
  MaxSteps = 4
  ReAddOnRemove = TRUE
  OnlyRotations = FALSE
  Serialized = FALSE
INVARIANTS Converges ServedIsValidVersion
PROPERTIES KeepsLastGood
CHECK_DEADLOCK FALSE
