SPECIFICATION Spec
CONSTANTS
  Kind = "prio"
  Ids = {1, 3, 5}
  MaxFrames = 1
  Sizes = {5}
  WinVals = {}
  CWinVals = {}
  MFVals = {}
  MaxClosed = 1
  MaxIdle = 1
  Weights = {15, 200}
INVARIANTS ExactlyOnce InOrder WithinWindows PieceBounded IsTree OpenHaveNodes RetentionBounded
PROPERTIES ControlFirst
CHECK_DEADLOCK FALSE
