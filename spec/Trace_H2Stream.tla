--------------------------- MODULE Trace_H2Stream ---------------------------
(***************************************************************************)
(* Trace validation for C13: every connection recorded at the serve-loop   *)
(* hook points of the real serverConn (overlay/http2/h2rec_test.go: the    *)
(* repository's own functional tests re-run with recording on; drivers'    *)
(* connections) must be a behaviour of H2Stream.tla.  Each line binds the  *)
(* logged frame, stream, flags, codes and handler counters to the action's *)
(* parameters; the histories of all connections are concatenated, a        *)
(* "reset" line starts the next one.                                       *)
(***************************************************************************)
EXTENDS H2Stream, Json, TLCExt

TraceLog == ndJsonDeserialize("trace_h2stream.ndjson")
VARIABLE l
tvars == <<vars, l>>
Ev == TraceLog[l]

Reset == /\ st' = <<>> /\ maxClient' = 0 /\ maxRead' = 0 /\ reqHdr' = {} /\ started' = <<>> /\ pushed' = {}
         /\ respHdr' = {} /\ ended' = {} /\ running' = 0
         /\ ga' = [sent |-> FALSE, err |-> FALSE, last |-> 0]

TraceWrite ==
  CASE Ev.t = "HEADERS"       -> WriteHeaders(Ev.sid, Ev.es)
    [] Ev.t = "DATA"          -> WriteData(Ev.sid, Ev.es)
    [] Ev.t = "CONTINUE100"   -> Write100(Ev.sid)
    [] Ev.t = "RST_STREAM"    -> WriteRst(Ev.sid, Ev.code)
    [] Ev.t = "GOAWAY"        -> WriteGoAway(Ev.last, Ev.code)
    [] Ev.t = "WINDOW_UPDATE" -> WriteWindowUpdate(Ev.sid)
    [] Ev.t = "PUSH_PROMISE"  -> WritePushPromise(Ev.sid)
    [] OTHER                  -> WriteOther

TraceInit == Init /\ l = 1
TraceNext ==
  /\ l <= Len(TraceLog) /\ l' = l + 1
  /\ CASE Ev.e = "read"  -> Read(Ev.t, Ev.sid, Ev.es)
       [] Ev.e = "write" -> TraceWrite
       [] Ev.e = "start" -> Start(Ev.sid, Ev.cur, Ev.adv)
       [] Ev.e = "push"  -> Push(Ev.sid, Ev.cur)
       [] Ev.e = "done"  -> Done(Ev.cur)
       [] Ev.e = "reset" -> Reset
       [] OTHER -> FALSE
TraceSpec == TraceInit /\ [][TraceNext]_tvars

HW == TLCSet(1, IF TLCGet(1) < l THEN l ELSE TLCGet(1))
TraceAccepted == /\ PrintT(<<"TRACE_MATCHED", TLCGet(1) - 1, Len(TraceLog)>>)
                 /\ TLCGet(1) - 1 = Len(TraceLog)
ASSUME TLCSet(1, 0)
=============================================================================
