SPECIFICATION Spec
CONSTANTS MaxBlocks = 4
INVARIANTS OwnJudgement TableGrowsWithEveryBlock
CHECK_DEADLOCK FALSE
