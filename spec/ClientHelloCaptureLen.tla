-------------------------- MODULE ClientHelloCaptureLen --------------------------
(***************************************************************************)
(* C04, landmark model for *real* record sizes.  ClientHelloCapture.tla    *)
(* proves (BufIsPrefix) that buf is always a prefix of the stream, so at   *)
(* real sizes only lengths are tracked; the replay supplies real bytes and *)
(* compares contents.  Reads jump between landmark offsets (inside the     *)
(* header, header end, +1, middle, end-1, end, end+1 = coalesced with the  *)
(* next record, end of stream); every subset of landmarks is a schedule.   *)
(***************************************************************************)
EXTENDS Naturals, FiniteSets, TLC

CONSTANTS Bodies,   \* record body lengths
          Trails    \* lengths of what follows the first record

Kinds == {"ok", "badtype", "badver"}

VARIABLES kind, L, T, len, pos, bufLen, expectedLen, eof, get
vars == <<kind, L, T, len, pos, bufLen, expectedLen, eof, get>>

Total(l, t) == 5 + l + t
Landmarks(l, t) == { q \in {1, 2, 3, 4, 5, 6, 5 + l \div 2, 4 + l, 5 + l, 6 + l, 5 + l + t \div 2, 5 + l + t} :
                       q >= 1 /\ q <= Total(l, t) }

Init == /\ kind \in Kinds /\ L \in Bodies /\ T \in Trails
        /\ len \in Landmarks(L, T) \cup {0}
        /\ pos = 0 /\ bufLen = 0 /\ expectedLen = 0 /\ eof = FALSE /\ get = 0

HasComplete(bl, e) == IF bl = 0 \/ e = 0 THEN <<FALSE, bl>>
                      ELSE IF bl < e THEN <<FALSE, bl>>
                      ELSE <<TRUE, e>>

TryParse(bl, e) ==
  LET hc == HasComplete(bl, e) IN
  IF hc[1] THEN <<TRUE, hc[2], e>>
  ELSE IF bl < 5 THEN <<FALSE, bl, e>>
  ELSE IF kind # "ok" THEN <<FALSE, bl, e>>
  ELSE LET e2 == (5 + L) % 65536
           hc2 == HasComplete(bl, e2) IN
       <<hc2[1], hc2[2], e2>>

\* length of the record GetClientHello returns, 0 = error
Get == LET r == TryParse(bufLen, expectedLen) IN IF r[1] THEN r[2] ELSE 0

ReadTo(q) == /\ ~eof /\ q > pos /\ q <= len
             /\ pos' = q
             /\ LET hc == HasComplete(bufLen, expectedLen) IN
                IF hc[1] THEN bufLen' = hc[2] /\ UNCHANGED expectedLen
                ELSE LET r == TryParse(bufLen + (q - pos), expectedLen) IN
                     bufLen' = r[2] /\ expectedLen' = r[3]
             /\ UNCHANGED <<kind, L, T, len, eof>>
             /\ get' = Get'

ReadEOF == /\ ~eof /\ pos = len /\ eof' = TRUE
           /\ UNCHANGED <<kind, L, T, len, pos, bufLen, expectedLen, get>>

\* the k-th landmark candidate; quantifying over the constant 1..12 lets TLC label edges ReadAt(k)
LM(k) == <<1, 2, 3, 4, 5, 6, 5 + L \div 2, 4 + L, 5 + L, 6 + L, 5 + L + T \div 2, 5 + L + T>>[k]
ReadAt(k) == LM(k) \in Landmarks(L, T) /\ ReadTo(LM(k))
Next == (\E k \in 1..12 : ReadAt(k)) \/ ReadEOF
Spec == Init /\ [][Next]_vars

Ideal == IF kind = "ok" /\ pos >= 5 + L THEN 5 + L ELSE 0

GetVar == get = Get
Exact == Get = Ideal
Bounded == bufLen <= pos
=============================================================================
