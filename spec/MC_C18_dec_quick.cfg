SPECIFICATION Spec
CONSTANTS
  Fields <- MCFields
  Limits <- MCLimits
  FeedAlphabet <- MCFeed
  MaxWrites = 3
  DecoderOnly = TRUE
INVARIANTS RoundTrip TablesAgree Bounded
CHECK_DEADLOCK FALSE
