SPECIFICATION Spec
CONSTANTS MaxLines = 2
INVARIANTS NoSpoof Truth ProbeXor HeadersKept HostRule
CHECK_DEADLOCK FALSE
