SPECIFICATION FairSpec
CONSTANTS AdvMax = 2
  Mult = 4
  MaxStreams = 8
INVARIANTS TypeOK HandlersWithinLimit StreamsWithinLimit StartsOrdered BacklogBounded LiveBacklogMeansFull
PROPERTIES StartOnlyLive CalmOnlyWhenFlooded NoStarvation
CHECK_DEADLOCK FALSE
