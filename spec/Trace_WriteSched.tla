---------------------------- MODULE Trace_WriteSched ----------------------------
(***************************************************************************)
(* Trace validation for C20: operation histories recorded from the real    *)
(* schedulers (in-package driver overlay/http2/c20_test.go) must be         *)
(* behaviours of WriteSched.tla.  Every event is one interface call with    *)
(* its arguments and, for Pop, the observed result; all invariants of       *)
(* WriteSched are evaluated in every state of the trace.  Many histories    *)
(* are concatenated; a "reset" event returns to the initial state.          *)
(***************************************************************************)
EXTENDS WriteSched, Json, TLCExt

CONSTANT Throttle      \* the recorded scheduler was built with ThrottleOutOfOrderWrites: a DATA piece may be smaller than the windows and the
                       \* frame size allow (never larger) - the observed length is taken as the caller's budget

TraceLog == ndJsonDeserialize("trace_c20.ndjson")

VARIABLE l
tvars == <<vars, l>>

Ev == TraceLog[l]

Reset == /\ open' = {} /\ closedEver' = {}
         /\ q' = [s \in Ids |-> <<>>] /\ ctl' = <<>>
         /\ win' = [s \in Ids |-> 3] /\ cwin' = 10 /\ maxFrame' = 2
         /\ ring' = <<>>
         /\ nodes' = {} /\ parent' = [s \in Ids |-> 0] /\ weight' = [s \in Ids |-> 15] /\ nstate' = [s \in Ids |-> "none"]
         /\ idleL' = <<>> /\ closedL' = <<>> /\ maxID' = 0
         /\ nframes' = 0 /\ acct' = <<>> /\ out' = NoOut

ObservedOut == [ok |-> Ev.ok, id |-> Ev.id, s |-> Ev.s, k |-> Ev.k, len |-> Ev.len, whole |-> Ev.whole]

TraceInit == Init /\ l = 1

TraceNext ==
  /\ l <= Len(TraceLog)
  /\ l' = l + 1
  /\ CASE Ev.op = "open"     -> Open(Ev.s)
       [] Ev.op = "close"    -> Close(Ev.s)
       [] Ev.op = "adjust"   -> Adjust(Ev.s, Ev.dep, Ev.excl, Ev.w)
       [] Ev.op = "push"     -> Push(Ev.k, Ev.s, Ev.len)
       [] Ev.op = "setwin"   -> SetWin(Ev.s, Ev.v)
       [] Ev.op = "setcwin"  -> SetCWin(Ev.v)
       [] Ev.op = "setmf"    -> SetMaxFrame(Ev.v)
       [] Ev.op = "pop"      -> /\ (PopCtl \/ PopNone \/ \E s \in Ids : PopFromCap(s, IF Throttle /\ Ev.ok /\ Ev.k = "D" /\ Ev.len > 0 THEN Ev.len ELSE NoCap))
                                /\ out' = ObservedOut
       [] Ev.op = "reset"    -> Reset
       [] OTHER              -> FALSE          \* e.g. a recorded panic: no action of the specification explains it

TraceSpec == TraceInit /\ [][TraceNext]_tvars

\* high-water mark of the matched prefix (needs -workers 1)
HW == TLCSet(1, IF TLCGet(1) < l THEN l ELSE TLCGet(1))
TraceAccepted == /\ PrintT(<<"TRACE_MATCHED", TLCGet(1) - 1, Len(TraceLog)>>)
                 /\ TLCGet(1) - 1 = Len(TraceLog)
ASSUME TLCSet(1, 0)
=============================================================================
