------------------------------ MODULE H2FrameWrite ------------------------------
(***************************************************************************)
(* C19, writing side: every Framer.Write* call (pkg/http2/frame.go) with   *)
(* boundary parameters maps to one abstract frame <<type, flags, stream,   *)
(* payload layout>>.  Each state is a vector: the harness calls the real   *)
(* method, compares the bytes with its own serialization of `frame`, reads *)
(* them back with the real Framer and compares every field.                *)
(* Flags: 1 END_STREAM/ACK, 4 END_HEADERS, 8 PADDED, 32 PRIORITY.           *)
(***************************************************************************)
EXTENDS Integers, Sequences, FiniteSets, TLC

SidsW == {1, 3, 2147483647}
DataLens == {0, 1, 100, 16384}
PadLens == {-1, 0, 1, 255}          \* -1: not padded
Prios == { [dep |-> 0, excl |-> FALSE, w |-> 0],          \* all zero: WriteHeaders omits the PRIORITY flag (IsZero)
           [dep |-> 3, excl |-> TRUE, w |-> 255], [dep |-> 2147483647, excl |-> FALSE, w |-> 15],
           \* exactly one field differs from zero: each of them alone makes the parameter non-zero
           [dep |-> 0, excl |-> TRUE, w |-> 0], [dep |-> 0, excl |-> FALSE, w |-> 1], [dep |-> 1, excl |-> FALSE, w |-> 0] }

Ops ==
  { [m |-> "WriteData", sid |-> s, es |-> e, n |-> n, pad |-> p] : s \in SidsW, e \in BOOLEAN, n \in DataLens, p \in PadLens }
  \cup { [m |-> "WriteHeaders", sid |-> s, es |-> e, eh |-> h, n |-> n, pad |-> p, prio |-> pr] :
           s \in {1, 2147483647}, e \in BOOLEAN, h \in BOOLEAN, n \in {0, 7}, p \in {-1, 0, 255}, pr \in Prios }
  \cup { [m |-> "WritePriority", sid |-> s, prio |-> pr] : s \in SidsW, pr \in Prios }
  \cup { [m |-> "WriteRSTStream", sid |-> s, code |-> c] : s \in SidsW, c \in {0, 8, 2147483647} }
  \cup { [m |-> "WriteSettings", ids |-> ids] : ids \in { <<>>, <<1>>, <<3, 4>>, <<2, 5, 6, 153>> } }
  \cup { [m |-> "WriteSettingsAck"] }
  \cup { [m |-> "WritePing", ack |-> a] : a \in BOOLEAN }
  \cup { [m |-> "WriteGoAway", last |-> l, code |-> c, n |-> n] : l \in {0, 1, 2147483647}, c \in {0, 11}, n \in {0, 5} }
  \cup { [m |-> "WriteWindowUpdate", sid |-> s, incr |-> i] : s \in {0, 1, 2147483647}, i \in {1, 65535, 2147483647} }
  \cup { [m |-> "WriteContinuation", sid |-> s, eh |-> h, n |-> n] : s \in SidsW, h \in BOOLEAN, n \in {0, 9} }
  \cup { [m |-> "WritePushPromise", sid |-> s, promise |-> pr, eh |-> h, n |-> n, pad |-> p] :
           s \in {1, 3}, pr \in {2, 2147483646}, h \in BOOLEAN, n \in {0, 7}, p \in {-1, 0, 255} }

B(c, v) == IF c THEN v ELSE 0
PadExtra(p) == IF p < 0 THEN 0 ELSE p + 1
IsZeroPrio(pr) == pr.dep = 0 /\ ~pr.excl /\ pr.w = 0

\* <<type, flags, stream id, payload length>> of the frame the call must produce
FrameOf(o) ==
  CASE o.m = "WriteData" -> <<0, B(o.es, 1) + B(o.pad >= 0, 8), o.sid, o.n + PadExtra(o.pad)>>
    [] o.m = "WriteHeaders" -> <<1, B(o.es, 1) + B(o.eh, 4) + B(o.pad >= 0, 8) + B(~IsZeroPrio(o.prio), 32), o.sid,
                                  o.n + PadExtra(o.pad) + B(~IsZeroPrio(o.prio), 5)>>
    [] o.m = "WritePriority" -> <<2, 0, o.sid, 5>>
    [] o.m = "WriteRSTStream" -> <<3, 0, o.sid, 4>>
    [] o.m = "WriteSettings" -> <<4, 0, 0, 6 * Len(o.ids)>>
    [] o.m = "WriteSettingsAck" -> <<4, 1, 0, 0>>
    [] o.m = "WritePing" -> <<6, B(o.ack, 1), 0, 8>>
    [] o.m = "WriteGoAway" -> <<7, 0, 0, 8 + o.n>>
    [] o.m = "WriteWindowUpdate" -> <<8, 0, o.sid, 4>>
    [] o.m = "WriteContinuation" -> <<9, B(o.eh, 4), o.sid, o.n>>
    [] o.m = "WritePushPromise" -> <<5, B(o.eh, 4) + B(o.pad >= 0, 8), o.sid, 4 + o.n + PadExtra(o.pad)>>

VARIABLES op, frame
vars == <<op, frame>>
Init == op \in Ops /\ frame = FrameOf(op)
Next == UNCHANGED vars
Spec == Init /\ [][Next]_vars
\* every frame the writer produces fits a 24-bit length and keeps the reserved bit clear
Shape == frame[4] < 16777216 /\ frame[3] <= 2147483647 /\ frame[2] < 256
=============================================================================
