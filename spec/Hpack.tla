---------------------------------- MODULE Hpack ----------------------------------
(***************************************************************************)
(* C18.  pkg/http2/hpack at representation level (RFC 7541 sections 2.3,   *)
(* 4, 6): Encoder.WriteField / SetMaxDynamicTableSize (encode.go) and      *)
(* Decoder.Write / parseHeaderFieldRepr / Close (hpack.go) with their       *)
(* dynamic tables.                                                          *)
(*                                                                         *)
(* A representation is                                                      *)
(*   [k |-> "size", max]                                                    *)
(*   [k |-> "indexed", i]                                                   *)
(*   [k |-> "incr" | "noidx" | "never", i (name index, 0 = literal name), n, v, sz]  *)
(* Byte-level matters (prefix integers, string literals, Huffman) are data  *)
(* and live in the harness (independent serializer / parser); sz is the RFC *)
(* 4.1 entry size len(name)+len(value)+32 computed by the harness.          *)
(*                                                                         *)
(* The decoder is modelled from the *code*: firstField, the leniency that a *)
(* size update after the first field is accepted while the table is empty,  *)
(* index arithmetic newest-first, eviction oldest-first.  The only place    *)
(* where the model states what the statement demands rather than what the   *)
(* pinned code did is SizeUpdateKeepsFirst (see D13 in DESIGN.md): a size   *)
(* update does not end "the beginning of the block".                        *)
(***************************************************************************)
EXTENDS Integers, Sequences, FiniteSets, TLC

CONSTANTS Fields,     \* universe of header fields [n, v, s, sz] written by the encoder
          Limits,     \* values for SetMaxDynamicTableSize
          MaxWrites,  \* bound on WriteField calls (0 = unbounded, for trace validation)
          DecoderOnly \* TRUE: explore the decoder alone on arbitrary representations
CONSTANTS FeedAlphabet  \* representations fed to the decoder when DecoderOnly

\* RFC 7541 Appendix A
Static == << <<":authority", "">>, <<":method", "GET">>, <<":method", "POST">>, <<":path", "/">>, <<":path", "/index.html">>,
  <<":scheme", "http">>, <<":scheme", "https">>, <<":status", "200">>, <<":status", "204">>, <<":status", "206">>,
  <<":status", "304">>, <<":status", "400">>, <<":status", "404">>, <<":status", "500">>, <<"accept-charset", "">>,
  <<"accept-encoding", "gzip, deflate">>, <<"accept-language", "">>, <<"accept-ranges", "">>, <<"accept", "">>,
  <<"access-control-allow-origin", "">>, <<"age", "">>, <<"allow", "">>, <<"authorization", "">>, <<"cache-control", "">>,
  <<"content-disposition", "">>, <<"content-encoding", "">>, <<"content-language", "">>, <<"content-length", "">>,
  <<"content-location", "">>, <<"content-range", "">>, <<"content-type", "">>, <<"cookie", "">>, <<"date", "">>, <<"etag", "">>,
  <<"expect", "">>, <<"expires", "">>, <<"from", "">>, <<"host", "">>, <<"if-match", "">>, <<"if-modified-since", "">>,
  <<"if-none-match", "">>, <<"if-range", "">>, <<"if-unmodified-since", "">>, <<"last-modified", "">>, <<"link", "">>,
  <<"location", "">>, <<"max-forwards", "">>, <<"proxy-authenticate", "">>, <<"proxy-authorization", "">>, <<"range", "">>,
  <<"referer", "">>, <<"refresh", "">>, <<"retry-after", "">>, <<"server", "">>, <<"set-cookie", "">>,
  <<"strict-transport-security", "">>, <<"transfer-encoding", "">>, <<"user-agent", "">>, <<"vary", "">>, <<"via", "">>,
  <<"www-authenticate", "">> >>
NS == Len(Static)      \* 61
InitialSize == 4096
UINT32MAX == 2000000000      \* stands for ^uint32(0): "no smaller size seen" (TLC integers are 32-bit)

VARIABLES etab, emax, eminSize, eupdate,     \* encoder: dynamic table (newest first, entries [n,v,sz]), maxSize, minSize, tableSizeUpdate
          dtab, dmax, dallowed, dfirst,      \* decoder: dynamic table, maxSize, allowedMaxSize, firstField
          derr,                              \* decoder returned an error (the connection is dead afterwards)
          wire,                              \* representations the encoder emitted for the last WriteField / fed last
          emitted,                           \* fields the decoder emitted for them
          lastf,                             \* the field handed to the last WriteField
          nwrites
vars == <<etab, emax, eminSize, eupdate, dtab, dmax, dallowed, dfirst, derr, wire, emitted, lastf, nwrites>>

Min2(a, b) == IF a < b THEN a ELSE b

RECURSIVE TabSize(_)
TabSize(t) == IF t = <<>> THEN 0 ELSE t[1].sz + TabSize(Tail(t))
\* evict oldest (= last) entries until size <= max
RECURSIVE Evict(_, _)
Evict(t, max) == IF t # <<>> /\ TabSize(t) > max THEN Evict(SubSeq(t, 1, Len(t) - 1), max) ELSE t
Entry(f) == [n |-> f.n, v |-> f.v, sz |-> f.sz]
Add(t, max, f) == Evict(<<Entry(f)>> \o t, max)

Init == /\ etab = <<>> /\ emax = InitialSize /\ eminSize = UINT32MAX /\ eupdate = FALSE
        /\ dtab = <<>> /\ dmax = InitialSize /\ dallowed = InitialSize /\ dfirst = TRUE /\ derr = "none"
        /\ wire = <<>> /\ emitted = <<>> /\ lastf = <<>> /\ nwrites = 0

\* ------------------------------------------------------------ encoder
FirstIdx(I) == IF I = {} THEN 0 ELSE CHOOSE i \in I : \A j \in I : i <= j
StaticExact(f) == FirstIdx({ i \in 1..NS : Static[i][1] = f.n /\ Static[i][2] = f.v })
StaticName(f)  == FirstIdx({ i \in 1..NS : Static[i][1] = f.n })
DynExact(t, f) == FirstIdx({ i \in 1..Len(t) : t[i].n = f.n /\ t[i].v = f.v })     \* newest match
DynName(t, f)  == FirstIdx({ i \in 1..Len(t) : t[i].n = f.n })

\* Encoder.searchTable: <<index, nameValueMatch>>
Search(f) ==
  LET se == IF f.s THEN 0 ELSE StaticExact(f)
      sn == StaticName(f)
      de == IF f.s THEN 0 ELSE DynExact(etab, f)
      dn == DynName(etab, f)
  IN  IF se # 0 THEN <<se, TRUE>>
      ELSE IF de # 0 THEN <<de + NS, TRUE>>
      ELSE IF sn = 0 /\ dn # 0 THEN <<dn + NS, FALSE>>
      ELSE <<sn, FALSE>>

\* pending size updates are emitted in front of the next field (RFC 7541 4.2: the smallest size first)
SizeUpdates == IF eupdate
               THEN (IF eminSize < emax THEN << [k |-> "size", max |-> eminSize] >> ELSE <<>>) \o << [k |-> "size", max |-> emax] >>
               ELSE <<>>

FieldRep(f) ==
  LET sr == Search(f)
      indexing == ~f.s /\ f.sz <= emax
  IN  IF sr[2] THEN [k |-> "indexed", i |-> sr[1]]
      ELSE [k |-> (IF f.s THEN "never" ELSE IF indexing THEN "incr" ELSE "noidx"), i |-> sr[1],
            n |-> (IF sr[1] = 0 THEN f.n ELSE ""), v |-> f.v, sz |-> f.sz]

\* ------------------------------------------------------------ decoder
At(t, i) == IF i = 0 THEN [ok |-> FALSE]
            ELSE IF i <= NS THEN [ok |-> TRUE, n |-> Static[i][1], v |-> Static[i][2]]
            ELSE IF i - NS <= Len(t) THEN [ok |-> TRUE, n |-> t[i - NS].n, v |-> t[i - NS].v]
            ELSE [ok |-> FALSE]

Res(t, max, out, err, first) == [tab |-> t, max |-> max, out |-> out, err |-> err, first |-> first]

\* Decoder.Write over a sequence of complete representations
RECURSIVE Decode(_, _, _, _, _, _)
Decode(reps, t, max, allowed, out, first) ==
  IF reps = <<>> THEN Res(t, max, out, "none", first)
  ELSE LET r == Head(reps) IN
    CASE r.k = "size" ->
           IF ~first /\ TabSize(t) > 0 THEN Res(t, max, out, "size_update_not_at_start", first)
           ELSE IF r.max > allowed THEN Res(t, max, out, "size_update_too_large", first)
           ELSE Decode(Tail(reps), Evict(t, r.max), r.max, allowed, out, first)      \* SizeUpdateKeepsFirst
      [] r.k = "indexed" ->
           LET e == At(t, r.i) IN
           IF ~e.ok THEN Res(t, max, out, "invalid_index", FALSE)
           ELSE Decode(Tail(reps), t, max, allowed, Append(out, [n |-> e.n, v |-> e.v, s |-> FALSE]), FALSE)
      [] r.k \in {"incr", "noidx", "never"} ->
           LET nm == IF r.i = 0 THEN [ok |-> TRUE, n |-> r.n] ELSE At(t, r.i) IN
           IF ~nm.ok THEN Res(t, max, out, "invalid_index", FALSE)
           ELSE LET f == [n |-> nm.n, v |-> r.v, s |-> (r.k = "never"), sz |-> r.sz] IN
                Decode(Tail(reps), IF r.k = "incr" THEN Add(t, max, f) ELSE t, max, allowed,
                       Append(out, [n |-> f.n, v |-> f.v, s |-> f.s]), FALSE)

\* ------------------------------------------------------------ actions
\* Encoder.WriteField(f); the bytes go to Decoder.Write
WriteField(f) ==
  /\ ~DecoderOnly /\ derr = "none"
  /\ (MaxWrites = 0 \/ nwrites < MaxWrites) /\ nwrites' = nwrites + 1
  /\ LET rep == FieldRep(f)
         w   == SizeUpdates \o <<rep>>
         d   == Decode(w, dtab, dmax, dallowed, <<>>, dfirst)
     IN  /\ etab' = IF rep.k = "incr" THEN Add(etab, emax, f) ELSE etab
         /\ eupdate' = FALSE /\ eminSize' = UINT32MAX
         /\ wire' = w
         /\ dtab' = d.tab /\ dmax' = d.max /\ dfirst' = d.first /\ derr' = d.err
         /\ emitted' = d.out
         /\ lastf' = <<[n |-> f.n, v |-> f.v, s |-> f.s]>>
  /\ UNCHANGED <<emax, dallowed>>

\* Encoder.SetMaxDynamicTableSize(v)   (maxSizeLimit stays at its default 4096)
SetMax(v) == /\ ~DecoderOnly /\ derr = "none"
             /\ dfirst          \* table-size changes take effect between header blocks (a block is written atomically)
             /\ LET vv == Min2(v, InitialSize) IN
                /\ eminSize' = Min2(vv, eminSize)
                /\ eupdate' = TRUE /\ emax' = vv /\ etab' = Evict(etab, vv)
             /\ wire' = <<>> /\ emitted' = <<>> /\ lastf' = <<>>
             /\ UNCHANGED <<dtab, dmax, dallowed, dfirst, derr, nwrites>>

\* end of a header block: Decoder.Close()
EndBlock == /\ derr = "none" /\ ~dfirst
            /\ dfirst' = TRUE /\ wire' = <<>> /\ emitted' = <<>> /\ lastf' = <<>>
            /\ UNCHANGED <<etab, emax, eminSize, eupdate, dtab, dmax, dallowed, derr, nwrites>>

\* the decoder alone, one representation at a time
Feed(r) == /\ DecoderOnly /\ derr = "none"
           /\ (MaxWrites = 0 \/ nwrites < MaxWrites) /\ nwrites' = nwrites + 1
           /\ LET d == Decode(<<r>>, dtab, dmax, dallowed, <<>>, dfirst) IN
              /\ dtab' = d.tab /\ dmax' = d.max /\ dfirst' = d.first /\ derr' = d.err /\ emitted' = d.out
           /\ wire' = <<r>> /\ lastf' = <<>>
           /\ UNCHANGED <<etab, emax, eminSize, eupdate, dallowed>>

Next == \/ \E f \in Fields : WriteField(f)
        \/ \E v \in Limits : SetMax(v)
        \/ EndBlock
        \/ \E r \in FeedAlphabet : Feed(r)
Spec == Init /\ [][Next]_vars

\* ------------------------------------------------------------ properties
\* what the encoder produced decodes to the field that was written, without error
RoundTrip == ~DecoderOnly => /\ derr = "none"
                             /\ (wire # <<>> => emitted = lastf)
\* the two dynamic tables are identical whenever no size update is pending
TablesAgree == (~DecoderOnly /\ ~eupdate) => (etab = dtab /\ emax = dmax)
\* the dynamic table never exceeds the size permitted at that moment
Bounded == TabSize(etab) <= emax /\ TabSize(dtab) <= dmax /\ dmax <= dallowed /\ emax <= InitialSize
=============================================================================
