------------------------------- MODULE ProxyServer -------------------------------
(***************************************************************************)
(* C06 C10 C11 C16 C17.  The connection lifecycle of pkg/proxyserver:      *)
(*   Serve's accept loop, one goroutine per connection (serveConn), the    *)
(*   unbuffered hand-off of HTTP/1.1 connections through                   *)
(*   hack.ChannelListener to the internal net/http server, the watcher     *)
(*   goroutine that turns context cancellation into shutdown, the          *)
(*   requests_total metric, timers and panics in user callbacks.           *)
(*                                                                         *)
(* One action per step that the code performs and the harness can observe  *)
(* (verifhook points, the harness-owned listener, the client scripts):     *)
(*   Accept Start HsOK HsFail HelloOK HelloFail H2Begin H2End H1Send       *)
(*   H1Sent H1SendAborted H1Done Counted RawClose Exit                     *)
(*   Cancel ShutdownBegin H1ShutdownDone LnClose ServeReturn               *)
(*   Panic (in a user callback on the connection goroutine)                *)
(* Client side: what a connection's script does is its kind; ClientGone    *)
(* models the client closing or resetting at any time.                     *)
(***************************************************************************)
EXTENDS Naturals, FiniteSets, Sequences, TLC

CONSTANTS Conns,            \* connection ids
          Kinds,            \* client scripts in play
          HandshakeTimeout, \* TRUE: a handshake timeout is configured
          IdleTimeout,      \* TRUE: an idle timeout is configured
          PanicPoints       \* where a user callback may panic: subset of {"handshake", "h2"}

AllKinds == {"h2", "h1", "noalpn", "plainhttp", "garbage", "stall"}
Negotiated(k) == CASE k = "h2" -> "h2" [] k = "h1" -> "http/1.1" [] OTHER -> ""
Completes(k) == k \in {"h2", "h1", "noalpn"}          \* the script completes the TLS handshake

VARIABLES
  cancelled,      \* the server context is cancelled
  wpc,            \* watcher goroutine: "wait" "begun" "h1done" "done"
  lnOpen,         \* the listening socket is open
  chanOpen,       \* the channel listener accepts hand-offs (its context is not cancelled)
  servePc,        \* accept loop: "loop" | "returned"
  serveRet,       \* what Serve returned
  pc,             \* per connection: see below
  kind,           \* per connection: client script
  gone,           \* the client closed / reset its side
  panicked,       \* a user callback panicked on this connection's goroutine (recovered)
  served,         \* the connection reached the HTTP layer (h2 ServeConn entered / handed to the h1 server)
  counted,        \* increments of requests_total attributed to this connection
  label,          \* labels of the increment
  rawClosed,      \* Close was called on the accepted net.Conn
  acceptedAfterCancel   \* accepted by the loop after the context was cancelled
vars == <<cancelled, wpc, lnOpen, chanOpen, servePc, serveRet, pc, kind, gone, panicked, served, counted, label, rawClosed, acceptedAfterCancel>>

\* pc values: "absent" "queued" (in the kernel backlog) "accepted" "hs" "hello" "h2" "h2done" "send" "wait" "h1done"
\*            "tocount0"/"tocount1" (about to count a failure / a success) "counted" "exited"

Init ==
  /\ cancelled = FALSE /\ wpc = "wait" /\ lnOpen = TRUE /\ chanOpen = TRUE
  /\ servePc = "loop" /\ serveRet = "none"
  /\ pc = [c \in Conns |-> "absent"]
  /\ kind \in [Conns -> Kinds]
  /\ gone = [c \in Conns |-> FALSE]
  /\ panicked = [c \in Conns |-> FALSE]
  /\ served = [c \in Conns |-> FALSE]
  /\ counted = [c \in Conns |-> 0]
  /\ label = [c \in Conns |-> <<"-", "-">>]
  /\ rawClosed = [c \in Conns |-> FALSE]
  /\ acceptedAfterCancel = [c \in Conns |-> FALSE]

Same(S) == UNCHANGED S
ConnVars == <<pc, kind, gone, panicked, served, counted, label, rawClosed, acceptedAfterCancel>>
SrvVars == <<cancelled, wpc, lnOpen, chanOpen, servePc, serveRet>>

\* ---------------------------------------------------------------- environment
Cancel == /\ ~cancelled /\ cancelled' = TRUE
          /\ chanOpen' = FALSE                      \* the channel listener's context derives from the server's
          /\ UNCHANGED <<wpc, lnOpen, servePc, serveRet>> /\ UNCHANGED ConnVars

ClientConnect(c) == /\ pc[c] = "absent" /\ lnOpen
                    /\ pc' = [pc EXCEPT ![c] = "queued"]
                    /\ UNCHANGED SrvVars /\ UNCHANGED <<kind, gone, panicked, served, counted, label, rawClosed, acceptedAfterCancel>>

ClientGone(c) == /\ pc[c] \notin {"absent"} /\ ~gone[c]
                 /\ gone' = [gone EXCEPT ![c] = TRUE]
                 /\ UNCHANGED SrvVars /\ UNCHANGED <<pc, kind, panicked, served, counted, label, rawClosed, acceptedAfterCancel>>

\* ---------------------------------------------------------------- accept loop (Serve)
Accept(c) == /\ servePc = "loop" /\ lnOpen /\ pc[c] = "queued"
             /\ pc' = [pc EXCEPT ![c] = "accepted"]
             /\ acceptedAfterCancel' = [acceptedAfterCancel EXCEPT ![c] = cancelled]
             /\ UNCHANGED SrvVars /\ UNCHANGED <<kind, gone, panicked, served, counted, label, rawClosed>>

\* ln.Accept fails once the listener is closed; Serve returns ErrServerClosed because inShutdown was set first
ServeReturn == /\ servePc = "loop" /\ ~lnOpen
               /\ servePc' = "returned"
               /\ serveRet' = IF wpc \in {"begun", "h1done", "done"} THEN "ErrServerClosed" ELSE "accept error"
               /\ UNCHANGED <<cancelled, wpc, lnOpen, chanOpen>> /\ UNCHANGED ConnVars

\* ---------------------------------------------------------------- connection goroutine (serveConn)
Step(c, from, to) == pc[c] = from /\ pc' = [pc EXCEPT ![c] = to]
Keep(c) == UNCHANGED SrvVars /\ UNCHANGED <<kind, gone, panicked, served, counted, label, rawClosed, acceptedAfterCancel>>

Start(c) == Step(c, "accepted", "hs") /\ Keep(c)

\* the handshake succeeds only for a script that completes it, while the context is live
HsOK(c) == /\ Completes(kind[c]) /\ ~cancelled /\ ~gone[c]
           /\ Step(c, "hs", "hello") /\ Keep(c)
\* ... and fails on garbage / plain HTTP, on a client that left, on cancellation, or on the handshake timeout
HsFail(c) == /\ \/ kind[c] \in {"garbage", "plainhttp"}
                \/ gone[c] \/ cancelled
                \/ (kind[c] = "stall" /\ HandshakeTimeout)
           /\ Step(c, "hs", "tocount0") /\ Keep(c)

HelloOK(c) == Step(c, "hello", "dispatch") /\ Keep(c)     \* the capture of a completed handshake holds a full first record

H2Begin(c) == /\ kind[c] = "h2" /\ Step(c, "dispatch", "h2")
              /\ served' = [served EXCEPT ![c] = TRUE]
              /\ UNCHANGED SrvVars /\ UNCHANGED <<kind, gone, panicked, counted, label, rawClosed, acceptedAfterCancel>>
\* ServeConn returns when the client goes away, on the idle timeout, or when the client connection fails
H2End(c) == /\ (gone[c] \/ IdleTimeout)
            /\ Step(c, "h2", "tocount1") /\ Keep(c)

H1Send(c) == /\ kind[c] # "h2" /\ Step(c, "dispatch", "send") /\ Keep(c)
\* rendezvous on the unbuffered channel with the internal server's Accept
H1Sent(c) == /\ chanOpen /\ Step(c, "send", "wait")
             /\ served' = [served EXCEPT ![c] = TRUE]
             /\ UNCHANGED SrvVars /\ UNCHANGED <<kind, gone, panicked, counted, label, rawClosed, acceptedAfterCancel>>
\* the hand-off is abandoned once the internal listener is closed
H1SendAborted(c) == /\ ~chanOpen /\ Step(c, "send", "tocount1") /\ Keep(c)
\* the internal server is done with the connection: client left, idle timeout, or Shutdown closed an idle connection
H1Done(c) == /\ (gone[c] \/ IdleTimeout \/ wpc = "begun")
             /\ Step(c, "wait", "tocount1") /\ Keep(c)

\* a user callback panics on the connection goroutine; the deferred recover confines it and the connection is counted
Panic(c) == /\ \/ ("handshake" \in PanicPoints /\ pc[c] = "hs")
               \/ ("h2" \in PanicPoints /\ pc[c] = "h2")
            /\ panicked' = [panicked EXCEPT ![c] = TRUE]
            /\ pc' = [pc EXCEPT ![c] = IF pc[c] = "hs" THEN "tocount0" ELSE "tocount1"]
            /\ UNCHANGED SrvVars /\ UNCHANGED <<kind, gone, served, counted, label, rawClosed, acceptedAfterCancel>>

Counted(c) == /\ pc[c] \in {"tocount0", "tocount1"}
              /\ counted' = [counted EXCEPT ![c] = @ + 1]
              /\ label' = [label EXCEPT ![c] = IF pc[c] = "tocount0" THEN <<"0", "">> ELSE <<"1", Negotiated(kind[c])>>]
              /\ pc' = [pc EXCEPT ![c] = "counted"]
              /\ UNCHANGED SrvVars /\ UNCHANGED <<kind, gone, panicked, served, rawClosed, acceptedAfterCancel>>

\* Close on the accepted net.Conn: by the HTTP/2 server or the internal HTTP/1.1 server when they finish with the
\* connection, and in any case by serveConn's deferred Close - so possibly before the metric is incremented
RawClose(c) == /\ pc[c] \in {"h2", "wait", "tocount0", "tocount1", "counted"} /\ ~rawClosed[c]
               /\ (pc[c] \in {"h2", "wait"} => gone[c] \/ IdleTimeout \/ wpc = "begun")
               /\ rawClosed' = [rawClosed EXCEPT ![c] = TRUE]
               /\ UNCHANGED SrvVars /\ UNCHANGED <<pc, kind, gone, panicked, served, counted, label, acceptedAfterCancel>>

Exit(c) == rawClosed[c] /\ Step(c, "counted", "exited") /\ Keep(c)

\* ---------------------------------------------------------------- watcher goroutine
ShutdownBegin == /\ wpc = "wait" /\ cancelled /\ wpc' = "begun"
                 /\ UNCHANGED <<cancelled, lnOpen, chanOpen, servePc, serveRet>> /\ UNCHANGED ConnVars
\* HTTPServer.Shutdown returns once no connection handed to the internal server is left
InH1Server == { c \in Conns : pc[c] = "wait" }
H1ShutdownDone == /\ wpc = "begun" /\ InH1Server = {} /\ wpc' = "h1done"
                  /\ UNCHANGED <<cancelled, lnOpen, chanOpen, servePc, serveRet>> /\ UNCHANGED ConnVars
LnClose == /\ wpc = "h1done" /\ lnOpen' = FALSE /\ wpc' = "done"
           /\ UNCHANGED <<cancelled, chanOpen, servePc, serveRet>> /\ UNCHANGED ConnVars

Next == \/ Cancel \/ ServeReturn \/ ShutdownBegin \/ H1ShutdownDone \/ LnClose
        \/ \E c \in Conns : \/ ClientConnect(c) \/ ClientGone(c) \/ Accept(c) \/ Start(c) \/ HsOK(c) \/ HsFail(c)
                            \/ HelloOK(c) \/ H2Begin(c) \/ H2End(c) \/ H1Send(c) \/ H1Sent(c) \/ H1SendAborted(c)
                            \/ H1Done(c) \/ Panic(c) \/ Counted(c) \/ RawClose(c) \/ Exit(c)

System == \/ ServeReturn \/ ShutdownBegin \/ H1ShutdownDone \/ LnClose
          \/ \E c \in Conns : \/ Accept(c) \/ Start(c) \/ HsOK(c) \/ HsFail(c) \/ HelloOK(c) \/ H2Begin(c) \/ H2End(c)
                              \/ H1Send(c) \/ H1Sent(c) \/ H1SendAborted(c) \/ H1Done(c) \/ Counted(c) \/ RawClose(c) \/ Exit(c)

\* fairness: the system's own steps, and clients that eventually leave (a client that stays forever is the idle-timeout case)
Spec == Init /\ [][Next]_vars /\ WF_vars(System) /\ \A c \in Conns : WF_vars(ClientGone(c))

\* ---------------------------------------------------------------- properties
Live(c) == pc[c] \in {"accepted", "hs", "hello", "dispatch", "h2", "send", "wait", "tocount0", "tocount1", "counted"}

\* C16: exactly one increment per accepted connection, when it ends, with true labels
CountedOnce == \A c \in Conns : /\ counted[c] <= 1
                                /\ pc[c] \in {"counted", "exited"} <=> counted[c] = 1
TrueLabels == \A c \in Conns : counted[c] = 1 =>
                 \/ label[c] = <<"0", "">> /\ ~served[c]
                 \/ label[c] = <<"1", Negotiated(kind[c])>> /\ Completes(kind[c])
FailedMeansZero == \A c \in Conns : (counted[c] = 1 /\ ~Completes(kind[c])) => label[c] = <<"0", "">>
\* C11: release
ReleasedWhenExited == \A c \in Conns : pc[c] = "exited" => rawClosed[c] /\ counted[c] = 1
EventuallyReleased == \A c \in Conns : Live(c) ~> (pc[c] = "exited")
\* C17
NotServedAfterCancel == \A c \in Conns : acceptedAfterCancel[c] => ~served[c]
ServeReturnsClosed == serveRet \in {"none", "ErrServerClosed"}
ReturnedMeansDrained == servePc = "returned" => (~lnOpen /\ InH1Server = {})
ShutdownCompletes == cancelled ~> (servePc = "returned")
\* C10: a panic in a user callback is confined: the connection is still counted and released, the rest keeps running
PanicConfined == \A c \in Conns : panicked[c] ~> (pc[c] = "exited")
=============================================================================
