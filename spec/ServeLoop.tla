------------------------------- MODULE ServeLoop -------------------------------
(***************************************************************************)
(* C13, the serve loop's event order (pkg/http2/server.go: serve,           *)
(* writeFrameAsync, wroteFrame -> closeStream, processHeaders).             *)
(*                                                                         *)
(* The frame that ends a stream may be written by a separate goroutine      *)
(* (writeFrameAsync: frames that do not fit the write buffer).  The stream  *)
(* stops counting against MAX_CONCURRENT_STREAMS when the serve loop takes  *)
(* the write's result from wroteFrameCh - while the client, who has seen    *)
(* END_STREAM, may already have opened the next stream.  When both events   *)
(* are pending the select statement picks either.  The code therefore       *)
(* drains wroteFrameCh before it processes a frame it has read (DrainRule). *)
(*                                                                         *)
(* One slot (limit 1), stream 1 open, its last frame in flight; the client  *)
(* opens stream 3 as soon as it has seen the end of stream 1.               *)
(*                                                                         *)
(* AtomicPost = TRUE: the result is posted in the same step in which the    *)
(* write returns (what can be set up from outside the writer goroutine).    *)
(* AtomicPost = FALSE: the writer goroutine may be descheduled between      *)
(* conn.Write returning and the channel send - the model then shows a       *)
(* residual refusal the drain rule cannot prevent (model-only, see DESIGN). *)
(***************************************************************************)
EXTENDS Naturals
CONSTANTS DrainRule, AtomicPost

VARIABLES w,        \* the stream-ending write: "inflight" | "returned" (conn.Write done, result not yet posted) | "posted" | "taken"
          saw,      \* the client has seen END_STREAM on stream 1
          rd,       \* frame waiting on readFrameCh: "none" | "H3"
          open1,    \* stream 1 still counts against the limit
          r3        \* fate of the request on stream 3: "none" | "started" | "refused"
vars == <<w, saw, rd, open1, r3>>

Init == w = "inflight" /\ saw = FALSE /\ rd = "none" /\ open1 = TRUE /\ r3 = "none"

WriteReturns == /\ w = "inflight" /\ saw' = TRUE
                /\ w' = IF AtomicPost THEN "posted" ELSE "returned"
                /\ UNCHANGED <<rd, open1, r3>>
Post == w = "returned" /\ w' = "posted" /\ UNCHANGED <<saw, rd, open1, r3>>
ClientOpens3 == saw /\ rd = "none" /\ r3 = "none" /\ rd' = "H3" /\ UNCHANGED <<w, saw, open1, r3>>

\* select: case res := <-sc.wroteFrameCh
TakeWrote == w = "posted" /\ w' = "taken" /\ open1' = FALSE /\ UNCHANGED <<saw, rd, r3>>
\* select: case res := <-sc.readFrameCh (with the drain of wroteFrameCh in front of processFrame, if the rule is in force)
TakeRead == /\ rd = "H3"
            /\ LET drained == DrainRule /\ w = "posted"
                   counts == IF drained THEN FALSE ELSE open1
               IN  /\ w' = IF drained THEN "taken" ELSE w
                   /\ open1' = counts
                   /\ r3' = IF counts THEN "refused" ELSE "started"
            /\ rd' = "none" /\ UNCHANGED saw

Next == WriteReturns \/ Post \/ ClientOpens3 \/ TakeWrote \/ TakeRead
Spec == Init /\ [][Next]_vars

\* a frame sequence that is legal never draws an error: the client opened stream 3 only after it had seen stream 1 end
LegalNeverRefused == r3 # "refused"
\* the state the replay constructs: both events pending at the select
BothPending == w = "posted" /\ rd = "H3"
NeverBothPending == ~BothPending      \* must be violated (non-vacuity of the replay's target state)
=============================================================================
