---------------------------------- MODULE Flow ----------------------------------
(***************************************************************************)
(* C12, the endpoint's own view.  HTTP/2 flow control as implemented in    *)
(* pkg/http2/flow.go + server.go (the transport uses the same flow.go):    *)
(*   receive side: inflow avail/unsent, refunds for padding / discarded /  *)
(*     unread data, batching of WINDOW_UPDATE (inflowMinRefresh);           *)
(*   send side: outflow linked to the connection's outflow,                 *)
(*     FrameWriteRequest.Consume, SETTINGS_INITIAL_WINDOW_SIZE deltas that  *)
(*     may drive stream windows negative, overflow checks.                  *)
(* The two directions are independent and are checked as two configurations *)
(* (Mode).  PeerLedgerAgrees ties this internal view to the ledger a peer   *)
(* keeps from the wire alone - which is what FlowLedger.tla validates on    *)
(* recorded traces of the real server.                                      *)
(***************************************************************************)
EXTENDS Integers, FiniteSets, FiniteSetsExt, TLC
CONSTANTS
  \* @type: Str;
  Mode,
  \* @type: Int;
  Budget,
  \* @type: Set(Int);
  Streams,
  \* @type: Int;
  WConn,
  \* @type: Int;
  WStream,
  \* @type: Int;
  MinRefresh,
  \* @type: Int;
  MaxWin,
  \* @type: Set(Int);
  Incs,
  \* @type: Set(Int);
  Sizes,
  \* @type: Set(Int);
  InitWins,
  \* @type: Int;
  MaxFrame,
  \* @type: Int;
  MaxQueued

VARIABLES \* receive side
  \* @type: Int;
  cAvail,
  \* @type: Int;
  cUnsent,
  \* @type: Int -> Int;
  sAvail,
  \* @type: Int -> Int;
  sUnsent,
  \* @type: Int -> Int;
  buf,
  \* @type: Int -> Str;
  st,
  \* @type: Int -> Bool;
  bodyClosed,
  \* the peer's ledger of what it may still send
  \* @type: Int;
  peerC,
  \* @type: Int -> Int;
  peerS,
  \* send side
  \* @type: Int;
  oConn,
  \* @type: Int -> Int;
  oSt,
  \* @type: Int -> Int;
  queued,
  \* @type: Int;
  initWin,
  \* @type: Int -> Int;
  sentTotal,
  \* @type: Int -> Int;
  wroteTotal,
  \* @type: Str;
  err
vars == <<cAvail, cUnsent, sAvail, sUnsent, buf, st, bodyClosed, peerC, peerS, oConn, oSt, queued, initWin, sentTotal, wroteTotal, err>>

Min2(a, b) == IF a < b THEN a ELSE b
\* @type: (Int -> Int) => Int;
Sum(f) == FoldSet(LAMBDA x, acc : f[x] + acc, 0, DOMAIN f)

Init == /\ cAvail = WConn /\ cUnsent = 0
        /\ sAvail = [s \in Streams |-> 0] /\ sUnsent = [s \in Streams |-> 0]
        /\ buf = [s \in Streams |-> 0] /\ st = [s \in Streams |-> "idle"] /\ bodyClosed = [s \in Streams |-> FALSE]
        /\ peerC = WConn /\ peerS = [s \in Streams |-> 0]
        /\ oConn = 3 /\ oSt = [s \in Streams |-> 0] /\ queued = [s \in Streams |-> 0] /\ initWin = 3
        /\ sentTotal = [s \in Streams |-> 0] /\ wroteTotal = [s \in Streams |-> 0]
        /\ err = "none"

\* inflow.add: returns <<avail', unsent', sendNow>>
\* @type: (Int, Int, Int) => <<Int, Int, Int>>;
Add(avail, unsent, n) ==
  LET u == unsent + n IN
  IF u < MinRefresh /\ u < avail THEN <<avail, u, 0>> ELSE <<avail + u, 0, u>>

Open(s) == /\ err = "none" /\ st[s] = "idle"
           /\ st' = [st EXCEPT ![s] = "open"]
           /\ sAvail' = [sAvail EXCEPT ![s] = WStream] /\ peerS' = [peerS EXCEPT ![s] = WStream]
           /\ oSt' = [oSt EXCEPT ![s] = initWin]
           /\ UNCHANGED <<cAvail, cUnsent, sUnsent, buf, bodyClosed, peerC, oConn, queued, initWin, sentTotal, wroteTotal, err>>

\* ---------- receive side ----------
PeerData(s, data, pad, end) ==
  LET len == data + pad IN
  /\ err = "none" /\ st[s] = "open" /\ len > 0
  /\ len <= peerC /\ len <= peerS[s]                 \* honest peer: stays inside what we advertised
  /\ peerC' = peerC - len + (LET r == IF bodyClosed[s] THEN Add(cAvail - len, cUnsent, len) ELSE Add(cAvail - len, cUnsent, pad) IN r[3])
  /\ IF len > cAvail \/ len > sAvail[s]
       THEN /\ err' = "FLOW_CONTROL_on_honest_peer"     \* must be unreachable
            /\ UNCHANGED <<cAvail, cUnsent, sAvail, sUnsent, buf, st, peerS>>
       ELSE IF bodyClosed[s]
       THEN \* handler closed the body: discard, refund connection level only
            LET r == Add(cAvail - len, cUnsent, len) IN
            /\ cAvail' = r[1] /\ cUnsent' = r[2]
            /\ sAvail' = [sAvail EXCEPT ![s] = @ - len]
            /\ peerS' = [peerS EXCEPT ![s] = @ - len]
            /\ st' = [st EXCEPT ![s] = IF end THEN "hcr" ELSE @]
            /\ UNCHANGED <<sUnsent, buf, err>>
       ELSE LET rc == Add(cAvail - len, cUnsent, pad)
                rs == Add(sAvail[s] - len, sUnsent[s], pad) IN
            /\ cAvail' = rc[1] /\ cUnsent' = rc[2]
            /\ sAvail' = [sAvail EXCEPT ![s] = rs[1]] /\ sUnsent' = [sUnsent EXCEPT ![s] = rs[2]]
            /\ peerS' = [peerS EXCEPT ![s] = @ - len + rs[3]]
            /\ buf' = [buf EXCEPT ![s] = @ + data]
            /\ st' = [st EXCEPT ![s] = IF end THEN "hcr" ELSE @]
            /\ UNCHANGED err
  /\ UNCHANGED <<bodyClosed, oConn, oSt, queued, initWin, sentTotal, wroteTotal>>

HandlerRead(s, n) ==
  /\ err = "none" /\ st[s] \in {"open", "hcr"} /\ ~bodyClosed[s] /\ n > 0 /\ n <= buf[s]
  /\ buf' = [buf EXCEPT ![s] = @ - n]
  /\ LET rc == Add(cAvail, cUnsent, n) IN
       /\ cAvail' = rc[1] /\ cUnsent' = rc[2] /\ peerC' = peerC + rc[3]
  /\ IF st[s] = "open"
       THEN LET rs == Add(sAvail[s], sUnsent[s], n) IN
            /\ sAvail' = [sAvail EXCEPT ![s] = rs[1]] /\ sUnsent' = [sUnsent EXCEPT ![s] = rs[2]]
            /\ peerS' = [peerS EXCEPT ![s] = @ + rs[3]]
       ELSE UNCHANGED <<sAvail, sUnsent, peerS>>
  /\ UNCHANGED <<st, bodyClosed, oConn, oSt, queued, initWin, sentTotal, wroteTotal, err>>

HandlerCloseBody(s) == /\ err = "none" /\ st[s] \in {"open", "hcr"} /\ ~bodyClosed[s]
                       /\ bodyClosed' = [bodyClosed EXCEPT ![s] = TRUE]
                       /\ UNCHANGED <<cAvail, cUnsent, sAvail, sUnsent, buf, st, peerC, peerS, oConn, oSt, queued, initWin, sentTotal, wroteTotal, err>>

CloseStream(s) ==   \* RST either way, or response complete: unread bytes go back to the connection window
  /\ err = "none" /\ st[s] \in {"open", "hcr"}
  /\ LET rc == Add(cAvail, cUnsent, buf[s]) IN
       /\ cAvail' = rc[1] /\ cUnsent' = rc[2] /\ peerC' = peerC + rc[3]
  /\ buf' = [buf EXCEPT ![s] = 0] /\ st' = [st EXCEPT ![s] = "closed"]
  /\ queued' = [queued EXCEPT ![s] = 0]
  /\ UNCHANGED <<sAvail, sUnsent, bodyClosed, peerS, oConn, oSt, initWin, sentTotal, wroteTotal, err>>

\* ---------- send side ----------
OutAdd(n, d) == LET sum == n + d IN IF sum > MaxWin THEN "overflow" ELSE "ok"   \* outflow.add's check, on mathematical integers

AppWrite(s, n) == /\ err = "none" /\ st[s] \in {"open", "hcr"} /\ queued[s] + n <= MaxQueued
                  /\ queued' = [queued EXCEPT ![s] = @ + n] /\ wroteTotal' = [wroteTotal EXCEPT ![s] = @ + n]
                  /\ UNCHANGED <<cAvail, cUnsent, sAvail, sUnsent, buf, st, bodyClosed, peerC, peerS, oConn, oSt, initWin, sentTotal, err>>

SendData(s) ==  \* writeQueue.consume -> FrameWriteRequest.Consume
  /\ err = "none" /\ st[s] \in {"open", "hcr"} /\ queued[s] > 0
  /\ LET allowed == Min2(Min2(oSt[s], oConn), MaxFrame) IN
       /\ allowed > 0
       /\ LET k == Min2(allowed, queued[s]) IN
            /\ queued' = [queued EXCEPT ![s] = @ - k]
            /\ oSt' = [oSt EXCEPT ![s] = @ - k] /\ oConn' = oConn - k
            /\ sentTotal' = [sentTotal EXCEPT ![s] = @ + k]
  /\ UNCHANGED <<cAvail, cUnsent, sAvail, sUnsent, buf, st, bodyClosed, peerC, peerS, initWin, wroteTotal, err>>

PeerWU(s, n) == /\ err = "none" /\ st[s] \in {"open", "hcr"}
                /\ IF OutAdd(oSt[s], n) = "overflow" THEN err' = "S(FC)" /\ UNCHANGED oSt
                   ELSE oSt' = [oSt EXCEPT ![s] = @ + n] /\ UNCHANGED err
                /\ UNCHANGED <<cAvail, cUnsent, sAvail, sUnsent, buf, st, bodyClosed, peerC, peerS, oConn, queued, initWin, sentTotal, wroteTotal>>
PeerWUConn(n) == /\ err = "none"
                 /\ IF OutAdd(oConn, n) = "overflow" THEN err' = "GOAWAY(FC)" /\ UNCHANGED oConn
                    ELSE oConn' = oConn + n /\ UNCHANGED err
                 /\ UNCHANGED <<cAvail, cUnsent, sAvail, sUnsent, buf, st, bodyClosed, peerC, peerS, oSt, queued, initWin, sentTotal, wroteTotal>>
PeerInitWin(v) == /\ err = "none" /\ v # initWin
                  /\ LET growth == v - initWin
                         live == {s \in Streams : st[s] \in {"open", "hcr"}} IN
                     IF \E s \in live : OutAdd(oSt[s], growth) = "overflow"
                       THEN err' = "C(FC)" /\ UNCHANGED <<oSt, initWin>>      \* (the real loop may have adjusted some streams already; connection dies anyway)
                       ELSE /\ oSt' = [s \in Streams |-> IF s \in live THEN oSt[s] + growth ELSE oSt[s]]
                            /\ initWin' = v /\ UNCHANGED err
                  /\ UNCHANGED <<cAvail, cUnsent, sAvail, sUnsent, buf, st, bodyClosed, peerC, peerS, oConn, queued, sentTotal, wroteTotal>>

Recv == \E s \in Streams :
           \/ Open(s) \/ HandlerCloseBody(s) \/ CloseStream(s)
           \/ \E d \in Sizes, p \in {0, 1}, e \in BOOLEAN : PeerData(s, d, p, e)
           \/ \E n \in Sizes : HandlerRead(s, n)
Send == \/ \E s \in Streams :
           \/ Open(s) \/ CloseStream(s) \/ SendData(s)
           \/ \E n \in Sizes : wroteTotal[s] + n <= Budget /\ AppWrite(s, n)
           \/ \E n \in Incs : PeerWU(s, n)
        \/ \E n \in Incs : PeerWUConn(n)
        \/ \E v \in InitWins : PeerInitWin(v)
Next == IF Mode = "recv" THEN Recv ELSE Send
Spec == Init /\ [][Next]_vars

Live == {s \in Streams : st[s] \in {"open", "hcr"}}
\* ---- C12 invariants ----
Conservation == err = "none" => cAvail + cUnsent + Sum([s \in Live |-> buf[s]]) = WConn
StreamConservation == \A s \in Streams : (st[s] = "open" /\ ~bodyClosed[s]) => sAvail[s] + sUnsent[s] + buf[s] = WStream
BatchBound == cUnsent < MinRefresh /\ \A s \in Streams : sUnsent[s] < MinRefresh
PeerLedgerAgrees == peerC = cAvail /\ \A s \in Streams : st[s] = "open" => peerS[s] = sAvail[s]
HonestPeerNeverErrs == err # "FLOW_CONTROL_on_honest_peer"
NonNegativeRecv == cAvail >= 0 /\ \A s \in Streams : sAvail[s] >= 0
SendSafe == oConn >= 0 /\ \A s \in Streams : sentTotal[s] <= wroteTotal[s]     \* stream windows may legitimately go negative via SETTINGS
NoOverflowAccepted == oConn <= MaxWin /\ \A s \in Streams : oSt[s] <= MaxWin
=============================================================================
