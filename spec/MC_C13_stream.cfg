SPECIFICATION Spec
CONSTANTS
  ReadKinds = {"HEADERS", "DATA", "RST_STREAM", "PING"}
  WriteKinds = {}
  StreamIds = {0, 1, 2, 3, 5}
  Codes = {0, 1, 7}
  MaxAdv = 2
INVARIANTS TypeOK HandlersOnlyForRequests HandlersIncreasing GoAwayCovers ResponsesOnlyFromHandlers EndedIsFinal WithinLimit
PROPERTIES NothingStartedAfterConnError GoAwayShrinks
CHECK_DEADLOCK FALSE
