---------------------------- MODULE ClientHelloCapture ----------------------------
(***************************************************************************)
(* C04.  hack.HijackClientHelloConn (pkg/hack/hajack_clienthello_conn.go). *)
(*                                                                         *)
(* Implementation-shaped layer: Read tees every successfully read chunk    *)
(* into buf until hasCompleteClientHello; tryParseClientHello /            *)
(* hasCompleteClientHello are transcribed statement by statement (uint16   *)
(* arithmetic of expectedLen included).  One action per call of Read.      *)
(*                                                                         *)
(* Ideal layer: FirstRecord(stream) -- the first 5+len bytes iff the       *)
(* header says "handshake record, version SSL3.0..TLS1.3" and that many    *)
(* bytes have been delivered.                                              *)
(*                                                                         *)
(* Bytes are small naturals.  All ways of cutting the stream into reads    *)
(* are explored (Read(n) for every n), as are client closes at every       *)
(* offset (len).                                                           *)
(***************************************************************************)
EXTENDS Naturals, Sequences, TLC

CONSTANTS MaxBody,    \* record body lengths 0..MaxBody
          MaxTrail    \* 0..MaxTrail bytes of following records

\* <<type, version hi, version lo, length hi>>
Headers == { <<22, 3, 1, 0>>,   \* TLS1.0 record version (what clients send)
             <<22, 3, 3, 0>>,   \* TLS1.2
             <<22, 3, 4, 0>>,   \* TLS1.3 (upper bound accepted)
             <<22, 3, 0, 0>>,   \* SSL3.0 (lower bound accepted)
             <<23, 3, 1, 0>>,   \* not a handshake record
             <<21, 3, 3, 0>>,   \* alert
             <<22, 2, 255, 0>>, \* version below SSL3.0
             <<22, 3, 5, 0>>,   \* version above TLS1.3
             <<22, 3, 3, 1>>,   \* declares 256+b bytes: never completes within the bound
             <<71, 69, 84, 32>> \* "GET " - plain HTTP on the TLS port
           }

\* a first record that is not a ClientHello record, followed by a complete, valid-looking handshake record (or a prefix of it):
\* a capture that restarts at a later read would wrongly succeed there
NotHello == { h \in Headers : h[1] # 22 \/ h[2] # 3 \/ h[3] > 4 }
Second == <<22, 3, 3, 0, 1, 77>>
Streams == { <<h[1], h[2], h[3], h[4], b>> \o [i \in 1..b |-> 100 + i] \o [i \in 1..t |-> 200 + i] :
               h \in Headers, b \in 0..MaxBody, t \in 0..MaxTrail }
           \cup { <<h[1], h[2], h[3], h[4], b>> \o [i \in 1..b |-> 100 + i] \o SubSeq(Second, 1, t) :
               h \in NotHello, b \in 0..1, t \in 5..6 }

MaxLen == 5 + MaxBody + (IF MaxTrail > 6 THEN MaxTrail ELSE 6)
ERR == <<999>>        \* "GetClientHello returns an error" (bytes are < 256, so no clash)

VARIABLES stream,       \* what the client would send
          len,          \* how many bytes it really sends before closing (truncation)
          pos,          \* bytes delivered so far
          buf,          \* HijackClientHelloConn.buf
          expectedLen,  \* HijackClientHelloConn.expectedLen (uint16)
          above,        \* bytes handed to crypto/tls
          eof,          \* the underlying Read returned an error
          get           \* observation: what GetClientHello would return now (= Get, see GetVar)
vars == <<stream, len, pos, buf, expectedLen, above, eof, get>>

Init == /\ stream \in Streams
        /\ len \in 0..MaxLen /\ len <= Len(stream)
        /\ pos = 0 /\ buf = <<>> /\ expectedLen = 0 /\ above = <<>> /\ eof = FALSE /\ get = ERR

\* hasCompleteClientHello: <<complete, buf'>>  (truncates buf as a side effect)
HasComplete(b, e) == IF Len(b) = 0 \/ e = 0 THEN <<FALSE, b>>
                     ELSE IF Len(b) < e THEN <<FALSE, b>>
                     ELSE <<TRUE, SubSeq(b, 1, e)>>

\* tryParseClientHello: <<ok, buf', expectedLen'>>
TryParse(b, e) ==
  LET hc == HasComplete(b, e) IN
  IF hc[1] THEN <<TRUE, hc[2], e>>
  ELSE IF Len(b) < 5 THEN <<FALSE, b, e>>
  ELSE IF b[1] # 22 THEN <<FALSE, b, e>>
  ELSE LET vers == b[2] * 256 + b[3] IN
       IF vers < 768 \/ vers > 772 THEN <<FALSE, b, e>>
       ELSE LET e2 == (5 + b[4] * 256 + b[5]) % 65536
                hc2 == HasComplete(b, e2) IN
            <<hc2[1], hc2[2], e2>>

\* GetClientHello as a pure observation of the current state
Get == LET r == TryParse(buf, expectedLen) IN IF r[1] THEN r[2] ELSE ERR

\* HijackClientHelloConn.Read returning n bytes without error
Read(n) == /\ ~eof /\ n >= 1 /\ pos + n <= len
           /\ LET chunk == SubSeq(stream, pos + 1, pos + n)
                  hc == HasComplete(buf, expectedLen) IN
              /\ above' = above \o chunk
              /\ pos' = pos + n
              /\ IF hc[1] THEN buf' = hc[2] /\ UNCHANGED expectedLen
                 ELSE LET r == TryParse(buf \o chunk, expectedLen) IN
                      buf' = r[2] /\ expectedLen' = r[3]
           /\ UNCHANGED <<stream, len, eof>>
           /\ get' = Get'

\* the underlying Read returns (0, err): nothing is teed
ReadEOF == /\ ~eof /\ pos = len /\ eof' = TRUE
           /\ UNCHANGED <<stream, len, pos, buf, expectedLen, above, get>>

Next == (\E n \in 1..MaxLen : Read(n)) \/ ReadEOF
Spec == Init /\ [][Next]_vars


-----------------------------------------------------------------------------
\* The ideal
HeaderOK == /\ Len(stream) >= 5 /\ stream[1] = 22
            /\ (stream[2] * 256 + stream[3]) \in 768..772
RecLen == 5 + stream[4] * 256 + stream[5]
FirstRecord == IF HeaderOK /\ pos >= 5 /\ pos >= RecLen /\ RecLen <= Len(stream)
               THEN SubSeq(stream, 1, RecLen) ELSE ERR

GetVar      == get = Get
Transparent == above = SubSeq(stream, 1, pos)          \* the TLS layer sees the stream unmodified
Exact       == Get = FirstRecord                      \* exact record or nothing at all
BufIsPrefix == /\ Len(buf) <= pos
               /\ buf = SubSeq(stream, 1, Len(buf))    \* justifies the length-only landmark model
NeverOverlong == expectedLen > 0 /\ Len(buf) >= expectedLen => Get = SubSeq(stream, 1, expectedLen)
\* once reported, the reported record never changes (no stale / growing capture)
Stable == [][Get # ERR => Get' = Get]_vars
=============================================================================
