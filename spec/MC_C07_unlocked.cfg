SPECIFICATION Spec
CONSTANTS
  Locked = FALSE
  MaxLater = 2
INVARIANTS Consistent
CHECK_DEADLOCK FALSE
