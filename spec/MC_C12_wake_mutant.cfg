SPECIFICATION Spec
CONSTANTS Streams = {1, 3, 5}
  Body = 3
  Wake = "one"
  MaxCredit = 3
INVARIANTS TypeOK NoLostWakeup
PROPERTIES Delivers
CHECK_DEADLOCK FALSE
