SPECIFICATION Spec
CONSTANTS Dirs = {1, 2, 3}
  RemoveOld = TRUE
  Serialized = FALSE
INVARIANTS Converges KeepsLastGood
CHECK_DEADLOCK FALSE
