SPECIFICATION Spec
CONSTANTS
  Streams = {1, 3, 5, 7, 9, 11}
  Bound = 4096
  MaxWin = 2147483647
INVARIANTS NoOverReturn ReturnedAtQuiescence LedgerNonNegative
CONSTRAINT HW
POSTCONDITION TraceAccepted
CHECK_DEADLOCK FALSE
