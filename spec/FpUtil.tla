------------------------------- MODULE FpUtil -------------------------------
(* String / list helpers shared by the fingerprint specifications.           *)
EXTENDS Naturals, Sequences, FiniteSets, TLC

GREASE == { 2570, 6682, 10794, 14906, 19018, 23130, 27242, 31354,
            35466, 39578, 43690, 47802, 51914, 56026, 60138, 64250 }   \* 0x?a?a, RFC 8701
IsGrease(v) == v \in GREASE
NoGrease(s) == SelectSeq(s, LAMBDA v : ~IsGrease(v))

\* divide and conquer keeps the evaluation depth logarithmic (lists of 150 items occur)
RECURSIVE JoinStr(_, _)
JoinStr(s, sep) == IF s = <<>> THEN ""
                   ELSE IF Len(s) = 1 THEN s[1]
                   ELSE LET m == Len(s) \div 2 IN
                        JoinStr(SubSeq(s, 1, m), sep) \o sep \o JoinStr(SubSeq(s, m + 1, Len(s)), sep)

Concat(s) == JoinStr(s, "")

Dec(s) == [i \in 1..Len(s) |-> ToString(s[i])]

HexDigit(d) == <<"0","1","2","3","4","5","6","7","8","9","a","b","c","d","e","f">>[d + 1]
Hex4(v) == HexDigit((v \div 4096) % 16) \o HexDigit((v \div 256) % 16) \o HexDigit((v \div 16) % 16) \o HexDigit(v % 16)
Hex4s(s) == [i \in 1..Len(s) |-> Hex4(s[i])]
Pad2(n) == IF n < 10 THEN "0" \o ToString(n) ELSE ToString(n)
Min(a, b) == IF a < b THEN a ELSE b

\* all sequences over S of length 0..n, and the injective ones
Seqs(S, n) == UNION { [1..k -> S] : k \in 0..n }
InjSeqs(S, n) == { s \in Seqs(S, n) : \A i, j \in 1..Len(s) : i # j => s[i] # s[j] }

\* ascending order; SortSeq is TLC's built-in (Java) stable sort, the order relation is the specification
SortAsc(s) == SortSeq(s, LAMBDA a, b : a < b)
IsSortedAsc(s) == \A i \in 1..Len(s) : i < Len(s) => s[i] <= s[i + 1]

Contains(s, v) == \E i \in 1..Len(s) : s[i] = v
=============================================================================
