SPECIFICATION Spec
CONSTANTS
  Locked = TRUE
  MaxLater = 3
INVARIANTS Consistent Exclusion
CHECK_DEADLOCK FALSE
