--------------------------------- MODULE H2Meta ---------------------------------
(***************************************************************************)
(* C19, header blocks as the Framer delivers them with ReadMetaHeaders set  *)
(* (frame.go: readMetaFrame over HEADERS + CONTINUATION with an HPACK       *)
(* decoder).  A connection carries a sequence of header blocks.  What the   *)
(* reader must get right across blocks:                                     *)
(*   - every block is judged on its own: a malformed field or an oversized  *)
(*     header list in one block (emission is switched off for the rest of   *)
(*     that block) must not leak into the next one;                         *)
(*   - the HPACK dynamic table does carry over, and it is updated by every  *)
(*     block, delivered or not - otherwise later index references resolve   *)
(*     to other fields (RFC 7540 4.3, 10.5.1).                              *)
(* Block kinds (the harness gives them bytes):                              *)
(*   ok        well-formed, one HEADERS frame; adds one dynamic entry       *)
(*   okcont    the same over HEADERS + CONTINUATION                         *)
(*   sizeupd   the same, led by a dynamic table size update (legal only at  *)
(*             the very beginning of a block: the decoder must know that a  *)
(*             new block has begun, whatever became of the previous one)    *)
(*   upper     a field name with an upper-case letter  -> stream error      *)
(*   badvalue  a field value with a line feed          -> stream error      *)
(*   latepseudo a pseudo-header after a regular field  -> stream error      *)
(*   toolarge  header list beyond MaxHeaderListSize    -> delivered, Truncated *)
(*   ref       pseudo-headers + one index reference to every entry the     *)
(*             dynamic table holds, oldest first                            *)
(* Each block other than ref adds exactly one entry, named after its        *)
(* position in the history.                                                 *)
(***************************************************************************)
EXTENDS Naturals, Sequences
CONSTANT MaxBlocks
Kinds == {"ok", "okcont", "sizeupd", "upper", "badvalue", "latepseudo", "toolarge", "ref"}

VARIABLES hist,    \* kinds of the blocks read so far
          table,   \* positions whose entry is in the dynamic table, oldest first
          out      \* outcome of the last block: [r, dyn]  r = "fields" | "truncated" | "stream_error"; dyn = entries the delivered list must show
vars == <<hist, table, out>>

Init == hist = <<>> /\ table = <<>> /\ out = [r |-> "none", dyn |-> <<>>]

Read(k) ==
  /\ Len(hist) < MaxBlocks
  /\ hist' = Append(hist, k)
  /\ LET n == Len(hist) + 1 IN
     /\ table' = IF k = "ref" THEN table ELSE Append(table, n)
     /\ out' = CASE k \in {"ok", "okcont", "sizeupd"} -> [r |-> "fields", dyn |-> <<n>>]
                 [] k = "ref" -> [r |-> "fields", dyn |-> table]
                 [] k = "toolarge" -> [r |-> "truncated", dyn |-> <<>>]
                 [] OTHER -> [r |-> "stream_error", dyn |-> <<>>]
Next == \E k \in Kinds : Read(k)
Spec == Init /\ [][Next]_vars

\* the outcome of a block does not depend on what kinds of blocks came before, except through the table a ref block shows
OwnJudgement == out.r = "none" \/ out.r = (CASE hist[Len(hist)] \in {"ok", "okcont", "sizeupd", "ref"} -> "fields" [] hist[Len(hist)] = "toolarge" -> "truncated" [] OTHER -> "stream_error")
TableGrowsWithEveryBlock == Len(table) = Len(SelectSeq(hist, LAMBDA k : k # "ref"))
=============================================================================
