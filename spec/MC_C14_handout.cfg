SPECIFICATION Spec
CONSTANTS Versions = {1, 2}
  InPlace = FALSE
  Handshakes = {"a", "b"}
INVARIANTS PairStaysWhole
CHECK_DEADLOCK FALSE
