SPECIFICATION Spec
CONSTANTS N = 5
INVARIANTS Refines FiveFields NoGreaseToken
CHECK_DEADLOCK FALSE
