SPECIFICATION Spec
CONSTANTS N = 4
INVARIANTS Refines FiveFields NoGreaseToken
CHECK_DEADLOCK FALSE
