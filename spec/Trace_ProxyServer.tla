--------------------------- MODULE Trace_ProxyServer ---------------------------
(***************************************************************************)
(* Trace validation for C06 C10 C11 C16 C17: event logs recorded from the  *)
(* real proxyserver (verifhook points + harness-owned listener + client    *)
(* scripts, one sequence number under one mutex) must be behaviours of     *)
(* ProxyServer.tla.  What the log cannot know (whether a client has gone,  *)
(* whether a step raced with the cancellation) is left open: the Trace*    *)
(* actions below are the ProxyServer actions with exactly those guards     *)
(* dropped; everything the properties speak about (who was counted, how    *)
(* often, with which labels, who was served, what was closed, what Serve   *)
(* returned) is bound to the logged values.  A "reset" event starts the    *)
(* next scenario; its record carries the client script of every connection.*)
(***************************************************************************)
EXTENDS ProxyServer, Json, TLCExt

TraceLog == ndJsonDeserialize("trace_ps.ndjson")
VARIABLE l
tvars == <<vars, l>>
Ev == TraceLog[l]

KindsOf(e) == [c \in Conns |-> IF c \in DOMAIN e.kinds THEN e.kinds[c] ELSE "stall"]

TraceInit == /\ l = 2                                  \* the first line is the first scenario's header
             /\ cancelled = FALSE /\ wpc = "wait" /\ lnOpen = TRUE /\ chanOpen = TRUE
             /\ servePc = "loop" /\ serveRet = "none"
             /\ pc = [c \in Conns |-> "absent"]
             /\ kind = KindsOf(TraceLog[1])
             /\ gone = [c \in Conns |-> FALSE] /\ panicked = [c \in Conns |-> FALSE] /\ served = [c \in Conns |-> FALSE]
             /\ counted = [c \in Conns |-> 0] /\ label = [c \in Conns |-> <<"-", "-">>]
             /\ rawClosed = [c \in Conns |-> FALSE] /\ acceptedAfterCancel = [c \in Conns |-> FALSE]

\* the end of a scenario: every connection the listener accepted is released and counted, Serve has returned
ScenarioDone == /\ \A c \in Conns : pc[c] \in {"absent", "exited"}
                /\ servePc = "returned"

Reset == /\ ScenarioDone
         /\ cancelled' = FALSE /\ wpc' = "wait" /\ lnOpen' = TRUE /\ chanOpen' = TRUE
         /\ servePc' = "loop" /\ serveRet' = "none"
         /\ pc' = [c \in Conns |-> "absent"]
         /\ kind' = KindsOf(Ev)
         /\ gone' = [c \in Conns |-> FALSE] /\ panicked' = [c \in Conns |-> FALSE] /\ served' = [c \in Conns |-> FALSE]
         /\ counted' = [c \in Conns |-> 0] /\ label' = [c \in Conns |-> <<"-", "-">>]
         /\ rawClosed' = [c \in Conns |-> FALSE] /\ acceptedAfterCancel' = [c \in Conns |-> FALSE]

C == Ev.c
TAccept == /\ servePc = "loop" /\ lnOpen /\ pc[C] = "absent"
           /\ pc' = [pc EXCEPT ![C] = "accepted"]
           /\ acceptedAfterCancel' = [acceptedAfterCancel EXCEPT ![C] = cancelled]
           /\ UNCHANGED SrvVars /\ UNCHANGED <<kind, gone, panicked, served, counted, label, rawClosed>>
THsOK == Completes(kind[C]) /\ Step(C, "hs", "hello") /\ Keep(C)
THsFail == Step(C, "hs", "tocount0") /\ Keep(C)
THelloFail == Step(C, "hello", "tocount0") /\ Keep(C)
TH2Begin == /\ kind[C] = "h2" /\ Step(C, "dispatch", "h2") /\ served' = [served EXCEPT ![C] = TRUE]
            /\ UNCHANGED SrvVars /\ UNCHANGED <<kind, gone, panicked, counted, label, rawClosed, acceptedAfterCancel>>
TH2End == Step(C, "h2", "tocount1") /\ Keep(C)
TH1Sent == /\ Step(C, "send", "wait") /\ served' = [served EXCEPT ![C] = TRUE]
           /\ UNCHANGED SrvVars /\ UNCHANGED <<kind, gone, panicked, counted, label, rawClosed, acceptedAfterCancel>>
TH1Aborted == cancelled /\ Step(C, "send", "tocount1") /\ Keep(C)
TH1Done == Step(C, "wait", "tocount1") /\ Keep(C)
TPanic == /\ pc[C] \in {"hs", "h2"}
          /\ panicked' = [panicked EXCEPT ![C] = TRUE]
          /\ pc' = [pc EXCEPT ![C] = IF pc[C] = "hs" THEN "tocount0" ELSE "tocount1"]
          /\ UNCHANGED SrvVars /\ UNCHANGED <<kind, gone, served, counted, label, rawClosed, acceptedAfterCancel>>
TCounted == Counted(C) /\ label'[C] = <<Ev.ok, Ev.proto>>
TRawClose == /\ pc[C] # "absent" /\ ~rawClosed[C]
             /\ rawClosed' = [rawClosed EXCEPT ![C] = TRUE]
             /\ UNCHANGED SrvVars /\ UNCHANGED <<pc, kind, gone, panicked, served, counted, label, acceptedAfterCancel>>
TLnClose == \/ LnClose
            \/ (wpc = "done" /\ UNCHANGED vars)           \* Serve's deferred ln.Close(): the listener is closed a second time
TServeReturn == ServeReturn /\ serveRet' = Ev.err
\* HTTPServer.Shutdown returned: every connection handed to the internal server has been closed by it (the
\* connection goroutine may log its own h1_done later)
TH1ShutdownDone == /\ wpc = "begun" /\ \A c \in Conns : pc[c] = "wait" => rawClosed[c]
                   /\ wpc' = "h1done"
                   /\ UNCHANGED <<cancelled, lnOpen, chanOpen, servePc, serveRet>> /\ UNCHANGED ConnVars
TraceDrained == servePc = "returned" => (~lnOpen /\ \A c \in Conns : pc[c] = "wait" => rawClosed[c])

TraceNext ==
  /\ l <= Len(TraceLog) /\ l' = l + 1
  /\ CASE Ev.op = "accept"          -> TAccept
       [] Ev.op = "start"           -> Start(C)
       [] Ev.op = "hs_ok"           -> THsOK
       [] Ev.op = "hs_fail"         -> THsFail
       [] Ev.op = "hello_ok"        -> HelloOK(C)
       [] Ev.op = "hello_fail"      -> THelloFail
       [] Ev.op = "h2_begin"        -> TH2Begin
       [] Ev.op = "h2_end"          -> TH2End
       [] Ev.op = "h1_send"         -> H1Send(C)
       [] Ev.op = "h1_sent"         -> TH1Sent
       [] Ev.op = "h1_send_aborted" -> TH1Aborted
       [] Ev.op = "h1_done"         -> TH1Done
       [] Ev.op = "panic"           -> TPanic
       [] Ev.op = "counted"         -> TCounted
       [] Ev.op = "raw_close"       -> TRawClose
       [] Ev.op = "exit"            -> Exit(C)
       [] Ev.op = "cancel"          -> Cancel
       [] Ev.op = "shutdown_begin"  -> ShutdownBegin
       [] Ev.op = "h1_shutdown_done" -> TH1ShutdownDone
       [] Ev.op = "ln_close"        -> TLnClose
       [] Ev.op = "serve_return"    -> TServeReturn
       [] Ev.op = "reset"           -> Reset
       [] Ev.op = "end"             -> ScenarioDone /\ UNCHANGED vars
       [] OTHER -> FALSE
TraceSpec == TraceInit /\ [][TraceNext]_tvars

HW == TLCSet(1, IF TLCGet(1) < l THEN l ELSE TLCGet(1))
TraceAccepted == /\ PrintT(<<"TRACE_MATCHED", TLCGet(1) - 1, Len(TraceLog)>>)
                 /\ TLCGet(1) - 1 = Len(TraceLog)
ASSUME TLCSet(1, 0)
=============================================================================
