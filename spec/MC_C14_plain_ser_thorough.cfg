SPECIFICATION Spec
CONSTANTS Versions = {1, 2}
  MaxSteps = 4
  ReAddOnRemove = TRUE
  CachePerFile = FALSE
  WithRemoval = FALSE
  OnlyRotations = FALSE
  Serialized = TRUE
INVARIANTS Converges ServedIsValidVersion
CHECK_DEADLOCK FALSE
