SPECIFICATION Spec
CONSTANTS AdvMax = 1
  Mult = 4
  MaxStreams = 8
INVARIANTS TypeOK HandlersWithinLimit
CHECK_DEADLOCK FALSE
