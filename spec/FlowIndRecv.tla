------------------------------- MODULE FlowIndRecv ----------------------------
(* Inductive invariant of the receive side of Flow.tla for ARBITRARY window sizes, batching threshold and frame sizes
   (two streams): checked by Apalache, `--init=IndInit --inv=IndInv --length=1` plus `Init => IndInv` at length 0. *)
EXTENDS Flow

ConstInit ==
  /\ Mode = "recv" /\ Streams = {1, 3}
  /\ WConn \in Nat /\ WStream \in Nat /\ MinRefresh \in Nat /\ MinRefresh > 0 /\ MaxWin \in Nat
  /\ Budget = 0 /\ Incs = {1} /\ Sizes = {1} /\ InitWins = {3} /\ MaxFrame = 1 /\ MaxQueued = 1

Zero == [s \in Streams |-> 0]
TypeOK ==
  /\ cAvail \in Int /\ cUnsent \in Int /\ peerC \in Int
  /\ sAvail \in [Streams -> Int] /\ sUnsent \in [Streams -> Int] /\ buf \in [Streams -> Int] /\ peerS \in [Streams -> Int]
  /\ st \in [Streams -> {"idle", "open", "hcr", "closed"}] /\ bodyClosed \in [Streams -> BOOLEAN]
  /\ oConn = 3 /\ initWin = 3 /\ oSt \in [Streams -> {0, 3}] /\ queued = Zero /\ sentTotal = Zero /\ wroteTotal = Zero
  /\ err \in {"none", "FLOW_CONTROL_on_honest_peer"}

Strengthening ==
  /\ cUnsent >= 0 /\ \A s \in Streams : sUnsent[s] >= 0 /\ buf[s] >= 0
  /\ \A s \in Streams : st[s] \in {"idle", "closed"} => buf[s] = 0
  /\ \A s \in Streams : st[s] = "idle" => (sUnsent[s] = 0 /\ sAvail[s] = 0 /\ peerS[s] = 0 /\ ~bodyClosed[s])

IndInv == /\ TypeOK /\ Strengthening
          /\ Conservation /\ StreamConservation /\ BatchBound /\ PeerLedgerAgrees /\ HonestPeerNeverErrs /\ NonNegativeRecv
IndInit == IndInv

\* the receive side with unbounded frame and read sizes
IndNext == \E s \in Streams :
             \/ Open(s) \/ HandlerCloseBody(s) \/ CloseStream(s)
             \/ \E d \in Nat, p \in Nat, e \in BOOLEAN : PeerData(s, d, p, e)
             \/ \E n \in Nat : HandlerRead(s, n)
=============================================================================
