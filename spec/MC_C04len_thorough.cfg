SPECIFICATION Spec
CONSTANTS
  Bodies = {0, 1, 2, 4, 254, 255, 256, 257, 511, 512, 16383, 16384, 16385, 18431, 18432}
  Trails = {0, 1, 5, 300, 17000}
INVARIANTS GetVar Exact Bounded
CHECK_DEADLOCK FALSE
