SPECIFICATION Spec
CONSTANTS
  Slots = {1, 2, 3}
  Hellos = {"A", "B", "C"}
  MaxConns = 5
INVARIANTS ServedHasOwnData
PROPERTIES RightConnection
CHECK_DEADLOCK FALSE
