------------------------------- MODULE CertReloadK8s -------------------------------
(***************************************************************************)
(* C14, Kubernetes-secret layout: tls.crt -> ..data/tls.crt,                *)
(* ..data -> ..<version dir>.  An update creates a new version directory,   *)
(* atomically swaps the ..data symlink (no inotify event reaches a file      *)
(* watch - measured) and then removes the old directory (REMOVE on the       *)
(* watched inodes, watches dropped; handleEvent re-adds the path, which now  *)
(* resolves into the new directory).                                        *)
(***************************************************************************)
EXTENDS Integers, Sequences, FiniteSets, TLC
CONSTANTS Dirs,          \* version directories that may be created, e.g. {1, 2, 3}; directory 0 is the initial one
          RemoveOld,     \* TRUE: the updater removes the previous directory after the swap (kubelet does)
          Serialized     \* writer steps only at quiescent points
Files == {"crt", "key"}
AllDirs == Dirs \cup {0}
\* inode of file f in directory d is <<d, f>>; content is the version number of the directory or 99 (garbage)

VARIABLES maxUsed, exists,     \* set of directories currently on disk
          good,       \* dir -> TRUE if it holds a valid matching pair, FALSE if garbage/mismatched
          data,       \* directory the ..data symlink points to
          watch,      \* path -> watched inode <<d, f>> or <<-1, f>> (none)
          queue, writerDone, pendingRemove,
          wpc, wev, rc, rk, current
vars == <<maxUsed, exists, good, data, watch, queue, writerDone, pendingRemove, wpc, wev, rc, rk, current>>

Init == /\ maxUsed = 0 /\ exists = {0} /\ good = [d \in AllDirs |-> TRUE] /\ data = 0
        /\ watch = [f \in Files |-> <<0, f>>]
        /\ queue = <<>> /\ writerDone = FALSE /\ pendingRemove = {}
        /\ wpc = "idle" /\ wev = <<"-", "-">> /\ rc = 99 /\ rk = 99 /\ current = 0

Val(d) == IF good[d] THEN d ELSE 99

Calm == ~Serialized \/ (queue = <<>> /\ wpc = "idle")
MkDir(d, ok) == /\ ~writerDone /\ Calm /\ d \notin exists /\ d \in Dirs
                /\ d > maxUsed                                   \* kubelet uses fresh timestamped names
                /\ exists' = exists \cup {d} /\ good' = [good EXCEPT ![d] = ok] /\ maxUsed' = d
                /\ UNCHANGED <<data, watch, queue, writerDone, pendingRemove, wpc, wev, rc, rk, current>>
Swap(d) == /\ ~writerDone /\ Calm /\ d \in exists /\ d # data
           /\ data' = d /\ pendingRemove' = pendingRemove \cup {data}
           /\ UNCHANGED <<maxUsed, exists, good, watch, queue, writerDone, wpc, wev, rc, rk, current>>   \* no inotify event at all (measured)
\* os.RemoveAll(old dir): each file inode is freed -> IN_ATTRIB (filtered) + IN_DELETE_SELF on watched inodes, watch dropped by the kernel
RmDir(d) == /\ Calm /\ d \in pendingRemove /\ d \in exists /\ d # data
            /\ exists' = exists \ {d} /\ pendingRemove' = pendingRemove \ {d}
            /\ LET hit == {f \in Files : watch[f] = <<d, f>>} IN
                 /\ queue' = queue \o (IF "crt" \in hit THEN << <<"REMOVE", "crt">> >> ELSE <<>>)
                                   \o (IF "key" \in hit THEN << <<"REMOVE", "key">> >> ELSE <<>>)
                 /\ watch' = [f \in Files |-> IF f \in hit THEN <<-1, f>> ELSE watch[f]]
            /\ UNCHANGED <<maxUsed, good, data, writerDone, wpc, wev, rc, rk, current>>
WriterStops == /\ ~writerDone /\ (RemoveOld => pendingRemove = {}) /\ writerDone' = TRUE
               /\ UNCHANGED <<maxUsed, exists, good, data, watch, queue, pendingRemove, wpc, wev, rc, rk, current>>

Dequeue == /\ wpc = "idle" /\ queue # <<>> /\ wev' = Head(queue) /\ queue' = Tail(queue) /\ wpc' = "readd"
           /\ UNCHANGED <<maxUsed, exists, good, data, watch, writerDone, pendingRemove, rc, rk, current>>
ReAdd == /\ wpc = "readd" /\ watch' = [watch EXCEPT ![wev[2]] = <<data, wev[2]>>] /\ wpc' = "readCert"
         /\ UNCHANGED <<maxUsed, exists, good, data, queue, writerDone, pendingRemove, wev, rc, rk, current>>
ReadCert == /\ wpc = "readCert" /\ rc' = Val(data) /\ wpc' = "readKey"
            /\ UNCHANGED <<maxUsed, exists, good, data, watch, queue, writerDone, pendingRemove, wev, rk, current>>
ReadKey == /\ wpc = "readKey" /\ rk' = Val(data) /\ wpc' = "swap"
           /\ UNCHANGED <<maxUsed, exists, good, data, watch, queue, writerDone, pendingRemove, wev, rc, current>>
Load == /\ wpc = "swap" /\ current' = (IF rc # 99 /\ rc = rk THEN rc ELSE current) /\ wpc' = "idle"
        /\ UNCHANGED <<maxUsed, exists, good, data, watch, queue, writerDone, pendingRemove, wev, rc, rk>>

Next == WriterStops \/ Dequeue \/ ReAdd \/ ReadCert \/ ReadKey \/ Load
        \/ \E d \in Dirs : (\E ok \in BOOLEAN : MkDir(d, ok)) \/ Swap(d)
        \/ \E e \in AllDirs : RmDir(e)
Spec == Init /\ [][Next]_vars

Quiescent == writerDone /\ queue = <<>> /\ wpc = "idle"
Converges == (Quiescent /\ good[data]) => current = data
KeepsLastGood == current \in AllDirs /\ good[current]
=============================================================================
