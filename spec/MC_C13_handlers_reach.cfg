SPECIFICATION Spec
CONSTANTS AdvMax = 2
  Mult = 4
  MaxStreams = 12
INVARIANTS NotDead
CONSTRAINT FewStarts
CHECK_DEADLOCK FALSE
