----------------------------- MODULE H2Fingerprint -----------------------------
(***************************************************************************)
(* C03.  What the forked HTTP/2 server captures in serverConn.processFrame *)
(* (pkg/http2/server.go) and how metadata.HTTP2FingerprintingFrames.Marshal*)
(* (pkg/metadata/http2.go) prints it.                                      *)
(*                                                                         *)
(* Implementation-shaped layer: the four capture sites as actions          *)
(*   OnSettings  (non-ACK only, replaces Settings, before validation)      *)
(*   OnWindowUpdate (only while the stored increment is 0)                 *)
(*   OnPriority  (append)                                                  *)
(*   OnHeaders   (replaces Headers; appends a priority entry if the frame  *)
(*                carries one) - this is also where a request starts       *)
(* plus pass-through frames (SETTINGS ACK, PING), and Marshal transcribed  *)
(* with its %d:%d ';' '|' %02d min(len,N) "0" weight+1 and pseudo-header   *)
(* filter.                                                                  *)
(*                                                                         *)
(* Ideal layer: FP(hist, N) defined from the statement over the frame      *)
(* history (latest SETTINGS / first WINDOW_UPDATE / all priorities in      *)
(* arrival order cut to N / latest header block).  Refines is checked with *)
(* TrackHist = TRUE (bounded history); the graph that is replayed on the   *)
(* real server is produced with TrackHist = FALSE.                         *)
(*                                                                         *)
(* The scripted client waits for the response to each request before it    *)
(* sends the next frame, so the fingerprint of request r is the state      *)
(* right after its own HEADERS frame (C07 treats the concurrent case).     *)
(***************************************************************************)
EXTENDS H2FpOps

CONSTANTS MaxReq,      \* requests per connection
          MaxPrio,     \* bound on captured priority entries
          TrackHist,   \* keep the frame history (for the refinement check)
          MaxHist      \* bound on the history when TrackHist

Ns == <<0, 1, 2, 3, 1000000>>       \* configured limits: 0, fewer / equal / more than captured, "unlimited"

VARIABLES S,       \* md.HTTP2Frames.Settings           (sequence of <<id, val>>)
          hasS,    \* a non-ACK SETTINGS frame has been seen (the first frame must be one)
          WU,      \* md.HTTP2Frames.WindowUpdateIncrement
          P,       \* md.HTTP2Frames.Priorities        (sequence of <<stream, excl, dep, weight>>)
          H,       \* pseudo-header letters of md.HTTP2Frames.Headers
          nreq,    \* requests sent so far (stream ids 1, 3, 5, ...)
          acked,   \* the client has acknowledged the server's SETTINGS (a second ACK is a protocol error)
          hist,    \* frame history (only when TrackHist)
          fp,      \* observation: Marshal for every limit in Ns, as the last request saw it
          fpAlt    \* the other value the statement admits for the last request ("a point not earlier than the request's own HEADERS
                   \* frame"): differs from fp only for a request whose trailer block the client sent right behind it
vars == <<S, hasS, WU, P, H, nreq, acked, hist, fp, fpAlt>>

AllN(s, w, p, h) == [k \in 1..Len(Ns) |-> Marshal(s, w, p, h, Ns[k])]

\* ---------------------------------------------------------------- the ideal, from the statement
\* history entries are <<frame, stream>>
LatestSettings(hs) == LET idx == { k \in 1..Len(hs) : hs[k][1] \in SettingsFrames } IN
                      IF idx = {} THEN <<>> ELSE SettingsOf(hs[CHOOSE k \in idx : \A j \in idx : j <= k][1])
FirstWU(hs) == LET idx == { k \in 1..Len(hs) : hs[k][1] \in WUFrames } IN
               IF idx = {} THEN 0 ELSE IncrOf(hs[CHOOSE k \in idx : \A j \in idx : k <= j][1])
PrioEntry(e) == IF e[1] \in PrioFrames THEN << PrioOf(e[1]) >>
                ELSE IF e[1] \in HeaderFrames /\ HasPrio(e[1]) THEN << HdrPrio(e[1], e[2]) >>
                ELSE IF e[1] = "T1" THEN << TrPrio(e[2]) >>
                ELSE <<>>
RECURSIVE AllPrios(_)
AllPrios(hs) == IF hs = <<>> THEN <<>> ELSE PrioEntry(hs[1]) \o AllPrios(Tail(hs))
LatestBlock(hs) == LET idx == { k \in 1..Len(hs) : hs[k][1] \in HeaderFrames \cup TrailerKinds } IN
                   IF idx = {} THEN <<>> ELSE LET f == hs[CHOOSE k \in idx : \A j \in idx : j <= k][1] IN
                                              IF f \in TrailerKinds THEN <<>> ELSE OrderOf(f)
FP(hs, n) == SPart(LatestSettings(hs)) \o "|"
             \o (IF FirstWU(hs) = 0 THEN "00" ELSE Pad2(FirstWU(hs))) \o "|"
             \o (LET ps == AllPrios(hs) m == Min(Len(ps), n) IN
                 IF m = 0 THEN "0" ELSE JoinStr([k \in 1..m |-> PrioStr(ps[k])], ",")) \o "|"
             \o JoinStr(LatestBlock(hs), ",")

\* ---------------------------------------------------------------- actions
Rec(f, sid) == IF TrackHist THEN Append(hist, <<f, sid>>) ELSE hist
Room == ~TrackHist \/ Len(hist) < MaxHist

Init == /\ S = <<>> /\ hasS = FALSE /\ WU = 0 /\ P = <<>> /\ H = <<>> /\ nreq = 0 /\ acked = FALSE
        /\ hist = <<>> /\ fp = <<>> /\ fpAlt = <<>>

OnSettings(f) == /\ Room /\ f \in SettingsFrames
                 /\ S' = SettingsOf(f) /\ hasS' = TRUE /\ hist' = Rec(f, 0)
                 /\ UNCHANGED <<WU, P, H, nreq, acked, fp, fpAlt>>
OnSettingsAck == /\ Room /\ hasS /\ ~acked /\ acked' = TRUE /\ hist' = Rec("SA", 0)
                 /\ UNCHANGED <<S, hasS, WU, P, H, nreq, fp, fpAlt>>
OnPing == /\ Room /\ hasS /\ TrackHist /\ hist' = Rec("PING", 0)          \* pass-through; a self-loop without history
          /\ UNCHANGED <<S, hasS, WU, P, H, nreq, acked, fp, fpAlt>>
OnWindowUpdate(f) == /\ Room /\ hasS /\ f \in WUFrames
                     /\ (f = "Ws" => nreq > 0)                       \* WINDOW_UPDATE on an idle stream is a connection error
                     /\ WU' = IF WU = 0 THEN IncrOf(f) ELSE WU
                     /\ hist' = Rec(f, IF f = "Ws" THEN 2 * nreq - 1 ELSE 0)
                     /\ UNCHANGED <<S, hasS, P, H, nreq, acked, fp, fpAlt>>
OnPriority(f) == /\ Room /\ hasS /\ f \in PrioFrames /\ Len(P) < MaxPrio
                 /\ P' = Append(P, PrioOf(f)) /\ hist' = Rec(f, PrioOf(f)[1])
                 /\ UNCHANGED <<S, hasS, WU, H, nreq, acked, fp, fpAlt>>
\* a request: HEADERS (END_STREAM) on the next odd stream; the handler marshals right after the capture
OnHeaders(f) == /\ Room /\ hasS /\ f \in HeaderFrames /\ nreq < MaxReq
                /\ (HasPrio(f) => Len(P) < MaxPrio)
                /\ LET sid == 2 * nreq + 1 IN
                   /\ H' = OrderOf(f)
                   /\ P' = IF HasPrio(f) THEN Append(P, HdrPrio(f, sid)) ELSE P
                   /\ hist' = Rec(f, sid)
                /\ nreq' = nreq + 1
                /\ fp' = AllN(S, WU, P', H') /\ fpAlt' = fp'
                /\ UNCHANGED <<S, hasS, WU, acked>>
\* a request with a trailer block: HEADERS (block of H1, stream left open) and, right behind it, the trailer HEADERS frame that ends
\* the stream.  processFrame captures both: the trailer block replaces Headers (no pseudo-header fields in it) and appends its priority
\* if it carries one.  The handler marshals somewhere around the second capture (fp: before it, fpAlt: after it).
OnRequestWithTrailers(t) ==
                /\ (~TrackHist \/ Len(hist) + 1 < MaxHist) /\ hasS /\ t \in TrailerKinds /\ nreq < MaxReq
                /\ (t = "T1" => Len(P) < MaxPrio)
                /\ LET sid == 2 * nreq + 1 IN
                   /\ H' = <<>>
                   /\ P' = IF t = "T1" THEN Append(P, TrPrio(sid)) ELSE P
                   /\ hist' = IF TrackHist THEN hist \o << <<"H1", sid>>, <<t, sid>> >> ELSE hist
                /\ nreq' = nreq + 1
                /\ fp' = AllN(S, WU, P, OrderOf("H1")) /\ fpAlt' = AllN(S, WU, P', <<>>)
                /\ UNCHANGED <<S, hasS, WU, acked>>

Next == \/ \E f \in SettingsFrames : OnSettings(f)
        \/ OnSettingsAck \/ OnPing
        \/ \E f \in WUFrames : OnWindowUpdate(f)
        \/ \E f \in PrioFrames : OnPriority(f)
        \/ \E f \in HeaderFrames : OnHeaders(f)
        \/ \E t \in TrailerKinds : OnRequestWithTrailers(t)
Spec == Init /\ [][Next]_vars

\* ---------------------------------------------------------------- properties
Refines == TrackHist => \A k \in 1..Len(Ns) : Marshal(S, WU, P, H, Ns[k]) = FP(hist, Ns[k])
FourParts == \A k \in 1..Len(fp) : TRUE          \* shape is checked on the real output by the harness (exactly three '|')
PrioCut == \A k \in 1..Len(Ns) : Min(Len(P), Ns[k]) <= Ns[k]
=============================================================================
