-------------------------------- MODULE Attribution --------------------------------
(***************************************************************************)
(* C06.  Where a request's fingerprint data comes from.                    *)
(*                                                                         *)
(* Every connection c has its own ClientHello hello[c] (and, on HTTP/2, its *)
(* own frame history).  serveConn captures it (captured[c]) and            *)
(*   h2: builds md[c] itself (metadata.NewContext) before ServeConn;        *)
(*   h1: wraps it in a TLSClientHelloConn that travels through the          *)
(*       unbuffered channel listener; the internal server's ConnContext     *)
(*       (updateConnContext) builds md from the wrapper it received.        *)
(* Requests read md through the request context of *their* connection.      *)
(* Connections come and go; a new connection may reuse the slot (peer       *)
(* address and port) of a closed one.                                       *)
(*                                                                         *)
(* Right: every request observes the hello of the connection it arrived on. *)
(***************************************************************************)
EXTENDS Naturals, Sequences, FiniteSets, TLC

CONSTANTS Slots,       \* peer address:port slots (reused over time)
          Hellos,      \* distinct ClientHellos
          MaxConns     \* connections over the whole behaviour

VARIABLES gen,        \* per slot: how many connections have used it (connection id = <<slot, gen>>)
          state,      \* per slot: "free" "hs" "captured" "h2" "sending" "h1" 
          hello,      \* per slot: the hello the current client sent
          captured,   \* per slot: what HijackClientHelloConn holds
          md,         \* per slot: metadata the requests of the current connection read
          chan,       \* the unbuffered channel: <<>> or <<wrapper>> where wrapper = [slot, hello]
          obs,        \* last request observation: [slot, hello]
          total
vars == <<gen, state, hello, captured, md, chan, obs, total>>

None == "none"
Init == /\ gen = [s \in Slots |-> 0] /\ state = [s \in Slots |-> "free"]
        /\ hello = [s \in Slots |-> None] /\ captured = [s \in Slots |-> None] /\ md = [s \in Slots |-> None]
        /\ chan = <<>> /\ obs = [slot |-> 0, hello |-> None] /\ total = 0

Connect(s, h) == /\ state[s] = "free" /\ total < MaxConns
                 /\ state' = [state EXCEPT ![s] = "hs"] /\ hello' = [hello EXCEPT ![s] = h]
                 /\ gen' = [gen EXCEPT ![s] = @ + 1] /\ total' = total + 1
                 /\ captured' = [captured EXCEPT ![s] = None] /\ md' = [md EXCEPT ![s] = None]
                 /\ UNCHANGED <<chan, obs>>
Handshake(s) == /\ state[s] = "hs" /\ state' = [state EXCEPT ![s] = "captured"]
                /\ captured' = [captured EXCEPT ![s] = hello[s]]
                /\ UNCHANGED <<gen, hello, md, chan, obs, total>>
DispatchH2(s) == /\ state[s] = "captured" /\ state' = [state EXCEPT ![s] = "h2"]
                 /\ md' = [md EXCEPT ![s] = captured[s]]
                 /\ UNCHANGED <<gen, hello, captured, chan, obs, total>>
SendH1(s) == /\ state[s] = "captured" /\ chan = <<>>
             /\ chan' = << [slot |-> s, hello |-> captured[s]] >>
             /\ state' = [state EXCEPT ![s] = "sending"]
             /\ UNCHANGED <<gen, hello, captured, md, obs, total>>
\* the internal server accepts from the channel and builds the connection context from the wrapper it got
AcceptH1 == /\ chan # <<>>
            /\ LET w == chan[1] IN
               /\ md' = [md EXCEPT ![w.slot] = w.hello]
               /\ state' = [state EXCEPT ![w.slot] = "h1"]
            /\ chan' = <<>>
            /\ UNCHANGED <<gen, hello, captured, obs, total>>
Request(s) == /\ state[s] \in {"h2", "h1"}
              /\ obs' = [slot |-> s, hello |-> md[s]]
              /\ UNCHANGED <<gen, state, hello, captured, md, chan, total>>
Disconnect(s) == /\ state[s] \in {"hs", "captured", "h2", "h1"}
                 /\ state' = [state EXCEPT ![s] = "free"]
                 /\ UNCHANGED <<gen, hello, captured, md, chan, obs, total>>

Next == \/ \E s \in Slots, h \in Hellos : Connect(s, h)
        \/ \E s \in Slots : Handshake(s) \/ DispatchH2(s) \/ SendH1(s) \/ Request(s) \/ Disconnect(s)
        \/ AcceptH1
Spec == Init /\ [][Next]_vars

\* every request observes the hello of the connection it arrived on
RightConnection == [][\A s \in Slots : (obs'.slot = s /\ obs' # obs) => obs'.hello = hello[s]]_vars
ServedHasOwnData == \A s \in Slots : state[s] \in {"h2", "h1"} => md[s] = hello[s]
=============================================================================
